package main

import (
	"go/ast"
	"go/constant"
	"go/token"
	"go/types"

	"golang.org/x/tools/go/packages"
)

// initTable evaluates a package-level table that is not a composite literal
// but is filled in an init function by ranging over a literal slice of
// structs:
//
//	for _, e := range rows { T[e.k] = e.v }                  (one value per key)
//	for _, e := range rows { T[e.k] = append(T[e.k], e.v) }   (a list per key)
//
// It returns, per constant key (rendered with ExactString), the value
// expressions in row order, and the position of the loop. Anything else is
// not understood and yields nil (the caller then reports an anchor failure).
func initTable(pk *packages.Package, name string) (map[string][]ast.Expr, token.Pos) {
	info := pk.TypesInfo
	// literal rows of package-level slices of structs
	rowsOf := func(varName string) ([]*ast.CompositeLit, *types.Struct) {
		for _, f := range pk.Syntax {
			for _, d := range f.Decls {
				gd, ok := d.(*ast.GenDecl)
				if !ok || gd.Tok != token.VAR {
					continue
				}
				for _, sp := range gd.Specs {
					vs := sp.(*ast.ValueSpec)
					for i, id := range vs.Names {
						if id.Name != varName || i >= len(vs.Values) {
							continue
						}
						cl, ok := vs.Values[i].(*ast.CompositeLit)
						if !ok {
							continue
						}
						t := info.TypeOf(cl)
						var elem types.Type
						switch u := t.Underlying().(type) {
						case *types.Slice:
							elem = u.Elem()
						case *types.Array:
							elem = u.Elem()
						}
						if elem == nil {
							continue
						}
						st, ok := elem.Underlying().(*types.Struct)
						if !ok {
							continue
						}
						var rows []*ast.CompositeLit
						for _, el := range cl.Elts {
							if r, ok := el.(*ast.CompositeLit); ok {
								rows = append(rows, r)
							}
						}
						return rows, st
					}
				}
			}
		}
		return nil, nil
	}
	fieldExpr := func(row *ast.CompositeLit, st *types.Struct, field string) ast.Expr {
		for i, el := range row.Elts {
			if kv, ok := el.(*ast.KeyValueExpr); ok {
				if id, ok := kv.Key.(*ast.Ident); ok && id.Name == field {
					return kv.Value
				}
				continue
			}
			if i < st.NumFields() && st.Field(i).Name() == field {
				return el
			}
		}
		return nil
	}
	var out map[string][]ast.Expr
	var pos token.Pos
	for _, f := range pk.Syntax {
		for _, d := range f.Decls {
			fd, ok := d.(*ast.FuncDecl)
			if !ok || fd.Name.Name != "init" || fd.Recv != nil || fd.Body == nil {
				continue
			}
			ast.Inspect(fd.Body, func(n ast.Node) bool {
				rs, ok := n.(*ast.RangeStmt)
				if !ok {
					return true
				}
				src, ok := rs.X.(*ast.Ident)
				if !ok {
					return true
				}
				ev, ok := rs.Value.(*ast.Ident)
				if !ok {
					return true
				}
				rows, st := rowsOf(src.Name)
				if rows == nil {
					return true
				}
				for _, stmt := range rs.Body.List {
					as, ok := stmt.(*ast.AssignStmt)
					if !ok || len(as.Lhs) != 1 || len(as.Rhs) != 1 {
						continue
					}
					ix, ok := as.Lhs[0].(*ast.IndexExpr)
					if !ok {
						continue
					}
					tid, ok := ix.X.(*ast.Ident)
					if !ok || tid.Name != name {
						continue
					}
					ksel, ok := ix.Index.(*ast.SelectorExpr)
					if !ok {
						continue
					}
					if kid, ok := ksel.X.(*ast.Ident); !ok || kid.Name != ev.Name {
						continue
					}
					// value: e.v  or append(T[e.k], e.v)
					var vsel *ast.SelectorExpr
					switch r := as.Rhs[0].(type) {
					case *ast.SelectorExpr:
						vsel = r
					case *ast.CallExpr:
						if fn, ok := r.Fun.(*ast.Ident); ok && fn.Name == "append" && len(r.Args) == 2 {
							vsel, _ = r.Args[1].(*ast.SelectorExpr)
						}
					}
					if vsel == nil {
						continue
					}
					if vid, ok := vsel.X.(*ast.Ident); !ok || vid.Name != ev.Name {
						continue
					}
					if out == nil {
						out = map[string][]ast.Expr{}
					}
					pos = rs.Pos()
					for _, row := range rows {
						ke := fieldExpr(row, st, ksel.Sel.Name)
						ve := fieldExpr(row, st, vsel.Sel.Name)
						if ke == nil || ve == nil {
							continue
						}
						tv := info.Types[ke]
						if tv.Value == nil {
							continue
						}
						k := tv.Value.ExactString()
						if tv.Value.Kind() == constant.String {
							k = constant.StringVal(tv.Value)
						}
						out[k] = append(out[k], ve)
					}
				}
				return true
			})
		}
	}
	return out, pos
}
