package main

// Rules added in the eighth seeding round.

import (
	"fmt"
	"go/ast"
	"go/constant"
	"go/token"
	"go/types"
	"math"
	"math/big"
	"sort"
	"strings"

	"golang.org/x/tools/go/ast/astutil"
	"golang.org/x/tools/go/ssa"
)

// ---------- mayWriteParam: does a function write through one of its pointer parameters? ----------

var mayWriteMemo = map[*ssa.Function]map[int]int{} // 0 unknown, 1 in progress, 2 no, 3 yes

// mayWriteParam reports whether fn can write to the storage its i-th parameter designates: a store
// through an address computed from it (fields, elements, pointers and slices loaded out of it - the
// object is taken to own what it refers to), a map update, an append/copy into it, or a static call
// that hands a derived address to a callee that writes. Dynamic calls are not followed (an interface
// or function value given the pointer is assumed to read only); functions of sync and sync/atomic
// synchronise and do not count.
func mayWriteParam(fn *ssa.Function, i int, depth int) bool {
	if fn == nil || i >= len(fn.Params) {
		return false
	}
	if len(fn.Blocks) == 0 {
		// no body (assembly): by the universal convention of such kernels (addVV(z, x, y), memmove(to, from))
		// the destination comes first
		return i == 0
	}
	pp := fnPkgPath(fn)
	if pp == "sync" || pp == "sync/atomic" || pp == "internal/race" || pp == "runtime" {
		return false
	}
	if mayWriteMemo[fn] == nil {
		mayWriteMemo[fn] = map[int]int{}
	}
	switch mayWriteMemo[fn][i] {
	case 1, 2:
		return false
	case 3:
		return true
	}
	if depth > 12 {
		return false
	}
	mayWriteMemo[fn][i] = 1
	d := map[ssa.Value]bool{fn.Params[i]: true}
	for changed := true; changed; {
		changed = false
		eachInstr(fn, func(in ssa.Instruction) {
			v, ok := in.(ssa.Value)
			if !ok || d[v] {
				return
			}
			add := false
			switch x := in.(type) {
			case *ssa.FieldAddr:
				add = d[x.X]
			case *ssa.IndexAddr:
				add = d[x.X]
			case *ssa.Slice:
				add = d[x.X]
			case *ssa.ChangeType:
				add = d[x.X]
			case *ssa.Convert:
				add = d[x.X]
			case *ssa.Phi:
				for _, e := range x.Edges {
					if d[e] {
						add = true
					}
				}
			case *ssa.UnOp:
				if x.Op == token.MUL && d[x.X] {
					switch x.Type().Underlying().(type) {
					case *types.Pointer, *types.Slice, *types.Map:
						add = true
					}
				}
			case *ssa.Field:
				if d[x.X] {
					switch x.Type().Underlying().(type) {
					case *types.Pointer, *types.Slice, *types.Map:
						add = true
					}
				}
			}
			if add {
				d[v] = true
				changed = true
			}
		})
	}
	res := false
	eachInstr(fn, func(in ssa.Instruction) {
		if res {
			return
		}
		switch x := in.(type) {
		case *ssa.Store:
			if d[x.Addr] {
				res = true
			}
		case *ssa.MapUpdate:
			if d[x.Map] {
				res = true
			}
		case ssa.CallInstruction:
			cc := x.Common()
			if b, ok := cc.Value.(*ssa.Builtin); ok {
				switch b.Name() {
				case "append", "copy", "clear", "delete":
					if len(cc.Args) > 0 && d[cc.Args[0]] {
						res = true
					}
				}
				return
			}
			cal := cc.StaticCallee()
			if cal == nil {
				return
			}
			for j, a := range cc.Args {
				if d[a] && mayWriteParam(cal, j, depth+1) {
					res = true
				}
			}
		}
	})
	if res {
		mayWriteMemo[fn][i] = 3
	} else {
		mayWriteMemo[fn][i] = 2
	}
	return res
}

// ---------- W11: objects reached through package-level pointers are not scratch space ----------

func init() {
	register("W11", "a package-level pointer is not a scratch object: outside package initialisation, no pointer loaded from a package-level variable of the module (or an address computed from it) is handed to a statically known function or method that writes through it - a hasher, buffer, big.Int or encoder kept in a global and reset on every use is one object for all threads, so concurrent executions corrupt each other's state (a key's hash changes between two lookups); synchronisation primitives are exempt", 0, ruleW11)
	claim("C03", "W11")
	claim("C05", "W11")
	claim("C11", "W11")
}

// ptrFromGlobal: v is a pointer (or an address derived from one) that was loaded from a package-level
// variable of the module.
func ptrFromGlobal(v ssa.Value) *ssa.Global {
	for i := 0; i < 20; i++ {
		switch x := v.(type) {
		case *ssa.UnOp:
			if x.Op != token.MUL {
				return nil
			}
			if g, ok := x.X.(*ssa.Global); ok {
				if _, isPtr := x.Type().Underlying().(*types.Pointer); isPtr && g.Pkg != nil && strings.HasPrefix(g.Pkg.Pkg.Path(), modPath) {
					return g
				}
				return nil
			}
			// a pointer loaded from a field of the object
			if _, isPtr := x.Type().Underlying().(*types.Pointer); !isPtr {
				return nil
			}
			v = x.X
		case *ssa.FieldAddr:
			v = x.X
		case *ssa.IndexAddr:
			v = x.X
		case *ssa.ChangeType:
			v = x.X
		default:
			return nil
		}
	}
	return nil
}

func ruleW11(c *Ctx) {
	n := 0
	for _, fn := range c.P.Funcs {
		if !isProdPkg(fnPkgPath(fn)) {
			continue
		}
		top := outermost(fn)
		if top.Name() == "init" || strings.HasPrefix(top.Name(), "init#") {
			continue
		}
		ord := map[string]int{}
		eachInstr(fn, func(in ssa.Instruction) {
			ci, ok := in.(ssa.CallInstruction)
			if !ok {
				return
			}
			cc := ci.Common()
			cal := cc.StaticCallee()
			if cal == nil {
				return
			}
			for ai, a := range cc.Args {
				pt, ok := a.Type().Underlying().(*types.Pointer)
				if !ok {
					continue
				}
				switch pt.Elem().Underlying().(type) {
				case *types.Struct, *types.Array:
				default:
					continue
				}
				g := ptrFromGlobal(a)
				if g == nil {
					continue
				}
				n++
				kb := fmt.Sprintf("%s: *%s.%s passed to %s", fnName(fn), relPkg(g.Pkg.Pkg.Path()), g.Name(), calleeName(ci))
				ord[kb]++
				key := kb
				if ord[kb] > 1 {
					key = fmt.Sprintf("%s #%d", kb, ord[kb])
				}
				pos := c.P.Pos(in.Pos())
				if pp, tn := namedOf(pt.Elem()); pp == "sync" || pp == "sync/atomic" {
					c.ok(key, pos, "synchronisation primitive "+pp+"."+tn)
					continue
				}
				if r, ok := w3Exceptions[fnName(top)]; ok {
					c.except(key, pos, r)
					continue
				}
				if !mayWriteParam(cal, ai, 0) {
					c.ok(key, pos, "the callee does not write through this pointer")
					continue
				}
				c.viol(key, pos, fmt.Sprintf("%s writes through the pointer kept in the package-level variable %s: the object is shared by every thread and every execution, so concurrent calls corrupt each other's state", calleeName(ci), g.Name()))
			}
		})
	}
	c.note("%d pointers loaded from package-level variables and passed to statically known callees", n)
}

// ---------- W12: a built-in's implementation has no state of its own ----------

func init() {
	register("W12", "a built-in's implementation keeps no state between calls: a function literal that outlives the function creating it by becoming (part of) a value that is returned or stored - the implementation handed to NewBuiltin, a method value, a callback kept in a struct - neither assigns to a variable of the enclosing function nor lets the address of one escape (to an unpacker, say); such a variable exists once per built-in, not once per call, so two threads calling math.pow at the same time would compute with each other's operands. A literal that is only called, deferred or passed to a function that returns nothing that could hold it (sort.Slice) is a local helper and may share variables with its creator", 0, ruleW12)
	claim("C03", "W12")
	claim("C05", "W12")
}

// typeHoldsRefs: can a value of this type carry a function value or a pointer?
func typeHoldsRefs(t types.Type) bool {
	switch u := t.Underlying().(type) {
	case *types.Basic:
		return false
	case *types.Tuple:
		for i := 0; i < u.Len(); i++ {
			if typeHoldsRefs(u.At(i).Type()) {
				return true
			}
		}
		return false
	}
	return true
}

// closureOutlives: does the closure value created by mc flow into something that survives the
// activation of its creator - a returned value, a store into memory that is not a local aggregate, or
// the result of a call it was passed to (taken to embed it when the result type can hold references)?
func closureOutlives(mc *ssa.MakeClosure) (bool, string) {
	carry := map[ssa.Value]bool{mc: true}
	work := []ssa.Value{mc}
	add := func(v ssa.Value) {
		if v != nil && !carry[v] {
			carry[v] = true
			work = append(work, v)
		}
	}
	localRoot := func(addr ssa.Value) (*ssa.Alloc, bool) {
		for i := 0; i < 12; i++ {
			switch x := addr.(type) {
			case *ssa.Alloc:
				return x, true
			case *ssa.FieldAddr:
				addr = x.X
			case *ssa.IndexAddr:
				addr = x.X
			default:
				return nil, false
			}
		}
		return nil, false
	}
	for len(work) > 0 {
		v := work[0]
		work = work[1:]
		refs := v.Referrers()
		if refs == nil {
			continue
		}
		for _, r := range *refs {
			switch x := r.(type) {
			case *ssa.Return:
				return true, "returned"
			case *ssa.Store:
				if x.Val != v {
					continue
				}
				if al, ok := localRoot(x.Addr); ok {
					add(al)
				} else {
					return true, "stored outside the function's own variables"
				}
			case *ssa.MapUpdate:
				if x.Value == v || x.Key == v {
					add(x.Map)
				}
			case *ssa.MakeInterface:
				add(x)
			case *ssa.ChangeType:
				add(x)
			case *ssa.ChangeInterface:
				add(x)
			case *ssa.Phi:
				add(x)
			case *ssa.Extract:
				if typeHoldsRefs(x.Type()) {
					add(x)
				}
			case *ssa.UnOp:
				if x.Op == token.MUL && typeHoldsRefs(x.Type()) {
					add(x)
				}
			case *ssa.FieldAddr, *ssa.IndexAddr:
				// an address inside a carrying local aggregate: loads from it may carry
				add(x.(ssa.Value))
			case *ssa.MakeClosure:
				// the carrier is captured by another closure
				add(x)
			case *ssa.Slice:
				add(x)
			case ssa.CallInstruction:
				cc := x.Common()
				isArg := false
				for _, a := range cc.Args {
					if a == v {
						isArg = true
					}
				}
				if !isArg {
					continue // only called
				}
				if _, isGo := x.(*ssa.Go); isGo {
					continue
				}
				if cv, ok := x.(*ssa.Call); ok && typeHoldsRefs(cv.Type()) {
					if cv.Type().String() != "error" {
						add(cv)
					}
				}
			}
		}
	}
	return false, ""
}

// freeVarWritten: inside closure g, is the captured variable #i assigned, or does its address escape?
func freeVarWritten(g *ssa.Function, i int, depth int) (bool, string, token.Pos) {
	if depth > 4 || i >= len(g.FreeVars) {
		return false, "", token.NoPos
	}
	var visit func(v ssa.Value, d int) (bool, string, token.Pos)
	visit = func(v ssa.Value, d int) (bool, string, token.Pos) {
		refs := v.Referrers()
		if refs == nil || d > 6 {
			return false, "", token.NoPos
		}
		for _, r := range *refs {
			switch x := r.(type) {
			case *ssa.Store:
				if x.Addr == v {
					return true, "assigned", x.Pos()
				}
				return true, "its address is stored", x.Pos()
			case *ssa.UnOp, *ssa.DebugRef:
			case *ssa.FieldAddr:
				if w, how, p := visit(x, d+1); w {
					return w, how, p
				}
			case *ssa.IndexAddr:
				if w, how, p := visit(x, d+1); w {
					return w, how, p
				}
			case *ssa.MakeClosure:
				for bi, b := range x.Bindings {
					if b == v {
						if w, how, p := freeVarWritten(x.Fn.(*ssa.Function), bi, depth+1); w {
							return w, how, p
						}
					}
				}
			case ssa.CallInstruction:
				cc := x.Common()
				if cc.Value == v {
					continue
				}
				cal := cc.StaticCallee()
				for ai, a := range cc.Args {
					if a != v {
						continue
					}
					if cal != nil && !mayWriteParam(cal, ai, 0) {
						continue
					}
					return true, "its address is passed to " + calleeName(x), x.Pos()
				}
			default:
				return true, fmt.Sprintf("its address escapes (%T)", r), r.Pos()
			}
		}
		return false, "", token.NoPos
	}
	return visit(g.FreeVars[i], 0)
}

func ruleW12(c *Ctx) {
	n, long := 0, 0
	for _, fn := range c.P.Funcs {
		if !isProdPkg(fnPkgPath(fn)) {
			continue
		}
		ord := map[string]int{}
		eachInstr(fn, func(in ssa.Instruction) {
			mc, ok := in.(*ssa.MakeClosure)
			if !ok || len(mc.Bindings) == 0 {
				return
			}
			n++
			out, how := closureOutlives(mc)
			if !out {
				return
			}
			long++
			g := mc.Fn.(*ssa.Function)
			for bi := range mc.Bindings {
				if _, isVar := mc.Bindings[bi].(*ssa.Alloc); !isVar {
					// a captured value (the receiver of a method value, say), not a variable of the creator
					continue
				}
				w, what, at := freeVarWritten(g, bi, 0)
				key := fmt.Sprintf("%s: function literal #%d, captured variable #%d", fnName(fn), ord["mc"]+1, bi+1)
				pos := c.P.Pos(mc.Pos())
				if !w {
					c.ok(key, pos, "read only inside the literal")
					continue
				}
				if r, ok := w3Exceptions[fnName(outermost(fn))]; ok {
					c.except(key, pos, r)
					continue
				}
				if r, ok := w12Exceptions[fnName(outermost(fn))+": "+g.FreeVars[bi].Name()]; ok {
					c.except(key, pos, r)
					continue
				}
				if at == token.NoPos {
					at = mc.Pos()
				}
				c.viol(key, c.P.Pos(at), fmt.Sprintf("the function literal is %s, so it outlives this call, and inside it the enclosing function's variable %q is written (%s): the variable exists once per created function, not once per call, so concurrent or re-entrant calls share it", how, g.FreeVars[bi].Name(), what))
			}
			ord["mc"]++
		})
	}
	c.note("%d function literals with captured variables, %d of them outlive their creator", n, long)
}

var w12Exceptions = map[string]string{}

// ---------- S9: no loop goes round again with an error pending ----------

func init() {
	register("S9", "the interpreter stops at the first error: in every function of the module, (1) an error variable that is live around a loop (a phi of type error at the loop header) receives on every back edge either its own previous value, nil, or a value that a test on that very edge shows to be nil; (2) an error produced by a call inside a loop and kept in a variable is tested nil on every way back to the loop header; (3) no error result is assigned to a named variable that nothing reads (the blank identifier is a deliberate drop and is not counted) - an instruction arm that assigns the error of a helper (flattening **kwargs, say) and then falls through to the next instruction would execute the call with half-bound arguments and report the error only when the function returns, or never", 1, ruleS9)
	claim("C08", "S9")
	claim("C02", "S9")
	claim("C07", "S9")
}

func ruleS9(c *Ctx) {
	n := 0
	for _, fn := range c.P.Funcs {
		if !isProdPkg(fnPkgPath(fn)) {
			continue
		}
		loops := naturalLoops(fn)
		if len(loops) == 0 {
			continue
		}
		// (1) an error variable that is live around a loop
		for _, b := range fn.Blocks {
			for _, in := range b.Instrs {
				phi, ok := in.(*ssa.Phi)
				if !ok {
					break
				}
				if phi.Type().String() != "error" || loops[b] == nil {
					continue
				}
				n++
				key := fmt.Sprintf("%s: error variable %s around the loop", fnName(fn), phi.Comment)
				bad := ""
				var at token.Pos
				for i, e := range phi.Edges {
					p := b.Preds[i]
					if !b.Dominates(p) || e == ssa.Value(phi) || isNilConst(e) {
						continue
					}
					if s9KnownNil(e, p, b, map[ssa.Value]bool{}) {
						continue
					}
					bad = e.Name()
					at = e.Pos()
					if at == token.NoPos && len(p.Instrs) > 0 {
						at = p.Instrs[len(p.Instrs)-1].Pos()
					}
				}
				if bad == "" {
					c.ok(key, c.P.Pos(phi.Pos()), "every back edge carries the previous value, nil, or a value tested nil on that edge")
				} else {
					c.viol(key, c.P.Pos(at), "the loop can go round again with an error pending ("+bad+" is not tested on the way back to the loop header): the following instructions run as if the failed step had succeeded")
				}
			}
		}
		// (2) an error produced inside a loop and kept in a variable that outlives the iteration (it
		// reaches a phi or a return): the loop does not go round again without having tested it. This is
		// the same obligation when the variable is re-assigned at the top of every iteration (`if err =
		// thread.countStep(); err != nil`) and so is not live around the loop.
		ord := 0
		for _, b := range fn.Blocks {
			// the innermost loop containing b
			var h *ssa.BasicBlock
			for hh, l := range loops {
				if l[b] && (h == nil || len(l) < len(loops[h])) {
					h = hh
				}
			}
			if h == nil {
				continue
			}
			loop := loops[h]
			for _, in := range b.Instrs {
				v, ok := in.(ssa.Value)
				if !ok || v.Type().String() != "error" {
					continue
				}
				switch x := in.(type) {
				case *ssa.Call:
				case *ssa.Extract:
					if _, isCall := x.Tuple.(*ssa.Call); !isCall {
						continue
					}
				default:
					continue
				}
				// only errors that are kept: they flow into a phi (a variable assigned on several
				// paths) or are stored
				kept := false
				if refs := v.Referrers(); refs != nil {
					for _, r := range *refs {
						switch r.(type) {
						case *ssa.Phi, *ssa.Store:
							kept = true
						}
					}
				}
				if !kept {
					continue
				}
				n++
				ord++
				bad := false
				for _, p := range h.Preds {
					if !loop[p] || !(b == p || b.Dominates(p)) {
						continue
					}
					if !s9KnownNil(v, p, h, map[ssa.Value]bool{}) {
						bad = true
					}
				}
				key := fmt.Sprintf("%s: error kept in a variable inside a loop #%d", fnName(fn), ord)
				if bad {
					c.viol(key, c.P.Pos(in.Pos()), "an error assigned to a variable inside the loop is not tested before the loop goes round again: the next iteration runs as if the failed step had succeeded (and may overwrite the error)")
				} else {
					c.ok(key, c.P.Pos(in.Pos()), "tested nil on every way back to the loop header")
				}
			}
		}
	}
	// (3) an error assigned to a variable and never looked at again: `x, err = f()` where nothing reads
	// err before it is overwritten (the blank identifier produces no value at all, so deliberate drops
	// are not counted)
	for _, fn := range c.P.Funcs {
		if !isProdPkg(fnPkgPath(fn)) {
			continue
		}
		ord := 0
		eachInstr(fn, func(in ssa.Instruction) {
			ex, ok := in.(*ssa.Extract)
			if !ok || ex.Type().String() != "error" {
				return
			}
			if _, isCall := ex.Tuple.(*ssa.Call); !isCall {
				return
			}
			used := false
			if refs := ex.Referrers(); refs != nil {
				for _, r := range *refs {
					if _, dbg := r.(*ssa.DebugRef); !dbg {
						used = true
					}
				}
			}
			if used {
				return
			}
			// the blank identifier also produces an (unused) extract: look at the assignment's syntax
			if lhsIsBlank(c.P, ex) {
				return
			}
			n++
			ord++
			key := fmt.Sprintf("%s: error result assigned and never read #%d", fnName(fn), ord)
			c.viol(key, c.P.Pos(ex.Tuple.Pos()), "the error result of "+calleeName(ex.Tuple.(*ssa.Call))+" is assigned to a variable that nothing reads before it is overwritten or goes out of scope: a failure of this step is silently ignored")
		})
	}
	c.note("%d error values that outlive a loop iteration", n)
}

// s9KnownNil: on the edge pred->succ the value e is nil: a dominating test says so, or e is a phi all
// of whose inputs are nil, unchanged, or themselves known nil where they enter.
func s9KnownNil(e ssa.Value, pred, succ *ssa.BasicBlock, seen map[ssa.Value]bool) bool {
	if isNilConst(e) {
		return true
	}
	if seen[e] {
		return true
	}
	seen[e] = true
	conds := pathConds(pred)
	if len(pred.Instrs) > 0 {
		if ifi, ok := pred.Instrs[len(pred.Instrs)-1].(*ssa.If); ok && pred.Succs[0] != pred.Succs[1] {
			conds = append(conds, pathCond{ifi, pred.Succs[0] == succ})
		}
	}
	for _, pc := range conds {
		for _, f := range expandFact(pc.If.Cond, pc.Branch) {
			x, neq, ok := nilTest(f.Cond)
			if ok && x == e && neq != f.Truth {
				return true
			}
		}
	}
	if phi, ok := e.(*ssa.Phi); ok {
		for i, pe := range phi.Edges {
			if !s9KnownNil(pe, phi.Block().Preds[i], phi.Block(), seen) {
				return false
			}
		}
		return true
	}
	return false
}

// ---------- V14: variable-length operands are decoded group by group ----------

func init() {
	register("V14", "variable-length operands are decoded group by group: wherever the module assembles a number from bytes in a loop whose shift count advances by a constant k < 8 per byte (the interpreter's operand decoder, k = 7), the byte is masked to its low k bits before it is shifted in, or is known to be below 2^k on that path; otherwise the continuation bit of every byte but the last leaks into the next group and a three-byte operand (an index above 16383, a jump in a function of more than 16 KiB) decodes to a different number. The encoder's group width (its right shift per emitted byte) equals k", 1, ruleV14)
	claim("C01", "V14")
}

func ruleV14(c *Ctx) {
	n := 0
	decSteps := map[int64]bool{}
	for _, fn := range c.P.Funcs {
		if !isProdPkg(fnPkgPath(fn)) {
			continue
		}
		ord := 0
		eachInstr(fn, func(in ssa.Instruction) {
			sh, ok := in.(*ssa.BinOp)
			if !ok || sh.Op != token.SHL {
				return
			}
			// the shift count is a loop variable advanced by a constant below 8
			cnt := sh.Y
			if cv, ok := cnt.(*ssa.Convert); ok {
				cnt = cv.X
			}
			step := int64(0)
			if phi, ok := cnt.(*ssa.Phi); ok {
				for _, e := range phi.Edges {
					if add, ok := e.(*ssa.BinOp); ok && add.Op == token.ADD && add.X == ssa.Value(phi) {
						if k, ok := constInt(add.Y); ok {
							step = k
						}
					}
				}
			} else if k, ok := constInt(cnt); ok && k > 0 && k%7 == 0 && k < 64 && v14TestsContinuation(fn) {
				// an unrolled decoder: `uint32(b1) << 7` in a function that tests bytes against 0x80
				step = 7
			}
			if step <= 0 || step >= 8 {
				return
			}
			// the shifted value comes from a byte
			x := sh.X
			var fromByte ssa.Value
			for i := 0; i < 4; i++ {
				if cv, ok := x.(*ssa.Convert); ok {
					if b, ok := cv.X.Type().Underlying().(*types.Basic); ok && b.Kind() == types.Uint8 {
						fromByte = cv.X
						break
					}
					x = cv.X
					continue
				}
				if and, ok := x.(*ssa.BinOp); ok && and.Op == token.AND {
					x = and.X
					continue
				}
				break
			}
			if fromByte == nil {
				return
			}
			n++
			ord++
			decSteps[step] = true
			key := fmt.Sprintf("%s: byte group #%d shifted in (step %d)", fnName(fn), ord, step)
			pos := c.P.Pos(sh.Pos())
			mask := int64(1)<<uint(step) - 1
			masked := false
			// an AND with the mask anywhere between the byte and the shift
			y := sh.X
			for i := 0; i < 4 && !masked; i++ {
				switch v := y.(type) {
				case *ssa.Convert:
					y = v.X
				case *ssa.BinOp:
					if v.Op == token.AND {
						if k, ok := constInt(v.Y); ok && k&^mask == 0 {
							masked = true
						}
						if k, ok := constInt(v.X); ok && k&^mask == 0 {
							masked = true
						}
					}
					i = 4
				default:
					i = 4
				}
			}
			if bm, ok := fromByte.(*ssa.BinOp); ok && bm.Op == token.AND {
				if k, ok := constInt(bm.Y); ok && k&^mask == 0 {
					masked = true
				}
			}
			if !masked {
				// known small on this path
				for _, f := range pathFacts(sh.Block()) {
					if b, ok := f.Cond.(*ssa.BinOp); ok && b.X == fromByte {
						if k, ok := constInt(b.Y); ok {
							if (b.Op == token.LSS && f.Truth && k <= mask+1) || (b.Op == token.GEQ && !f.Truth && k <= mask+1) || (b.Op == token.LEQ && f.Truth && k <= mask) || (b.Op == token.GTR && !f.Truth && k <= mask) {
								masked = true
							}
						}
					}
				}
			}
			if masked {
				c.ok(key, pos, fmt.Sprintf("the byte is reduced to its low %d bits before the shift", step))
			} else {
				c.viol(key, pos, fmt.Sprintf("a byte is shifted into the operand without being masked to its low %d bits: the continuation bit of a non-final byte lands in the next group, so operands of three or more bytes decode to a different number", step))
			}
		})
	}
	// the encoder's group width
	encSteps := map[int64]bool{}
	if pk := c.P.Pkg(compilePkg); pk != nil {
		for _, fn := range c.P.Funcs {
			if fnPkgPath(fn) != modPath+"/"+compilePkg {
				continue
			}
			// a loop `for x >= 2^k { emit byte(x)|2^k; x >>= k }`
			eachInstr(fn, func(in ssa.Instruction) {
				shr, ok := in.(*ssa.BinOp)
				if !ok || shr.Op != token.SHR {
					return
				}
				k, ok := constInt(shr.Y)
				if !ok || k <= 0 || k >= 8 {
					return
				}
				phi, ok := shr.X.(*ssa.Phi)
				if !ok {
					return
				}
				self := false
				for _, e := range phi.Edges {
					if e == ssa.Value(shr) {
						self = true
					}
				}
				if self {
					encSteps[k] = true
				}
			})
		}
	}
	key := "operand encoder and decoder use the same group width"
	switch {
	case len(decSteps) == 0 || len(encSteps) == 0:
		c.trivial(key, "-", fmt.Sprintf("no loop-shaped encoder/decoder pair found (decoder steps %v, encoder steps %v)", decSteps, encSteps))
	default:
		same := len(decSteps) == len(encSteps)
		for k := range decSteps {
			if !encSteps[k] {
				same = false
			}
		}
		if same {
			c.ok(key, "-", fmt.Sprintf("group width(s) %v on both sides", decSteps))
		} else {
			c.viol(key, "-", fmt.Sprintf("the decoder advances its shift by %v bits per byte, the encoder emits groups of %v bits", decSteps, encSteps))
		}
	}
	c.note("%d byte groups shifted into an accumulator under a stepping shift count", n)
}

// ---------- valueSetAt: which of finitely many representative integers can a value be at a block? ----------

// A repDomain is a finite set of representative integers: every constant the involved code compares
// integers with, its two neighbours, and the thresholds of the precondition being checked. Two integers
// between the same pair of neighbouring constants take the same branches everywhere, so deciding a
// question for the representatives decides it for all integers (as long as the value is only compared,
// never computed with, between its definition and the use - anything else is treated as "any value").
type repDomain struct {
	reps  map[int64]bool
	calls map[*ssa.Function][]*ssa.Call // static call sites per callee, module-wide
	funcs []*ssa.Function
	taken map[*ssa.Function]bool // functions used as values (their callers cannot be enumerated)
}

func newRepDomain(p *Prog, thresholds ...int64) *repDomain {
	d := &repDomain{reps: map[int64]bool{}, calls: map[*ssa.Function][]*ssa.Call{}, funcs: p.Funcs, taken: map[*ssa.Function]bool{}}
	for _, t := range thresholds {
		d.reps[t-1], d.reps[t], d.reps[t+1] = true, true, true
	}
	for _, fn := range p.Funcs {
		eachInstr(fn, func(in ssa.Instruction) {
			if call, ok := in.(*ssa.Call); ok {
				if cal := call.Call.StaticCallee(); cal != nil {
					d.calls[cal] = append(d.calls[cal], call)
				}
			}
			for _, op := range in.Operands(nil) {
				if f, ok := (*op).(*ssa.Function); ok {
					if ci, isCall := in.(ssa.CallInstruction); !isCall || ci.Common().Value != ssa.Value(f) {
						d.taken[f] = true
					}
				}
			}
		})
	}
	return d
}

// addConstsOf adds the integer constants that fn compares values with, or merges into phis.
func (d *repDomain) addConstsOf(fn *ssa.Function) {
	eachInstr(fn, func(in ssa.Instruction) {
		switch x := in.(type) {
		case *ssa.BinOp:
			switch x.Op {
			case token.EQL, token.NEQ, token.LSS, token.LEQ, token.GTR, token.GEQ:
				for _, o := range []ssa.Value{x.X, x.Y} {
					if k, ok := constInt(o); ok && k > -1<<40 && k < 1<<40 {
						d.reps[k-1], d.reps[k], d.reps[k+1] = true, true, true
					}
				}
			}
		case *ssa.Phi:
			for _, e := range x.Edges {
				if k, ok := constInt(e); ok && k > -1<<40 && k < 1<<40 {
					d.reps[k] = true
				}
			}
		}
	})
}

// evalCond: the truth of a comparison of v with a constant when v = r; ok=false if the condition is
// about something else.
func repEvalCond(cond ssa.Value, v ssa.Value, r int64) (val, ok bool) {
	cv, neg := stripNot(cond)
	if call, isCall := cv.(*ssa.Call); isCall {
		// a one-argument classification function applied to the value (isdigit(b), unicode.IsControl(r)):
		// interpreted, standard library included, when its body is loop-free table or range tests
		if cal := call.Call.StaticCallee(); cal != nil && len(call.Call.Args) == 1 && call.Call.Args[0] == v && len(cal.Blocks) > 0 {
			if res, ok := evalByteFunc(cal, r); ok {
				return (res != 0) != neg, true
			}
		}
		return false, false
	}
	b, isb := cv.(*ssa.BinOp)
	if !isb {
		return false, false
	}
	var k int64
	var isK bool
	op := b.Op
	switch {
	case b.X == v:
		k, isK = constInt(b.Y)
	case b.Y == v:
		k, isK = constInt(b.X)
		op = i9Flip(op)
	}
	if !isK {
		return false, false
	}
	var res bool
	switch op {
	case token.EQL:
		res = r == k
	case token.NEQ:
		res = r != k
	case token.LSS:
		res = r < k
	case token.LEQ:
		res = r <= k
	case token.GTR:
		res = r > k
	case token.GEQ:
		res = r >= k
	default:
		return false, false
	}
	return res != neg, true
}

// reachWith: can control get from block `from` to block `to` when v = r (branches on comparisons of v
// with constants are decided, all others may go either way)?
func repReach(from, to *ssa.BasicBlock, v ssa.Value, r int64) bool {
	return reachUnder(from, to, func(cond ssa.Value) (bool, bool) { return repEvalCond(cond, v, r) })
}

// reachUnder is the path search shared by the representative-value analyses: branches whose condition
// eval can decide are followed on the decided side only, all others both ways; boolean phis (the value
// form of && and ||, as in `case a || b:`) are evaluated along the path from the edge taken.
func reachUnder(from, to *ssa.BasicBlock, eval func(cond ssa.Value) (bool, bool)) bool {
	return reachUnderVia(from, nil, to, eval)
}

// reachUnderVia is reachUnder for arriving at `to` over the edge via->to (via == nil: over any edge).
func reachUnderVia(from, via, to *ssa.BasicBlock, eval func(cond ssa.Value) (bool, bool)) bool {
	type edge struct{ b, prev *ssa.BasicBlock }
	seen := map[edge]bool{}
	var dfs func(b, prev *ssa.BasicBlock, vals map[ssa.Value]bool) bool
	dfs = func(b, prev *ssa.BasicBlock, vals map[ssa.Value]bool) bool {
		if b == to && (via == nil || prev == via) && !(prev == nil && via != nil) {
			return true
		}
		if seen[edge{b, prev}] {
			return false
		}
		seen[edge{b, prev}] = true
		nv := vals
		copied := false
		for _, in := range b.Instrs {
			phi, ok := in.(*ssa.Phi)
			if !ok {
				break
			}
			if bt, ok := phi.Type().Underlying().(*types.Basic); !ok || bt.Kind() != types.Bool {
				continue
			}
			for i, p := range b.Preds {
				if p != prev {
					continue
				}
				e := phi.Edges[i]
				var val, known bool
				if k, ok := e.(*ssa.Const); ok && k.Value != nil {
					val, known = k.Value.String() == "true", true
				} else if pv, ok := vals[e]; ok {
					val, known = pv, true
				} else {
					val, known = eval(e)
				}
				if !copied {
					nv = map[ssa.Value]bool{}
					for k2, v2 := range vals {
						nv[k2] = v2
					}
					copied = true
				}
				if known {
					nv[phi] = val
				} else {
					delete(nv, phi)
				}
			}
		}
		if len(b.Instrs) > 0 {
			if ifi, ok := b.Instrs[len(b.Instrs)-1].(*ssa.If); ok {
				cv, neg := stripNot(ifi.Cond)
				val, ok := nv[cv]
				if ok {
					val = val != neg
				} else {
					val, ok = eval(ifi.Cond)
				}
				if ok {
					if val {
						return dfs(b.Succs[0], b, nv)
					}
					return dfs(b.Succs[1], b, nv)
				}
			}
		}
		for _, s := range b.Succs {
			if dfs(s, b, nv) {
				return true
			}
		}
		return false
	}
	return dfs(from, nil, map[ssa.Value]bool{})
}

// valueSetAt: the representatives v can equal when control is at block `at` (an over-approximation;
// nil means "any": the value is computed, or comes from callers that cannot be enumerated).
func (d *repDomain) valueSetAt(v ssa.Value, at *ssa.BasicBlock, seen map[ssa.Value]bool, depth int) (set map[int64]bool, any bool) {
	return d.valueSetOnEdge(v, at, nil, seen, depth)
}

// valueSetOnEdge is valueSetAt for control leaving block `at` towards `to` (the branch that ends `at`
// counts as well); to == nil means "at the end of at".
func (d *repDomain) valueSetOnEdge(v ssa.Value, at, to *ssa.BasicBlock, seen map[ssa.Value]bool, depth int) (set map[int64]bool, any bool) {
	if k, ok := constInt(v); ok {
		d.reps[k] = true
		return map[int64]bool{k: true}, false
	}
	if seen[v] || depth > 6 {
		return map[int64]bool{}, false
	}
	seen[v] = true
	defer delete(seen, v)
	base := map[int64]bool{}
	anyBase := false
	var defBlock *ssa.BasicBlock
	switch x := v.(type) {
	case *ssa.Phi:
		defBlock = x.Block()
		for i, e := range x.Edges {
			s, a := d.valueSetOnEdge(e, x.Block().Preds[i], x.Block(), seen, depth+1)
			if a {
				anyBase = true
			}
			for r := range s {
				base[r] = true
			}
		}
	case *ssa.Parameter:
		fn := x.Parent()
		defBlock = fn.Blocks[0]
		idx := -1
		for i, p := range fn.Params {
			if p == x {
				idx = i
			}
		}
		sites := d.calls[fn]
		exported := fn.Object() != nil && fn.Object().Exported()
		addrTaken := d.taken[fn]
		if idx < 0 || exported || addrTaken || len(sites) == 0 || fn.Signature.Recv() != nil && exported {
			anyBase = true
			break
		}
		for _, call := range sites {
			if idx >= len(call.Call.Args) {
				anyBase = true
				continue
			}
			d.addConstsOf(call.Parent())
			s, a := d.valueSetAt(call.Call.Args[idx], call.Block(), seen, depth+1)
			if a {
				anyBase = true
			}
			for r := range s {
				base[r] = true
			}
		}
	case *ssa.Extract, *ssa.Call:
		defBlock = v.(ssa.Instruction).Block()
		anyBase = true
		// a result of a helper of the module: what the helper can return (on its error-free returns, when
		// the caller has tested the accompanying error before using the value)
		var call *ssa.Call
		resIdx := 0
		if ex, ok := v.(*ssa.Extract); ok {
			call, _ = ex.Tuple.(*ssa.Call)
			resIdx = ex.Index
		} else {
			call = v.(*ssa.Call)
		}
		if call == nil {
			break
		}
		// three-way comparison results of the standard library
		if cal := call.Call.StaticCallee(); cal != nil && resIdx == 0 {
			switch cal.String() {
			case "(*math/big.Int).Cmp", "(*math/big.Int).CmpAbs", "(*math/big.Int).Sign", "(*math/big.Rat).Cmp", "(*math/big.Rat).Sign", "(*math/big.Float).Cmp", "(*math/big.Float).Sign", "strings.Compare", "bytes.Compare":
				anyBase = false
				base[-1], base[0], base[1] = true, true, true
				d.reps[-1], d.reps[0], d.reps[1] = true, true, true
			}
			if !anyBase {
				break
			}
		}
		h := call.Call.StaticCallee()
		if h == nil || len(h.Blocks) == 0 || !strings.HasPrefix(fnPkgPath(h), modPath) {
			break
		}
		res := h.Signature.Results()
		errIdx := -1
		if res.Len() > 1 && res.At(res.Len()-1).Type().String() == "error" {
			errIdx = res.Len() - 1
		}
		errChecked := false
		if errIdx >= 0 && at != nil {
			if refs := call.Referrers(); refs != nil {
				for _, r := range *refs {
					if ex, ok := r.(*ssa.Extract); ok && ex.Index == errIdx && dominatedByNilErr(at, ex) {
						errChecked = true
					}
				}
			}
		}
		d.addConstsOf(h)
		anyBase = false
		eachInstr(h, func(in ssa.Instruction) {
			ret, ok := in.(*ssa.Return)
			if !ok || resIdx >= len(ret.Results) {
				return
			}
			if errChecked && !isNilConst(ret.Results[errIdx]) {
				if _, isCall := ret.Results[errIdx].(*ssa.Call); isCall {
					return // `return 0, fmt.Errorf(...)`: not seen by a caller that tested the error
				}
			}
			s, a := d.valueSetOnEdge(ret.Results[resIdx], ret.Block(), nil, seen, depth+1)
			if a {
				anyBase = true
			}
			for r := range s {
				base[r] = true
			}
		})
	default:
		anyBase = true
		if in, ok := v.(ssa.Instruction); ok {
			defBlock = in.Block()
		}
	}
	if at != nil && at.Parent() != nil {
		d.addConstsOf(at.Parent())
	}
	if anyBase {
		base = map[int64]bool{}
		for r := range d.reps {
			base[r] = true
		}
	}
	out := map[int64]bool{}
	for r := range base {
		if defBlock == nil || at == nil || defBlock.Parent() != at.Parent() {
			out[r] = true
			continue
		}
		rr := r
		ev := func(cond ssa.Value) (bool, bool) { return repEvalCond(cond, v, rr) }
		if to != nil {
			// the edge at->to itself must be passable (its branch may be decided by a boolean phi built
			// from tests of the value: `valid := b == 0 || (2 <= b && b <= 36); if !valid { return }`)
			if reachUnderVia(defBlock, at, to, ev) {
				out[r] = true
			}
		} else if reachUnder(defBlock, at, ev) {
			out[r] = true
		}
	}
	return out, false
}

// ---------- N12: number bases handed to the formatting and parsing routines that panic ----------

func init() {
	register("N12", "a number base that is not a constant is range-checked before it reaches a routine that panics on a bad one: (*big.Int).SetString panics for a base other than 0 and 2..62, (*big.Int).Text/Append and strconv.FormatInt/AppendInt for a base outside 2..36 (62). For every such call the base is followed back through phis and, for unexported helpers, to every call site; between its definition and the call only comparisons with constants constrain it, so the question is decided exactly by letting the base take each representative value (every constant it is compared with and its neighbours) and asking whether the call is still reachable: int(\"1\", 1) must be an error, not a crash", 1, ruleN12)
	claim("C02", "N12")
}

func ruleN12(c *Ctx) {
	type spec struct {
		argIdx   int
		zeroOK   bool
		min, max int64
	}
	specs := map[string]spec{
		"(*math/big.Int).SetString": {2, true, 2, 62},
		"(*math/big.Int).Text":      {1, false, 2, 62},
		"(*math/big.Int).Append":    {2, false, 2, 62},
		"strconv.FormatInt":         {1, false, 2, 36},
		"strconv.FormatUint":        {1, false, 2, 36},
		"strconv.AppendInt":         {2, false, 2, 36},
		"strconv.AppendUint":        {2, false, 2, 36},
	}
	n := 0
	dom := newRepDomain(c.P, 0, 2, 36, 62)
	for _, fn := range c.P.Funcs {
		if !isProdPkg(fnPkgPath(fn)) {
			continue
		}
		ord := map[string]int{}
		eachInstr(fn, func(in ssa.Instruction) {
			call, ok := in.(*ssa.Call)
			if !ok {
				return
			}
			cal := call.Call.StaticCallee()
			if cal == nil {
				return
			}
			sp, ok := specs[cal.String()]
			if !ok || sp.argIdx >= len(call.Call.Args) {
				return
			}
			n++
			base := call.Call.Args[sp.argIdx]
			kb := fmt.Sprintf("%s: base of %s", fnName(fn), cal.String())
			ord[kb]++
			key := kb
			if ord[kb] > 1 {
				key = fmt.Sprintf("%s #%d", kb, ord[kb])
			}
			pos := c.P.Pos(call.Pos())
			allowed := func(r int64) bool { return (sp.zeroOK && r == 0) || (r >= sp.min && r <= sp.max) }
			if k, isK := constInt(base); isK {
				if allowed(k) {
					c.trivial(key, pos, fmt.Sprintf("constant base %d", k))
				} else {
					c.viol(key, pos, fmt.Sprintf("constant base %d is outside what %s accepts: the call panics", k, cal.String()))
				}
				return
			}
			dom.addConstsOf(fn)
			// two passes: the first collects the constants of every function visited
			dom.valueSetAt(base, call.Block(), map[ssa.Value]bool{}, 0)
			set, _ := dom.valueSetAt(base, call.Block(), map[ssa.Value]bool{}, 0)
			var bad []int64
			for r := range set {
				if !allowed(r) {
					bad = append(bad, r)
				}
			}
			if len(bad) == 0 {
				c.ok(key, pos, fmt.Sprintf("of %d representative values only legal bases reach the call", len(dom.reps)))
				return
			}
			sortInt64s(bad)
			c.viol(key, pos, fmt.Sprintf("the base can be %v when the call is reached (representatives of the values that pass every test on the way): %s panics for such a base instead of the built-in returning an error", bad, cal.String()))
		})
	}
	c.note("%d calls of base-taking big.Int/strconv routines", n)
}

func sortInt64s(a []int64) {
	for i := 1; i < len(a); i++ {
		for j := i; j > 0 && a[j] < a[j-1]; j-- {
			a[j], a[j-1] = a[j-1], a[j]
		}
	}
}

// ---------- M4: the iteration lock cannot wrap ----------

func init() {
	register("M4", "the count of active iterators cannot wrap: every itercount field (the counter Iterate increments and checkMutable tests against zero) is an integer at least 32 bits wide - the interpreter allows 100000 nested frames, each of which may hold an iterator on the same collection, so a 16-bit counter returns to zero with 65536 loops active and the collection can then be mutated under all of them", 3, ruleM4)
	claim("C06", "M4")
}

func ruleM4(c *Ctx) {
	for _, pk := range c.P.Pkgs {
		if !isProdPkg(pk.PkgPath) {
			continue
		}
		sc := pk.Types.Scope()
		for _, name := range sc.Names() {
			tn, ok := sc.Lookup(name).(*types.TypeName)
			if !ok {
				continue
			}
			st, ok := tn.Type().Underlying().(*types.Struct)
			if !ok {
				continue
			}
			for i := 0; i < st.NumFields(); i++ {
				f := st.Field(i)
				if f.Name() != "itercount" {
					continue
				}
				key := fmt.Sprintf("%s.%s: width of the iteration counter", relPkg(pk.PkgPath), name)
				b, ok := f.Type().Underlying().(*types.Basic)
				if !ok || b.Info()&types.IsInteger == 0 {
					c.viol(key, c.P.Pos(f.Pos()), "the iteration counter is not an integer")
					continue
				}
				if sz := c.P.sizes().Sizeof(b); sz >= 4 {
					c.ok(key, c.P.Pos(f.Pos()), fmt.Sprintf("%s (%d bytes)", b.Name(), sz))
				} else {
					c.viol(key, c.P.Pos(f.Pos()), fmt.Sprintf("the iteration counter is a %s: it wraps to zero at %d simultaneously active iterators, which nested calls can reach, and checkMutable then lets the collection be changed under all of them", b.Name(), int64(1)<<(8*uint(sz))))
				}
			}
		}
	}
}

// ---------- O19: the recursion check guards the one door into interpreted code ----------

// naturalLoops returns the natural loops of fn, merged per header.
func naturalLoops(fn *ssa.Function) map[*ssa.BasicBlock]map[*ssa.BasicBlock]bool {
	loops := map[*ssa.BasicBlock]map[*ssa.BasicBlock]bool{}
	for _, t := range fn.Blocks {
		for _, h := range t.Succs {
			if !(h == t || h.Dominates(t)) {
				continue
			}
			loop := loops[h]
			if loop == nil {
				loop = map[*ssa.BasicBlock]bool{h: true}
				loops[h] = loop
			}
			stack := []*ssa.BasicBlock{t}
			for len(stack) > 0 {
				x := stack[len(stack)-1]
				stack = stack[:len(stack)-1]
				if loop[x] {
					continue
				}
				loop[x] = true
				stack = append(stack, x.Preds...)
			}
		}
	}
	return loops
}

func init() {
	register("O19", "recursion is detected, and the frame-depth limit enforced, where interpreted code is entered: the comparison of the code of the function about to run (the receiver's funcode) with the code of the functions already on the thread's stack - the test behind 'called recursively' - is made in (*Function).CallInternal before its instruction loop (directly or in a helper called there). Every way of running a Starlark function passes through that method: the CALL instruction, starlark.Call from a host function, the key= callback of sorted/min/max. A check made only at the CALL instruction misses all the others", 1, ruleO19)
	claim("C09", "O19")
}

func ruleO19(c *Ctx) {
	fn := c.P.Func("starlark", "Function.CallInternal")
	if fn == nil {
		c.anchorFail("(*starlark.Function).CallInternal not found")
		return
	}
	key := "(*starlark.Function).CallInternal: recursion test on entry"
	// the instruction loop: the largest natural loop
	var mainLoop map[*ssa.BasicBlock]bool
	var mainH *ssa.BasicBlock
	for h, l := range naturalLoops(fn) {
		if mainLoop == nil || len(l) > len(mainLoop) {
			mainLoop, mainH = l, h
		}
	}
	if mainLoop == nil {
		c.anchorFail("CallInternal has no loop")
		return
	}
	isFuncode := func(v ssa.Value) bool {
		_, n := namedOf(v.Type())
		_, isPtr := v.Type().Underlying().(*types.Pointer)
		return isPtr && n == "Funcode"
	}
	// derivedFrom: v is computed from parameter #pi of f (fn.funcode, fn.funcode.X ...) or is it
	derivedFrom := func(v ssa.Value, f *ssa.Function, pi int) bool {
		if pi < 0 || pi >= len(f.Params) {
			return false
		}
		if v == ssa.Value(f.Params[pi]) {
			return true
		}
		tr := traceValue(v)
		for _, b := range tr.bases {
			if b.v == ssa.Value(f.Params[pi]) {
				return true
			}
		}
		return false
	}
	// does function g compare funcodes, one of them derived from its parameter #pi (the function being
	// entered, or its code)?
	cmpIn := func(g *ssa.Function, pi int) []*ssa.BinOp {
		var out []*ssa.BinOp
		eachInstr(g, func(in ssa.Instruction) {
			b, ok := in.(*ssa.BinOp)
			if !ok || (b.Op != token.EQL && b.Op != token.NEQ) || !isFuncode(b.X) || !isFuncode(b.Y) {
				return
			}
			if derivedFrom(b.X, g, pi) || derivedFrom(b.Y, g, pi) {
				out = append(out, b)
			}
		})
		return out
	}
	var entry, inLoop []ssa.Instruction
	place := func(at ssa.Instruction) {
		if mainLoop[at.Block()] {
			inLoop = append(inLoop, at)
		} else if reachable(at.Block(), mainH) {
			entry = append(entry, at)
		}
	}
	for _, b := range cmpIn(fn, 0) {
		place(b)
	}
	eachInstr(fn, func(in ssa.Instruction) {
		call, ok := in.(*ssa.Call)
		if !ok {
			return
		}
		cal := call.Call.StaticCallee()
		if cal == nil || relPkg(fnPkgPath(cal)) != "starlark" || len(cal.Blocks) == 0 {
			return
		}
		for ai, a := range call.Call.Args {
			if derivedFrom(a, fn, 0) && ai < len(cal.Params) && len(cmpIn(cal, ai)) > 0 {
				place(call)
			}
		}
	})
	// the frame-depth limit (the guard against exhausting the Go stack when recursion is allowed) is
	// enforced at the same door
	{
		isDepthTest := func(in ssa.Instruction) bool {
			b, ok := in.(*ssa.BinOp)
			if !ok || (b.Op != token.GTR && b.Op != token.GEQ) {
				return false
			}
			k, isK := constInt(b.Y)
			if !isK || k < 1000 {
				return false
			}
			call, ok := b.X.(*ssa.Call)
			if !ok {
				return false
			}
			if bi, ok := call.Call.Value.(*ssa.Builtin); !ok || bi.Name() != "len" {
				return false
			}
			return derivesFromField(call.Call.Args[0], "starlark.Thread", "stack")
		}
		var dEntry, dLoop []ssa.Instruction
		eachInstr(fn, func(in ssa.Instruction) {
			if isDepthTest(in) {
				if mainLoop[in.Block()] {
					dLoop = append(dLoop, in)
				} else if reachable(in.Block(), mainH) {
					dEntry = append(dEntry, in)
				}
			}
			if call, ok := in.(*ssa.Call); ok && !mainLoop[call.Block()] && reachable(call.Block(), mainH) {
				if cal := call.Call.StaticCallee(); cal != nil && relPkg(fnPkgPath(cal)) == "starlark" && len(cal.Blocks) > 0 {
					found := false
					eachInstr(cal, func(in2 ssa.Instruction) {
						if isDepthTest(in2) {
							found = true
						}
					})
					if found {
						dEntry = append(dEntry, call)
					}
				}
			}
		})
		dkey := "(*starlark.Function).CallInternal: frame-depth limit on entry"
		switch {
		case len(dEntry) > 0:
			c.ok(dkey, c.P.Pos(dEntry[0].Pos()), "the depth of the thread's stack is compared with the limit before the instruction loop")
		case len(dLoop) > 0:
			c.viol(dkey, c.P.Pos(dLoop[0].Pos()), "the stack depth is tested only inside the instruction loop (at the call instruction): Starlark functions entered through starlark.Call - key= callbacks, host built-ins calling back - are never depth-checked, so recursion through them runs until the Go stack is exhausted, which is fatal")
		default:
			c.viol(dkey, c.P.Pos(fn.Pos()), "CallInternal never compares the depth of the thread's stack with a limit: unbounded recursion exhausts the Go stack, which is fatal")
		}
	}
	// the scan is conditional on the Recursion option and on nothing else: a second condition ("leaf
	// functions cannot already be active") exempts some functions, and a host value whose operator calls
	// back into Starlark re-enters them unnoticed
	if len(entry) > 0 {
		for _, pc := range pathConds(entry[0].Block()) {
			// conditions that belong to the scan itself: inside a loop, or a type test of a frame's callable
			inLoop := false
			for _, l := range naturalLoops(fn) {
				if l[pc.If.Block()] && !mainLoop[pc.If.Block()] {
					inLoop = true
				}
			}
			if inLoop {
				continue
			}
			okCond := false
			for y := range backSlice(pc.If.Cond) {
				if ld, ok := y.(*ssa.UnOp); ok && ld.Op == token.MUL {
					if fa, ok := ld.X.(*ssa.FieldAddr); ok {
						if deref(fa.X.Type()).Underlying().(*types.Struct).Field(fa.Field).Name() == "Recursion" {
							okCond = true
						}
					}
				}
			}
			if cv, _ := stripNot(pc.If.Cond); !okCond {
				if ld, ok := cv.(*ssa.UnOp); ok && ld.Op == token.MUL {
					if fa, ok := ld.X.(*ssa.FieldAddr); ok && deref(fa.X.Type()).Underlying().(*types.Struct).Field(fa.Field).Name() == "Recursion" {
						okCond = true
					}
				}
			}
			if !okCond {
				c.viol(key+": unconditional", c.P.Pos(pc.If.Pos()), "the recursion scan is skipped under a condition other than the Recursion option: functions for which it holds can be re-entered (through a host value's operator or attribute that calls back into Starlark) without the error the dialect promises")
				return
			}
		}
	}
	switch {
	case len(entry) > 0:
		c.ok(key, c.P.Pos(entry[0].Pos()), "the funcode of the function being entered is compared with the frames on the stack before the instruction loop")
	case len(inLoop) > 0:
		c.viol(key, c.P.Pos(inLoop[0].Pos()), "funcodes are compared only inside the instruction loop (at the call instruction): functions entered through starlark.Call - key= callbacks, host built-ins calling back - are never checked, so recursion through them is accepted although the dialect forbids it")
	default:
		c.viol(key, c.P.Pos(fn.Pos()), "CallInternal never compares the funcode being entered with those on the thread's stack: recursion is not detected")
	}
}

// ---------- H10: a probe walks its whole bucket chain ----------

func init() {
	register("H10", "a probe walks its whole chain: in every hashtable method, the loop that follows a bucket's next pointer (its variable is advanced by loading a field that points to the same struct type) is left only when the pointer is nil or from a place that is reached only after an entry's stored hash matched the probe's hash (the found / comparison-failed exits). Deletions leave holes in earlier buckets while later ones still hold live entries, so 'this bucket has a free slot' says nothing about the rest of the chain: stopping there makes keys in overflow buckets invisible to lookups although they are still counted and iterated", 3, ruleH10)
	claim("C12", "H10")
	claim("C11", "H10")
}

func ruleH10(c *Ctx) {
	n := 0
	for _, fn := range c.P.Funcs {
		if relPkg(fnPkgPath(fn)) != "starlark" || fn.Signature.Recv() == nil || qualType(fn.Signature.Recv().Type()) != "starlark.hashtable" {
			continue
		}
		loops := naturalLoops(fn)
		ord := 0
		for h, loop := range loops {
			// the chain variable: a header phi with a back-edge value loaded from a self-typed field of it
			var chain *ssa.Phi
			for _, in := range h.Instrs {
				phi, ok := in.(*ssa.Phi)
				if !ok {
					break
				}
				for i, e := range phi.Edges {
					if !loop[h.Preds[i]] {
						continue
					}
					ld, ok := e.(*ssa.UnOp)
					if !ok || ld.Op != token.MUL {
						continue
					}
					fa, ok := ld.X.(*ssa.FieldAddr)
					if !ok || !types.Identical(ld.Type(), phi.Type()) {
						continue
					}
					if fa.X == ssa.Value(phi) && hasArrayField(deref(phi.Type())) {
						chain = phi // a bucket (it holds an array of entries), not an entry of the order list
					}
				}
			}
			if chain == nil {
				continue
			}
			n++
			ord++
			key := fmt.Sprintf("%s: bucket-chain loop #%d", fnName(fn), ord)
			bad := ""
			var at token.Pos
			for b := range loop {
				for _, s := range b.Succs {
					if loop[s] {
						continue
					}
					// exit edge b -> s
					conds := pathConds(b)
					var ifi *ssa.If
					if len(b.Instrs) > 0 {
						if x, ok := b.Instrs[len(b.Instrs)-1].(*ssa.If); ok && b.Succs[0] != b.Succs[1] {
							ifi = x
							conds = append(conds, pathCond{x, b.Succs[0] == s})
						}
					}
					ok := false
					// (a) the chain is exhausted
					if ifi != nil {
						if x, _, isNil := nilTest(ifi.Cond); isNil {
							if x == ssa.Value(chain) {
								ok = true
							}
							// `if p.next == nil { break }`: the link itself is tested
							if ld, isLd := x.(*ssa.UnOp); isLd && ld.Op == token.MUL && types.Identical(ld.Type(), chain.Type()) {
								if fa, isFa := ld.X.(*ssa.FieldAddr); isFa && fa.X == ssa.Value(chain) {
									ok = true
								}
							}
						}
					}
					// (b) after a hash match
					for _, pc := range conds {
						for _, f := range expandFact(pc.If.Cond, pc.Branch) {
							bo, isb := f.Cond.(*ssa.BinOp)
							if !isb || !((bo.Op == token.EQL && f.Truth) || (bo.Op == token.NEQ && !f.Truth)) {
								continue
							}
							for oi, o := range []ssa.Value{bo.X, bo.Y} {
								if _, otherConst := []ssa.Value{bo.Y, bo.X}[oi].(*ssa.Const); otherConst {
									continue // `e.hash == 0` is the free-slot test, not a match with the probe's hash
								}
								if ld, isLd := o.(*ssa.UnOp); isLd && ld.Op == token.MUL {
									if fa, isFa := ld.X.(*ssa.FieldAddr); isFa {
										if _, tn := namedOf(fa.X.Type()); tn == "entry" {
											if bt, isB := ld.Type().Underlying().(*types.Basic); isB && bt.Kind() == types.Uint32 {
												ok = true
											}
										}
									}
								}
							}
						}
					}
					if !ok {
						bad = fmt.Sprintf("block %d -> %d", b.Index, s.Index)
						if len(b.Instrs) > 0 {
							at = b.Instrs[len(b.Instrs)-1].Pos()
						}
						if at == token.NoPos && len(s.Instrs) > 0 {
							at = s.Instrs[0].Pos()
						}
					}
				}
			}
			if bad == "" {
				c.ok(key, c.P.Pos(chain.Pos()), "left only at the end of the chain or after a hash match")
			} else {
				if at == token.NoPos {
					at = chain.Pos()
				}
				c.viol(key, c.P.Pos(at), "the walk along the bucket chain can stop ("+bad+") although the chain is not exhausted and no entry's hash matched: entries in the remaining overflow buckets are not seen")
			}
		}
	}
	c.note("%d bucket-chain loops", n)
}

func hasArrayField(t types.Type) bool {
	st, ok := t.Underlying().(*types.Struct)
	if !ok {
		return false
	}
	for i := 0; i < st.NumFields(); i++ {
		if _, ok := st.Field(i).Type().Underlying().(*types.Array); ok {
			return true
		}
	}
	return false
}

// ---------- A11: the positional unpacker's arity test is exact ----------

func init() {
	register("A11", "a positional-only built-in gets the number of arguments it declares: the function that checks the arguments of UnpackPositionalArgs (and its no-escape twin) returns an error exactly when keyword arguments are present, fewer than min or more than max positional arguments were given. The check only compares the three numbers with each other, so its behaviour depends on nothing but their relative order and on whether there are keyword arguments: it is interpreted abstractly for every ordering of (len(args), min, max) over {0,1,2} with min <= max, with and without keyword arguments - 36 cases, which is every behaviour it has. A missing case ('too few, no optional parameters') would let hasattr(x) run with its second parameter unset", 1, ruleA11)
	claim("C08", "A11")
	claim("C02", "A11")
}

// a11Outcome: 'r' the function returns a non-nil error before doing anything else, 'a' it returns nil
// or goes on to bind arguments, '?' undetermined.
func a11Outcome(fn *ssa.Function, roles map[ssa.Value]byte, n, k, min, max int64, depth int) byte {
	if depth > 2 || len(fn.Blocks) == 0 {
		return '?'
	}
	s := &sinterp{env: map[ssa.Value]sval{}}
	val := func(r byte) (int64, bool) {
		switch r {
		case 'N':
			return n, true
		case 'K':
			return k, true
		case 'X':
			return max, true
		}
		return 0, false
	}
	for v, r := range roles {
		switch r {
		case 'm':
			s.env[v] = svInt(min)
		case 'x':
			s.env[v] = svInt(max)
		}
	}
	eachInstr(fn, func(in ssa.Instruction) {
		call, ok := in.(*ssa.Call)
		if !ok {
			return
		}
		if b, ok := call.Call.Value.(*ssa.Builtin); ok && b.Name() == "len" && len(call.Call.Args) == 1 {
			if x, ok := val(roles[call.Call.Args[0]]); ok {
				s.env[call] = svInt(x)
			}
			return
		}
		cal := call.Call.StaticCallee()
		if cal == nil {
			return
		}
		switch cal.String() {
		case "fmt.Errorf", "errors.New":
			s.env[call] = sval{k: 'p'}
			return
		}
		if !strings.HasPrefix(fnPkgPath(cal), modPath) || len(cal.Params) != len(call.Call.Args) {
			return
		}
		sub := map[ssa.Value]byte{}
		for i, a := range call.Call.Args {
			if r, ok := roles[a]; ok {
				sub[cal.Params[i]] = r
			} else if lc, ok := a.(*ssa.Call); ok {
				// len(vars) passed as max
				if b, ok := lc.Call.Value.(*ssa.Builtin); ok && b.Name() == "len" && len(lc.Call.Args) == 1 {
					switch roles[lc.Call.Args[0]] {
					case 'X':
						sub[cal.Params[i]] = 'x'
					}
				}
			}
		}
		if len(sub) < 3 || cal.Signature.Results().Len() != 1 {
			return
		}
		switch a11Outcome(cal, sub, n, k, min, max, depth+1) {
		case 'r':
			s.env[call] = sval{k: 'p'}
		case 'a':
			s.env[call] = sval{k: 'n'}
		}
	})
	blk := fn.Blocks[0]
	for steps := 0; steps < 200; steps++ {
		next, ret, ok := s.step(blk, 0)
		if !ok {
			// a branch on something other than the counts: the arity test is behind us
			return 'a'
		}
		if ret != nil {
			if len(ret.Results) == 0 {
				return '?'
			}
			v, ok := s.eval(ret.Results[len(ret.Results)-1])
			switch {
			case ok && v.k == 'n':
				return 'a'
			case ok && v.k == 'p':
				return 'r'
			}
			return '?'
		}
		blk = next
	}
	return '?'
}

func ruleA11(c *Ctx) {
	n := 0
	for _, name := range []string{"UnpackPositionalArgs", "unpackPositionalArgsNoEscape"} {
		fn := c.P.Func("starlark", name)
		if fn == nil {
			if name == "UnpackPositionalArgs" {
				c.anchorFail("starlark.UnpackPositionalArgs not found")
			}
			continue
		}
		roles := map[ssa.Value]byte{}
		ints := 0
		for _, p := range fn.Params {
			t := p.Type()
			switch {
			case qualType(t) == "starlark.Tuple":
				roles[p] = 'N'
			case t.String() == "[]"+modPath+"/starlark.Tuple":
				roles[p] = 'K'
			case t.String() == "int":
				if ints == 0 {
					roles[p] = 'm'
				}
				ints++
			case t.String() == "[]any" || t.String() == "[]interface{}":
				roles[p] = 'X'
			}
		}
		key := "starlark." + name + ": arity test"
		if len(roles) != 4 {
			c.anchorFail("starlark.%s: parameters (args Tuple, kwargs []Tuple, min int, vars ...any) not recognised", name)
			continue
		}
		n++
		bad := ""
		undecided := 0
		cases := 0
		for nn := int64(0); nn <= 2; nn++ {
			for mn := int64(0); mn <= 2; mn++ {
				for mx := mn; mx <= 2; mx++ { // min <= max is the caller's contract
					for k := int64(0); k <= 1; k++ {
						cases++
						want := byte('a')
						if k > 0 || nn < mn || nn > mx {
							want = 'r'
						}
						got := a11Outcome(fn, roles, nn, k, mn, mx, 0)
						if got == '?' {
							undecided++
							continue
						}
						if got != want && bad == "" {
							verb := map[byte]string{'a': "accepts", 'r': "rejects"}
							bad = fmt.Sprintf("with %d positional and %d keyword argument(s), min=%d, max=%d the call %s the arguments but should be %sed", nn, k, mn, mx, verb[got], strings.TrimSuffix(verb[want], "s"))
						}
					}
				}
			}
		}
		switch {
		case bad != "":
			c.viol(key, c.P.Pos(fn.Pos()), bad+": a built-in runs with parameters unset (or refuses a legal call)")
		case undecided > 0:
			c.viol(key, c.P.Pos(fn.Pos()), fmt.Sprintf("%d of %d cases could not be decided by abstract interpretation of the arity test", undecided, cases))
		default:
			c.ok(key, c.P.Pos(fn.Pos()), fmt.Sprintf("%d orderings of (len(args), min, max) x keyword arguments: an error exactly for keyword arguments, too few or too many", cases))
		}
	}
	_ = n
}

// ---------- E10: equality helpers on plain structs are symmetric and reflexive ----------

func init() {
	register("E10", "an equality helper is an equivalence on its operands: every function of the value packages that takes two operands of one struct type with only numeric fields, returns bool, and does nothing but compare those fields with each other and with constants (rangeEqual) is interpreted abstractly for every combination of field values drawn from the constants it compares with, their neighbours and two further values - which covers every ordering of each pair of corresponding fields and so every behaviour the function has - and must answer f(x, y) == f(y, x) and f(x, x) == true. `range(0) == range(3)` being true while `range(3) == range(0)` is false breaks set and dict semantics built on ==", 1, ruleE10)
	claim("C11", "E10")
}

func ruleE10(c *Ctx) {
	n := 0
	for _, fn := range c.P.Funcs {
		if !isProdPkg(fnPkgPath(fn)) || len(fn.Params) != 2 || fn.Signature.Results().Len() != 1 || len(fn.Blocks) == 0 {
			continue
		}
		if bt, ok := fn.Signature.Results().At(0).Type().Underlying().(*types.Basic); !ok || bt.Kind() != types.Bool {
			continue
		}
		if !types.Identical(fn.Params[0].Type(), fn.Params[1].Type()) {
			continue
		}
		st, ok := deref(fn.Params[0].Type()).Underlying().(*types.Struct)
		if !ok || st.NumFields() == 0 || st.NumFields() > 6 {
			continue
		}
		if _, isNamed := deref(fn.Params[0].Type()).(*types.Named); !isNamed {
			continue
		}
		numeric := true
		for i := 0; i < st.NumFields(); i++ {
			bt, ok := st.Field(i).Type().Underlying().(*types.Basic)
			if !ok || bt.Info()&types.IsInteger == 0 {
				numeric = false
			}
		}
		if !numeric {
			continue
		}
		// pure: field reads of the two parameters, comparisons, boolean structure, nothing else
		pure := true
		fieldOf := map[ssa.Value][2]int{} // value -> (param index, field index)
		spill := map[ssa.Value]int{}      // local copy of a by-value parameter
		consts := map[int]map[int64]bool{}
		eachInstr(fn, func(in ssa.Instruction) {
			switch x := in.(type) {
			case *ssa.Alloc:
			case *ssa.Store:
				al, isAl := x.Addr.(*ssa.Alloc)
				pi := -1
				for i, p := range fn.Params {
					if x.Val == ssa.Value(p) {
						pi = i
					}
				}
				if isAl && pi >= 0 {
					spill[al] = pi
				} else {
					pure = false
				}
			case *ssa.Field:
				for i, p := range fn.Params {
					if x.X == ssa.Value(p) {
						fieldOf[x] = [2]int{i, x.Field}
					}
				}
			case *ssa.FieldAddr:
			case *ssa.UnOp:
				if x.Op == token.MUL {
					if fa, ok := x.X.(*ssa.FieldAddr); ok {
						for i, p := range fn.Params {
							if fa.X == ssa.Value(p) {
								fieldOf[x] = [2]int{i, fa.Field}
							}
						}
						if pi, ok := spill[fa.X]; ok {
							fieldOf[x] = [2]int{pi, fa.Field}
						}
					}
				}
			case *ssa.BinOp, *ssa.Phi, *ssa.If, *ssa.Jump, *ssa.Return, *ssa.DebugRef:
			default:
				pure = false
			}
		})
		if !pure || len(fieldOf) == 0 {
			continue
		}
		eachInstr(fn, func(in ssa.Instruction) {
			if b, ok := in.(*ssa.BinOp); ok {
				for _, pr := range [][2]ssa.Value{{b.X, b.Y}, {b.Y, b.X}} {
					if pf, ok := fieldOf[pr[0]]; ok {
						if k, ok := constInt(pr[1]); ok {
							if consts[pf[1]] == nil {
								consts[pf[1]] = map[int64]bool{}
							}
							consts[pf[1]][k] = true
						}
					}
				}
			}
		})
		n++
		key := fnName(fn) + ": symmetric and reflexive"
		// per-field domains
		doms := make([][]int64, st.NumFields())
		total := 1
		for i := range doms {
			set := map[int64]bool{}
			for k := range consts[i] {
				set[k-1], set[k], set[k+1] = true, true, true
			}
			// two further, mutually distinct values
			base := int64(1000)
			set[base], set[base+1] = true, true
			for k := range set {
				doms[i] = append(doms[i], k)
			}
			sortInt64s(doms[i])
			total *= len(doms[i]) * len(doms[i])
		}
		if total > 2000000 {
			c.viol(key, c.P.Pos(fn.Pos()), fmt.Sprintf("domain of %d combinations is too large to enumerate", total))
			continue
		}
		run := func(xv, yv []int64) (bool, bool) {
			s := &sinterp{env: map[ssa.Value]sval{}}
			for v, pf := range fieldOf {
				val := xv[pf[1]]
				if pf[0] == 1 {
					val = yv[pf[1]]
				}
				s.env[v] = wrapTo(v.Type(), svInt(val))
			}
			blk := fn.Blocks[0]
			for steps := 0; steps < 200; steps++ {
				next, ret, ok := s.step(blk, 0)
				if !ok {
					return false, false
				}
				if ret != nil {
					r, ok := s.eval(ret.Results[0])
					return r.b, ok && r.k == 'b'
				}
				blk = next
			}
			return false, false
		}
		nf := st.NumFields()
		xv, yv := make([]int64, nf), make([]int64, nf)
		bad, undecided, cases := "", 0, 0
		var rec func(i int)
		rec = func(i int) {
			if bad != "" {
				return
			}
			if i == 2*nf {
				cases++
				a, ok1 := run(xv, yv)
				b, ok2 := run(yv, xv)
				if !ok1 || !ok2 {
					undecided++
					return
				}
				if a != b {
					bad = fmt.Sprintf("f(x, y) = %v but f(y, x) = %v for x = %v, y = %v (fields in declaration order)", a, b, xv, yv)
				}
				same := true
				for j := range xv {
					if xv[j] != yv[j] {
						same = false
					}
				}
				if same && !a && bad == "" {
					bad = fmt.Sprintf("f(x, x) is false for x = %v", xv)
				}
				return
			}
			f := i % nf
			for _, k := range doms[f] {
				if i < nf {
					xv[f] = k
				} else {
					yv[f] = k
				}
				rec(i + 1)
			}
		}
		rec(0)
		switch {
		case bad != "":
			c.viol(key, c.P.Pos(fn.Pos()), "the equality helper is not an equivalence: "+bad)
		case undecided > 0:
			c.viol(key, c.P.Pos(fn.Pos()), fmt.Sprintf("%d of %d cases could not be decided by abstract interpretation", undecided, cases))
		default:
			c.ok(key, c.P.Pos(fn.Pos()), fmt.Sprintf("%d combinations of field values: symmetric, and true on equal operands", cases))
		}
	}
	c.note("%d pure two-operand predicates on numeric structs", n)
}

// ---------- J8: a recursive function has no scratch buffer outside its own activation ----------

func init() {
	register("J8", "a recursive function keeps no scratch container outside its own activation: a function (or function literal) that can call itself does not empty (`buf[:0]`, `clear(m)`) and refill a slice or map that lives in a variable of an enclosing function, in the package or in a field of an object it was given (the receiver) and then go on reading it after a recursive call; the inner activation refills the same backing array, so the outer one continues with the inner one's data (json.encode of a struct nested in a struct would emit the inner struct's field names for the outer one)", 0, ruleJ8)
	claim("C18", "J8")
	claim("C09", "J8")
	claim("C03", "J8")
}

func ruleJ8(c *Ctx) {
	n := 0
	for _, fn := range c.P.Funcs {
		if !isProdPkg(fnPkgPath(fn)) || len(fn.Blocks) == 0 {
			continue
		}
		// recursive calls: static self calls, or calls of a function value loaded from a captured
		// variable of the function's own signature type (var emit func(...); emit = func(...){ ... emit(v) ... })
		var rec []*ssa.Call
		eachInstr(fn, func(in ssa.Instruction) {
			call, ok := in.(*ssa.Call)
			if !ok {
				return
			}
			if call.Call.StaticCallee() == fn {
				rec = append(rec, call)
				return
			}
			if ld, ok := call.Call.Value.(*ssa.UnOp); ok && ld.Op == token.MUL {
				if fv, ok := ld.X.(*ssa.FreeVar); ok && fv.Parent() == fn && types.Identical(deref(fv.Type()), fn.Signature) {
					rec = append(rec, call)
				}
			}
		})
		if len(rec) == 0 {
			continue
		}
		ord := 0
		// storage outside the activation: a captured variable, a package-level one, or a field of an object
		// the function was given (the receiver's scratch field)
		outerOf := func(v ssa.Value) ssa.Value {
			ld, ok := v.(*ssa.UnOp)
			if !ok || ld.Op != token.MUL {
				switch v.(type) {
				case *ssa.FreeVar, *ssa.Global:
					return v
				}
				return nil
			}
			switch a := ld.X.(type) {
			case *ssa.FreeVar, *ssa.Global:
				return a
			case *ssa.FieldAddr:
				tr := traceAddr(a)
				for _, b := range tr.bases {
					if _, isParam := b.v.(*ssa.Parameter); isParam {
						return a
					}
				}
			}
			return nil
		}
		eachInstr(fn, func(in ssa.Instruction) {
			var sl ssa.Value // the emptied container
			var outer ssa.Value
			switch x := in.(type) {
			case *ssa.Slice:
				if x.High == nil {
					return
				}
				if k, ok := constInt(x.High); !ok || k != 0 {
					return
				}
				sl, outer = x, outerOf(x.X)
			case *ssa.Call:
				if b, ok := x.Call.Value.(*ssa.Builtin); ok && b.Name() == "clear" && len(x.Call.Args) == 1 {
					sl, outer = x.Call.Args[0], outerOf(x.Call.Args[0])
				}
			}
			if sl == nil || outer == nil {
				return
			}
			n++
			ord++
			key := fmt.Sprintf("%s: buffer #%d truncated to zero length", fnName(fn), ord)
			pos := c.P.Pos(in.Pos())
			// values derived from the truncated slice: appends, phis, and what is loaded back from the
			// variable it is stored into
			derived := map[ssa.Value]bool{sl: true}
			for changed := true; changed; {
				changed = false
				eachInstr(fn, func(in2 ssa.Instruction) {
					v, ok := in2.(ssa.Value)
					if ok && derived[v] {
						return
					}
					switch x := in2.(type) {
					case *ssa.Call:
						if b, ok := x.Call.Value.(*ssa.Builtin); ok && b.Name() == "append" && derived[x.Call.Args[0]] {
							derived[x] = true
							changed = true
						}
					case *ssa.Phi:
						for _, e := range x.Edges {
							if derived[e] {
								derived[x] = true
								changed = true
								break
							}
						}
					case *ssa.Slice:
						if derived[x.X] {
							derived[x] = true
							changed = true
						}
					case *ssa.UnOp:
						// a map keeps its identity when it is cleared: every later load of the same field
						// of the same object is the cleared map
						if fo, ok := outer.(*ssa.FieldAddr); ok && x.Op == token.MUL && !derived[x] {
							if fx, ok := x.X.(*ssa.FieldAddr); ok && fx.Field == fo.Field && (fx.X == fo.X || sameOperand(fx.X, fo.X)) {
								if _, isMap := x.Type().Underlying().(*types.Map); isMap {
									derived[x] = true
									changed = true
									return
								}
							}
						}
						if x.Op == token.MUL && x.X == outer && !derived[x] {
							// loaded back after a derived value was stored there
							stored := false
							eachInstr(fn, func(in3 ssa.Instruction) {
								if st, ok := in3.(*ssa.Store); ok && st.Addr == outer && derived[st.Val] {
									stored = true
								}
							})
							if stored {
								derived[x] = true
								changed = true
							}
						}
					}
				})
			}
			// a read of the buffer that can follow a recursive call
			bad := false
			eachInstr(fn, func(in2 ssa.Instruction) {
				var base ssa.Value
				switch x := in2.(type) {
				case *ssa.IndexAddr:
					base = x.X
				case *ssa.Index:
					base = x.X
				case *ssa.Range:
					base = x.X
				case *ssa.Lookup:
					base = x.X
				case *ssa.MapUpdate:
					base = x.Map
				}
				if base == nil || !derived[base] {
					return
				}
				for _, rc := range rec {
					if reachable(in.Block(), rc.Block()) && reachable(rc.Block(), in2.Block()) {
						bad = true
					}
				}
			})
			if bad {
				c.viol(key, pos, "the recursive function refills a buffer that lives outside its activation and reads it again after calling itself: the inner call has overwritten the elements the outer one is still working through")
			} else {
				c.ok(key, pos, "the buffer is not read after a recursive call")
			}
		})
	}
	c.note("%d zero-length re-slicings of outer storage inside recursive functions", n)
}

// ---------- R9: serialised protocol messages are passed on untouched ----------

func init() {
	register("R9", "serialised messages are passed on untouched: in lib/proto the bytes returned by a protobuf Marshal routine reach the Starlark value that is returned only through conversions - they are not handed to any function (a strings/bytes/regexp rewrite that 'normalises' the text also rewrites the contents of string fields, so a value containing the rewritten pattern no longer survives marshal_text/unmarshal_text)", 2, ruleR9)
	claim("C20", "R9")
}

func ruleR9(c *Ctx) {
	n := 0
	for _, fn := range c.P.Funcs {
		if relPkg(fnPkgPath(fn)) != "lib/proto" {
			continue
		}
		ord := 0
		eachInstr(fn, func(in ssa.Instruction) {
			call, ok := in.(*ssa.Call)
			if !ok {
				return
			}
			cal := call.Call.StaticCallee()
			if cal == nil || !strings.HasPrefix(fnPkgPath(cal), "google.golang.org/protobuf/") || !strings.HasPrefix(cal.Name(), "Marshal") {
				return
			}
			res := cal.Signature.Results()
			if res.Len() != 2 || res.At(0).Type().String() != "[]byte" {
				return
			}
			n++
			ord++
			key := fmt.Sprintf("%s: output of %s #%d", fnName(fn), cal.Name(), ord)
			bad := ""
			var at token.Pos
			seen := map[ssa.Value]bool{}
			var walk func(v ssa.Value, d int)
			walk = func(v ssa.Value, d int) {
				if seen[v] || d > 10 || v.Referrers() == nil {
					return
				}
				seen[v] = true
				for _, r := range *v.Referrers() {
					switch x := r.(type) {
					case *ssa.Extract:
						if x.Index == 0 {
							walk(x, d+1)
						}
					case *ssa.Convert:
						walk(x, d+1)
					case *ssa.ChangeType:
						walk(x, d+1)
					case *ssa.MakeInterface:
						walk(x, d+1)
					case *ssa.Phi:
						walk(x, d+1)
					case *ssa.Return, *ssa.DebugRef:
					case ssa.CallInstruction:
						isArg := false
						for _, a := range x.Common().Args {
							if a == v {
								isArg = true
							}
						}
						if isArg {
							if b, ok := x.Common().Value.(*ssa.Builtin); ok && (b.Name() == "len" || b.Name() == "cap") {
								continue
							}
							// a helper of the module: follow the bytes into it and out again
							if cal := x.Common().StaticCallee(); cal != nil && strings.HasPrefix(fnPkgPath(cal), modPath) && len(cal.Blocks) > 0 && len(cal.Params) == len(x.Common().Args) {
								for i, a := range x.Common().Args {
									if a == v {
										walk(cal.Params[i], d+1)
									}
								}
								if cv, ok := x.(*ssa.Call); ok {
									walk(cv, d+1)
								}
								continue
							}
							bad = calleeName(x)
							at = x.Pos()
						}
					case *ssa.Slice, *ssa.IndexAddr, *ssa.Index, *ssa.Store:
						bad = fmt.Sprintf("%T", r)
						at = r.Pos()
					}
				}
			}
			walk(call, 0)
			if bad == "" {
				c.ok(key, c.P.Pos(call.Pos()), "reaches the result through conversions only")
			} else {
				c.viol(key, c.P.Pos(at), "the marshalled bytes are processed by "+bad+" before they are returned: whatever it rewrites in the syntax it also rewrites inside field values")
			}
		})
	}
	c.note("%d protobuf Marshal calls in lib/proto", n)
}

// ---------- J9: structural characters are looked for after skipping white space ----------

func init() {
	register("J9", "separators are recognised after skipping white space: in json.decode a structural character that may be preceded by white space (',' ':' ']' '}') is compared with the byte delivered by the decoder's skip-space-then-peek helper (a call result). A fast path may compare a byte indexed directly out of the input with such a character, but then, where that test fails, the same character must still be compared with the helper's byte further on; otherwise `[1,2]` is accepted and `[1 , 2]`, which RFC 8259 allows, is rejected", 4, ruleJ9)
	claim("C18", "J9")
}

func ruleJ9(c *Ctx) {
	dec := c.P.Func("lib/json", "decode")
	if dec == nil {
		c.anchorFail("lib/json.decode not found")
		return
	}
	structural := map[int64]bool{',': true, ':': true, ']': true, '}': true}
	n := 0
	var visit func(fn *ssa.Function)
	visit = func(fn *ssa.Function) {
		type cmp struct {
			b   *ssa.BinOp
			k   int64
			raw bool
		}
		var cmps []cmp
		eachInstr(fn, func(in ssa.Instruction) {
			b, ok := in.(*ssa.BinOp)
			if !ok || (b.Op != token.EQL && b.Op != token.NEQ) {
				return
			}
			for _, pr := range [][2]ssa.Value{{b.X, b.Y}, {b.Y, b.X}} {
				k, isK := constInt(pr[1])
				if !isK || !structural[k] {
					continue
				}
				if bt, ok := pr[0].Type().Underlying().(*types.Basic); !ok || bt.Kind() != types.Uint8 {
					continue
				}
				raw := false
				seen := map[ssa.Value]bool{}
				var walk func(v ssa.Value, d int)
				walk = func(v ssa.Value, d int) {
					if seen[v] || d > 8 {
						return
					}
					seen[v] = true
					switch x := v.(type) {
					case *ssa.Phi:
						for _, e := range x.Edges {
							walk(e, d+1)
						}
					case *ssa.Lookup, *ssa.Index:
						raw = true
					case *ssa.UnOp:
						if x.Op == token.MUL {
							if _, ok := x.X.(*ssa.IndexAddr); ok {
								raw = true
							}
							// a variable shared with closures: what is stored into it
							if refs := x.X.Referrers(); refs != nil {
								for _, r := range *refs {
									if st, ok := r.(*ssa.Store); ok && st.Addr == x.X {
										walk(st.Val, d+1)
									}
								}
							}
						}
					}
				}
				walk(pr[0], 0)
				cmps = append(cmps, cmp{b, k, raw})
			}
		})
		ord := map[int64]int{}
		for _, cm := range cmps {
			n++
			ord[cm.k]++
			key := fmt.Sprintf("%s: test for %q #%d", fnName(fn), rune(cm.k), ord[cm.k])
			pos := c.P.Pos(cm.b.Pos())
			if !cm.raw {
				c.ok(key, pos, "the byte comes from the skip-space-then-peek helper")
				continue
			}
			// the fast path: where it fails, the helper's byte must still be compared with the same character
			okAll := true
			found := false
			if refs := cm.b.Referrers(); refs != nil {
				for _, r := range *refs {
					ifi, ok := r.(*ssa.If)
					if !ok {
						continue
					}
					found = true
					fail := ifi.Block().Succs[1]
					if cm.b.Op == token.NEQ {
						fail = ifi.Block().Succs[0]
					}
					again := false
					for _, o := range cmps {
						if !o.raw && o.k == cm.k && reachable(fail, o.b.Block()) {
							again = true
						}
					}
					if !again {
						okAll = false
					}
				}
			}
			if found && okAll {
				c.ok(key, pos, "a fast path: where it fails the helper's byte is still compared with the same character")
			} else {
				c.viol(key, pos, fmt.Sprintf("the decoder compares a byte taken directly from the input with %q and, where that fails, never compares the byte found after skipping white space with it: white space before the separator, which JSON allows, makes the document be rejected", rune(cm.k)))
			}
		}
	}
	var fns []*ssa.Function
	for f := range pkgReach(c.P, "lib/json", "decode") {
		fns = append(fns, f)
	}
	sort.Slice(fns, func(i, j int) bool { return fnName(fns[i]) < fnName(fns[j]) })
	for _, f := range fns {
		visit(f)
	}
	c.note("%d comparisons with structural characters in json.decode", n)
}

// ---------- N13: sizes, counts and shift distances chosen by the script are not negative ----------

func init() {
	register("N13", "a size, repeat count or shift distance that comes straight from the script is not negative when it is used: make with a negative length, strings.Repeat/bytes.Repeat with a negative count and a shift by a negative signed distance all panic. For every such operand that is a script-supplied integer (an unpacked Go int, the result of AsInt32/Int64, possibly through phis and conversions, but not computed) the set of representative values that can reach the use - every constant the value is compared with and its neighbours, followed through helper results and call sites - contains no negative number", 0, ruleN13)
	claim("C02", "N13")
}

func ruleN13(c *Ctx) {
	n := 0
	dom := newRepDomain(c.P, 0)
	for _, fn := range c.P.Funcs {
		if !isProdPkg(fnPkgPath(fn)) {
			continue
		}
		taint := scriptIntTaint(fn)
		ord := map[string]int{}
		judge := func(what string, v ssa.Value, at ssa.Instruction) {
			if _, isK := v.(*ssa.Const); isK {
				return
			}
			src := taint[v]
			if src == "" {
				return
			}
			bt, ok := v.Type().Underlying().(*types.Basic)
			if !ok || bt.Info()&types.IsInteger == 0 || bt.Info()&types.IsUnsigned != 0 {
				return
			}
			n++
			kb := fmt.Sprintf("%s: %s", fnName(fn), what)
			ord[kb]++
			key := kb
			if ord[kb] > 1 {
				key = fmt.Sprintf("%s #%d", kb, ord[kb])
			}
			pos := c.P.Pos(at.Pos())
			dom.addConstsOf(fn)
			dom.valueSetAt(v, at.Block(), map[ssa.Value]bool{}, 0)
			set, _ := dom.valueSetAt(v, at.Block(), map[ssa.Value]bool{}, 0)
			var neg []int64
			for r := range set {
				if r < 0 {
					neg = append(neg, r)
				}
			}
			if len(neg) == 0 {
				c.ok(key, pos, "no negative representative of the script's integer ("+src+") reaches the use")
				return
			}
			if r, ok := w3Exceptions[fnName(outermost(fn))]; ok {
				c.except(key, pos, r)
				return
			}
			sortInt64s(neg)
			c.viol(key, pos, fmt.Sprintf("the script's integer (%s) can be negative here (representative %d passes every test on the way): Go panics on a negative %s", src, neg[len(neg)-1], what))
		}
		eachInstr(fn, func(in ssa.Instruction) {
			switch x := in.(type) {
			case *ssa.MakeSlice:
				judge("length of make", x.Len, x)
				if x.Cap != x.Len {
					judge("capacity of make", x.Cap, x)
				}
			case *ssa.BinOp:
				if x.Op == token.SHL || x.Op == token.SHR {
					judge("shift distance", x.Y, x)
				}
			case *ssa.Call:
				if cal := x.Call.StaticCallee(); cal != nil {
					switch cal.String() {
					case "strings.Repeat", "bytes.Repeat":
						judge("repeat count", x.Call.Args[1], x)
					case "(*strings.Builder).Grow", "(*bytes.Buffer).Grow", "slices.Grow":
						judge("growth", x.Call.Args[1], x)
					}
				}
			}
		})
	}
	c.note("%d sizes, counts and shift distances that are script integers", n)
}

// lhsIsBlank: in the assignment or definition whose right-hand side is the call that produced the
// tuple, is the operand that receives result #ex.Index the blank identifier (or is there no such
// assignment at all, as in an expression statement)?
func lhsIsBlank(p *Prog, ex *ssa.Extract) bool {
	call, ok := ex.Tuple.(*ssa.Call)
	if !ok || call.Pos() == token.NoPos {
		return true
	}
	for _, pk := range p.Pkgs {
		for _, f := range pk.Syntax {
			if call.Pos() < f.Pos() || call.Pos() > f.End() {
				continue
			}
			path, _ := astutil.PathEnclosingInterval(f, call.Pos(), call.Pos())
			for _, n := range path {
				switch x := n.(type) {
				case *ast.AssignStmt:
					if len(x.Rhs) == 1 && ex.Index < len(x.Lhs) {
						id, ok := x.Lhs[ex.Index].(*ast.Ident)
						return ok && id.Name == "_"
					}
					return true
				case *ast.ValueSpec:
					if len(x.Values) == 1 && ex.Index < len(x.Names) {
						return x.Names[ex.Index].Name == "_"
					}
					return true
				case *ast.ExprStmt, *ast.ReturnStmt, *ast.BlockStmt:
					return true
				}
			}
			return true
		}
	}
	return true
}

// pkgReach: the functions of one package of the module that the named function reaches through static
// calls and function literals without leaving the package (the closures of json.decode, or the methods
// of a decoder type it has been rewritten into).
func pkgReach(p *Prog, pkgRel, root string) map[*ssa.Function]bool {
	out := map[*ssa.Function]bool{}
	r := p.Func(pkgRel, root)
	if r == nil {
		return out
	}
	work := []*ssa.Function{r}
	for len(work) > 0 {
		f := work[0]
		work = work[1:]
		if out[f] || relPkg(fnPkgPath(f)) != pkgRel {
			continue
		}
		out[f] = true
		work = append(work, f.AnonFuncs...)
		eachInstr(f, func(in ssa.Instruction) {
			for _, op := range in.Operands(nil) {
				if g, ok := (*op).(*ssa.Function); ok {
					work = append(work, g)
				}
			}
			if ci, ok := in.(ssa.CallInstruction); ok {
				if g := ci.Common().StaticCallee(); g != nil {
					work = append(work, g)
				}
			}
		})
	}
	return out
}

// ---------- N14: exact rational arithmetic is reached by finite floats only ----------

func init() {
	register("N14", "a float is converted to an exact rational only when it is finite: (Float).rational() returns nil for NaN and the infinities, and (*big.Rat).Cmp and friends dereference their operands. For every call of rational() on a float whose result is used without a nil test, the float is varied over representatives of every region (NaN, -Inf, the largest negative and positive finite values, -1, 0, 1, +Inf) and the branches that test it - comparisons with itself or constants, math.IsInf, math.IsNaN, finiteness predicates of the module, interpreted abstractly - must keep NaN and both infinities away from the call: `1 < float('-inf')` must be False, not a nil dereference", 2, ruleN14)
	claim("C02", "N14")
	claim("C11", "N14")
}

func floatRepEval(cond ssa.Value, v ssa.Value, r float64) (val, ok bool) {
	isV := func(x ssa.Value) bool {
		for i := 0; i < 4; i++ {
			if x == v {
				return true
			}
			switch y := x.(type) {
			case *ssa.ChangeType:
				x = y.X
			case *ssa.Convert:
				if bt, isB := y.X.Type().Underlying().(*types.Basic); isB && bt.Info()&types.IsFloat != 0 {
					x = y.X
				} else {
					return false
				}
			default:
				return false
			}
		}
		return false
	}
	cv, neg := stripNot(cond)
	switch x := cv.(type) {
	case *ssa.BinOp:
		var a, b float64
		switch {
		case isV(x.X) && isV(x.Y):
			a, b = r, r
		case isV(x.X):
			k, isK := x.Y.(*ssa.Const)
			if !isK || k.Value == nil {
				return false, false
			}
			a, b = r, k.Float64()
		case isV(x.Y):
			k, isK := x.X.(*ssa.Const)
			if !isK || k.Value == nil {
				return false, false
			}
			a, b = k.Float64(), r
		default:
			return false, false
		}
		var res bool
		switch x.Op {
		case token.EQL:
			res = a == b
		case token.NEQ:
			res = a != b
		case token.LSS:
			res = a < b
		case token.LEQ:
			res = a <= b
		case token.GTR:
			res = a > b
		case token.GEQ:
			res = a >= b
		default:
			return false, false
		}
		return res != neg, true
	case *ssa.Call:
		cal := x.Call.StaticCallee()
		if cal == nil || len(x.Call.Args) == 0 || !isV(x.Call.Args[0]) {
			return false, false
		}
		switch cal.String() {
		case "math.IsNaN":
			return math.IsNaN(r) != neg, true
		case "math.IsInf":
			if k, ok := constInt(x.Call.Args[1]); ok {
				return math.IsInf(r, int(k)) != neg, true
			}
			return false, false
		}
		if strings.HasPrefix(fnPkgPath(cal), modPath) && len(cal.Params) == 1 {
			if res, ok := sinterpFunc(cal, svFloat(r)); ok && res.k == 'b' {
				return res.b != neg, true
			}
		}
	}
	return false, false
}

func floatRepReach(from, to *ssa.BasicBlock, v ssa.Value, r float64) bool {
	return reachUnder(from, to, func(cond ssa.Value) (bool, bool) { return floatRepEval(cond, v, r) })
}

func ruleN14(c *Ctx) {
	n := 0
	reps := []float64{math.NaN(), math.Inf(-1), -math.MaxFloat64, -1, 0, 1, math.MaxFloat64, math.Inf(1)}
	names := []string{"NaN", "-Inf", "-MaxFloat64", "-1", "0", "1", "MaxFloat64", "+Inf"}
	calls := map[*ssa.Function][]*ssa.Call{}
	for _, fn := range c.P.Funcs {
		eachInstr(fn, func(in ssa.Instruction) {
			if call, ok := in.(*ssa.Call); ok {
				if cal := call.Call.StaticCallee(); cal != nil {
					calls[cal] = append(calls[cal], call)
				}
			}
		})
	}
	// which non-finite representatives can v be at block `at`?
	var nonFinite func(v ssa.Value, at *ssa.BasicBlock, depth int) []string
	nonFinite = func(v ssa.Value, at *ssa.BasicBlock, depth int) []string {
		var out []string
		add := func(s []string) {
			for _, x := range s {
				dup := false
				for _, y := range out {
					if x == y {
						dup = true
					}
				}
				if !dup {
					out = append(out, x)
				}
			}
		}
		// strip conversions between float types
		for {
			if ct, ok := v.(*ssa.ChangeType); ok {
				v = ct.X
				continue
			}
			break
		}
		if k, ok := v.(*ssa.Const); ok && k.Value != nil {
			f := k.Float64()
			if math.IsNaN(f) || math.IsInf(f, 0) {
				return []string{"constant"}
			}
			return nil
		}
		var defBlock *ssa.BasicBlock
		base := map[int]bool{}
		switch x := v.(type) {
		case *ssa.Parameter:
			fn := x.Parent()
			defBlock = fn.Blocks[0]
			idx := -1
			for i, p := range fn.Params {
				if p == x {
					idx = i
				}
			}
			exported := fn.Object() != nil && fn.Object().Exported()
			if idx >= 0 && !exported && len(calls[fn]) > 0 && depth < 3 {
				ok := true
				var fromCallers []string
				for _, call := range calls[fn] {
					if idx >= len(call.Call.Args) {
						ok = false
						continue
					}
					fromCallers = append(fromCallers, nonFinite(call.Call.Args[idx], call.Block(), depth+1)...)
				}
				if ok {
					for i, nm := range names {
						for _, f := range fromCallers {
							if f == nm || f == "constant" {
								base[i] = true
							}
						}
					}
					break
				}
			}
			for i := range reps {
				base[i] = true
			}
		default:
			if in, ok := v.(ssa.Instruction); ok {
				defBlock = in.Block()
			}
			for i := range reps {
				base[i] = true
			}
		}
		var got []string
		for i, r := range reps {
			if !base[i] || !(math.IsNaN(r) || math.IsInf(r, 0)) {
				continue
			}
			if defBlock == nil || defBlock.Parent() != at.Parent() || floatRepReach(defBlock, at, v, r) {
				got = append(got, names[i])
			}
		}
		add(got)
		return out
	}
	for _, fn := range c.P.Funcs {
		if !isProdPkg(fnPkgPath(fn)) {
			continue
		}
		ord := 0
		eachInstr(fn, func(in ssa.Instruction) {
			call, ok := in.(*ssa.Call)
			if !ok {
				return
			}
			cal := call.Call.StaticCallee()
			if cal == nil || cal.Name() != "rational" || cal.Signature.Recv() == nil || len(call.Call.Args) == 0 {
				return
			}
			if bt, ok := cal.Signature.Recv().Type().Underlying().(*types.Basic); !ok || bt.Info()&types.IsFloat == 0 {
				return
			}
			n++
			ord++
			key := fmt.Sprintf("%s: rational() of a float #%d", fnName(fn), ord)
			pos := c.P.Pos(call.Pos())
			// a result that is tested for nil before use needs no guard
			if refs := call.Referrers(); refs != nil {
				for _, r := range *refs {
					if b, ok := r.(*ssa.BinOp); ok {
						if x, _, isNil := nilTest(b); isNil && x == ssa.Value(call) {
							c.ok(key, pos, "the result is tested for nil")
							return
						}
					}
				}
			}
			bad := nonFinite(call.Call.Args[0], call.Block(), 0)
			if len(bad) == 0 {
				c.ok(key, pos, "NaN and the infinities cannot reach the call")
			} else {
				c.viol(key, pos, fmt.Sprintf("the float can be %s when rational() is called (it passes every test on the way): the result is nil and the exact comparison or division that follows dereferences it, crashing the host", strings.Join(bad, " or ")))
			}
		})
	}
	c.note("%d calls of (Float).rational", n)
}

// ---------- F11: the frozen flag is never copied with its owner ----------

func init() {
	register("F11", "a frozen flag is set by Freeze and by nothing else: no value of a struct type that carries a frozen flag (List, Dict's hashtable, Set, Struct, Message ...) is copied wholesale (`z := *x`); the copy would start its life marked frozen (or share an iteration count), so when the module that built it finishes, Freeze returns at once and never descends into the new value's other, still mutable, components", 0, ruleF11)
	claim("C04", "F11")
	claim("C05", "F11")
}

func ruleF11(c *Ctx) {
	hasFrozen := func(t types.Type) bool {
		st, ok := t.Underlying().(*types.Struct)
		if !ok {
			return false
		}
		for i := 0; i < st.NumFields(); i++ {
			if st.Field(i).Name() == "frozen" {
				if bt, ok := st.Field(i).Type().Underlying().(*types.Basic); ok && bt.Kind() == types.Bool {
					return true
				}
			}
		}
		return false
	}
	n := 0
	for _, fn := range c.P.Funcs {
		if !isProdPkg(fnPkgPath(fn)) {
			continue
		}
		ord := 0
		eachInstr(fn, func(in ssa.Instruction) {
			ld, ok := in.(*ssa.UnOp)
			if !ok || ld.Op != token.MUL || !hasFrozen(ld.Type()) {
				return
			}
			if _, isNamed := ld.Type().(*types.Named); !isNamed {
				return
			}
			// a load of the zero value just allocated (composite literal initialisation) is not a copy
			if al, ok := ld.X.(*ssa.Alloc); ok && !al.Heap {
				return
			}
			n++
			ord++
			key := fmt.Sprintf("%s: whole-value copy of %s #%d", fnName(fn), typeShort(ld.Type()), ord)
			c.viol(key, c.P.Pos(ld.Pos()), "a value carrying a frozen flag is copied as a whole: the copy inherits the flag (and the iteration count) of the original, so a copy of a frozen value is never frozen properly - Freeze sees the flag and returns without visiting the copy's mutable components")
		})
	}
	c.note("%d whole-value copies of flag-carrying structs", n)
}

// ---------- A12: the 'mandatory' marker never leaves the defaults tuple ----------

func init() {
	register("A12", "the marker for a required keyword-only parameter never reaches a program: Function.defaults holds a private sentinel value in the slots of keyword-only parameters that have no default. Every element read out of that tuple is tested against the sentinel type, and whatever else is done with it (bound to a parameter, returned to the host) happens only where the test said no; the tuple as a whole is only measured, indexed and frozen, never copied or ranged over in bulk - a nullary-call fast path that does copy(locals, fn.defaults) would make f() succeed with k bound to the marker", 2, ruleA12)
	claim("C08", "A12")
}

func ruleA12(c *Ctx) {
	n := 0
	isSentinelTest := func(in ssa.Instruction, e ssa.Value) bool {
		switch x := in.(type) {
		case *ssa.TypeAssert:
			_, tn := namedOf(x.AssertedType)
			return x.X == e && x.CommaOk && tn == "mandatory"
		case *ssa.Call:
			cal := x.Call.StaticCallee()
			if cal == nil || len(x.Call.Args) != 1 || x.Call.Args[0] != e {
				return false
			}
			for _, ta := range cal.TypeArgs() {
				if _, tn := namedOf(ta); tn == "mandatory" {
					return true
				}
			}
		}
		return false
	}
	// the tuple: every load of the field, and every parameter of a module function that receives it
	type src struct {
		fn *ssa.Function
		v  ssa.Value
	}
	var work []src
	seenSrc := map[ssa.Value]bool{}
	for _, fn := range c.P.Funcs {
		if relPkg(fnPkgPath(fn)) != "starlark" {
			continue
		}
		fn := fn
		eachInstr(fn, func(in ssa.Instruction) {
			ld, ok := in.(*ssa.UnOp)
			if !ok || ld.Op != token.MUL {
				return
			}
			fa, ok := ld.X.(*ssa.FieldAddr)
			if !ok {
				return
			}
			if _, tn := namedOf(fa.X.Type()); tn != "Function" {
				return
			}
			if deref(fa.X.Type()).Underlying().(*types.Struct).Field(fa.Field).Name() != "defaults" {
				return
			}
			if !seenSrc[ld] {
				seenSrc[ld] = true
				work = append(work, src{fn, ld})
			}
		})
	}
	ords := map[*ssa.Function]int{}
	for wi := 0; wi < len(work); wi++ {
		fn, ld := work[wi].fn, work[wi].v
		{
			refs := ld.Referrers()
			if refs == nil {
				continue
			}
			for _, r := range *refs {
				var elem ssa.Value
				switch x := r.(type) {
				case *ssa.DebugRef:
					continue
				case *ssa.Call:
					if b, ok := x.Call.Value.(*ssa.Builtin); ok && b.Name() == "len" {
						continue
					}
					if cal := x.Call.StaticCallee(); cal != nil && cal.Name() == "Freeze" {
						continue
					}
					if cal := x.Call.StaticCallee(); cal != nil && len(cal.Blocks) > 0 && relPkg(fnPkgPath(cal)) == "starlark" {
						for ai, a := range x.Call.Args {
							if a == ld && ai < len(cal.Params) && !seenSrc[cal.Params[ai]] {
								seenSrc[cal.Params[ai]] = true
								work = append(work, src{cal, cal.Params[ai]})
							}
						}
						continue
					}
				case *ssa.Index:
					elem = x
				case *ssa.IndexAddr:
					if er := x.Referrers(); er != nil {
						for _, rr := range *er {
							if l, ok := rr.(*ssa.UnOp); ok && l.Op == token.MUL {
								elem = l
							}
						}
					}
				}
				if elem == nil {
					// only the bulk reads count: copy/append of the tuple, ranging over it, slicing it,
					// returning it; handing it to a helper that freezes it is not a read of its elements
					bulk := false
					switch x := r.(type) {
					case *ssa.Call:
						if b, ok := x.Call.Value.(*ssa.Builtin); ok && (b.Name() == "copy" || b.Name() == "append") {
							bulk = true
						}
					case *ssa.Range, *ssa.Slice, *ssa.Return:
						bulk = true
					}
					if !bulk {
						continue
					}
				}
				n++
				ords[fn]++
				ord := ords[fn]
				key := fmt.Sprintf("%s: use of Function.defaults #%d", fnName(fn), ord)
				pos := c.P.Pos(r.Pos())
				if elem == nil {
					c.viol(key, pos, fmt.Sprintf("the defaults tuple is used as a whole (%T): its sentinel entries for required keyword-only parameters are not filtered out and reach the program as ordinary values", r))
					continue
				}
				// the element, also seen through a conversion to another interface type (is[T](any(v)))
				aliases := []ssa.Value{elem}
				if er := elem.Referrers(); er != nil {
					for _, rr := range *er {
						if ci, ok := rr.(*ssa.ChangeInterface); ok {
							aliases = append(aliases, ci)
						}
					}
				}
				var uses []ssa.Instruction // (instruction, through which alias)
				var usesOf []ssa.Value
				for _, a := range aliases {
					if ar := a.Referrers(); ar != nil {
						for _, rr := range *ar {
							if ci, ok := rr.(*ssa.ChangeInterface); ok && a == elem {
								_ = ci
								continue
							}
							uses = append(uses, rr)
							usesOf = append(usesOf, a)
						}
					}
				}
				// the test of this element
				var testIf *ssa.If
				var testOnTrue bool // the branch on which the element IS the sentinel
				{
					for ui, rr := range uses {
						if !isSentinelTest(rr, usesOf[ui]) {
							continue
						}
						var cond ssa.Value = rr.(ssa.Value)
						if ta, ok := rr.(*ssa.TypeAssert); ok {
							if tr := ta.Referrers(); tr != nil {
								for _, x := range *tr {
									if ex, ok := x.(*ssa.Extract); ok && ex.Index == 1 {
										cond = ex
									}
								}
							}
						}
						if cr := cond.Referrers(); cr != nil {
							for _, x := range *cr {
								if ifi, ok := x.(*ssa.If); ok {
									testIf, testOnTrue = ifi, true
								}
							}
						}
					}
				}
				if testIf == nil {
					c.viol(key, pos, "an element of the defaults tuple is used without being tested against the 'mandatory' sentinel")
					continue
				}
				bad := false
				{
					for ui, rr := range uses {
						elem := usesOf[ui]
						if isSentinelTest(rr, elem) {
							continue
						}
						if _, dbg := rr.(*ssa.DebugRef); dbg {
							continue
						}
						okEdge := false
						for _, pc := range pathConds(rr.Block()) {
							if pc.If == testIf && pc.Branch != testOnTrue {
								okEdge = true
							}
						}
						if phi, isPhi := rr.(*ssa.Phi); isPhi {
							// judged on the incoming edge
							okEdge = true
							for i, e := range phi.Edges {
								if e != elem {
									continue
								}
								edgeOK := false
								p := phi.Block().Preds[i]
								conds := pathConds(p)
								if len(p.Instrs) > 0 {
									if ifi, ok := p.Instrs[len(p.Instrs)-1].(*ssa.If); ok && p.Succs[0] != p.Succs[1] {
										conds = append(conds, pathCond{ifi, p.Succs[0] == phi.Block()})
									}
								}
								for _, pc := range conds {
									if pc.If == testIf && pc.Branch != testOnTrue {
										edgeOK = true
									}
								}
								if !edgeOK {
									okEdge = false
								}
							}
						}
						if !okEdge {
							bad = true
						}
					}
				}
				if bad {
					c.viol(key, pos, "an element of the defaults tuple is bound or returned on a path where the test against the 'mandatory' sentinel has not excluded it")
				} else {
					c.ok(key, pos, "tested against the sentinel; used only where the test said no")
				}
			}
		}
	}
	c.note("%d uses of Function.defaults", n)
}

// ---------- I15: big.Int.Int64/Uint64 are applied to representable values only ----------

func init() {
	register("I15", "the machine-word view of a big integer is taken only when it is exact: (*big.Int).Int64 and Uint64 are undefined (they wrap) for values outside the type's range. A call whose receiver is tested with IsInt64/IsUint64 on the way is fine; where the receiver is a parameter of the enclosing function (bigintToInt64, isSmall, MakeBigInt), the function is interpreted abstractly with the parameter set to each of fifteen boundary values (0, +-1, +-2^31, +-2^63, +-2^64 and their neighbours) - method results such as Sign, BitLen, Cmp with the package's limit constants, IsInt64 are computed on the representative, helper predicates are interpreted in turn, branches on anything else are explored both ways - and no execution may reach Int64/Uint64 with a value that does not fit: accepting +2^63 as int64 would make len(range(1<<63)) zero", 3, ruleI15)
	claim("C10", "I15")
	claim("C08", "I15")
}

type bval struct {
	k byte // 'i' int64/bool-as-int, 'B' big, 0 unknown
	i int64
	b *big.Int
}

type bigRun struct {
	p       *Prog
	globals map[*ssa.Global]*big.Int
	bad     map[*ssa.Call]string // call site -> representative that must not reach it
	budget  int
}

func (r *bigRun) evalCall(call *ssa.Call, env map[ssa.Value]bval, depth int) bval {
	cal := call.Call.StaticCallee()
	if cal == nil {
		return bval{}
	}
	args := make([]bval, len(call.Call.Args))
	for i, a := range call.Call.Args {
		args[i] = r.eval(a, env)
	}
	name := cal.String()
	if strings.HasPrefix(name, "(*math/big.Int).") && len(args) > 0 && args[0].k == 'B' {
		x := args[0].b
		switch cal.Name() {
		case "Sign":
			return bval{k: 'i', i: int64(x.Sign())}
		case "BitLen":
			return bval{k: 'i', i: int64(x.BitLen())}
		case "IsInt64":
			return bval{k: 'i', i: b2i64(x.IsInt64())}
		case "IsUint64":
			return bval{k: 'i', i: b2i64(x.IsUint64())}
		case "Cmp":
			if len(args) > 1 && args[1].k == 'B' {
				return bval{k: 'i', i: int64(x.Cmp(args[1].b))}
			}
		case "Int64":
			if !x.IsInt64() {
				r.bad[call] = x.String()
			}
			return bval{k: 'i', i: x.Int64()}
		case "Uint64":
			if !x.IsUint64() {
				r.bad[call] = x.String()
			}
			return bval{k: 'i', i: int64(x.Uint64())}
		}
		return bval{}
	}
	// a helper of the module given the big value: interpret it for its result
	if strings.HasPrefix(fnPkgPath(cal), modPath) && len(cal.Blocks) > 0 && depth < 3 && len(cal.Params) == len(args) {
		hasBig := false
		for _, a := range args {
			if a.k == 'B' {
				hasBig = true
			}
		}
		if hasBig {
			sub := map[ssa.Value]bval{}
			for i, p := range cal.Params {
				sub[p] = args[i]
			}
			rets := r.run(cal, sub, depth+1)
			if len(rets) == 1 {
				return rets[0]
			}
		}
	}
	return bval{}
}

func b2i64(b bool) int64 {
	if b {
		return 1
	}
	return 0
}

func (r *bigRun) eval(v ssa.Value, env map[ssa.Value]bval) bval {
	if x, ok := env[v]; ok {
		return x
	}
	switch x := v.(type) {
	case *ssa.Const:
		if x.Value == nil {
			return bval{}
		}
		switch x.Value.Kind() {
		case constant.Bool:
			return bval{k: 'i', i: b2i64(constant.BoolVal(x.Value))}
		case constant.Int:
			if i, ok := constant.Int64Val(x.Value); ok {
				return bval{k: 'i', i: i}
			}
		}
	case *ssa.UnOp:
		if x.Op == token.MUL {
			if g, ok := x.X.(*ssa.Global); ok {
				if b, ok := r.globals[g]; ok {
					return bval{k: 'B', b: b}
				}
			}
		}
	}
	return bval{}
}

// run explores fn from its entry; it returns the distinct values of the first result it can determine
// (an empty or multi-element slice means "not a single known value").
func (r *bigRun) run(fn *ssa.Function, env map[ssa.Value]bval, depth int) []bval {
	var rets []bval
	unknownRet := false
	var walk func(b, prev *ssa.BasicBlock, env map[ssa.Value]bval, steps int)
	walk = func(b, prev *ssa.BasicBlock, env map[ssa.Value]bval, steps int) {
		if steps > 60 || r.budget <= 0 {
			unknownRet = true
			return
		}
		r.budget--
		for _, in := range b.Instrs {
			switch x := in.(type) {
			case *ssa.Phi:
				for i, p := range b.Preds {
					if p == prev {
						env[x] = r.eval(x.Edges[i], env)
					}
				}
			case *ssa.Call:
				env[x] = r.evalCall(x, env, depth)
			case *ssa.Extract:
				if x.Index == 0 {
					env[x] = r.eval(x.Tuple, env)
				}
			case *ssa.Convert:
				a := r.eval(x.X, env)
				if a.k == 'i' {
					if bt := basicOf(x.Type()); bt != nil && bt.Info()&types.IsInteger != 0 {
						env[x] = bval{k: 'i', i: wrapTo(x.Type(), svInt(a.i)).i}
						if bt.Info()&types.IsUnsigned != 0 {
							env[x] = bval{} // unsigned values are not modelled beyond comparisons with themselves
						}
					}
				}
			case *ssa.ChangeType:
				env[x] = r.eval(x.X, env)
			case *ssa.UnOp:
				a := r.eval(x.X, env)
				switch {
				case x.Op == token.NOT && a.k == 'i':
					env[x] = bval{k: 'i', i: 1 - a.i}
				case x.Op == token.SUB && a.k == 'i':
					env[x] = bval{k: 'i', i: -a.i}
				case x.Op == token.MUL:
					if v := r.eval(x, env); v.k != 0 {
						env[x] = v
					}
				}
			case *ssa.BinOp:
				a, bb := r.eval(x.X, env), r.eval(x.Y, env)
				if a.k == 'i' && bb.k == 'i' {
					var res int64
					ok := true
					switch x.Op {
					case token.EQL:
						res = b2i64(a.i == bb.i)
					case token.NEQ:
						res = b2i64(a.i != bb.i)
					case token.LSS:
						res = b2i64(a.i < bb.i)
					case token.LEQ:
						res = b2i64(a.i <= bb.i)
					case token.GTR:
						res = b2i64(a.i > bb.i)
					case token.GEQ:
						res = b2i64(a.i >= bb.i)
					case token.ADD:
						res = a.i + bb.i
					case token.SUB:
						res = a.i - bb.i
					case token.AND:
						res = a.i & bb.i
					case token.OR:
						res = a.i | bb.i
					default:
						ok = false
					}
					if ok {
						env[x] = bval{k: 'i', i: res}
					}
				}
			case *ssa.If:
				cnd := r.eval(x.Cond, env)
				if cnd.k == 'i' {
					if cnd.i != 0 {
						walk(b.Succs[0], b, env, steps+1)
					} else {
						walk(b.Succs[1], b, env, steps+1)
					}
					return
				}
				for _, s := range b.Succs {
					cp := make(map[ssa.Value]bval, len(env))
					for k, v := range env {
						cp[k] = v
					}
					walk(s, b, cp, steps+1)
				}
				return
			case *ssa.Jump:
				walk(b.Succs[0], b, env, steps+1)
				return
			case *ssa.Return:
				if len(x.Results) > 0 {
					v := r.eval(x.Results[0], env)
					if v.k == 0 {
						unknownRet = true
					} else {
						dup := false
						for _, o := range rets {
							if o.k == v.k && o.i == v.i && (o.k != 'B' || o.b.Cmp(v.b) == 0) {
								dup = true
							}
						}
						if !dup {
							rets = append(rets, v)
						}
					}
				}
				return
			case *ssa.Panic:
				return
			}
		}
	}
	walk(fn.Blocks[0], nil, env, 0)
	if unknownRet {
		return nil
	}
	return rets
}

func ruleI15(c *Ctx) {
	// the package's big constants: globals assigned new(big.Int).SetInt64(k) / big.NewInt(k) in init
	globals := map[*ssa.Global]*big.Int{}
	var inits []*ssa.Function
	inits = append(inits, c.P.InitFuncs...)
	for _, fn := range c.P.Funcs {
		if isProdPkg(fnPkgPath(fn)) && strings.HasPrefix(fn.Name(), "init") {
			inits = append(inits, fn)
		}
	}
	for _, fn := range inits {
		eachInstr(fn, func(in ssa.Instruction) {
			st, ok := in.(*ssa.Store)
			if !ok {
				return
			}
			g, ok := st.Addr.(*ssa.Global)
			if !ok {
				return
			}
			call, ok := st.Val.(*ssa.Call)
			if !ok {
				return
			}
			cal := call.Call.StaticCallee()
			if cal == nil {
				return
			}
			switch cal.String() {
			case "math/big.NewInt":
				if k, ok := constInt(call.Call.Args[0]); ok {
					globals[g] = big.NewInt(k)
				}
			case "(*math/big.Int).SetInt64":
				if k, ok := constInt(call.Call.Args[1]); ok {
					globals[g] = big.NewInt(k)
				}
			case "(*math/big.Int).SetUint64":
				if kc, ok := call.Call.Args[1].(*ssa.Const); ok && kc.Value != nil {
					if u, ok := constant.Uint64Val(kc.Value); ok {
						globals[g] = new(big.Int).SetUint64(u)
					}
				}
			}
		})
	}
	var reps []*big.Int
	for _, e := range []uint{31, 32, 63, 64} {
		p := new(big.Int).Lsh(big.NewInt(1), e)
		for _, d := range []int64{-1, 0, 1} {
			v := new(big.Int).Add(p, big.NewInt(d))
			reps = append(reps, v, new(big.Int).Neg(v))
		}
	}
	reps = append(reps, big.NewInt(0), big.NewInt(1), big.NewInt(-1))
	n := 0
	for _, fn := range c.P.Funcs {
		if !isProdPkg(fnPkgPath(fn)) || len(fn.Blocks) == 0 {
			continue
		}
		ord := 0
		var sites []*ssa.Call
		eachInstr(fn, func(in ssa.Instruction) {
			call, ok := in.(*ssa.Call)
			if !ok {
				return
			}
			if cal := call.Call.StaticCallee(); cal != nil && (cal.String() == "(*math/big.Int).Int64" || cal.String() == "(*math/big.Int).Uint64") {
				sites = append(sites, call)
			}
		})
		if len(sites) == 0 {
			continue
		}
		// run the function once per representative for each *big.Int parameter
		bad := map[*ssa.Call]string{}
		covered := map[*ssa.Call]bool{}
		for _, p := range fn.Params {
			if p.Type().String() != "*math/big.Int" {
				continue
			}
			for _, s := range sites {
				if s.Call.Args[0] == ssa.Value(p) {
					covered[s] = true
				}
			}
			for _, rep := range reps {
				r := &bigRun{p: c.P, globals: globals, bad: bad, budget: 4000}
				r.run(fn, map[ssa.Value]bval{p: {k: 'B', b: rep}}, 0)
			}
		}
		for _, s := range sites {
			n++
			ord++
			what := s.Call.StaticCallee().Name()
			key := fmt.Sprintf("%s: %s() of a big integer #%d", fnName(fn), what, ord)
			pos := c.P.Pos(s.Pos())
			// (A) a dominating IsInt64/IsUint64 on the same receiver
			guarded := false
			for _, f := range pathFacts(s.Block()) {
				if gc, ok := f.Cond.(*ssa.Call); ok && f.Truth {
					if cal := gc.Call.StaticCallee(); cal != nil && cal.String() == "(*math/big.Int).Is"+what && gc.Call.Args[0] == s.Call.Args[0] {
						guarded = true
					}
				}
			}
			// (C) a dominating predicate of the module on the same value: interpreted for every
			// representative, it must be true only for values that fit
			predOK, predName := false, ""
			for _, f := range pathFacts(s.Block()) {
				gc, ok := f.Cond.(*ssa.Call)
				if !ok || guarded || predOK {
					continue
				}
				cal := gc.Call.StaticCallee()
				if cal == nil || !strings.HasPrefix(fnPkgPath(cal), modPath) || len(cal.Blocks) == 0 {
					continue
				}
				ai := -1
				for i, a := range gc.Call.Args {
					if a == s.Call.Args[0] {
						ai = i
					}
				}
				if ai < 0 || ai >= len(cal.Params) {
					continue
				}
				all := true
				for _, rep := range reps {
					fits := rep.IsInt64()
					if what == "Uint64" {
						fits = rep.IsUint64()
					}
					if fits {
						continue
					}
					r := &bigRun{p: c.P, globals: globals, bad: map[*ssa.Call]string{}, budget: 4000}
					rets := r.run(cal, map[ssa.Value]bval{cal.Params[ai]: {k: 'B', b: rep}}, 0)
					if len(rets) != 1 || rets[0].k != 'i' || (rets[0].i != 0) == f.Truth {
						all = false
						bad[s] = rep.String()
					}
				}
				if all {
					predOK, predName = true, fnName(cal)
				}
			}
			switch {
			case guarded:
				c.ok(key, pos, "dominated by Is"+what+"() on the same value")
			case predOK:
				c.ok(key, pos, fmt.Sprintf("dominated by %s, which holds for none of the boundary values that do not fit", predName))
			case bad[s] != "":
				c.viol(key, pos, fmt.Sprintf("%s() is reached with the value %s, which does not fit: the result wraps and the caller takes it for exact", what, bad[s]))
			case covered[s]:
				c.ok(key, pos, fmt.Sprintf("interpreted for %d boundary values of the parameter: only representable values reach the call", len(reps)))
			default:
				c.viol(key, pos, what+"() is applied to a big integer that is neither tested with Is"+what+"() nor a parameter whose range the function checks")
			}
		}
	}
	c.note("%d calls of (*big.Int).Int64/Uint64", n)
}

// ---------- N15: the caller of Index/SetIndex keeps the index in range ----------

func init() {
	register("N15", "the index contract of Indexable/HasSetIndex is honoured by every caller: the interfaces promise implementations an index in [0, Len()), and implementations (List, Tuple, range, proto repeated fields, host types) index their storage without looking. Wherever the value packages call Index(i) or SetIndex(i, v) through an interface, i is on every path known to be non-negative (a dominating test, a constant, or a loop counter that starts at a non-negative constant and is only incremented) and below a length (a dominating i < n / !(i >= n) where n comes from Len() or len()); moving the upper-bound test of x[i] = v out of the evaluator into List.SetIndex leaves every other implementation unprotected", 2, ruleN15)
	claim("C02", "N15")
	claim("C20", "N15")
}

func ruleN15(c *Ctx) {
	n := 0
	isLen0 := func(v ssa.Value) bool {
		for x := range backSlice(v) {
			call, ok := x.(*ssa.Call)
			if !ok {
				continue
			}
			if b, ok := call.Call.Value.(*ssa.Builtin); ok && b.Name() == "len" {
				return true
			}
			if call.Call.IsInvoke() && call.Call.Method.Name() == "Len" {
				return true
			}
			if cal := call.Call.StaticCallee(); cal != nil && (cal.Name() == "Len" || cal.Name() == "len") {
				return true
			}
		}
		return false
	}
	// a loop counter from a non-negative constant, only incremented
	var counter func(v ssa.Value, seen map[ssa.Value]bool) bool
	counter = func(v ssa.Value, seen map[ssa.Value]bool) bool {
		if seen[v] {
			return true
		}
		seen[v] = true
		switch x := v.(type) {
		case *ssa.Const:
			k, ok := constInt(x)
			return ok && k >= 0
		case *ssa.Phi:
			for _, e := range x.Edges {
				if !counter(e, seen) {
					return false
				}
			}
			return true
		case *ssa.BinOp:
			if x.Op == token.ADD {
				if k, ok := constInt(x.Y); ok && k >= 0 {
					return counter(x.X, seen)
				}
			}
		}
		return false
	}
	// boundsAt: is idx known to be >= 0, and below a length, at block b?
	var boundsAt func(idx ssa.Value, b *ssa.BasicBlock, isLen func(ssa.Value) bool, depth int) (bool, bool)
	boundsAt = func(idx ssa.Value, b *ssa.BasicBlock, isLen func(ssa.Value) bool, depth int) (lower, upper bool) {
		cands := map[ssa.Value]bool{idx: true}
		if k, ok := constInt(idx); ok && k >= 0 {
			lower = true
		}
		if counter(idx, map[ssa.Value]bool{}) {
			lower = true
		}
		// the index was normalised by a helper of the module that returns (index, error): what holds at the
		// helper's error-free returns holds here, once the error has been tested
		if ex, ok := idx.(*ssa.Extract); ok && depth < 2 {
			if hc, ok := ex.Tuple.(*ssa.Call); ok {
				h := hc.Call.StaticCallee()
				if h != nil && len(h.Blocks) > 0 && strings.HasPrefix(fnPkgPath(h), modPath) && len(h.Params) == len(hc.Call.Args) {
					res := h.Signature.Results()
					errIdx := res.Len() - 1
					checked := false
					if res.Len() > 1 && res.At(errIdx).Type().String() == "error" {
						if refs := hc.Referrers(); refs != nil {
							for _, r := range *refs {
								if e2, ok := r.(*ssa.Extract); ok && e2.Index == errIdx && dominatedByNilErr(b, e2) {
									checked = true
								}
							}
						}
					}
					if checked {
						hl, hu, any := true, true, false
						subLen := func(x ssa.Value) bool {
							for pi, p := range h.Params {
								if x == ssa.Value(p) && isLen(hc.Call.Args[pi]) {
									return true
								}
							}
							return isLen0(x)
						}
						eachInstr(h, func(in ssa.Instruction) {
							ret, ok := in.(*ssa.Return)
							if !ok || ex.Index >= len(ret.Results) {
								return
							}
							if !isNilConst(ret.Results[errIdx]) {
								return
							}
							any = true
							l, u := boundsAt(ret.Results[ex.Index], ret.Block(), subLen, depth+1)
							hl, hu = hl && l, hu && u
						})
						if any {
							lower, upper = lower || hl, upper || hu
						}
					}
				}
			}
		}
		facts := pathFacts(b)
		// a range predicate of the module (validIndex(i, n)): its facts, with its parameters standing
		// for the arguments
		argOf := map[ssa.Value]ssa.Value{}
		for _, pf := range facts {
			hf, h, args := helperFacts(pf)
			if h == nil {
				continue
			}
			for i, a := range args {
				if i < len(h.Params) {
					argOf[h.Params[i]] = a
					if cands[a] {
						cands[h.Params[i]] = true
					}
				}
			}
			// the index is another result of the same helper (`pos, ok := normalizeIndex(i, n)`): what the
			// helper returns in that position is the candidate inside it
			if ex, ok := idx.(*ssa.Extract); ok {
				if fx, ok := pf.Cond.(*ssa.Extract); ok && fx.Tuple == ex.Tuple {
					eachInstr(h, func(in ssa.Instruction) {
						if ret, ok := in.(*ssa.Return); ok && ex.Index < len(ret.Results) {
							cands[ret.Results[ex.Index]] = true
						}
					})
				}
			}
			facts = append(facts, hf...)
		}
		for _, f := range facts {
			bo, ok := f.Cond.(*ssa.BinOp)
			if !ok {
				continue
			}
			op := bo.Op
			var other ssa.Value
			switch {
			case cands[bo.X]:
				other = bo.Y
			case cands[bo.Y]:
				other = bo.X
				op = i9Flip(op)
			default:
				continue
			}
			if !f.Truth {
				op = i9Neg(op)
			}
			if a, ok := argOf[other]; ok {
				other = a
			}
			switch op {
			case token.GEQ, token.GTR:
				if k, ok := constInt(other); ok && k >= -1 {
					if op == token.GEQ && k >= 0 || op == token.GTR && k >= -1 {
						lower = true
					}
				}
			case token.LSS, token.LEQ:
				if op == token.LSS && isLen(other) {
					upper = true
				}
			}
		}
		return
	}
	for _, fn := range c.P.Funcs {
		pk := relPkg(fnPkgPath(fn))
		if !isProdPkg(fnPkgPath(fn)) || !(pk == "starlark" || pk == "starlarkstruct" || strings.HasPrefix(pk, "lib/")) {
			continue
		}
		ord := map[string]int{}
		eachInstr(fn, func(in ssa.Instruction) {
			call, ok := in.(*ssa.Call)
			if !ok || !call.Call.IsInvoke() {
				return
			}
			m := call.Call.Method.Name()
			if (m != "Index" && m != "SetIndex") || len(call.Call.Args) == 0 {
				return
			}
			idx := call.Call.Args[0]
			if bt, ok := idx.Type().Underlying().(*types.Basic); !ok || bt.Kind() != types.Int {
				return
			}
			n++
			kb := fmt.Sprintf("%s: %s through an interface", fnName(fn), m)
			ord[kb]++
			key := kb
			if ord[kb] > 1 {
				key = fmt.Sprintf("%s #%d", kb, ord[kb])
			}
			pos := c.P.Pos(call.Pos())
			lower, upper := boundsAt(idx, call.Block(), isLen0, 0)
			switch {
			case lower && upper:
				c.ok(key, pos, "the index is known to be in [0, length) where the method is called")
			case n15Exceptions[key] != "":
				c.except(key, pos, n15Exceptions[key])
			default:
				miss := "a lower"
				if lower {
					miss = "an upper"
				}
				c.viol(key, pos, fmt.Sprintf("%s is called through an interface without %s bound on the index being established on the way: implementations index their storage without checking (a proto repeated field panics), so an out-of-range index crashes the host", m, miss))
			}
		})
	}
	c.note("%d interface calls of Index/SetIndex", n)
}

var n15Exceptions = map[string]string{}

// v14TestsContinuation: the function compares a byte with 0x80 (the continuation bit of a varint group).
func v14TestsContinuation(fn *ssa.Function) bool {
	found := false
	eachInstr(fn, func(in ssa.Instruction) {
		b, ok := in.(*ssa.BinOp)
		if !ok {
			return
		}
		switch b.Op {
		case token.LSS, token.GEQ, token.AND:
			if k, ok := constInt(b.Y); ok && k == 0x80 {
				if bt, ok := b.X.Type().Underlying().(*types.Basic); ok && bt.Kind() == types.Uint8 {
					found = true
				}
			}
		}
	})
	return found
}
