package main

import (
	"fmt"
	"go/token"
	"go/types"
	"sort"
	"strings"

	"golang.org/x/tools/go/ssa"
)

func init() {
	register("I1", "canonical representation is decided in one place: makeBigInt is called only by the three range-testing constructors (MakeInt64, MakeUint64, MakeBigInt) and makeSmallInt only inside the Int implementation files", 8, ruleI1)
	register("I7", "the accessor Int.get returns the small arm only for values proven small: every return with a nil big arm is dominated by the isSmall test (fallback representation) or the pointer-range test (packed representation)", 1, ruleI7)
	register("I4", "narrowing failures are errors: wherever AsInt32, AsInt, Int.Int64, Int.Uint64 or NumberToInt reports failure, the failing edge leads to an error return (or a panic), never to an ordinary result", 18, ruleI4)
	register("I5", "truncating float-to-int conversions occur only where the specification truncates: the callers of NumberToInt (on a possibly-float operand) and finiteFloatToInt are the int() conversion, integer formatting verbs, Float.Hash and math.floor/ceil (argument already integral)", 5, ruleI5)
	register("I3", "division preconditions: every call of Int.Div / Int.Mod is dominated by a test that the divisor is non-zero", 2, ruleI3)
}

func inIntFiles(p *Prog, fn *ssa.Function) bool {
	f := p.Fset.Position(fn.Pos()).Filename
	return strings.HasSuffix(f, "/starlark/int.go") || strings.HasSuffix(f, "/starlark/int_posix64.go") || strings.HasSuffix(f, "/starlark/int_generic.go")
}

func ruleI1(c *Ctx) {
	mb := c.P.Func("starlark", "makeBigInt")
	ms := c.P.Func("starlark", "makeSmallInt")
	if mb == nil || ms == nil {
		c.anchorFail("makeBigInt / makeSmallInt not found")
		return
	}
	okBig := map[string]bool{"starlark.MakeInt64": true, "starlark.MakeUint64": true, "starlark.MakeBigInt": true}
	for _, fn := range c.P.Funcs {
		eachInstr(fn, func(in ssa.Instruction) {
			for _, op := range in.Operands(nil) {
				f, ok := (*op).(*ssa.Function)
				if !ok {
					continue
				}
				switch f {
				case mb:
					key := fmt.Sprintf("%s: makeBigInt", fnName(fn))
					if okBig[fnName(fn)] {
						c.ok(key, c.P.Pos(in.Pos()), "range-testing constructor")
					} else {
						c.viol(key, c.P.Pos(in.Pos()), "makeBigInt is called outside the range-testing constructors: a small value may be stored in big form, so equal ints get different representations (and ==, hashing and the small-int fast paths disagree)")
					}
				case ms:
					key := fmt.Sprintf("%s: makeSmallInt", fnName(fn))
					if inIntFiles(c.P, fn) {
						c.ok(key, c.P.Pos(in.Pos()), "inside the Int implementation")
					} else {
						c.viol(key, c.P.Pos(in.Pos()), "makeSmallInt (precondition: value fits int32) is called outside the Int implementation")
					}
				}
			}
		})
	}
}

func ruleI7(c *Ctx) {
	get := c.P.Func("starlark", "Int.get")
	if get == nil {
		c.anchorFail("(starlark.Int).get not found")
		return
	}
	n := 0
	eachInstr(get, func(in ssa.Instruction) {
		r, ok := in.(*ssa.Return)
		if !ok || len(r.Results) != 2 || !isNilConst(r.Results[1]) {
			return
		}
		n++
		key := "(starlark.Int).get: small-arm return"
		proven := ""
		for _, pf := range pathFacts(r.Block()) {
			cv, neg := pf.Cond, false
			taken := pf.Truth != neg
			if call, ok := cv.(*ssa.Call); ok && call.Call.StaticCallee() != nil && call.Call.StaticCallee().Name() == "isSmall" && taken {
				proven = "isSmall(x)"
			}
			// a bool predicate helper comparing its argument with the smallints region
			if call, ok := cv.(*ssa.Call); ok && taken {
				if cal := call.Call.StaticCallee(); cal != nil && cal.Blocks != nil && fnPkgPath(cal) == fnPkgPath(get) && cal.Name() != "isSmall" {
					readsRegion := false
					eachInstr(cal, func(in2 ssa.Instruction) {
						if ld, ok := in2.(*ssa.UnOp); ok {
							if g, ok := ld.X.(*ssa.Global); ok && g.Name() == "smallints" {
								readsRegion = true
							}
						}
					})
					if readsRegion {
						proven = "pointer lies in the reserved small-int region (" + cal.Name() + ")"
					}
				}
			}
			if b, ok := cv.(*ssa.BinOp); ok && taken && (b.Op == token.LSS || b.Op == token.GEQ) {
				// ptr >= smallints && ptr < smallints+1<<32
				for y := range backSlice(b) {
					if ld, ok := y.(*ssa.UnOp); ok {
						if g, ok := ld.X.(*ssa.Global); ok && g.Name() == "smallints" {
							proven = "pointer lies in the reserved small-int region"
						}
					}
				}
			}
			if b, ok := cv.(*ssa.BinOp); ok && taken && b.Op == token.EQL {
				// generic representation: i.big == nil
				if isNilConst(b.Y) || isNilConst(b.X) {
					proven = "big arm is nil"
				}
			}
		}
		if proven != "" {
			c.ok(key, c.P.Pos(leakPos(r)), "dominated by: "+proven)
		} else {
			c.viol(key, c.P.Pos(leakPos(r)), "get returns a value as 'small' without the isSmall / small-region test: the int64 fast paths of Add/Sub/Mul/Cmp then run on values outside int32 and wrap silently")
		}
	})
	if n == 0 {
		// generic representation: get is a plain projection of the stored (small_, big_) pair
		proj := false
		eachInstr(get, func(in ssa.Instruction) {
			if r, ok := in.(*ssa.Return); ok && len(r.Results) == 2 {
				t0, t1 := traceValue(r.Results[0]), traceValue(r.Results[1])
				if len(t0.fields) > 0 && len(t1.fields) > 0 && len(t0.bases) == 1 && t0.bases[0].v == get.Params[0] {
					proj = true
				}
			}
		})
		if proj {
			c.ok("(starlark.Int).get: projection", c.P.Pos(get.Pos()), "returns the stored (small, big) pair unchanged; the canonical form is established by the constructors (I1)")
		} else {
			c.viol("(starlark.Int).get: small-arm return", c.P.Pos(get.Pos()), "get never returns a small arm")
		}
	}
}

// ---------- I4 ----------

// failure-edge analysis: returns true if every path from block b reaches a
// Return whose error result is non-nil, or a Panic (bounded search).
func failsWithError(b *ssa.BasicBlock, fn *ssa.Function, depth int, seen map[*ssa.BasicBlock]bool) (bool, string) {
	if seen[b] || depth > 12 {
		return true, ""
	}
	seen[b] = true
	for _, in := range b.Instrs {
		switch x := in.(type) {
		case *ssa.Return:
			res := fn.Signature.Results()
			if res.Len() == 0 {
				return false, "returns nothing"
			}
			last := res.At(res.Len() - 1).Type()
			if !types.Identical(last, types.Universe.Lookup("error").Type()) {
				return false, "the function has no error result (returns " + res.String() + ")"
			}
			if isNilConst(x.Results[len(x.Results)-1]) {
				return false, "returns a nil error"
			}
			return true, ""
		case *ssa.Panic:
			return true, ""
		}
	}
	for _, s := range b.Succs {
		if ok, why := failsWithError(s, fn, depth+1, seen); !ok {
			return false, why
		}
	}
	return len(b.Succs) > 0, "falls off"
}

var i4Exceptions = map[string]string{
	"(starlark.rangeValue).contains: AsInt failure": "a value that does not fit in a Go int cannot be an element of a range whose bounds are Go ints: answering False is exact",
	"(starlark.Int).Float: Int64 failure":           "",
	"(starlark.Int).finiteFloat: failure":           "",
}

func ruleI4(c *Ctx) {
	targets := map[string]string{"AsInt32": "err", "AsInt": "err1", "NumberToInt": "err", "Int64": "ok", "Uint64": "ok"}
	n := 0
	derived := map[*ssa.Function]bool{} // helpers with results (..., ok bool) that answer ok=false when a narrowing fails: their callers owe the same test
	var site func(fn *ssa.Function, call *ssa.Call, cal *ssa.Function, kind string)
	site = func(fn *ssa.Function, call *ssa.Call, cal *ssa.Function, kind string) {
		n++
		key := fmt.Sprintf("%s: %s failure", fnName(fn), cal.Name())
		pos := c.P.Pos(call.Pos())
		// locate the failure flag and its If
		var flag ssa.Value
		if kind == "err1" {
			flag = call // single error result
		} else {
			want := 1
			for _, r := range *call.Referrers() {
				if ex, ok := r.(*ssa.Extract); ok && ex.Index == want {
					flag = ex
				}
			}
		}
		if flag == nil {
			c.viol(key, pos, "the failure indication of "+cal.Name()+" is discarded: an out-of-range value would be used as if the conversion had succeeded")
			return
		}
		var failBlocks []*ssa.BasicBlock
		returnedDirectly := false
		var visitFlag func(v ssa.Value)
		visitFlag = func(v ssa.Value) {
			for _, r := range *v.Referrers() {
				switch x := r.(type) {
				case *ssa.If:
					// flag used directly as condition (ok): false edge is failure
					if x.Cond == v {
						if kind == "ok" {
							failBlocks = append(failBlocks, x.Block().Succs[1])
						}
					}
				case *ssa.UnOp:
					if x.Op == token.NOT {
						for _, r2 := range *x.Referrers() {
							if ifi, ok := r2.(*ssa.If); ok && kind == "ok" {
								failBlocks = append(failBlocks, ifi.Block().Succs[0])
							}
						}
					}
				case *ssa.BinOp:
					if _, neq, ok := nilTest(x); ok && kind != "ok" {
						for _, r2 := range *x.Referrers() {
							if ifi, ok := r2.(*ssa.If); ok {
								if neq {
									failBlocks = append(failBlocks, ifi.Block().Succs[0])
								} else {
									failBlocks = append(failBlocks, ifi.Block().Succs[1])
								}
							}
						}
					}
				case *ssa.Return:
					returnedDirectly = true // `return x, err` propagates the error
				case *ssa.Phi:
					// ok && cond chains: follow the phi's use as a condition
					visitFlag(x)
				case *ssa.Store:
					// *result, err = AsInt32(v): stored to a named result / variable; treat as propagated if the variable is an error result
					returnedDirectly = true
				}
			}
		}
		visitFlag(flag)
		if len(failBlocks) == 0 {
			if returnedDirectly {
				c.ok(key, pos, "failure is propagated to the caller as is")
			} else {
				c.viol(key, pos, "the failure indication of "+cal.Name()+" is never tested")
			}
			return
		}
		// `valid := err == nil && 0 <= r && r <= max; if !valid { return error }`: the failing edge enters
		// a block whose boolean phi is a constant on that edge and decides the block's own branch
		for i, fb := range failBlocks {
			for hops := 0; hops < 3; hops++ {
				if len(fb.Instrs) == 0 {
					break
				}
				ifi, isIf := fb.Instrs[len(fb.Instrs)-1].(*ssa.If)
				if !isIf {
					break
				}
				cv, neg := stripNot(ifi.Cond)
				phi, isPhi := cv.(*ssa.Phi)
				if !isPhi || phi.Block() != fb {
					break
				}
				// all constant edges of the phi agree, and the failing edge is one of them
				val, have, mixed := false, false, false
				for ei, e := range phi.Edges {
					k, isK := e.(*ssa.Const)
					if !isK || k.Value == nil {
						continue
					}
					// only edges that can be the failing one: predecessors that test the flag
					pred := fb.Preds[ei]
					if len(pred.Instrs) == 0 {
						continue
					}
					pif, ok := pred.Instrs[len(pred.Instrs)-1].(*ssa.If)
					if !ok {
						continue
					}
					uses := false
					for y := range backSlice(pif.Cond) {
						if y == flag {
							uses = true
						}
					}
					if !uses {
						continue
					}
					v := k.Value.String() == "true"
					if have && v != val {
						mixed = true
					}
					val, have = v, true
				}
				if !have || mixed {
					break
				}
				if val != neg {
					fb = fb.Succs[0]
				} else {
					fb = fb.Succs[1]
				}
				failBlocks[i] = fb
			}
		}
		for _, fb := range failBlocks {
			if ok, why := failsWithError(fb, fn, 0, map[*ssa.BasicBlock]bool{}); !ok {
				// a fallback that recomputes with the un-narrowed value (fast path / exact path) is not a silent answer
				if usesWide(fb, call.Call.Args[0], map[*ssa.BasicBlock]bool{}, 0) {
					c.ok(key, pos, "on failure the computation falls back to the un-narrowed value (fast path / exact path)")
					return
				}
				if i4HelperNotOK(fb, fn) {
					derived[fn] = true
					c.ok(key, pos, "the enclosing helper reports the failure through its own ok result; its callers are checked in turn")
					return
				}
				if i4PredicateFalse(fb, fn) {
					c.ok(key, pos, "a predicate with a single bool result answers false when the value does not fit: a number outside the Go int range is not a member / does not qualify")
					return
				}
				if r, isEx := i4Exceptions[key]; isEx && r != "" {
					c.except(key, pos, r)
				} else {
					c.viol(key, pos, fmt.Sprintf("when %s fails (value out of range) execution continues to an ordinary result (%s): the built-in answers silently instead of failing", cal.Name(), why))
				}
				return
			}
		}
		c.ok(key, pos, "the failing edge returns an error")
	}
	var derivedDone = map[*ssa.Function]bool{}
	for _, fn := range c.P.Funcs {
		if !isProdPkg(fnPkgPath(fn)) {
			continue
		}
		eachInstr(fn, func(in ssa.Instruction) {
			call, ok := in.(*ssa.Call)
			if !ok {
				return
			}
			cal := call.Call.StaticCallee()
			if cal == nil || !strings.HasSuffix(fnPkgPath(cal), "/starlark") {
				return
			}
			kind, isT := targets[cal.Name()]
			if !isT {
				return
			}
			if cal.Name() == "Int64" || cal.Name() == "Uint64" {
				if cal.Signature.Recv() == nil || !isNamed(cal.Signature.Recv().Type(), "starlark", "Int") {
					return
				}
			}
			if inIntFiles(c.P, fn) {
				return // the Int implementation itself
			}
			site(fn, call, cal, kind)
		})
	}
	for round := 0; round < 3; round++ {
		var todo []*ssa.Function
		for h := range derived {
			if !derivedDone[h] {
				derivedDone[h] = true
				todo = append(todo, h)
			}
		}
		sort.Slice(todo, func(i, j int) bool { return fnName(todo[i]) < fnName(todo[j]) })
		for _, h := range todo {
			for _, fn := range c.P.Funcs {
				if !isProdPkg(fnPkgPath(fn)) {
					continue
				}
				fn := fn
				eachInstr(fn, func(in ssa.Instruction) {
					if call, ok := in.(*ssa.Call); ok && call.Call.StaticCallee() == h {
						site(fn, call, h, "ok")
					}
				})
			}
		}
	}
	if n < 20 {
		c.anchorFail("only %d narrowing call sites found", n)
	}
}

// ---------- I5 ----------

var i5Allowed = map[string]string{
	"starlark.int_":                    "int(x): the specification truncates towards zero",
	"starlark.NumberToInt":             "the conversion primitive itself",
	"(starlark.Float).Hash":            "hash of the equal int (only integral floats equal an int)",
	"lib/math.ceil":                    "argument is already integral (math.Ceil)",
	"lib/math.floor":                   "argument is already integral (math.Floor)",
	"lib/math.round":                   "argument is already integral (math.Round)",
	"starlark.interpolate":             "%d %x %o %c verbs: the specification converts the operand with int()",
	"(*starlark.Builtin).CallInternal": "",
}

func ruleI5(c *Ctx) {
	n2i := c.P.Func("starlark", "NumberToInt")
	ff := c.P.Func("starlark", "finiteFloatToInt")
	if n2i == nil || ff == nil {
		c.anchorFail("NumberToInt / finiteFloatToInt not found")
		return
	}
	n := 0
	for _, fn := range c.P.Funcs {
		if !isProdPkg(fnPkgPath(fn)) {
			continue
		}
		eachInstr(fn, func(in ssa.Instruction) {
			call, ok := in.(*ssa.Call)
			if !ok {
				return
			}
			cal := call.Call.StaticCallee()
			if cal != n2i && cal != ff {
				return
			}
			n++
			key := fmt.Sprintf("%s: %s", fnName(fn), cal.Name())
			pos := c.P.Pos(call.Pos())
			top := fnName(outermost(fn))
			if r, ok := i5Allowed[top]; ok && r != "" {
				c.ok(key, pos, r)
				return
			}
			// a private helper all of whose callers are allowed sites
			if r := allCallersAllowed(c.P, outermost(fn), 0); r != "" {
				c.ok(key, pos, "private helper called only from: "+r)
				return
			}
			// argument statically an Int? then no truncation can happen
			if cal == n2i {
				if mi, ok := call.Call.Args[0].(*ssa.MakeInterface); ok && qualType(mi.X.Type()) == "starlark.Int" {
					c.trivial(key, pos, "operand is statically an Int")
					return
				}
			}
			c.viol(key, pos, "a float operand is truncated to an int here, outside the places where the specification truncates: a non-integral value is silently rounded (e.g. 1.5 treated as 1)")
		})
	}
	if n < 5 {
		c.anchorFail("only %d truncation sites found", n)
	}
}

// ---------- I3 ----------

func ruleI3(c *Ctx) {
	div := c.P.Func("starlark", "Int.Div")
	mod := c.P.Func("starlark", "Int.Mod")
	if div == nil || mod == nil {
		c.anchorFail("Int.Div / Int.Mod not found")
		return
	}
	n := 0
	for _, fn := range c.P.Funcs {
		if !isProdPkg(fnPkgPath(fn)) {
			continue
		}
		eachInstr(fn, func(in ssa.Instruction) {
			call, ok := in.(*ssa.Call)
			if !ok {
				return
			}
			cal := call.Call.StaticCallee()
			if cal != div && cal != mod {
				return
			}
			n++
			key := fmt.Sprintf("%s: %s divisor", fnName(fn), cal.Name())
			pos := c.P.Pos(call.Pos())
			divisor := call.Call.Args[1]
			// dominating test: y.Sign() == 0 false / != 0 true on the same value
			okDom := false
			for _, pf := range pathFacts(call.Block()) {
				cv, neg := pf.Cond, false
				taken := pf.Truth != neg
				b, ok := cv.(*ssa.BinOp)
				if !ok {
					continue
				}
				k, isK := constInt(b.Y)
				if !isK || k != 0 {
					continue
				}
				sc, ok := b.X.(*ssa.Call)
				if !ok || sc.Call.StaticCallee() == nil || sc.Call.StaticCallee().Name() != "Sign" {
					continue
				}
				if !sameIntValue(sc.Call.Args[0], divisor) {
					continue
				}
				if (b.Op == token.EQL && !taken) || (b.Op == token.NEQ && taken) {
					okDom = true
				}
			}
			if !okDom {
				// the divisor is a Go integer converted to an Int (MakeInt64(n)): a dominating n != 0 test on
				// the Go value (or on the value it was converted from) discharges the precondition
				chain := []ssa.Value{divisor}
				for i := 0; i < len(chain) && i < 8; i++ {
					switch x := chain[i].(type) {
					case *ssa.Call:
						if cal := x.Call.StaticCallee(); cal != nil && len(x.Call.Args) == 1 {
							switch cal.Name() {
							case "MakeInt", "MakeInt64", "MakeUint", "MakeUint64", "Nanoseconds":
								chain = append(chain, x.Call.Args[0])
							}
						}
					case *ssa.Convert:
						chain = append(chain, x.X)
					case *ssa.ChangeType:
						chain = append(chain, x.X)
					}
				}
				for _, pf := range pathFacts(call.Block()) {
					cv, neg := pf.Cond, false
					taken := pf.Truth != neg
					b, ok := cv.(*ssa.BinOp)
					if !ok || (b.Op != token.EQL && b.Op != token.NEQ) {
						continue
					}
					var other ssa.Value
					if k, isK := constInt(b.Y); isK && k == 0 {
						other = b.X
					} else if k, isK := constInt(b.X); isK && k == 0 {
						other = b.Y
					}
					if other == nil {
						continue
					}
					for _, cv := range chain[1:] {
						if cv == other && ((b.Op == token.EQL && !taken) || (b.Op == token.NEQ && taken)) {
							okDom = true
						}
					}
				}
				if okDom {
					c.ok(key, pos, "the divisor is a converted Go integer that a dominating test shows to be non-zero")
					return
				}
			}
			if okDom {
				c.ok(key, pos, "dominated by divisor.Sign() != 0")
			} else {
				c.viol(key, pos, cal.Name()+" (precondition: divisor non-zero) is called without a dominating zero test of the divisor: division by zero panics the host")
			}
		})
	}
	if n == 0 {
		c.anchorFail("no call of Int.Div / Int.Mod found")
	}
}

func sameIntValue(a, b ssa.Value) bool {
	if a == b {
		return true
	}
	// both loads/typeasserts of the same underlying value
	ta, tb := traceAddr(a), traceAddr(b)
	if len(ta.bases) == 1 && len(tb.bases) == 1 && ta.bases[0].v == tb.bases[0].v && len(ta.fields) == len(tb.fields) {
		return true
	}
	return false
}

func init() {
	register("I8", "integer-valued math functions keep int arguments exact: a lib/math built-in that produces an Int (calls NumberToInt) does not unpack its argument through floatOrInt (which converts ints to float64) and has an arm returning an Int argument unchanged", 2, ruleI8)
}

func ruleI8(c *Ctx) {
	n2i := c.P.Func("starlark", "NumberToInt")
	if n2i == nil {
		c.anchorFail("NumberToInt not found")
		return
	}
	n := 0
	for _, fn := range c.P.Funcs {
		if fnPkgPath(fn) != modPath+"/lib/math" || fn.Parent() != nil {
			continue
		}
		// built-ins (thread, builtin, args, kwargs) that reach NumberToInt, directly or through a private helper
		if fn.Signature.Params().Len() != 4 {
			continue
		}
		if !reachesStatic(fn, n2i, 6) {
			continue
		}
		n++
		key := fnName(fn) + ": int arguments stay exact"
		viaFloat := false
		intArm := false
		region := []*ssa.Function{fn}
		seenR := map[*ssa.Function]bool{fn: true}
		for i := 0; i < len(region) && i < 8; i++ {
			eachInstr(region[i], func(in ssa.Instruction) {
				if ci, ok := in.(ssa.CallInstruction); ok {
					if cal := ci.Common().StaticCallee(); cal != nil && cal.Blocks != nil && fnPkgPath(cal) == modPath+"/lib/math" && !seenR[cal] {
						seenR[cal] = true
						region = append(region, cal)
					}
				}
			})
		}
		for _, rf := range region {
			eachInstr(rf, func(in ssa.Instruction) {
				if a, ok := in.(*ssa.Alloc); ok {
					if _, tn := namedOf(deref(a.Type())); tn == "floatOrInt" {
						viaFloat = true
					}
				}
				if ta, ok := in.(*ssa.TypeAssert); ok && qualType(ta.AssertedType) == "starlark.Int" {
					intArm = true
				}
			})
		}
		eachInstr(fn, func(in ssa.Instruction) {
			if a, ok := in.(*ssa.Alloc); ok {
				if _, tn := namedOf(deref(a.Type())); tn == "floatOrInt" {
					viaFloat = true
				}
			}
			if ta, ok := in.(*ssa.TypeAssert); ok && qualType(ta.AssertedType) == "starlark.Int" {
				intArm = true
			}
		})
		switch {
		case viaFloat:
			c.viol(key, c.P.Pos(fn.Pos()), "the argument is unpacked as floatOrInt, which converts an int to float64: ints above 2^53 are rounded (and ints >= 2^1024 rejected) although the exact answer is the argument itself")
		case !intArm:
			c.viol(key, c.P.Pos(fn.Pos()), "no arm for an Int argument: ints are not returned unchanged")
		default:
			c.ok(key, c.P.Pos(fn.Pos()), "has an Int arm and never converts the argument to float64")
		}
	}
	if n < 2 {
		c.anchorFail("only %d integer-valued math functions found", n)
	}
}

// allCallersAllowed: fn is unexported and every static caller (transitively,
// depth <= 3) is an allowed truncation site; returns the list of those sites.
func allCallersAllowed(p *Prog, fn *ssa.Function, depth int) string {
	if depth > 3 || fn.Object() == nil || fn.Object().Exported() {
		return ""
	}
	callers := callersOf(p, fn)
	if len(callers) == 0 {
		return ""
	}
	seen := map[string]bool{}
	for _, g := range callers {
		top := outermost(g)
		name := fnName(top)
		if r, ok := i5Allowed[name]; ok && r != "" {
			seen[name] = true
			continue
		}
		if top == fn {
			continue
		}
		sub := allCallersAllowed(p, top, depth+1)
		if sub == "" {
			return ""
		}
		seen[sub] = true
	}
	var l []string
	for s := range seen {
		l = append(l, s)
	}
	return strings.Join(l, ", ")
}

// usesWide: on the paths starting at block b, is the original (un-narrowed)
// operand passed to some call (method receiver or argument)?
func usesWide(b *ssa.BasicBlock, wide ssa.Value, seen map[*ssa.BasicBlock]bool, depth int) bool {
	if seen[b] || depth > 10 {
		return false
	}
	seen[b] = true
	wb := traceValue(wide).bases
	same := func(v ssa.Value) bool {
		if v == wide {
			return true
		}
		vb := traceValue(v).bases
		return len(wb) == 1 && len(vb) == 1 && wb[0].v == vb[0].v
	}
	for _, in := range b.Instrs {
		if ci, ok := in.(ssa.CallInstruction); ok {
			cc := ci.Common()
			if cc.IsInvoke() && same(cc.Value) {
				return true
			}
			for _, a := range cc.Args {
				if same(a) {
					return true
				}
			}
		}
	}
	for _, s := range b.Succs {
		if usesWide(s, wide, seen, depth+1) {
			return true
		}
	}
	return false
}

// i4PredicateFalse: fn returns exactly one bool, and the failing block returns the constant false.
// i4HelperNotOK: the failing edge makes the enclosing function return with its last result, a bool, false.
func i4HelperNotOK(fb *ssa.BasicBlock, fn *ssa.Function) bool {
	res := fn.Signature.Results()
	if res.Len() < 2 {
		return false
	}
	if bt, ok := res.At(res.Len() - 1).Type().Underlying().(*types.Basic); !ok || bt.Kind() != types.Bool {
		return false
	}
	for hops := 0; hops < 3 && len(fb.Instrs) > 0; hops++ {
		switch x := fb.Instrs[len(fb.Instrs)-1].(type) {
		case *ssa.Return:
			k, ok := x.Results[len(x.Results)-1].(*ssa.Const)
			return ok && k.Value != nil && k.Value.String() == "false"
		case *ssa.Jump:
			fb = fb.Succs[0]
		default:
			return false
		}
	}
	return false
}

func i4PredicateFalse(fb *ssa.BasicBlock, fn *ssa.Function) bool {
	res := fn.Signature.Results()
	if res.Len() != 1 {
		return false
	}
	if bt, ok := res.At(0).Type().Underlying().(*types.Basic); !ok || bt.Kind() != types.Bool {
		return false
	}
	for hops := 0; hops < 3 && len(fb.Instrs) > 0; hops++ {
		switch x := fb.Instrs[len(fb.Instrs)-1].(type) {
		case *ssa.Return:
			k, ok := x.Results[0].(*ssa.Const)
			return ok && k.Value != nil && k.Value.String() == "false"
		case *ssa.Jump:
			fb = fb.Succs[0]
		default:
			return false
		}
	}
	return false
}
