package main

// Rules added in the sixth round.

import (
	"fmt"
	"go/token"
	"go/types"
	"strings"

	"golang.org/x/tools/go/ssa"
)

// ---------- I11: big.Int values inside Ints are never modified in place ----------

func init() {
	register("I11", "integers are immutable: in the value package every mutating big.Int method (Add, Sub, Mul, Lsh, Rsh, And, Or, Xor, Not, Neg, Quo, Rem, Set..., Exp, ...) is called on a receiver that the calling function allocated itself (new(big.Int) or a local variable); the result of Int.bigInt() or of a stored big arm is never used as a receiver, because for big operands it is the operand's own storage (x << n would overwrite x, and a shared constant)", 15, ruleI11)
	claim("C10", "I11")
	claim("C05", "I11")
}

func isBigIntMutator(name string) bool {
	switch name {
	case "Add", "Sub", "Mul", "Quo", "Rem", "Div", "Mod", "DivMod", "QuoRem", "Lsh", "Rsh", "And", "Or", "Xor", "Not", "AndNot", "Neg", "Abs",
		"Set", "SetInt64", "SetUint64", "SetString", "SetBytes", "SetBits", "SetBit", "Exp", "GCD", "ModInverse", "Sqrt", "Rand", "MulRange", "Binomial", "SetFrac":
		return true
	}
	return false
}

func ruleI11(c *Ctx) {
	n := 0
	fc := computeReturnsFresh(c.P)
	for _, fn := range c.P.Funcs {
		if relPkg(fnPkgPath(fn)) != "starlark" {
			continue
		}
		ord := map[string]int{}
		eachInstr(fn, func(in ssa.Instruction) {
			call, ok := in.(*ssa.Call)
			if !ok {
				return
			}
			cal := call.Call.StaticCallee()
			if cal == nil || cal.Signature.Recv() == nil || !isBigIntMutator(cal.Name()) {
				return
			}
			if pp, tn := namedOf(cal.Signature.Recv().Type()); pp != "math/big" || tn != "Int" {
				return
			}
			n++
			kbase := fmt.Sprintf("%s: big.Int.%s receiver", fnName(fn), cal.Name())
			ord[kbase]++
			key := kbase
			if ord[kbase] > 1 {
				key = fmt.Sprintf("%s #%d", kbase, ord[kbase])
			}
			recv := call.Call.Args[0]
			tr := traceAddr(recv)
			fresh := len(tr.bases) > 0
			why := ""
			for _, b := range tr.bases {
				if b.throughPtr || !isFreshValue(fc, b.v) {
					fresh = false
					why = describeBases(resolveBases(fn, []base{b}))
				}
			}
			// a chained call on a fresh receiver returns that receiver: new(big.Int).Lsh(...).Add(...)
			if !fresh {
				if c2, ok := recv.(*ssa.Call); ok {
					if cal2 := c2.Call.StaticCallee(); cal2 != nil && cal2.Signature.Recv() != nil && isBigIntMutator(cal2.Name()) {
						if pp, tn := namedOf(cal2.Signature.Recv().Type()); pp == "math/big" && tn == "Int" {
							fresh = true // judged at the inner call
						}
					}
				}
			}
			if fresh {
				c.ok(key, c.P.Pos(call.Pos()), "receiver allocated in this function")
			} else if w3Exceptions[fnName(outermost(fn))] != "" {
				c.except(key, c.P.Pos(call.Pos()), w3Exceptions[fnName(outermost(fn))])
			} else {
				c.viol(key, c.P.Pos(call.Pos()), fmt.Sprintf("big.Int.%s writes into a receiver that this function did not allocate (%s): if it is the big arm of an existing Int - which bigInt() returns as is - the operand itself changes, together with every value and constant that shares it", cal.Name(), why))
			}
		})
	}
	if n < 15 {
		c.anchorFail("only %d mutating big.Int calls found in package starlark", n)
	}
}

// ---------- I12: the small arm is read only when there is no big arm ----------

func init() {
	register("I12", "small arms are meaningful only for small ints: wherever the first result of Int.get() (the small arm) takes part in arithmetic or a comparison, a dominating test has established that the second result (the big arm) of the same call is nil; for a big Int the small arm is zero, so a disjunctive guard (xBig == nil || yBig == nil) would compare a number with a meaningless 0", 10, ruleI12)
	claim("C10", "I12")
	claim("C11", "I12")
	claim("C12", "I12")
}

func ruleI12(c *Ctx) {
	n := 0
	for _, fn := range c.P.Funcs {
		if relPkg(fnPkgPath(fn)) != "starlark" {
			continue
		}
		ord := 0
		eachInstr(fn, func(in ssa.Instruction) {
			call, ok := in.(*ssa.Call)
			if !ok {
				return
			}
			cal := call.Call.StaticCallee()
			if cal == nil || cal.Name() != "get" || cal.Signature.Recv() == nil || !isNamed(cal.Signature.Recv().Type(), "starlark", "Int") {
				return
			}
			var small, big *ssa.Extract
			for _, r := range *call.Referrers() {
				if ex, ok := r.(*ssa.Extract); ok {
					if ex.Index == 0 {
						small = ex
					} else {
						big = ex
					}
				}
			}
			if small == nil || small.Referrers() == nil {
				return
			}
			// bigNilAt: is the big arm of this value known to be nil at block b?
			bigNilAt := func(b *ssa.BasicBlock) bool {
				if big == nil {
					return false
				}
				if isNil, _ := knownNilness(b, func(v ssa.Value) bool { return v == ssa.Value(big) }); isNil {
					return true
				}
				// a predicate helper over the big arms: if anyBig(xBig, yBig) { ...big path... }
				for _, pc := range pathConds(b) {
					cond, neg := stripNot(pc.If.Cond)
					pcall, ok := cond.(*ssa.Call)
					if !ok {
						continue
					}
					g := pcall.Call.StaticCallee()
					if g == nil || g.Blocks == nil || relPkg(fnPkgPath(g)) != "starlark" {
						continue
					}
					idx := -1
					for i, a := range pcall.Call.Args {
						if a == ssa.Value(big) {
							idx = i
						}
					}
					if idx < 0 {
						continue
					}
					taken := pc.Branch != neg
					// evaluate the predicate with our arm non-nil and the others nil or non-nil: if it always
					// answers `taken`'s opposite, then on this edge our arm is nil
					always := true
					for mask := 0; mask < 1<<uint(len(pcall.Call.Args)) && always; mask++ {
						if mask&(1<<uint(idx)) == 0 {
							continue // our arm non-nil in every evaluated case
						}
						var args []sval
						for i := range pcall.Call.Args {
							if mask&(1<<uint(i)) != 0 {
								args = append(args, svInt(1)) // non-nil
							} else {
								args = append(args, sval{k: 'n'})
							}
						}
						r, ok := sinterpFunc(g, args...)
						if !ok || r.k != 'b' || r.b == taken {
							always = false
						}
					}
					if always && len(pcall.Call.Args) <= 4 {
						return true
					}
				}
				return false
			}
			var judge func(v ssa.Value, depth int)
			judge = func(v ssa.Value, depth int) {
				if depth > 3 || v.Referrers() == nil {
					return
				}
				for _, u := range *v.Referrers() {
					switch x := u.(type) {
					case *ssa.Convert:
						judge(x, depth+1) // a conversion alone computes nothing: its uses are judged
						continue
					case *ssa.ChangeType:
						judge(x, depth+1)
						continue
					case *ssa.DebugRef, *ssa.Return, *ssa.Store:
						continue
					case *ssa.Phi:
						// judged per incoming edge: the edge that carries the small arm must be one on which
						// the big arm is nil
						okAll := true
						for i, e := range x.Edges {
							if e != v {
								continue
							}
							pred := x.Block().Preds[i]
							if bigNilAt(pred) {
								continue
							}
							edgeOK := false
							if len(pred.Instrs) > 0 {
								if ifi, ok := pred.Instrs[len(pred.Instrs)-1].(*ssa.If); ok {
									if t, neq, ok := nilTest(firstCond(ifi)); ok && big != nil && t == ssa.Value(big) {
										_, neg := stripNot(ifi.Cond)
										nonNilOnTrue := neq != neg
										// the phi block is the successor on which big is nil?
										if nonNilOnTrue && pred.Succs[1] == x.Block() {
											edgeOK = true
										}
										if !nonNilOnTrue && pred.Succs[0] == x.Block() {
											edgeOK = true
										}
									}
								}
							}
							if !edgeOK {
								okAll = false
							}
						}
						n++
						ord++
						key := fmt.Sprintf("%s: use of a small arm #%d", fnName(fn), ord)
						if okAll {
							c.ok(key, c.P.Pos(x.Pos()), "merged only along edges on which the big arm is nil")
						} else {
							c.viol(key, c.P.Pos(x.Pos()), "the small arm of an Int flows on along an edge on which its big arm may be non-nil: for a big Int the small arm is 0")
						}
						continue
					}
					var at *ssa.BasicBlock
					switch x := u.(type) {
					case *ssa.BinOp:
						at = x.Block()
					case *ssa.UnOp:
						at = x.Block()
					case *ssa.Call:
						at = x.Block()
					default:
						continue
					}
					n++
					ord++
					key := fmt.Sprintf("%s: use of a small arm #%d", fnName(fn), ord)
					if bigNilAt(at) {
						c.ok(key, c.P.Pos(u.Pos()), "dominated by the test that the big arm of the same value is nil")
					} else {
						c.viol(key, c.P.Pos(u.Pos()), "the small arm of an Int is used without a dominating test that its big arm is nil: for a big Int the small arm is 0, so the operation silently computes with 0 instead of the number")
					}
				}
			}
			judge(small, 0)
		})
	}
	if n < 10 {
		c.anchorFail("only %d uses of small arms found", n)
	}
}

// ---------- F9: freezing a function does not freeze its module ----------

func init() {
	register("F9", "Freeze stays within the value: no Freeze method (nor the freeze helpers it calls) reads Module.globals or Module.predeclared - a module's globals are frozen exactly once, by ExecFile on the finished module; a function frozen earlier (by a host, or by a nested ExecFile that keeps a callback) must not freeze the variables of a module that is still initialising", 1, ruleF9)
	claim("C04", "F9")
}

func ruleF9(c *Ctx) {
	n := 0
	for _, fn := range c.P.Funcs {
		if !isProdPkg(fnPkgPath(fn)) {
			continue
		}
		top := outermost(fn)
		if !(top.Name() == "Freeze" || top.Name() == "freeze") || top.Signature.Recv() == nil {
			continue
		}
		n++
		key := fnName(fn)
		bad := ""
		for _, g := range freezeTree(top) {
			eachInstr(g, func(in ssa.Instruction) {
				fa, ok := in.(*ssa.FieldAddr)
				if !ok {
					return
				}
				o, f := ownerField(fa)
				if o == "starlark.Module" && (f == "globals" || f == "predeclared") {
					bad = "reads Module." + f
					if g != top {
						bad += " (in " + fnName(g) + ")"
					}
				}
			})
		}
		if bad != "" {
			c.viol(key, c.P.Pos(fn.Pos()), key+" "+bad+": freezing this value reaches into the variables of its module, which may still be initialising (values that the finished module's globals do not reach must stay mutable)")
		} else {
			c.ok(key, c.P.Pos(fn.Pos()), "does not touch module variables")
		}
	}
	if n == 0 {
		c.anchorFail("no Freeze method found")
	}
}

// ---------- O16: evaluation entry points resolve first ----------

func init() {
	register("O16", "nothing is evaluated unresolved: every exported entry point of the value package that evaluates or compiles source (Eval*, Exec*, ExprFunc*, FileProgram, SourceProgram*) reaches the resolver on every path to a successful return; a shortcut that answers simple expressions from the environment directly would bypass the static rules and dialect options", 5, ruleO16)
	claim("C09", "O16")
}

type o16 struct {
	memo map[*ssa.Function]int
}

func (s *o16) isResolve(cal *ssa.Function) bool {
	return cal != nil && relPkg(fnPkgPath(cal)) == "resolve" && cal.Object() != nil && cal.Object().Exported()
}

// always: every path from fn's entry to a successful return passes a resolver call
// (directly or through a callee for which the same holds).
func (s *o16) always(fn *ssa.Function) bool {
	switch s.memo[fn] {
	case 1:
		return false
	case 2:
		return true
	case 3:
		return false
	}
	s.memo[fn] = 1
	if len(fn.Blocks) == 0 {
		s.memo[fn] = 3
		return false
	}
	sat := func(in ssa.Instruction) bool {
		ci, ok := in.(*ssa.Call)
		if !ok {
			return false
		}
		cal := ci.Call.StaticCallee()
		if cal == nil {
			return false
		}
		if s.isResolve(cal) {
			return true
		}
		if relPkg(fnPkgPath(cal)) == "starlark" && cal.Blocks != nil {
			return s.always(cal)
		}
		return false
	}
	seen := map[*ssa.BasicBlock]bool{}
	leak := false
	var visit func(b *ssa.BasicBlock)
	visit = func(b *ssa.BasicBlock) {
		if seen[b] || leak {
			return
		}
		seen[b] = true
		for _, in := range b.Instrs {
			if sat(in) {
				return
			}
			if r, ok := in.(*ssa.Return); ok {
				if len(r.Results) > 0 && isNilConst(r.Results[len(r.Results)-1]) {
					leak = true
				}
				return
			}
		}
		for _, sc := range b.Succs {
			visit(sc)
		}
	}
	visit(fn.Blocks[0])
	if leak {
		s.memo[fn] = 3
		return false
	}
	s.memo[fn] = 2
	return true
}

func ruleO16(c *Ctx) {
	s := &o16{memo: map[*ssa.Function]int{}}
	n := 0
	for _, fn := range c.P.Funcs {
		if relPkg(fnPkgPath(fn)) != "starlark" || fn.Parent() != nil || fn.Signature.Recv() != nil || fn.Object() == nil || !fn.Object().Exported() {
			continue
		}
		name := fn.Name()
		if !(strings.HasPrefix(name, "Eval") || strings.HasPrefix(name, "Exec") || strings.HasPrefix(name, "ExprFunc") || name == "FileProgram" || strings.HasPrefix(name, "SourceProgram")) {
			continue
		}
		res := fn.Signature.Results()
		if res.Len() == 0 || res.At(res.Len()-1).Type().String() != "error" {
			continue
		}
		n++
		key := fnName(fn)
		if s.always(fn) {
			c.ok(key, c.P.Pos(fn.Pos()), "every successful return is preceded by a call into package resolve")
		} else {
			c.viol(key, c.P.Pos(fn.Pos()), key+" can return successfully without the resolver having run: source reaches evaluation without the static checks (undefined names, dialect options, nesting rules)")
		}
	}
	if n < 5 {
		c.anchorFail("only %d evaluation entry points found", n)
	}
}

// ---------- R8: enum values are found by number ----------

func init() {
	register("R8", "enum numbers are not positions: in lib/proto an enum value descriptor is obtained from a stored number with ByNumber (or from a name with ByName); EnumValueDescriptors.Get(i) - positional access - is used only with a loop index bounded by Len(), never with a value converted from an enum number (the declaration order of an enum need not be its numeric order)", 3, ruleR8)
	claim("C20", "R8")
}

func ruleR8(c *Ctx) {
	n := 0
	for _, fn := range c.P.Funcs {
		if relPkg(fnPkgPath(fn)) != "lib/proto" {
			continue
		}
		ord := 0
		eachInstr(fn, func(in ssa.Instruction) {
			call, ok := in.(*ssa.Call)
			if !ok || !call.Call.IsInvoke() {
				return
			}
			if _, tn := namedOf(call.Call.Value.Type()); tn != "EnumValueDescriptors" {
				return
			}
			m := call.Call.Method.Name()
			switch m {
			case "ByNumber", "ByName":
				n++
				ord++
				c.ok(fmt.Sprintf("%s: EnumValueDescriptors.%s #%d", fnName(fn), m, ord), c.P.Pos(call.Pos()), "lookup by number/name")
			case "Get":
				n++
				ord++
				key := fmt.Sprintf("%s: EnumValueDescriptors.Get #%d", fnName(fn), ord)
				idx := call.Call.Args[0]
				fromNumber := false
				for v := range backSlice(idx) {
					if _, tn := namedOf(v.Type()); tn == "EnumNumber" {
						fromNumber = true
					}
					if c2, ok := v.(*ssa.Call); ok && (c2.Call.IsInvoke() && (c2.Call.Method.Name() == "Enum" || c2.Call.Method.Name() == "Number")) {
						fromNumber = true
					}
				}
				if fromNumber {
					c.viol(key, c.P.Pos(call.Pos()), "an enum value is fetched by position with an index derived from its number: for an enum whose values are not declared in numeric order a stored value reads back as a different one")
				} else {
					c.ok(key, c.P.Pos(call.Pos()), "positional access with an index that is not an enum number")
				}
			}
		})
	}
	if n < 3 {
		c.anchorFail("only %d enum value lookups found in lib/proto", n)
	}
}

// ---------- S8: the cancel reason is stored as given ----------

func init() {
	register("S8", "the reason is the host's own words: the string that Thread.Cancel stores (the new value of the atomic compare-and-swap) is its parameter, unchanged - not the result of a formatting call, which would rewrite reasons that contain '%' - and the interpreter loop tests the stored pointer for nil, not the string for emptiness (Cancel(\"\") cancels too)", 2, ruleS8)
	claim("C07", "S8")
}

func ruleS8(c *Ctx) {
	fn := c.P.Func("starlark", "Thread.Cancel")
	if fn == nil {
		c.anchorFail("(*starlark.Thread).Cancel not found")
		return
	}
	key := "(*starlark.Thread).Cancel: stored reason"
	// find the CompareAndSwap reached from Cancel (directly or through one helper)
	var casFn *ssa.Function
	var cas *ssa.Call
	var param ssa.Value
	search := func(f *ssa.Function, p ssa.Value) {
		eachInstr(f, func(in ssa.Instruction) {
			call, ok := in.(*ssa.Call)
			if !ok || cas != nil {
				return
			}
			if cal := call.Call.StaticCallee(); cal != nil && baseName(cal) == "CompareAndSwap" && len(call.Call.Args) == 3 {
				cas, casFn, param = call, f, p
			}
		})
	}
	var reason ssa.Value
	for _, p := range fn.Params {
		if b, ok := p.Type().Underlying().(*types.Basic); ok && b.Kind() == types.String {
			reason = p
		}
	}
	search(fn, reason)
	if cas == nil {
		// one level of delegation: Cancel calls a helper with the reason
		eachInstr(fn, func(in ssa.Instruction) {
			call, ok := in.(*ssa.Call)
			if !ok || cas != nil {
				return
			}
			cal := call.Call.StaticCallee()
			if cal == nil || cal.Blocks == nil || relPkg(fnPkgPath(cal)) != "starlark" {
				return
			}
			for i, a := range call.Call.Args {
				if a == reason && i < len(cal.Params) {
					search(cal, cal.Params[i])
				}
			}
			if cas == nil {
				search(cal, nil)
			}
		})
	}
	if cas == nil {
		c.viol(key, c.P.Pos(fn.Pos()), "Cancel does not reach an atomic CompareAndSwap of the cancel reason")
		return
	}
	// the new value: pointer to a cell whose only store is the parameter
	newv := cas.Call.Args[2]
	okVal := false
	if al, ok := newv.(*ssa.Alloc); ok && param != nil {
		stores := 0
		same := true
		for _, r := range *al.Referrers() {
			if st, ok := r.(*ssa.Store); ok && st.Addr == al {
				stores++
				if st.Val != param {
					same = false
				}
			}
		}
		okVal = stores >= 1 && same
	}
	_ = casFn
	if okVal {
		c.ok(key, c.P.Pos(cas.Pos()), "the compare-and-swap stores a pointer to the reason parameter itself")
	} else {
		c.viol(key, c.P.Pos(cas.Pos()), "the value stored as the cancel reason is not the caller's string itself (it passes through other code, e.g. a formatter): the error reported later does not name the reason the host gave")
	}
	// the loop tests the pointer
	ci := c.P.Func("starlark", "Function.CallInternal")
	key2 := "CallInternal loop: cancellation test is a nil test of the stored pointer"
	if ci == nil {
		c.anchorFail("CallInternal not found")
		return
	}
	lf := gatherLoop(c)
	if lf != nil && lf.cancelLd != nil && lf.cancelIf != nil {
		if _, _, ok := nilTest(firstCond(lf.cancelIf)); ok {
			c.ok(key2, c.P.Pos(lf.cancelLd.Pos()), "nil test of cancelReason.Load()")
			return
		}
	}
	c.viol(key2, c.P.Pos(ci.Pos()), "the interpreter loop does not decide cancellation by testing the loaded reason pointer for nil: a thread cancelled with an empty reason would keep running")
}

// ---------- O15: every new local gets a binding of its own ----------

func init() {
	register("O15", "bindings are never recycled: the Binding that the resolver enters into a block for a name seen for the first time is allocated at that point (&Binding{...}); it is not taken from another block, an earlier comprehension or a free list - two variables that share a Binding share a slot and a cell, so closures over one observe assignments to the other", 2, ruleO15)
	claim("C01", "O15")
	claim("C09", "O15")
}

func ruleO15(c *Ctx) {
	n := 0
	fc := computeReturnsFresh(c.P)
	for _, fn := range c.P.Funcs {
		if relPkg(fnPkgPath(fn)) != "resolve" {
			continue
		}
		ord := 0
		eachInstr(fn, func(in ssa.Instruction) {
			// block.bind(name, b) calls and direct MapUpdates of a bindings map
			var val ssa.Value
			switch x := in.(type) {
			case *ssa.Call:
				if cal := x.Call.StaticCallee(); cal != nil && cal.Name() == "bind" && cal.Signature.Recv() != nil && len(x.Call.Args) == 3 {
					if _, tn := namedOf(cal.Signature.Recv().Type()); tn == "block" {
						val = x.Call.Args[2]
					}
				}
			case *ssa.MapUpdate:
				tr := traceValue(x.Map)
				if len(tr.fields) > 0 && (tr.fields[0].Name() == "bindings" || tr.fields[0].Name() == "globals") {
					if pt, ok := x.Value.Type().(*types.Pointer); ok && isNamed(pt.Elem(), "resolve", "Binding") {
						val = x.Value
					}
				}
			}
			if val == nil {
				return
			}
			// inside block.bind itself the value is the parameter: judged at the call sites
			if p, ok := val.(*ssa.Parameter); ok && p.Parent() == fn {
				return
			}
			n++
			ord++
			key := fmt.Sprintf("%s: new binding #%d", fnName(fn), ord)
			tr := traceAddr(val)
			fresh := len(tr.bases) > 0 && len(tr.fields) == 0
			for _, b := range tr.bases {
				if b.throughPtr || !isFreshValue(fc, b.v) {
					fresh = false
				}
			}
			if fresh {
				c.ok(key, c.P.Pos(in.Pos()), "allocated here")
			} else if r, ok := o15Exceptions[fnName(fn)]; ok {
				c.except(key, c.P.Pos(in.Pos()), r)
			} else {
				c.viol(key, c.P.Pos(in.Pos()), "a name is bound to a Binding that was not allocated at this point: two distinct variables would share one slot")
			}
		})
	}
	if n < 2 {
		c.anchorFail("only %d binding sites found in the resolver", n)
	}
}

var o15Exceptions = map[string]string{
	"(*resolve.resolver).lookupLexical": "memoisation of a resolved use: the inner block records the binding found in an enclosing block (the same variable), or the fresh Free binding that stands for it",
}

var _ = token.ADD

// ---------- X1: a mutator's refusal is never dropped ----------

func init() {
	register("X1", "a refused mutation is reported: wherever the error result of a collection mutator (hashtable.insert/addAll/delete/clear, Dict.SetKey/Delete/Clear, Set.Insert/Delete/Clear, List.Append/SetIndex/Clear, ...) is discarded, the object was created in the same function or a successful checkMutable on it dominates the call, so the only refusals that can be lost are impossible ones; dropping the check while keeping the 'cannot fail' discard makes `d |= e` during iteration silently do nothing", 5, ruleX1)
	claim("C06", "X1")
	claim("C04", "X1")
}

func ruleX1(c *Ctx) {
	isMutator := func(cal *ssa.Function) bool {
		if cal == nil || cal.Signature.Recv() == nil || relPkg(fnPkgPath(cal)) != "starlark" {
			return false
		}
		res := cal.Signature.Results()
		if res.Len() == 0 || res.At(res.Len()-1).Type().String() != "error" {
			return false
		}
		_, tn := namedOf(cal.Signature.Recv().Type())
		switch tn {
		case "hashtable", "Dict", "Set", "List":
		default:
			return false
		}
		switch cal.Name() {
		case "insert", "addAll", "delete", "clear", "SetKey", "Delete", "Clear", "Insert", "Append", "SetIndex", "InsertAll":
			return true
		}
		return false
	}
	fc := computeReturnsFresh(c.P)
	n := 0
	for _, fn := range c.P.Funcs {
		if !isProdPkg(fnPkgPath(fn)) {
			continue
		}
		ord := map[string]int{}
		eachInstr(fn, func(in ssa.Instruction) {
			call, ok := in.(*ssa.Call)
			if !ok || !isMutator(call.Call.StaticCallee()) {
				return
			}
			cal := call.Call.StaticCallee()
			// is the error result used?
			used := false
			res := cal.Signature.Results()
			if refs := call.Referrers(); refs != nil {
				for _, r := range *refs {
					switch x := r.(type) {
					case *ssa.DebugRef:
					case *ssa.Extract:
						if x.Index == res.Len()-1 && x.Referrers() != nil && len(*x.Referrers()) > 0 {
							used = true
						}
					default:
						if res.Len() == 1 {
							used = true
						}
					}
				}
			}
			if used {
				return
			}
			n++
			kb := fmt.Sprintf("%s: discarded error of %s", fnName(fn), cal.Name())
			ord[kb]++
			key := kb
			if ord[kb] > 1 {
				key = fmt.Sprintf("%s #%d", kb, ord[kb])
			}
			recv := call.Call.Args[0]
			bases := resolveBases(fn, traceAddr(recv).bases)
			var nf []base
			for _, b := range bases {
				if b.throughPtr || !isFreshValue(fc, b.v) {
					nf = append(nf, b)
				}
			}
			switch {
			case len(bases) > 0 && len(nf) == 0:
				c.ok(key, c.P.Pos(call.Pos()), "the collection was created in this function: it is neither frozen nor being iterated")
			case findCheckMutableGuard(fn, call, nf) != "":
				c.ok(key, c.P.Pos(call.Pos()), "a successful checkMutable on the same object dominates the call")
			default:
				if why, ok := helperJustified(c.P, fc, outermost(fn), nf, 0); ok {
					c.ok(key, c.P.Pos(call.Pos()), why)
					return
				}
				if methodIs(outermost(fn), "starlark", "hashtable", "grow") {
					c.ok(key, c.P.Pos(call.Pos()), "re-insertion into the table being rebuilt (the keys were hashable and the table mutable when they were first inserted)")
					return
				}
				c.viol(key, c.P.Pos(call.Pos()), fmt.Sprintf("the error of %s is discarded although nothing here shows that the collection is mutable (not fresh, no dominating successful checkMutable): a refused mutation - frozen, or during iteration - passes silently and the statement has no effect", cal.Name()))
			}
		})
	}
	if n < 5 {
		c.anchorFail("only %d discarded mutator errors found", n)
	}
}

// ---------- T7: one place advances the scanner ----------

func init() {
	register("T7", "the scanner's cursor moves in one place: the fields that say where the scanner is (scanner.rest, and the line and column of scanner.pos) are stored only by readRune, readLine and the constructor; everything else consumes input through readRune, which is where CR, CRLF and LF are folded into one newline and the line/column are advanced - a bulk skip (e.g. bytes.IndexByte to the next '\\n' inside a comment) would bypass that accounting and shift every later position", 4, ruleT7)
	claim("C14", "T7")
	claim("C16", "T7")
}

func ruleT7(c *Ctx) {
	allowed := map[string]bool{"readRune": true, "readLine": true, "newScanner": true, "init": true}
	n := 0
	for _, fn := range c.P.Funcs {
		if relPkg(fnPkgPath(fn)) != "syntax" {
			continue
		}
		ord := map[string]int{}
		eachInstr(fn, func(in ssa.Instruction) {
			st, ok := in.(*ssa.Store)
			if !ok {
				return
			}
			tr := traceAddr(st.Addr)
			if len(tr.fields) == 0 {
				return
			}
			// scanner.rest, or Line/Col reached through scanner.pos
			which := ""
			for i, f := range tr.fields {
				_, on := namedOf(tr.owners[i])
				if on == "scanner" && f.Name() == "rest" && i == 0 {
					which = "scanner.rest"
				}
				if on == "scanner" && f.Name() == "pos" {
					which = "scanner.pos"
				}
			}
			if which == "" {
				return
			}
			n++
			kb := fmt.Sprintf("%s: store %s", fnName(fn), which)
			ord[kb]++
			key := kb
			if ord[kb] > 1 {
				key = fmt.Sprintf("%s #%d", kb, ord[kb])
			}
			top := outermost(fn)
			if allowed[top.Name()] || onlyCalledFromSet(c.P, top, allowed, 0) {
				c.ok(key, c.P.Pos(st.Pos()), "the scanner's own advance routine")
			} else {
				c.viol(key, c.P.Pos(st.Pos()), fmt.Sprintf("%s moves the scanner's cursor itself instead of reading through readRune: newline folding (CR, CRLF, LF) and the line/column accounting are bypassed for the input it skips", fnName(top)))
			}
		})
	}
	if n < 4 {
		c.anchorFail("only %d stores to the scanner's cursor found", n)
	}
}

// onlyCalledFromSet: an unexported helper all of whose callers are in the allowed set (or are such helpers).
func onlyCalledFromSet(p *Prog, fn *ssa.Function, allowed map[string]bool, depth int) bool {
	if depth > 2 || fn.Object() == nil || fn.Object().Exported() {
		return false
	}
	callers := callersInPkg(p.Funcs, fn)
	if len(callers) == 0 {
		return false
	}
	for _, g := range callers {
		g = outermost(g)
		if allowed[g.Name()] || g == fn {
			continue
		}
		if !onlyCalledFromSet(p, g, allowed, depth+1) {
			return false
		}
	}
	return true
}

// ---------- Z7: sibling codec primitives use the same thresholds ----------

func init() {
	register("Z7", "the two halves of each codec primitive agree on their limits: for every helper that exists on both the encoder and the decoder (int, string, bytes, ...), the integer thresholds they compare lengths or values with denote the same boundary (<= 32 on one side and < 32 on the other would give an entry an index on one side only, shifting every later back-reference); a side that compares with a constant the other side never mentions is reported too", 1, ruleZ7)
	claim("C17", "Z7")
}

func ruleZ7(c *Ctx) {
	// methods by receiver type name
	byRecv := map[string]map[string]*ssa.Function{"encoder": {}, "decoder": {}}
	for _, fn := range c.P.Funcs {
		if relPkg(fnPkgPath(fn)) != "internal/compile" || fn.Signature.Recv() == nil || fn.Parent() != nil {
			continue
		}
		_, tn := namedOf(fn.Signature.Recv().Type())
		if m, ok := byRecv[tn]; ok {
			m[fn.Name()] = fn
		}
	}
	thresholds := func(fn *ssa.Function) map[int64]bool {
		out := map[int64]bool{}
		eachInstr(fn, func(in ssa.Instruction) {
			bo, ok := in.(*ssa.BinOp)
			if !ok {
				return
			}
			var k int64
			var okk bool
			op := bo.Op
			if k, okk = constInt(bo.Y); !okk {
				if k, okk = constInt(bo.X); okk {
					op = i9Flip(op)
				}
			}
			if !okk || k == 0 || k == 1 || k == -1 {
				return
			}
			// normalise to the largest value on the "small" side
			switch op {
			case token.LSS, token.GEQ:
				out[k-1] = true
			case token.LEQ, token.GTR:
				out[k] = true
			}
		})
		return out
	}
	n := 0
	for name, ef := range byRecv["encoder"] {
		df := byRecv["decoder"][name]
		if df == nil {
			continue
		}
		n++
		key := "codec primitive " + name
		te, td := thresholds(ef), thresholds(df)
		bad := ""
		for k := range te {
			if !td[k] {
				bad = fmt.Sprintf("the encoder's %s distinguishes values up to %d, the decoder's does not", name, k)
			}
		}
		for k := range td {
			if !te[k] {
				bad = fmt.Sprintf("the decoder's %s distinguishes values up to %d, the encoder's does not", name, k)
			}
		}
		if bad != "" {
			c.viol(key, c.P.Pos(ef.Pos()), bad+": the two sides of the wire format disagree at that boundary")
		} else {
			c.ok(key, c.P.Pos(ef.Pos()), fmt.Sprintf("%d threshold(s) on each side, identical", len(te)))
		}
	}
	if n == 0 {
		c.anchorFail("no encoder/decoder helper pair found")
	}
}

// ---------- T8: literal values come from the library parsers ----------

func init() {
	register("T8", "numeric literals are converted by the standard parsers: every value the scanner stores into a token's int, float or bigInt field is the result of strconv.ParseInt/ParseUint/ParseFloat or big.Int.SetString (or a zero/nil reset); nothing is accumulated digit by digit or scaled by powers of ten, which is where double rounding (a 16-digit mantissa divided by 10^k) and unnoticed wrap-around (an int64 accumulator) come from", 2, ruleT8)
	claim("C15", "T8")
	claim("C14", "T8")
	claim("C10", "T8")
}

func ruleT8(c *Ctx) {
	n := 0
	for _, fn := range c.P.Funcs {
		if relPkg(fnPkgPath(fn)) != "syntax" {
			continue
		}
		ord := map[string]int{}
		eachInstr(fn, func(in ssa.Instruction) {
			st, ok := in.(*ssa.Store)
			if !ok {
				return
			}
			fa, ok := st.Addr.(*ssa.FieldAddr)
			if !ok {
				return
			}
			o, f := ownerField(fa)
			if o != "syntax.tokenValue" || !(f == "int" || f == "float" || f == "bigInt") {
				return
			}
			n++
			kb := fmt.Sprintf("%s: store tokenValue.%s", fnName(fn), f)
			ord[kb]++
			key := kb
			if ord[kb] > 1 {
				key = fmt.Sprintf("%s #%d", kb, ord[kb])
			}
			bad := ""
			seen := map[ssa.Value]bool{}
			var walk func(v ssa.Value, d int)
			walk = func(v ssa.Value, d int) {
				if d > 8 || seen[v] || bad != "" {
					return
				}
				seen[v] = true
				switch x := v.(type) {
				case *ssa.Const:
				case *ssa.Extract:
					if call, ok := x.Tuple.(*ssa.Call); ok {
						if cal := call.Call.StaticCallee(); cal != nil && cal.Blocks != nil && relPkg(fnPkgPath(cal)) == "syntax" {
							// a helper of the scanner (parseIntLiteral): what it returns at this position
							eachInstr(cal, func(in2 ssa.Instruction) {
								if ret, ok := in2.(*ssa.Return); ok && x.Index < len(ret.Results) && in2.Parent() == cal {
									walk(ret.Results[x.Index], d+1)
								}
							})
							return
						}
					}
					walk(x.Tuple, d+1)
				case *ssa.Phi:
					for _, e := range x.Edges {
						walk(e, d+1)
					}
				case *ssa.Convert:
					walk(x.X, d+1)
				case *ssa.ChangeType:
					walk(x.X, d+1)
				case *ssa.Call:
					cal := x.Call.StaticCallee()
					if cal == nil {
						bad = "a dynamic call"
						return
					}
					if cal.Blocks != nil && relPkg(fnPkgPath(cal)) == "syntax" && cal.Signature.Results().Len() == 1 {
						eachInstr(cal, func(in2 ssa.Instruction) {
							if ret, ok := in2.(*ssa.Return); ok && len(ret.Results) == 1 && in2.Parent() == cal {
								walk(ret.Results[0], d+1)
							}
						})
						return
					}
					switch cal.String() {
					case "strconv.ParseInt", "strconv.ParseUint", "strconv.ParseFloat", "(*math/big.Int).SetString", "(*math/big.Float).SetString":
						return
					}
					if strings.HasPrefix(cal.String(), "(*math/big.") && strings.Contains(cal.Name(), "Set") {
						return
					}
					bad = "the result of " + cal.String()
				case *ssa.BinOp:
					bad = "arithmetic (" + x.Op.String() + ")"
				case *ssa.UnOp:
					if x.Op == token.MUL {
						// a local cell: follow its stores
						if al, ok := x.X.(*ssa.Alloc); ok {
							for _, r := range *al.Referrers() {
								if s2, ok := r.(*ssa.Store); ok && s2.Addr == al {
									walk(s2.Val, d+1)
								}
							}
							return
						}
						bad = "a value loaded from memory"
						return
					}
					bad = "arithmetic (" + x.Op.String() + ")"
				case *ssa.Alloc:
					// new(big.Int) receiver
				default:
					bad = fmt.Sprintf("a %T", v)
				}
			}
			walk(st.Val, 0)
			if bad == "" {
				c.ok(key, c.P.Pos(st.Pos()), "value of a library parser (or a reset)")
			} else {
				c.viol(key, c.P.Pos(st.Pos()), fmt.Sprintf("the literal's value comes from %s, not from strconv/big parsing of the token text: hand-rolled conversion rounds twice or wraps for some literals, so printed numbers do not read back", bad))
			}
		})
	}
	if n < 2 {
		c.anchorFail("only %d stores to token values found", n)
	}
}

// ---------- Z8: the decoder owns the bytes its strings alias ----------

func init() {
	register("Z8", "decoded strings do not alias the caller's buffer: the decoder turns bytes of its string section into Go strings without copying (unsafe.String), so that section must be a private copy - every store to decoder.s is a clone (slices.Clone, append to nil, make+copy) or a sub-slice of decoder.s itself, never a sub-slice of the data handed to DecodeProgram; otherwise reusing the buffer after loading changes the program's names, constants and file name", 1, ruleZ8)
	claim("C17", "Z8")
}

func ruleZ8(c *Ctx) {
	n := 0
	fc := computeReturnsFresh(c.P)
	usesUnsafeString := false
	for _, fn := range c.P.Funcs {
		if relPkg(fnPkgPath(fn)) != "internal/compile" {
			continue
		}
		eachInstr(fn, func(in ssa.Instruction) {
			if call, ok := in.(*ssa.Call); ok {
				if cal := call.Call.StaticCallee(); cal != nil && (cal.String() == "unsafe.String") {
					usesUnsafeString = true
				}
				if b, ok := call.Call.Value.(*ssa.Builtin); ok && b.Name() == "String" {
					usesUnsafeString = true
				}
			}
		})
	}
	for _, fn := range c.P.Funcs {
		if relPkg(fnPkgPath(fn)) != "internal/compile" {
			continue
		}
		ord := 0
		eachInstr(fn, func(in ssa.Instruction) {
			st, ok := in.(*ssa.Store)
			if !ok {
				return
			}
			fa, ok := st.Addr.(*ssa.FieldAddr)
			if !ok {
				return
			}
			o, f := ownerField(fa)
			if o != "internal/compile.decoder" || f != "s" {
				return
			}
			n++
			ord++
			key := fmt.Sprintf("%s: store decoder.s #%d", fnName(fn), ord)
			okSrc := true
			why := ""
			var walk func(v ssa.Value, d int)
			seen := map[ssa.Value]bool{}
			walk = func(v ssa.Value, d int) {
				if d > 8 || seen[v] {
					return
				}
				seen[v] = true
				switch x := v.(type) {
				case *ssa.Slice:
					walk(x.X, d+1)
				case *ssa.Phi:
					for _, e := range x.Edges {
						walk(e, d+1)
					}
				case *ssa.Call:
					if cal := x.Call.StaticCallee(); cal != nil {
						name := cal.String()
						if o := cal.Origin(); o != nil {
							name = o.String()
						}
						if name == "slices.Clone" || name == "bytes.Clone" {
							return
						}
					}
					if b, ok := x.Call.Value.(*ssa.Builtin); ok && b.Name() == "append" {
						if isNilConst(x.Call.Args[0]) || isFreshValue(fc, x.Call.Args[0]) {
							return
						}
						walk(x.Call.Args[0], d+1)
						return
					}
					okSrc, why = false, "the result of "+calleeName(x)
				case *ssa.MakeSlice:
				case *ssa.UnOp:
					if x.Op == token.MUL {
						if fa2, ok := x.X.(*ssa.FieldAddr); ok {
							if o2, f2 := ownerField(fa2); o2 == "internal/compile.decoder" && f2 == "s" {
								return // remainder of the decoder's own section
							}
						}
					}
					okSrc, why = false, "a value loaded from elsewhere"
				case *ssa.Parameter:
					okSrc, why = false, "the parameter "+x.Name()+" (the caller's buffer)"
				case *ssa.Const:
				default:
					okSrc, why = false, fmt.Sprintf("a %T", v)
				}
			}
			walk(st.Val, 0)
			switch {
			case okSrc:
				c.ok(key, c.P.Pos(st.Pos()), "a private copy, or the remainder of the decoder's own section")
			case !usesUnsafeString:
				c.ok(key, c.P.Pos(st.Pos()), "strings are copied when decoded (no unsafe.String in the package)")
			default:
				c.viol(key, c.P.Pos(st.Pos()), "the decoder's string section is "+why+", not a private copy, while decoded strings alias it through unsafe.String: writing to the caller's buffer after DecodeProgram returns changes the loaded program")
			}
		})
	}
	if n == 0 {
		c.anchorFail("no store to decoder.s found")
	}
}
