package main

// Rules added in the sixth round.

import (
	"fmt"
	"go/token"
	"go/types"
	"math"
	"strings"

	"golang.org/x/tools/go/ssa"
)

// ---------- I11: big.Int values inside Ints are never modified in place ----------

func init() {
	register("I11", "integers are immutable: in the value package every mutating big.Int method (Add, Sub, Mul, Lsh, Rsh, And, Or, Xor, Not, Neg, Quo, Rem, Set..., Exp, ...) is called on a receiver that the calling function allocated itself (new(big.Int) or a local variable); the result of Int.bigInt() or of a stored big arm is never used as a receiver, because for big operands it is the operand's own storage (x << n would overwrite x, and a shared constant)", 15, ruleI11)
	claim("C10", "I11")
	claim("C05", "I11")
}

func isBigIntMutator(name string) bool {
	switch name {
	case "Add", "Sub", "Mul", "Quo", "Rem", "Div", "Mod", "DivMod", "QuoRem", "Lsh", "Rsh", "And", "Or", "Xor", "Not", "AndNot", "Neg", "Abs",
		"Set", "SetInt64", "SetUint64", "SetString", "SetBytes", "SetBits", "SetBit", "Exp", "GCD", "ModInverse", "Sqrt", "Rand", "MulRange", "Binomial", "SetFrac":
		return true
	}
	return false
}

// bigMutatorBehind: f is a mutating big.Int method, or the thunk of a method expression of one
// (its first parameter is the receiver).
func bigMutatorBehind(f *ssa.Function) *ssa.Function {
	isMut := func(g *ssa.Function) bool {
		if g == nil || g.Signature.Recv() == nil || !isBigIntMutator(g.Name()) {
			return false
		}
		pp, tn := namedOf(g.Signature.Recv().Type())
		return pp == "math/big" && tn == "Int"
	}
	if isMut(f) {
		return f
	}
	if f.Synthetic == "" || len(f.Params) == 0 {
		return nil
	}
	var found *ssa.Function
	eachInstr(f, func(in ssa.Instruction) {
		if call, ok := in.(*ssa.Call); ok && isMut(call.Call.StaticCallee()) && len(call.Call.Args) > 0 && call.Call.Args[0] == ssa.Value(f.Params[0]) {
			found = call.Call.StaticCallee()
		}
	})
	return found
}

func ruleI11(c *Ctx) {
	n := 0
	fc := computeReturnsFresh(c.P)
	for _, fn := range c.P.Funcs {
		if relPkg(fnPkgPath(fn)) != "starlark" {
			continue
		}
		ord := map[string]int{}
		eachInstr(fn, func(in ssa.Instruction) {
			call, ok := in.(*ssa.Call)
			if !ok {
				return
			}
			cal := call.Call.StaticCallee()
			if cal == nil && !call.Call.IsInvoke() && len(call.Call.Args) > 0 {
				// a mutator called through a function value (a method expression handed to a helper):
				// the first argument is the receiver
				if node := c.P.CG().Nodes[fn]; node != nil {
					for _, e := range node.Out {
						if e.Site != ssa.CallInstruction(call) {
							continue
						}
						if m := bigMutatorBehind(e.Callee.Func); m != nil {
							cal = m
						}
					}
				}
				if cal == nil {
					return
				}
				n++
				kbase := fmt.Sprintf("%s: big.Int method value receiver", fnName(fn))
				ord[kbase]++
				key := kbase
				if ord[kbase] > 1 {
					key = fmt.Sprintf("%s #%d", kbase, ord[kbase])
				}
				recv := call.Call.Args[0]
				tr := traceAddr(recv)
				fresh := len(tr.bases) > 0
				for _, b := range tr.bases {
					if b.throughPtr || !isFreshValue(fc, b.v) {
						fresh = false
					}
				}
				if fresh {
					c.ok(key, c.P.Pos(call.Pos()), "receiver allocated in this function")
				} else {
					c.viol(key, c.P.Pos(call.Pos()), fmt.Sprintf("a mutating big.Int method (such as %s) is called through a function value on a receiver that this function did not allocate", cal.Name()))
				}
				return
			}
			if cal == nil || cal.Signature.Recv() == nil || !isBigIntMutator(cal.Name()) {
				return
			}
			if pp, tn := namedOf(cal.Signature.Recv().Type()); pp != "math/big" || tn != "Int" {
				return
			}
			n++
			kbase := fmt.Sprintf("%s: big.Int.%s receiver", fnName(fn), cal.Name())
			ord[kbase]++
			key := kbase
			if ord[kbase] > 1 {
				key = fmt.Sprintf("%s #%d", kbase, ord[kbase])
			}
			recv := call.Call.Args[0]
			tr := traceAddr(recv)
			fresh := len(tr.bases) > 0
			why := ""
			for _, b := range tr.bases {
				if b.throughPtr || !isFreshValue(fc, b.v) {
					fresh = false
					why = describeBases(resolveBases(fn, []base{b}))
				}
			}
			// a chained call on a fresh receiver returns that receiver: new(big.Int).Lsh(...).Add(...)
			if !fresh {
				if c2, ok := recv.(*ssa.Call); ok {
					if cal2 := c2.Call.StaticCallee(); cal2 != nil && cal2.Signature.Recv() != nil && isBigIntMutator(cal2.Name()) {
						if pp, tn := namedOf(cal2.Signature.Recv().Type()); pp == "math/big" && tn == "Int" {
							fresh = true // judged at the inner call
						}
					}
				}
			}
			if fresh {
				c.ok(key, c.P.Pos(call.Pos()), "receiver allocated in this function")
			} else if w3Exceptions[fnName(outermost(fn))] != "" {
				c.except(key, c.P.Pos(call.Pos()), w3Exceptions[fnName(outermost(fn))])
			} else {
				c.viol(key, c.P.Pos(call.Pos()), fmt.Sprintf("big.Int.%s writes into a receiver that this function did not allocate (%s): if it is the big arm of an existing Int - which bigInt() returns as is - the operand itself changes, together with every value and constant that shares it", cal.Name(), why))
			}
		})
	}
	if n < 15 {
		c.anchorFail("only %d mutating big.Int calls found in package starlark", n)
	}
}

// ---------- I12: the small arm is read only when there is no big arm ----------

func init() {
	register("I12", "small arms are meaningful only for small ints: wherever the first result of Int.get() (the small arm) takes part in arithmetic or a comparison, a dominating test has established that the second result (the big arm) of the same call is nil; for a big Int the small arm is zero, so a disjunctive guard (xBig == nil || yBig == nil) would compare a number with a meaningless 0", 4, ruleI12)
	claim("C10", "I12")
	claim("C11", "I12")
	claim("C12", "I12")
}

func ruleI12(c *Ctx) {
	n := 0
	for _, fn := range c.P.Funcs {
		if relPkg(fnPkgPath(fn)) != "starlark" {
			continue
		}
		ord := 0
		eachInstr(fn, func(in ssa.Instruction) {
			call, ok := in.(*ssa.Call)
			if !ok {
				return
			}
			cal := call.Call.StaticCallee()
			if cal == nil || cal.Name() != "get" || cal.Signature.Recv() == nil || !isNamed(cal.Signature.Recv().Type(), "starlark", "Int") {
				return
			}
			var small, big *ssa.Extract
			for _, r := range *call.Referrers() {
				if ex, ok := r.(*ssa.Extract); ok {
					if ex.Index == 0 {
						small = ex
					} else {
						big = ex
					}
				}
			}
			if small == nil || small.Referrers() == nil {
				return
			}
			// bigNilAt: is the big arm of this value known to be nil at block b?
			bigNilAt := func(b *ssa.BasicBlock) bool {
				if big == nil {
					return false
				}
				if isNil, _ := knownNilness(b, func(v ssa.Value) bool { return v == ssa.Value(big) }); isNil {
					return true
				}
				// a predicate helper over the big arms: if anyBig(xBig, yBig) { ...big path... }
				for _, pf := range pathFacts(b) {
					cond, neg := pf.Cond, false
					pcall, ok := cond.(*ssa.Call)
					if !ok {
						continue
					}
					g := pcall.Call.StaticCallee()
					if g == nil || g.Blocks == nil || relPkg(fnPkgPath(g)) != "starlark" {
						continue
					}
					idx := -1
					for i, a := range pcall.Call.Args {
						if a == ssa.Value(big) {
							idx = i
						}
					}
					if idx < 0 {
						continue
					}
					taken := pf.Truth != neg
					// evaluate the predicate with our arm non-nil and the others nil or non-nil: if it always
					// answers `taken`'s opposite, then on this edge our arm is nil
					always := true
					for mask := 0; mask < 1<<uint(len(pcall.Call.Args)) && always; mask++ {
						if mask&(1<<uint(idx)) == 0 {
							continue // our arm non-nil in every evaluated case
						}
						var args []sval
						for i := range pcall.Call.Args {
							if mask&(1<<uint(i)) != 0 {
								args = append(args, svInt(1)) // non-nil
							} else {
								args = append(args, sval{k: 'n'})
							}
						}
						r, ok := sinterpFunc(g, args...)
						if !ok || r.k != 'b' || r.b == taken {
							always = false
						}
					}
					if always && len(pcall.Call.Args) <= 4 {
						return true
					}
				}
				return false
			}
			var judge func(v ssa.Value, depth int)
			judge = func(v ssa.Value, depth int) {
				if depth > 3 || v.Referrers() == nil {
					return
				}
				for _, u := range *v.Referrers() {
					switch x := u.(type) {
					case *ssa.Convert:
						judge(x, depth+1) // a conversion alone computes nothing: its uses are judged
						continue
					case *ssa.ChangeType:
						judge(x, depth+1)
						continue
					case *ssa.DebugRef, *ssa.Return, *ssa.Store:
						continue
					case *ssa.Phi:
						// judged per incoming edge: the edge that carries the small arm must be one on which
						// the big arm is nil
						okAll := true
						for i, e := range x.Edges {
							if e != v {
								continue
							}
							pred := x.Block().Preds[i]
							if bigNilAt(pred) {
								continue
							}
							edgeOK := false
							if len(pred.Instrs) > 0 {
								if ifi, ok := pred.Instrs[len(pred.Instrs)-1].(*ssa.If); ok {
									if t, neq, ok := nilTest(firstCond(ifi)); ok && big != nil && t == ssa.Value(big) {
										_, neg := stripNot(ifi.Cond)
										nonNilOnTrue := neq != neg
										// the phi block is the successor on which big is nil?
										if nonNilOnTrue && pred.Succs[1] == x.Block() {
											edgeOK = true
										}
										if !nonNilOnTrue && pred.Succs[0] == x.Block() {
											edgeOK = true
										}
									}
								}
							}
							if !edgeOK {
								okAll = false
							}
						}
						n++
						ord++
						key := fmt.Sprintf("%s: use of a small arm #%d", fnName(fn), ord)
						if okAll {
							c.ok(key, c.P.Pos(x.Pos()), "merged only along edges on which the big arm is nil")
						} else {
							c.viol(key, c.P.Pos(x.Pos()), "the small arm of an Int flows on along an edge on which its big arm may be non-nil: for a big Int the small arm is 0")
						}
						continue
					}
					var at *ssa.BasicBlock
					switch x := u.(type) {
					case *ssa.BinOp:
						at = x.Block()
					case *ssa.UnOp:
						at = x.Block()
					case *ssa.Call:
						at = x.Block()
					default:
						continue
					}
					n++
					ord++
					key := fmt.Sprintf("%s: use of a small arm #%d", fnName(fn), ord)
					if bigNilAt(at) {
						c.ok(key, c.P.Pos(u.Pos()), "dominated by the test that the big arm of the same value is nil")
					} else {
						c.viol(key, c.P.Pos(u.Pos()), "the small arm of an Int is used without a dominating test that its big arm is nil: for a big Int the small arm is 0, so the operation silently computes with 0 instead of the number")
					}
				}
			}
			judge(small, 0)
		})
	}
	if n < 4 {
		c.anchorFail("only %d uses of small arms found", n)
	}
}

// ---------- F9: freezing a function does not freeze its module ----------

func init() {
	register("F9", "Freeze stays within the value: no Freeze method (nor the freeze helpers it calls) reads Module.globals or Module.predeclared - a module's globals are frozen exactly once, by ExecFile on the finished module; a function frozen earlier (by a host, or by a nested ExecFile that keeps a callback) must not freeze the variables of a module that is still initialising", 1, ruleF9)
	claim("C04", "F9")
}

func ruleF9(c *Ctx) {
	n := 0
	for _, fn := range c.P.Funcs {
		if !isProdPkg(fnPkgPath(fn)) {
			continue
		}
		top := outermost(fn)
		if !(top.Name() == "Freeze" || top.Name() == "freeze") || top.Signature.Recv() == nil {
			continue
		}
		n++
		key := fnName(fn)
		bad := ""
		for _, g := range freezeTree(top) {
			eachInstr(g, func(in ssa.Instruction) {
				fa, ok := in.(*ssa.FieldAddr)
				if !ok {
					return
				}
				o, f := ownerField(fa)
				if o == "starlark.Module" && (f == "globals" || f == "predeclared") {
					bad = "reads Module." + f
					if g != top {
						bad += " (in " + fnName(g) + ")"
					}
				}
			})
		}
		if bad != "" {
			c.viol(key, c.P.Pos(fn.Pos()), key+" "+bad+": freezing this value reaches into the variables of its module, which may still be initialising (values that the finished module's globals do not reach must stay mutable)")
		} else {
			c.ok(key, c.P.Pos(fn.Pos()), "does not touch module variables")
		}
	}
	if n == 0 {
		c.anchorFail("no Freeze method found")
	}
}

// ---------- O16: evaluation entry points resolve first ----------

func init() {
	register("O16", "nothing is evaluated unresolved: every exported entry point of the value package that evaluates or compiles source (Eval*, Exec*, ExprFunc*, FileProgram, SourceProgram*) reaches the resolver on every path to a successful return; a shortcut that answers simple expressions from the environment directly would bypass the static rules and dialect options", 5, ruleO16)
	claim("C09", "O16")
}

type o16 struct {
	memo map[*ssa.Function]int
}

func (s *o16) isResolve(cal *ssa.Function) bool {
	return cal != nil && relPkg(fnPkgPath(cal)) == "resolve" && cal.Object() != nil && cal.Object().Exported()
}

// always: every path from fn's entry to a successful return passes a resolver call
// (directly or through a callee for which the same holds).
func (s *o16) always(fn *ssa.Function) bool {
	switch s.memo[fn] {
	case 1:
		return false
	case 2:
		return true
	case 3:
		return false
	}
	s.memo[fn] = 1
	if len(fn.Blocks) == 0 {
		s.memo[fn] = 3
		return false
	}
	sat := func(in ssa.Instruction) bool {
		ci, ok := in.(*ssa.Call)
		if !ok {
			return false
		}
		cal := ci.Call.StaticCallee()
		if cal == nil {
			return false
		}
		if s.isResolve(cal) {
			return true
		}
		if relPkg(fnPkgPath(cal)) == "starlark" && cal.Blocks != nil {
			return s.always(cal)
		}
		return false
	}
	seen := map[*ssa.BasicBlock]bool{}
	leak := false
	var visit func(b *ssa.BasicBlock)
	visit = func(b *ssa.BasicBlock) {
		if seen[b] || leak {
			return
		}
		seen[b] = true
		for _, in := range b.Instrs {
			if sat(in) {
				return
			}
			if r, ok := in.(*ssa.Return); ok {
				if len(r.Results) > 0 && isNilConst(r.Results[len(r.Results)-1]) {
					leak = true
				}
				return
			}
		}
		for _, sc := range b.Succs {
			visit(sc)
		}
	}
	visit(fn.Blocks[0])
	if leak {
		s.memo[fn] = 3
		return false
	}
	s.memo[fn] = 2
	return true
}

func ruleO16(c *Ctx) {
	s := &o16{memo: map[*ssa.Function]int{}}
	n := 0
	for _, fn := range c.P.Funcs {
		if relPkg(fnPkgPath(fn)) != "starlark" || fn.Parent() != nil || fn.Signature.Recv() != nil || fn.Object() == nil || !fn.Object().Exported() {
			continue
		}
		name := fn.Name()
		if !(strings.HasPrefix(name, "Eval") || strings.HasPrefix(name, "Exec") || strings.HasPrefix(name, "ExprFunc") || name == "FileProgram" || strings.HasPrefix(name, "SourceProgram")) {
			continue
		}
		res := fn.Signature.Results()
		if res.Len() == 0 || res.At(res.Len()-1).Type().String() != "error" {
			continue
		}
		n++
		key := fnName(fn)
		if s.always(fn) {
			c.ok(key, c.P.Pos(fn.Pos()), "every successful return is preceded by a call into package resolve")
		} else {
			c.viol(key, c.P.Pos(fn.Pos()), key+" can return successfully without the resolver having run: source reaches evaluation without the static checks (undefined names, dialect options, nesting rules)")
		}
	}
	if n < 5 {
		c.anchorFail("only %d evaluation entry points found", n)
	}
}

// ---------- R8: enum values are found by number ----------

func init() {
	register("R8", "enum numbers are not positions: in lib/proto an enum value descriptor is obtained from a stored number with ByNumber (or from a name with ByName); EnumValueDescriptors.Get(i) - positional access - is used only with a loop index bounded by Len(), never with a value converted from an enum number (the declaration order of an enum need not be its numeric order)", 3, ruleR8)
	claim("C20", "R8")
}

func ruleR8(c *Ctx) {
	n := 0
	for _, fn := range c.P.Funcs {
		if relPkg(fnPkgPath(fn)) != "lib/proto" {
			continue
		}
		ord := 0
		eachInstr(fn, func(in ssa.Instruction) {
			call, ok := in.(*ssa.Call)
			if !ok || !call.Call.IsInvoke() {
				return
			}
			if _, tn := namedOf(call.Call.Value.Type()); tn != "EnumValueDescriptors" {
				return
			}
			m := call.Call.Method.Name()
			switch m {
			case "ByNumber", "ByName":
				n++
				ord++
				c.ok(fmt.Sprintf("%s: EnumValueDescriptors.%s #%d", fnName(fn), m, ord), c.P.Pos(call.Pos()), "lookup by number/name")
			case "Get":
				n++
				ord++
				key := fmt.Sprintf("%s: EnumValueDescriptors.Get #%d", fnName(fn), ord)
				idx := call.Call.Args[0]
				fromNumber := false
				for v := range backSlice(idx) {
					if _, tn := namedOf(v.Type()); tn == "EnumNumber" {
						fromNumber = true
					}
					if c2, ok := v.(*ssa.Call); ok && (c2.Call.IsInvoke() && (c2.Call.Method.Name() == "Enum" || c2.Call.Method.Name() == "Number")) {
						fromNumber = true
					}
				}
				if fromNumber {
					c.viol(key, c.P.Pos(call.Pos()), "an enum value is fetched by position with an index derived from its number: for an enum whose values are not declared in numeric order a stored value reads back as a different one")
				} else {
					c.ok(key, c.P.Pos(call.Pos()), "positional access with an index that is not an enum number")
				}
			}
		})
	}
	if n < 3 {
		c.anchorFail("only %d enum value lookups found in lib/proto", n)
	}
}

// ---------- S8: the cancel reason is stored as given ----------

func init() {
	register("S8", "the reason is the host's own words: the string that Thread.Cancel stores (the new value of the atomic compare-and-swap) is its parameter, unchanged - not the result of a formatting call, which would rewrite reasons that contain '%' - and the interpreter loop tests the stored pointer for nil, not the string for emptiness (Cancel(\"\") cancels too)", 2, ruleS8)
	claim("C07", "S8")
}

func ruleS8(c *Ctx) {
	fn := c.P.Func("starlark", "Thread.Cancel")
	if fn == nil {
		c.anchorFail("(*starlark.Thread).Cancel not found")
		return
	}
	key := "(*starlark.Thread).Cancel: stored reason"
	// find the CompareAndSwap reached from Cancel (directly or through one helper)
	var casFn *ssa.Function
	var cas *ssa.Call
	var param ssa.Value
	search := func(f *ssa.Function, p ssa.Value) {
		eachInstr(f, func(in ssa.Instruction) {
			call, ok := in.(*ssa.Call)
			if !ok || cas != nil {
				return
			}
			if cal := call.Call.StaticCallee(); cal != nil && baseName(cal) == "CompareAndSwap" && len(call.Call.Args) == 3 {
				cas, casFn, param = call, f, p
			}
		})
	}
	var reason ssa.Value
	for _, p := range fn.Params {
		if b, ok := p.Type().Underlying().(*types.Basic); ok && b.Kind() == types.String {
			reason = p
		}
	}
	search(fn, reason)
	if cas == nil {
		// one level of delegation: Cancel calls a helper with the reason
		eachInstr(fn, func(in ssa.Instruction) {
			call, ok := in.(*ssa.Call)
			if !ok || cas != nil {
				return
			}
			cal := call.Call.StaticCallee()
			if cal == nil || cal.Blocks == nil || relPkg(fnPkgPath(cal)) != "starlark" {
				return
			}
			for i, a := range call.Call.Args {
				if a == reason && i < len(cal.Params) {
					search(cal, cal.Params[i])
				}
			}
			if cas == nil {
				search(cal, nil)
			}
		})
	}
	if cas == nil {
		c.viol(key, c.P.Pos(fn.Pos()), "Cancel does not reach an atomic CompareAndSwap of the cancel reason")
		return
	}
	// the new value: pointer to a cell whose only store is the parameter
	newv := cas.Call.Args[2]
	okVal := false
	if al, ok := newv.(*ssa.Alloc); ok && param != nil {
		stores := 0
		same := true
		for _, r := range *al.Referrers() {
			if st, ok := r.(*ssa.Store); ok && st.Addr == al {
				stores++
				if st.Val != param {
					same = false
				}
			}
		}
		okVal = stores >= 1 && same
	}
	_ = casFn
	if okVal {
		c.ok(key, c.P.Pos(cas.Pos()), "the compare-and-swap stores a pointer to the reason parameter itself")
	} else {
		c.viol(key, c.P.Pos(cas.Pos()), "the value stored as the cancel reason is not the caller's string itself (it passes through other code, e.g. a formatter): the error reported later does not name the reason the host gave")
	}
	// the loop tests the pointer
	ci := c.P.Func("starlark", "Function.CallInternal")
	key2 := "CallInternal loop: cancellation test is a nil test of the stored pointer"
	if ci == nil {
		c.anchorFail("CallInternal not found")
		return
	}
	lf := gatherLoop(c)
	if lf != nil && lf.cancelLd != nil && lf.cancelIf != nil {
		if _, _, ok := nilTest(firstCond(lf.cancelIf)); ok {
			c.ok(key2, c.P.Pos(lf.cancelLd.Pos()), "nil test of cancelReason.Load()")
			return
		}
	}
	c.viol(key2, c.P.Pos(ci.Pos()), "the interpreter loop does not decide cancellation by testing the loaded reason pointer for nil: a thread cancelled with an empty reason would keep running")
}

// ---------- O15: every new local gets a binding of its own ----------

func init() {
	register("O15", "bindings are never recycled: the Binding that the resolver enters into a block for a name seen for the first time is allocated at that point (&Binding{...}); it is not taken from another block, an earlier comprehension or a free list - two variables that share a Binding share a slot and a cell, so closures over one observe assignments to the other", 2, ruleO15)
	claim("C01", "O15")
	claim("C09", "O15")
}

func ruleO15(c *Ctx) {
	n := 0
	fc := computeReturnsFresh(c.P)
	for _, fn := range c.P.Funcs {
		if relPkg(fnPkgPath(fn)) != "resolve" {
			continue
		}
		ord := 0
		eachInstr(fn, func(in ssa.Instruction) {
			// block.bind(name, b) calls and direct MapUpdates of a bindings map
			var val ssa.Value
			switch x := in.(type) {
			case *ssa.Call:
				if cal := x.Call.StaticCallee(); cal != nil && cal.Name() == "bind" && cal.Signature.Recv() != nil && len(x.Call.Args) == 3 {
					if _, tn := namedOf(cal.Signature.Recv().Type()); tn == "block" {
						val = x.Call.Args[2]
					}
				}
			case *ssa.MapUpdate:
				tr := traceValue(x.Map)
				if len(tr.fields) > 0 && (tr.fields[0].Name() == "bindings" || tr.fields[0].Name() == "globals") {
					if pt, ok := x.Value.Type().(*types.Pointer); ok && isNamed(pt.Elem(), "resolve", "Binding") {
						val = x.Value
					}
				}
			}
			if val == nil {
				return
			}
			// inside block.bind itself the value is the parameter: judged at the call sites
			if p, ok := val.(*ssa.Parameter); ok && p.Parent() == fn {
				return
			}
			n++
			ord++
			key := fmt.Sprintf("%s: new binding #%d", fnName(fn), ord)
			tr := traceAddr(val)
			fresh := len(tr.bases) > 0 && len(tr.fields) == 0
			for _, b := range tr.bases {
				if b.throughPtr || !isFreshValue(fc, b.v) {
					fresh = false
				}
			}
			if fresh {
				c.ok(key, c.P.Pos(in.Pos()), "allocated here")
			} else if r, ok := o15Exceptions[fnName(fn)]; ok {
				c.except(key, c.P.Pos(in.Pos()), r)
			} else {
				c.viol(key, c.P.Pos(in.Pos()), "a name is bound to a Binding that was not allocated at this point: two distinct variables would share one slot")
			}
		})
	}
	if n < 2 {
		c.anchorFail("only %d binding sites found in the resolver", n)
	}
}

var o15Exceptions = map[string]string{
	"(*resolve.resolver).lookupLexical": "memoisation of a resolved use: the inner block records the binding found in an enclosing block (the same variable), or the fresh Free binding that stands for it",
}

var _ = token.ADD

// ---------- X1: a mutator's refusal is never dropped ----------

func init() {
	register("X1", "a refused mutation is reported: wherever the error result of a collection mutator (hashtable.insert/addAll/delete/clear, Dict.SetKey/Delete/Clear, Set.Insert/Delete/Clear, List.Append/SetIndex/Clear, ...) is discarded, the object was created in the same function or a successful checkMutable on it dominates the call, so the only refusals that can be lost are impossible ones; dropping the check while keeping the 'cannot fail' discard makes `d |= e` during iteration silently do nothing", 5, ruleX1)
	claim("C06", "X1")
	claim("C04", "X1")
}

func ruleX1(c *Ctx) {
	isMutator := func(cal *ssa.Function) bool {
		if cal == nil || cal.Signature.Recv() == nil || relPkg(fnPkgPath(cal)) != "starlark" {
			return false
		}
		res := cal.Signature.Results()
		if res.Len() == 0 || res.At(res.Len()-1).Type().String() != "error" {
			return false
		}
		_, tn := namedOf(cal.Signature.Recv().Type())
		switch tn {
		case "hashtable", "Dict", "Set", "List":
		default:
			return false
		}
		switch cal.Name() {
		case "insert", "addAll", "delete", "clear", "SetKey", "Delete", "Clear", "Insert", "Append", "SetIndex", "InsertAll":
			return true
		}
		return false
	}
	fc := computeReturnsFresh(c.P)
	n := 0
	for _, fn := range c.P.Funcs {
		if !isProdPkg(fnPkgPath(fn)) {
			continue
		}
		ord := map[string]int{}
		eachInstr(fn, func(in ssa.Instruction) {
			call, ok := in.(*ssa.Call)
			if !ok || !isMutator(call.Call.StaticCallee()) {
				return
			}
			cal := call.Call.StaticCallee()
			// is the error result used?
			used := false
			res := cal.Signature.Results()
			if refs := call.Referrers(); refs != nil {
				for _, r := range *refs {
					switch x := r.(type) {
					case *ssa.DebugRef:
					case *ssa.Extract:
						if x.Index == res.Len()-1 && x.Referrers() != nil && len(*x.Referrers()) > 0 {
							used = true
						}
					default:
						if res.Len() == 1 {
							used = true
						}
					}
				}
			}
			if used {
				return
			}
			n++
			kb := fmt.Sprintf("%s: discarded error of %s", fnName(fn), cal.Name())
			ord[kb]++
			key := kb
			if ord[kb] > 1 {
				key = fmt.Sprintf("%s #%d", kb, ord[kb])
			}
			recv := call.Call.Args[0]
			bases := resolveBases(fn, traceAddr(recv).bases)
			var nf []base
			for _, b := range bases {
				if b.throughPtr || !isFreshValue(fc, b.v) {
					nf = append(nf, b)
				}
			}
			switch {
			case len(bases) > 0 && len(nf) == 0:
				c.ok(key, c.P.Pos(call.Pos()), "the collection was created in this function: it is neither frozen nor being iterated")
			case findCheckMutableGuard(fn, call, nf) != "":
				c.ok(key, c.P.Pos(call.Pos()), "a successful checkMutable on the same object dominates the call")
			default:
				if why, ok := helperJustified(c.P, fc, outermost(fn), nf, 0); ok {
					c.ok(key, c.P.Pos(call.Pos()), why)
					return
				}
				if methodIs(outermost(fn), "starlark", "hashtable", "grow") {
					c.ok(key, c.P.Pos(call.Pos()), "re-insertion into the table being rebuilt (the keys were hashable and the table mutable when they were first inserted)")
					return
				}
				c.viol(key, c.P.Pos(call.Pos()), fmt.Sprintf("the error of %s is discarded although nothing here shows that the collection is mutable (not fresh, no dominating successful checkMutable): a refused mutation - frozen, or during iteration - passes silently and the statement has no effect", cal.Name()))
			}
		})
	}
	if n < 5 {
		c.anchorFail("only %d discarded mutator errors found", n)
	}
}

// ---------- T7: one place advances the scanner ----------

func init() {
	register("T7", "the scanner's cursor moves in one place: the fields that say where the scanner is (scanner.rest, and the line and column of scanner.pos) are stored only by readRune, readLine and the constructor; everything else consumes input through readRune, which is where CR, CRLF and LF are folded into one newline and the line/column are advanced - a bulk skip (e.g. bytes.IndexByte to the next '\\n' inside a comment) would bypass that accounting and shift every later position", 4, ruleT7)
	claim("C14", "T7")
	claim("C16", "T7")
}

func ruleT7(c *Ctx) {
	allowed := map[string]bool{"readRune": true, "readLine": true, "newScanner": true, "init": true}
	n := 0
	for _, fn := range c.P.Funcs {
		if relPkg(fnPkgPath(fn)) != "syntax" {
			continue
		}
		ord := map[string]int{}
		eachInstr(fn, func(in ssa.Instruction) {
			st, ok := in.(*ssa.Store)
			if !ok {
				return
			}
			tr := traceAddr(st.Addr)
			if len(tr.fields) == 0 {
				return
			}
			// scanner.rest, or Line/Col reached through scanner.pos
			which := ""
			for i, f := range tr.fields {
				_, on := namedOf(tr.owners[i])
				if on == "scanner" && f.Name() == "rest" && i == 0 {
					which = "scanner.rest"
				}
				if on == "scanner" && f.Name() == "pos" {
					which = "scanner.pos"
				}
			}
			if which == "" {
				return
			}
			n++
			kb := fmt.Sprintf("%s: store %s", fnName(fn), which)
			ord[kb]++
			key := kb
			if ord[kb] > 1 {
				key = fmt.Sprintf("%s #%d", kb, ord[kb])
			}
			top := outermost(fn)
			if allowed[top.Name()] || onlyCalledFromSet(c.P, top, allowed, 0) {
				c.ok(key, c.P.Pos(st.Pos()), "the scanner's own advance routine")
			} else {
				c.viol(key, c.P.Pos(st.Pos()), fmt.Sprintf("%s moves the scanner's cursor itself instead of reading through readRune: newline folding (CR, CRLF, LF) and the line/column accounting are bypassed for the input it skips", fnName(top)))
			}
		})
	}
	if n < 4 {
		c.anchorFail("only %d stores to the scanner's cursor found", n)
	}
}

// onlyCalledFromSet: an unexported helper all of whose callers are in the allowed set (or are such helpers).
func onlyCalledFromSet(p *Prog, fn *ssa.Function, allowed map[string]bool, depth int) bool {
	if depth > 2 || fn.Object() == nil || fn.Object().Exported() {
		return false
	}
	callers := callersInPkg(p.Funcs, fn)
	if len(callers) == 0 {
		return false
	}
	for _, g := range callers {
		g = outermost(g)
		if allowed[g.Name()] || g == fn {
			continue
		}
		if !onlyCalledFromSet(p, g, allowed, depth+1) {
			return false
		}
	}
	return true
}

// ---------- Z7: sibling codec primitives use the same thresholds ----------

func init() {
	register("Z7", "the two halves of each codec primitive agree on their limits: for every helper that exists on both the encoder and the decoder (int, string, bytes, ...), the integer thresholds they compare lengths or values with denote the same boundary (<= 32 on one side and < 32 on the other would give an entry an index on one side only, shifting every later back-reference); a side that compares with a constant the other side never mentions is reported too", 1, ruleZ7)
	claim("C17", "Z7")
}

func ruleZ7(c *Ctx) {
	// methods by receiver type name
	byRecv := map[string]map[string]*ssa.Function{"encoder": {}, "decoder": {}}
	for _, fn := range c.P.Funcs {
		if relPkg(fnPkgPath(fn)) != "internal/compile" || fn.Signature.Recv() == nil || fn.Parent() != nil {
			continue
		}
		_, tn := namedOf(fn.Signature.Recv().Type())
		if m, ok := byRecv[tn]; ok {
			m[fn.Name()] = fn
		}
	}
	thresholds := func(fn *ssa.Function) map[int64]bool {
		out := map[int64]bool{}
		eachInstr(fn, func(in ssa.Instruction) {
			bo, ok := in.(*ssa.BinOp)
			if !ok {
				return
			}
			var k int64
			var okk bool
			op := bo.Op
			if k, okk = constInt(bo.Y); !okk {
				if k, okk = constInt(bo.X); okk {
					op = i9Flip(op)
				}
			}
			if !okk || k == 0 || k == 1 || k == -1 {
				return
			}
			// normalise to the largest value on the "small" side
			switch op {
			case token.LSS, token.GEQ:
				out[k-1] = true
			case token.LEQ, token.GTR:
				out[k] = true
			}
		})
		return out
	}
	n := 0
	for name, ef := range byRecv["encoder"] {
		df := byRecv["decoder"][name]
		if df == nil {
			continue
		}
		n++
		key := "codec primitive " + name
		te, td := thresholds(ef), thresholds(df)
		bad := ""
		for k := range te {
			if !td[k] {
				bad = fmt.Sprintf("the encoder's %s distinguishes values up to %d, the decoder's does not", name, k)
			}
		}
		for k := range td {
			if !te[k] {
				bad = fmt.Sprintf("the decoder's %s distinguishes values up to %d, the encoder's does not", name, k)
			}
		}
		if bad != "" {
			c.viol(key, c.P.Pos(ef.Pos()), bad+": the two sides of the wire format disagree at that boundary")
		} else {
			c.ok(key, c.P.Pos(ef.Pos()), fmt.Sprintf("%d threshold(s) on each side, identical", len(te)))
		}
	}
	if n == 0 {
		c.anchorFail("no encoder/decoder helper pair found")
	}
}

// ---------- T8: literal values come from the library parsers ----------

func init() {
	register("T8", "numeric literals are converted by the standard parsers: every value the scanner stores into a token's int, float or bigInt field is the result of strconv.ParseInt/ParseUint/ParseFloat or big.Int.SetString (or a zero/nil reset); nothing is accumulated digit by digit or scaled by powers of ten, which is where double rounding (a 16-digit mantissa divided by 10^k) and unnoticed wrap-around (an int64 accumulator) come from", 2, ruleT8)
	claim("C15", "T8")
	claim("C14", "T8")
	claim("C10", "T8")
}

func ruleT8(c *Ctx) {
	n := 0
	for _, fn := range c.P.Funcs {
		if relPkg(fnPkgPath(fn)) != "syntax" {
			continue
		}
		ord := map[string]int{}
		eachInstr(fn, func(in ssa.Instruction) {
			st, ok := in.(*ssa.Store)
			if !ok {
				return
			}
			fa, ok := st.Addr.(*ssa.FieldAddr)
			if !ok {
				return
			}
			o, f := ownerField(fa)
			if o != "syntax.tokenValue" || !(f == "int" || f == "float" || f == "bigInt") {
				return
			}
			n++
			kb := fmt.Sprintf("%s: store tokenValue.%s", fnName(fn), f)
			ord[kb]++
			key := kb
			if ord[kb] > 1 {
				key = fmt.Sprintf("%s #%d", kb, ord[kb])
			}
			bad := ""
			seen := map[ssa.Value]bool{}
			var walk func(v ssa.Value, d int)
			walk = func(v ssa.Value, d int) {
				if d > 8 || seen[v] || bad != "" {
					return
				}
				seen[v] = true
				switch x := v.(type) {
				case *ssa.Const:
				case *ssa.Extract:
					if call, ok := x.Tuple.(*ssa.Call); ok {
						if cal := call.Call.StaticCallee(); cal != nil && cal.Blocks != nil && relPkg(fnPkgPath(cal)) == "syntax" {
							// a helper of the scanner (parseIntLiteral): what it returns at this position
							eachInstr(cal, func(in2 ssa.Instruction) {
								if ret, ok := in2.(*ssa.Return); ok && x.Index < len(ret.Results) && in2.Parent() == cal {
									walk(ret.Results[x.Index], d+1)
								}
							})
							return
						}
					}
					walk(x.Tuple, d+1)
				case *ssa.Phi:
					for _, e := range x.Edges {
						walk(e, d+1)
					}
				case *ssa.Convert:
					walk(x.X, d+1)
				case *ssa.ChangeType:
					walk(x.X, d+1)
				case *ssa.Call:
					cal := x.Call.StaticCallee()
					if cal == nil {
						bad = "a dynamic call"
						return
					}
					if cal.Blocks != nil && relPkg(fnPkgPath(cal)) == "syntax" && cal.Signature.Results().Len() == 1 {
						eachInstr(cal, func(in2 ssa.Instruction) {
							if ret, ok := in2.(*ssa.Return); ok && len(ret.Results) == 1 && in2.Parent() == cal {
								walk(ret.Results[0], d+1)
							}
						})
						return
					}
					switch cal.String() {
					case "strconv.ParseInt", "strconv.ParseUint", "strconv.ParseFloat", "(*math/big.Int).SetString", "(*math/big.Float).SetString":
						return
					}
					if strings.HasPrefix(cal.String(), "(*math/big.") && strings.Contains(cal.Name(), "Set") {
						return
					}
					bad = "the result of " + cal.String()
				case *ssa.BinOp:
					bad = "arithmetic (" + x.Op.String() + ")"
				case *ssa.UnOp:
					if x.Op == token.MUL {
						// a local cell: follow its stores
						if al, ok := x.X.(*ssa.Alloc); ok {
							for _, r := range *al.Referrers() {
								if s2, ok := r.(*ssa.Store); ok && s2.Addr == al {
									walk(s2.Val, d+1)
								}
							}
							return
						}
						bad = "a value loaded from memory"
						return
					}
					bad = "arithmetic (" + x.Op.String() + ")"
				case *ssa.Alloc:
					// new(big.Int) receiver
				default:
					bad = fmt.Sprintf("a %T", v)
				}
			}
			walk(st.Val, 0)
			if bad == "" {
				c.ok(key, c.P.Pos(st.Pos()), "value of a library parser (or a reset)")
			} else {
				c.viol(key, c.P.Pos(st.Pos()), fmt.Sprintf("the literal's value comes from %s, not from strconv/big parsing of the token text: hand-rolled conversion rounds twice or wraps for some literals, so printed numbers do not read back", bad))
			}
		})
	}
	if n < 2 {
		c.anchorFail("only %d stores to token values found", n)
	}
}

// ---------- Z8: the decoder owns the bytes its strings alias ----------

func init() {
	register("Z8", "decoded strings do not alias the caller's buffer: the decoder turns bytes of its string section into Go strings without copying (unsafe.String), so that section must be a private copy - every store to decoder.s is a clone (slices.Clone, append to nil, make+copy) or a sub-slice of decoder.s itself, never a sub-slice of the data handed to DecodeProgram; otherwise reusing the buffer after loading changes the program's names, constants and file name", 1, ruleZ8)
	claim("C17", "Z8")
}

func ruleZ8(c *Ctx) {
	n := 0
	fc := computeReturnsFresh(c.P)
	usesUnsafeString := false
	for _, fn := range c.P.Funcs {
		if relPkg(fnPkgPath(fn)) != "internal/compile" {
			continue
		}
		eachInstr(fn, func(in ssa.Instruction) {
			if call, ok := in.(*ssa.Call); ok {
				if cal := call.Call.StaticCallee(); cal != nil && (cal.String() == "unsafe.String") {
					usesUnsafeString = true
				}
				if b, ok := call.Call.Value.(*ssa.Builtin); ok && b.Name() == "String" {
					usesUnsafeString = true
				}
			}
		})
	}
	for _, fn := range c.P.Funcs {
		if relPkg(fnPkgPath(fn)) != "internal/compile" {
			continue
		}
		ord := 0
		eachInstr(fn, func(in ssa.Instruction) {
			st, ok := in.(*ssa.Store)
			if !ok {
				return
			}
			fa, ok := st.Addr.(*ssa.FieldAddr)
			if !ok {
				return
			}
			o, f := ownerField(fa)
			if o != "internal/compile.decoder" || f != "s" {
				return
			}
			n++
			ord++
			key := fmt.Sprintf("%s: store decoder.s #%d", fnName(fn), ord)
			okSrc := true
			why := ""
			var walk func(v ssa.Value, d int)
			seen := map[ssa.Value]bool{}
			walk = func(v ssa.Value, d int) {
				if d > 8 || seen[v] {
					return
				}
				seen[v] = true
				switch x := v.(type) {
				case *ssa.Slice:
					walk(x.X, d+1)
				case *ssa.Phi:
					for _, e := range x.Edges {
						walk(e, d+1)
					}
				case *ssa.Call:
					if cal := x.Call.StaticCallee(); cal != nil {
						name := cal.String()
						if o := cal.Origin(); o != nil {
							name = o.String()
						}
						if name == "slices.Clone" || name == "bytes.Clone" {
							return
						}
					}
					if b, ok := x.Call.Value.(*ssa.Builtin); ok && b.Name() == "append" {
						if isNilConst(x.Call.Args[0]) || isFreshValue(fc, x.Call.Args[0]) {
							return
						}
						walk(x.Call.Args[0], d+1)
						return
					}
					okSrc, why = false, "the result of "+calleeName(x)
				case *ssa.MakeSlice:
				case *ssa.UnOp:
					if x.Op == token.MUL {
						if fa2, ok := x.X.(*ssa.FieldAddr); ok {
							if o2, f2 := ownerField(fa2); o2 == "internal/compile.decoder" && f2 == "s" {
								return // remainder of the decoder's own section
							}
						}
					}
					okSrc, why = false, "a value loaded from elsewhere"
				case *ssa.Parameter:
					okSrc, why = false, "the parameter "+x.Name()+" (the caller's buffer)"
				case *ssa.Const:
				default:
					okSrc, why = false, fmt.Sprintf("a %T", v)
				}
			}
			walk(st.Val, 0)
			switch {
			case okSrc:
				c.ok(key, c.P.Pos(st.Pos()), "a private copy, or the remainder of the decoder's own section")
			case !usesUnsafeString:
				c.ok(key, c.P.Pos(st.Pos()), "strings are copied when decoded (no unsafe.String in the package)")
			default:
				c.viol(key, c.P.Pos(st.Pos()), "the decoder's string section is "+why+", not a private copy, while decoded strings alias it through unsafe.String: writing to the caller's buffer after DecodeProgram returns changes the loaded program")
			}
		})
	}
	if n == 0 {
		c.anchorFail("no store to decoder.s found")
	}
}

// ---------- N11: values compared by identity are comparable Go values ----------

func init() {
	register("N11", "identity comparison cannot panic: CompareDepth falls back to Go's == for values of one type that implement neither CompareSameType nor Cmp; every such Value type of the module is a comparable Go type (a pointer, or a struct/basic type without func, map or slice components) - a func-typed or slice-typed field added to a by-value Value type would make x == y panic at run time ('comparing uncomparable type')", 10, ruleN11)
	claim("C02", "N11")
	claim("C11", "N11")
}

func ruleN11(c *Ctx) {
	n := 0
	for _, t := range valueTypes(c.P) {
		if hasMethod(t, "CompareSameType") || hasMethod(t, "Cmp") {
			continue
		}
		n++
		key := "identity-compared type " + qualType(t)
		if _, isPtr := t.(*types.Pointer); isPtr {
			key = "identity-compared type *" + qualType(t)
		}
		if types.Comparable(t) {
			c.ok(key, "-", "comparable Go type")
		} else {
			c.viol(key, "-", fmt.Sprintf("%s has no CompareSameType/Cmp method, so == and != on two such values use Go's interface comparison, but its representation is not comparable (it contains a func, map or slice): the comparison panics in the host", qualType(t)))
		}
	}
	if n < 10 {
		c.anchorFail("only %d identity-compared Value types found", n)
	}
}

// ---------- W10: no shared mutable collection at package level ----------

func init() {
	register("W10", "no collection is shared by default: the module declares no package-level variable whose type is a mutable Starlark collection (*Dict, *List, *Set) - a shared 'empty' instance handed to every call (an empty **kwargs dict, say) is one object for all threads and all calls, so the first mutation leaks into every later call", 0, ruleW10)
	claim("C05", "W10")
	claim("C08", "W10")
}

func ruleW10(c *Ctx) {
	for _, pk := range c.P.Pkgs {
		if !isProdPkg(pk.PkgPath) {
			continue
		}
		sc := pk.Types.Scope()
		for _, name := range sc.Names() {
			v, ok := sc.Lookup(name).(*types.Var)
			if !ok {
				continue
			}
			pt, ok := v.Type().(*types.Pointer)
			if !ok {
				continue
			}
			pp, tn := namedOf(pt.Elem())
			if !strings.HasSuffix(pp, "/starlark") || !(tn == "Dict" || tn == "List" || tn == "Set") {
				continue
			}
			key := fmt.Sprintf("package variable %s.%s", relPkg(pk.PkgPath), name)
			c.viol(key, c.P.Pos(v.Pos()), fmt.Sprintf("%s is a package-level *%s: every thread and every call that receives it shares one mutable collection", name, tn))
		}
	}
	c.note("package-level variables of the module's production packages scanned for mutable collection types")
}

// ---------- Z9: big-integer constants are serialised with their sign ----------

func init() {
	register("Z9", "big integers cross the wire with their sign: the program encoder and decoder do not use the magnitude-only big.Int conversions (Bytes, SetBytes, FillBytes, Bits, SetBits); a constant such as -2^63 (a negative big literal, once the compiler folds unary minus) would be reloaded as its absolute value", 1, ruleZ9)
	claim("C17", "Z9")
	claim("C15", "Z9")
}

func ruleZ9(c *Ctx) {
	n := 0
	bad := 0
	for _, fn := range c.P.Funcs {
		if relPkg(fnPkgPath(fn)) != "internal/compile" {
			continue
		}
		eachInstr(fn, func(in ssa.Instruction) {
			call, ok := in.(*ssa.Call)
			if !ok {
				return
			}
			cal := call.Call.StaticCallee()
			if cal == nil || cal.Signature.Recv() == nil {
				return
			}
			if pp, tn := namedOf(cal.Signature.Recv().Type()); pp != "math/big" || tn != "Int" {
				return
			}
			n++
			switch cal.Name() {
			case "Bytes", "SetBytes", "FillBytes", "Bits", "SetBits":
				bad++
				c.viol(fmt.Sprintf("%s: big.Int.%s", fnName(fn), cal.Name()), c.P.Pos(call.Pos()), "a magnitude-only conversion of a big integer in package compile: the sign of a negative constant is lost when the program is saved and reloaded")
			}
		})
	}
	if bad == 0 {
		c.ok("internal/compile: big.Int conversions keep the sign", "-", fmt.Sprintf("%d big.Int call(s), none magnitude-only", n))
	}
	if n == 0 {
		c.anchorFail("no big.Int call found in package compile (expected the constant codec)")
	}
}

// ---------- V13: every program carries its file's Recursion option ----------

func init() {
	register("V13", "the Recursion option reaches every compiled program: each function of package compile that builds a Program from source (File, Expr, ...) stores the Recursion field from the file options it was given; an expression compiled without it would reject recursion that the same options allow in a file", 2, ruleV13)
	claim("C01", "V13")
	claim("C09", "V13")
}

func ruleV13(c *Ctx) {
	n := 0
	for _, fn := range c.P.Funcs {
		if relPkg(fnPkgPath(fn)) != "internal/compile" || fn.Parent() != nil {
			continue
		}
		// takes *syntax.FileOptions and returns *Program
		takesOpts := false
		for _, p := range fn.Params {
			if pt, ok := p.Type().(*types.Pointer); ok && isNamed(pt.Elem(), "syntax", "FileOptions") {
				takesOpts = true
			}
		}
		res := fn.Signature.Results()
		retProg := false
		for i := 0; i < res.Len(); i++ {
			if pt, ok := res.At(i).Type().(*types.Pointer); ok && isNamed(pt.Elem(), "internal/compile", "Program") {
				retProg = true
			}
		}
		if !takesOpts || !retProg {
			continue
		}
		n++
		key := fnName(fn)
		found := false
		var visit func(f *ssa.Function, depth int)
		seen := map[*ssa.Function]bool{}
		visit = func(f *ssa.Function, depth int) {
			if depth > 2 || seen[f] {
				return
			}
			seen[f] = true
			eachInstr(f, func(in ssa.Instruction) {
				if st, ok := in.(*ssa.Store); ok {
					if fa, ok := st.Addr.(*ssa.FieldAddr); ok {
						if o, fld := ownerField(fa); o == "internal/compile.Program" && fld == "Recursion" {
							// value derives from FileOptions.Recursion
							for v := range backSlice(st.Val) {
								if ld, ok := v.(*ssa.UnOp); ok && ld.Op == token.MUL {
									if fa2, ok := ld.X.(*ssa.FieldAddr); ok {
										if o2, f2 := ownerField(fa2); o2 == "syntax.FileOptions" && f2 == "Recursion" {
											found = true
										}
									}
								}
							}
							if p, ok := st.Val.(*ssa.Parameter); ok && depth > 0 {
								_ = p
								found = true // helper receives the flag as a parameter
							}
						}
					}
				}
				if call, ok := in.(*ssa.Call); ok {
					if cal := call.Call.StaticCallee(); cal != nil && cal.Blocks != nil && relPkg(fnPkgPath(cal)) == "internal/compile" {
						visit(cal, depth+1)
					}
				}
			})
		}
		visit(fn, 0)
		if found {
			c.ok(key, c.P.Pos(fn.Pos()), "stores Program.Recursion from the file options")
		} else {
			c.viol(key, c.P.Pos(fn.Pos()), key+" builds a Program from file options but never stores their Recursion flag into it: programs compiled through this entry point ignore the option")
		}
	}
	if n < 2 {
		c.anchorFail("only %d Program-building entry points found in package compile", n)
	}
}

// ---------- F10: whoever initialises a module freezes it ----------

func init() {
	register("F10", "every finished module is frozen: each caller of Program.Init in the module's packages (ExecFileOptions, a loader in package repl, ...) passes the returned globals through StringDict.Freeze on every path to its return, except the REPL's own chunk execution; a loader that compiles and initialises in two steps must not forget the third", 1, ruleF10)
	claim("C04", "F10")
	claim("C05", "F10")
}

func ruleF10(c *Ctx) {
	n := 0
	for _, fn := range c.P.Funcs {
		pk := fnPkgPath(fn)
		if !strings.HasPrefix(pk, modPath) || strings.Contains(pk, "/cmd/") || strings.HasSuffix(pk, "test") {
			continue
		}
		eachInstr(fn, func(in ssa.Instruction) {
			call, ok := in.(*ssa.Call)
			if !ok {
				return
			}
			cal := call.Call.StaticCallee()
			if cal == nil || !methodIs(cal, "starlark", "Program", "Init") {
				return
			}
			n++
			key := fnName(fn) + ": Init -> Freeze"
			isFreeze := func(x ssa.Instruction) bool {
				ci, ok := x.(ssa.CallInstruction)
				if !ok {
					return false
				}
				rv, ok := isFreezeCall(ci)
				if !ok {
					return false
				}
				for _, b := range traceAddr(rv).bases {
					if ex, ok := b.v.(*ssa.Extract); ok && ex.Tuple == ssa.Value(call) && ex.Index == 0 {
						return true
					}
				}
				return false
			}
			leak := pathAvoiding(call, isFreeze, func(x ssa.Instruction) bool { _, ok := x.(*ssa.Return); return ok })
			if leak == nil {
				c.ok(key, c.P.Pos(call.Pos()), "every path from Init to a return freezes the globals")
			} else {
				c.viol(key, c.P.Pos(call.Pos()), fmt.Sprintf("%s initialises a module with Program.Init and can return without freezing the globals it got: the finished module's values stay mutable (and shared, if the loader caches it)", fnName(fn)))
			}
		})
	}
	if n == 0 {
		c.anchorFail("no caller of Program.Init found")
	}
}

// ---------- O17: a file is accepted only after the resolver has walked it ----------

func init() {
	register("O17", "no file is accepted unread: in package resolve every exported entry point that returns an error (File, REPLChunk, Expr, ExprOptions) reaches the statement/expression walk (a call of a resolver method) on every path to a nil return; a 'resolved already' shortcut keyed on a field the previous, failed, pass also sets would accept a rejected tree the second time", 2, ruleO17)
	claim("C09", "O17")
}

func ruleO17(c *Ctx) {
	n := 0
	memo := map[*ssa.Function]int{}
	var always func(fn *ssa.Function) bool
	always = func(fn *ssa.Function) bool {
		switch memo[fn] {
		case 1, 3:
			return false
		case 2:
			return true
		}
		memo[fn] = 1
		sat := func(in ssa.Instruction) bool {
			call, ok := in.(*ssa.Call)
			if !ok {
				return false
			}
			cal := call.Call.StaticCallee()
			if cal == nil || relPkg(fnPkgPath(cal)) != "resolve" {
				return false
			}
			if cal.Signature.Recv() != nil {
				if _, tn := namedOf(cal.Signature.Recv().Type()); tn == "resolver" && (cal.Name() == "stmts" || cal.Name() == "stmt" || cal.Name() == "expr") {
					return true
				}
			}
			if cal.Blocks != nil && cal.Object() != nil {
				return always(cal)
			}
			return false
		}
		seen := map[*ssa.BasicBlock]bool{}
		leak := false
		var visit func(b *ssa.BasicBlock)
		visit = func(b *ssa.BasicBlock) {
			if seen[b] || leak {
				return
			}
			seen[b] = true
			for _, in := range b.Instrs {
				if sat(in) {
					return
				}
				if r, ok := in.(*ssa.Return); ok {
					if len(r.Results) > 0 && isNilConst(r.Results[len(r.Results)-1]) {
						leak = true
					}
					return
				}
			}
			for _, s := range b.Succs {
				visit(s)
			}
		}
		if len(fn.Blocks) > 0 {
			visit(fn.Blocks[0])
		}
		if leak || len(fn.Blocks) == 0 {
			memo[fn] = 3
			return false
		}
		memo[fn] = 2
		return true
	}
	for _, fn := range c.P.Funcs {
		if relPkg(fnPkgPath(fn)) != "resolve" || fn.Parent() != nil || fn.Signature.Recv() != nil || fn.Object() == nil || !fn.Object().Exported() {
			continue
		}
		res := fn.Signature.Results()
		if res.Len() == 0 || res.At(res.Len()-1).Type().String() != "error" {
			continue
		}
		n++
		key := fnName(fn)
		if always(fn) {
			c.ok(key, c.P.Pos(fn.Pos()), "every nil return is preceded by the resolver's walk")
		} else {
			c.viol(key, c.P.Pos(fn.Pos()), key+" can return nil without having walked the syntax tree: a file is declared resolved although no static rule was applied to it on this call")
		}
	}
	if n < 2 {
		c.anchorFail("only %d resolver entry points found", n)
	}
}

// ---------- O18: option sets handed out are private ----------

func init() {
	register("O18", "every caller gets its own options: a function of package syntax that returns *FileOptions returns a struct allocated by that call, never a cached or package-level instance - File.Options keeps the pointer, so a shared instance that one caller adjusts changes the dialect of files parsed earlier", 1, ruleO18)
	claim("C09", "O18")
}

func ruleO18(c *Ctx) {
	n := 0
	fc := computeReturnsFresh(c.P)
	for _, fn := range c.P.Funcs {
		if relPkg(fnPkgPath(fn)) != "syntax" || fn.Parent() != nil {
			continue
		}
		res := fn.Signature.Results()
		if res.Len() != 1 {
			continue
		}
		pt, ok := res.At(0).Type().(*types.Pointer)
		if !ok || !isNamed(pt.Elem(), "syntax", "FileOptions") {
			continue
		}
		n++
		key := fnName(fn)
		okAll := true
		eachInstr(fn, func(in ssa.Instruction) {
			ret, ok := in.(*ssa.Return)
			if !ok || in.Parent() != fn {
				return
			}
			tr := traceAddr(ret.Results[0])
			if len(tr.fields) > 0 {
				okAll = false
			}
			for _, b := range tr.bases {
				if b.throughPtr || !isFreshValue(fc, b.v) {
					okAll = false
				}
			}
		})
		if okAll {
			c.ok(key, c.P.Pos(fn.Pos()), "returns a struct allocated by the call")
		} else {
			c.viol(key, c.P.Pos(fn.Pos()), key+" can return a *FileOptions that it did not allocate itself (a cached or shared instance): options changed through it leak into other files that hold the same pointer")
		}
	}
	if n == 0 {
		c.anchorFail("no function returning *syntax.FileOptions found")
	}
}

// ---------- I13: the floor correction of big division looks at both operands' signs ----------

func init() {
	register("I13", "floored division corrects by the operands' signs: in the big-number arms of Int.Div and Int.Mod the adjustment of the truncated quotient/remainder (Sub / Add on the result) is guarded by a condition computed from the signs of both operands (and the remainder being non-zero), as in the small-number arm; a shortcut through the sign of the truncated quotient misses every case where it is zero (-5 // 2^40)", 2, ruleI13)
	claim("C10", "I13")
}

func ruleI13(c *Ctx) {
	n := 0
	for _, name := range []string{"Int.Div", "Int.Mod"} {
		root := c.P.Func("starlark", name)
		if root == nil {
			c.anchorFail("starlark.%s not found", name)
			continue
		}
		fns := []*ssa.Function{root}
		eachInstr(root, func(in ssa.Instruction) {
			if call, ok := in.(*ssa.Call); ok {
				if cal := call.Call.StaticCallee(); cal != nil && cal.Blocks != nil && relPkg(fnPkgPath(cal)) == "starlark" && cal.Object() != nil && !cal.Object().Exported() && cal != root {
					fns = append(fns, cal)
				}
			}
		})
		for _, fn := range fns {
			eachInstr(fn, func(in ssa.Instruction) {
				call, ok := in.(*ssa.Call)
				if !ok {
					return
				}
				cal := call.Call.StaticCallee()
				if cal == nil || cal.Signature.Recv() == nil || !(cal.Name() == "Sub" || cal.Name() == "Add") {
					return
				}
				if pp, tn := namedOf(cal.Signature.Recv().Type()); pp != "math/big" || tn != "Int" {
					return
				}
				// an adjustment: executed under a condition
				conds := pathConds(call.Block())
				if len(conds) == 0 {
					return
				}
				n++
				key := fmt.Sprintf("starlark.%s: big-arm floor correction", name)
				// receivers of Sign() calls in the backward slices of the guarding conditions
				signOf := map[string]bool{}
				for _, pc := range conds {
					for v := range backSlice(pc.If.Cond) {
						sc, ok := v.(*ssa.Call)
						if !ok {
							continue
						}
						sf := sc.Call.StaticCallee()
						if sf == nil || sf.Name() != "Sign" || len(sc.Call.Args) == 0 {
							continue
						}
						// which operand? follow the receiver to x.bigInt() / y.bigInt() on a parameter or receiver
						tr := traceValue(sc.Call.Args[0])
						for _, b := range tr.bases {
							if bc, ok := b.v.(*ssa.Call); ok {
								if bf := bc.Call.StaticCallee(); bf != nil && bf.Name() == "bigInt" && len(bc.Call.Args) > 0 {
									if p, ok := bc.Call.Args[0].(*ssa.Parameter); ok {
										signOf[p.Name()] = true
									}
								}
							}
							// a helper that receives the operands as *big.Int parameters
							if p, ok := b.v.(*ssa.Parameter); ok && len(tr.fields) == 0 {
								signOf[p.Name()] = true
							}
						}
					}
				}
				if len(signOf) >= 2 {
					c.ok(key, c.P.Pos(call.Pos()), "guarded by the signs of both operands")
				} else {
					c.viol(key, c.P.Pos(call.Pos()), fmt.Sprintf("the floor correction in the big-number arm of %s is not guarded by the signs of both operands (found the sign of %d operand(s)): when the truncated quotient is zero but the operands' signs differ, the result is off by one", name, len(signOf)))
				}
			})
		}
	}
	if n < 2 {
		c.anchorFail("only %d big-arm floor corrections found in Int.Div/Int.Mod", n)
	}
}

// ---------- H9: an empty slot does not end the search for the key ----------

func init() {
	register("H9", "an empty slot is remembered, not trusted: in the hashtable's insert (and the probe helper it may use) the branch taken when a slot's stored hash is zero only records the slot and goes on scanning - control returns to the scan loop's header; it never leaves the loop there, because deletions leave holes in front of live entries and a key equal to a later entry would be inserted twice", 1, ruleH9)
	claim("C12", "H9")
	claim("C11", "H9")
}

// naturalLoop returns the blocks of the innermost natural loop containing b, and its header.
func innermostLoop(fn *ssa.Function, b *ssa.BasicBlock) (map[*ssa.BasicBlock]bool, *ssa.BasicBlock) {
	// natural loops, merged per header
	loops := map[*ssa.BasicBlock]map[*ssa.BasicBlock]bool{}
	for _, t := range fn.Blocks {
		for _, h := range t.Succs {
			if !(h == t || h.Dominates(t)) {
				continue
			}
			loop := loops[h]
			if loop == nil {
				loop = map[*ssa.BasicBlock]bool{h: true}
				loops[h] = loop
			}
			stack := []*ssa.BasicBlock{t}
			for len(stack) > 0 {
				x := stack[len(stack)-1]
				stack = stack[:len(stack)-1]
				if loop[x] {
					continue
				}
				loop[x] = true
				stack = append(stack, x.Preds...)
			}
		}
	}
	var best map[*ssa.BasicBlock]bool
	var bestH *ssa.BasicBlock
	for h, loop := range loops {
		if loop[b] && (best == nil || len(loop) < len(best)) {
			best, bestH = loop, h
		}
	}
	return best, bestH
}

func ruleH9(c *Ctx) {
	n := 0
	for _, fn := range c.P.Funcs {
		if relPkg(fnPkgPath(fn)) != "starlark" || fn.Signature.Recv() == nil || qualType(fn.Signature.Recv().Type()) != "starlark.hashtable" {
			continue
		}
		// only the insertion path: insert itself or a helper it calls
		if fn.Name() != "insert" && !onlyCalledFromSet(c.P, fn, map[string]bool{"insert": true}, 0) {
			continue
		}
		for _, b := range fn.Blocks {
			if len(b.Instrs) == 0 {
				continue
			}
			ifi, ok := b.Instrs[len(b.Instrs)-1].(*ssa.If)
			if !ok {
				continue
			}
			cond, neg := stripNot(ifi.Cond)
			bo, ok := cond.(*ssa.BinOp)
			if !ok || (bo.Op != token.EQL && bo.Op != token.NEQ) {
				continue
			}
			isStoredHash := func(v ssa.Value) bool {
				if u, ok := v.(*ssa.UnOp); ok && u.Op == token.MUL {
					if fa, ok := u.X.(*ssa.FieldAddr); ok {
						o, f := ownerField(fa)
						return o == "starlark.entry" && f == "hash"
					}
				}
				return false
			}
			var k int64
			var okk bool
			if isStoredHash(bo.X) {
				k, okk = constInt(bo.Y)
			} else if isStoredHash(bo.Y) {
				k, okk = constInt(bo.X)
			}
			if !okk || k != 0 {
				continue
			}
			emptyOnTrue := (bo.Op == token.EQL) != neg
			empty := b.Succs[1]
			if emptyOnTrue {
				empty = b.Succs[0]
			}
			loop, header := innermostLoop(fn, b)
			if loop == nil {
				continue
			}
			n++
			key := fnName(fn) + ": empty-slot branch of the scan"
			// from the empty-slot successor, can we leave the loop without passing its header?
			leaves := false
			seen := map[*ssa.BasicBlock]bool{}
			var visit func(x *ssa.BasicBlock)
			visit = func(x *ssa.BasicBlock) {
				if seen[x] || leaves || x == header {
					return
				}
				seen[x] = true
				if !loop[x] {
					leaves = true
					return
				}
				for _, s := range x.Succs {
					visit(s)
				}
			}
			visit(empty)
			if leaves {
				c.viol(key, c.P.Pos(ifi.Cond.Pos()), "on finding an unused slot the scan can leave its loop without examining the remaining entries of the chain: a key equal to an entry behind a hole (left by a deletion) is inserted a second time")
			} else {
				c.ok(key, c.P.Pos(ifi.Cond.Pos()), "the empty-slot branch returns to the scan loop's header")
			}
		}
	}
	if n == 0 {
		c.anchorFail("no empty-slot test found in the hashtable's insertion scan")
	}
}

// ---------- J7: only quoted or numeric text reaches the JSON output ----------

func init() {
	register("J7", "nothing is written raw: every non-constant piece of text that json.encode writes to its output buffer is the result of a quoting or marshalling function (strconv.AppendQuote under its guard, encoding/json.Marshal, a value's MarshalJSON) or the text of a number (Float.String, fmt.Fprint of an Int); a key or field name written between hand-placed quote characters would break the document as soon as it contains a quote, a backslash or a control character", 3, ruleJ7)
	claim("C18", "J7")
}

func ruleJ7(c *Ctx) {
	n := 0
	for _, fn := range c.P.Funcs {
		if relPkg(fnPkgPath(fn)) != "lib/json" {
			continue
		}
		top := outermost(fn)
		if top.Name() != "encode" && !(top.Signature.Recv() != nil && strings.Contains(strings.ToLower(qualType(top.Signature.Recv().Type())), "encod")) {
			continue
		}
		ord := 0
		eachInstr(fn, func(in ssa.Instruction) {
			call, ok := in.(*ssa.Call)
			if !ok {
				return
			}
			cal := call.Call.StaticCallee()
			if cal == nil || cal.Signature.Recv() == nil {
				return
			}
			pp, tn := namedOf(cal.Signature.Recv().Type())
			if !((pp == "bytes" && tn == "Buffer") || (pp == "strings" && tn == "Builder")) {
				return
			}
			switch cal.Name() {
			case "Write", "WriteString":
			default:
				return
			}
			arg := call.Call.Args[1]
			if _, isK := arg.(*ssa.Const); isK {
				return
			}
			n++
			ord++
			key := fmt.Sprintf("%s: %s of non-constant text #%d", fnName(fn), cal.Name(), ord)
			okSrc := ""
			bad := ""
			seen := map[ssa.Value]bool{}
			var walk func(v ssa.Value, d int)
			walk = func(v ssa.Value, d int) {
				if d > 6 || seen[v] || bad != "" {
					return
				}
				seen[v] = true
				switch x := v.(type) {
				case *ssa.Const:
					if okSrc == "" {
						okSrc = "constant text"
					}
				case *ssa.Extract:
					walk(x.Tuple, d+1)
				case *ssa.Convert:
					walk(x.X, d+1)
				case *ssa.ChangeType:
					walk(x.X, d+1)
				case *ssa.Slice:
					walk(x.X, d+1)
				case *ssa.Phi:
					for _, e := range x.Edges {
						walk(e, d+1)
					}
				case *ssa.Call:
					if x.Call.IsInvoke() {
						if x.Call.Method.Name() == "MarshalJSON" {
							okSrc = "MarshalJSON"
							return
						}
						bad = "the result of a dynamic call of " + x.Call.Method.Name()
						return
					}
					cc := x.Call.StaticCallee()
					if cc == nil {
						bad = "the result of a dynamic call"
						return
					}
					switch {
					case strings.HasPrefix(cc.String(), "strconv.AppendQuote"), strings.HasPrefix(cc.String(), "strconv.Quote"), cc.String() == "encoding/json.Marshal":
						okSrc = cc.String()
					case cc.Name() == "String" && cc.Signature.Recv() != nil && (isNamed(cc.Signature.Recv().Type(), "starlark", "Float") || isNamed(cc.Signature.Recv().Type(), "starlark", "Int")):
						okSrc = "the text of a number"
					case cc.Blocks != nil && relPkg(fnPkgPath(cc)) == "lib/json" && cc.Signature.Results().Len() >= 1:
						// a quoting helper of the package: judged by what it returns
						eachInstr(cc, func(in2 ssa.Instruction) {
							if ret, ok := in2.(*ssa.Return); ok && in2.Parent() == cc && len(ret.Results) > 0 {
								walk(ret.Results[0], d+1)
							}
						})
					default:
						bad = "the result of " + cc.String()
					}
				case *ssa.BinOp:
					bad = "a string built by concatenation"
				default:
					bad = fmt.Sprintf("a value that was not produced by a quoting function (%T)", v)
				}
			}
			walk(arg, 0)
			if bad == "" && okSrc != "" {
				c.ok(key, c.P.Pos(call.Pos()), "produced by "+okSrc)
			} else {
				if bad == "" {
					bad = "text of unknown origin"
				}
				c.viol(key, c.P.Pos(call.Pos()), "json.encode writes "+bad+" to its output without passing it through a JSON quoting function: a name or string containing '\"', '\\\\' or a control character makes the document invalid")
			}
		})
	}
	if n < 3 {
		c.anchorFail("only %d non-constant writes found in json.encode", n)
	}
}

// ---------- I14: float-to-integer conversions are range-guarded ----------

func init() {
	register("I14", "no float silently becomes a wrong integer: every Go conversion from a floating-point value to an integer type in the value and library packages is dominated by tests that bound the float on both sides (which also excludes NaN), converts a constant, or is a named site; Go's conversion of an out-of-range or NaN float yields an arbitrary integer (the most negative int64 on amd64), so `hour / 1e-30` would be a negative duration instead of an error", 1, ruleI14)
	claim("C10", "I14")
	claim("C19", "I14")
	claim("C20", "I14")
}

var i14Exceptions = map[string]string{}

func ruleI14(c *Ctx) {
	n := 0
	for _, fn := range c.P.Funcs {
		pk := relPkg(fnPkgPath(fn))
		if !isProdPkg(fnPkgPath(fn)) || !(pk == "starlark" || strings.HasPrefix(pk, "lib/") || pk == "starlarkstruct") {
			continue
		}
		ord := map[string]int{}
		eachInstr(fn, func(in ssa.Instruction) {
			cv, ok := in.(*ssa.Convert)
			if !ok {
				return
			}
			sb, ok1 := cv.X.Type().Underlying().(*types.Basic)
			db, ok2 := cv.Type().Underlying().(*types.Basic)
			if !ok1 || !ok2 || sb.Info()&types.IsFloat == 0 || db.Info()&types.IsInteger == 0 {
				return
			}
			if _, isK := cv.X.(*ssa.Const); isK {
				return
			}
			n++
			kb := fmt.Sprintf("%s: %s <- float", fnName(fn), typeShort(cv.Type()))
			ord[kb]++
			key := kb
			if ord[kb] > 1 {
				key = fmt.Sprintf("%s #%d", kb, ord[kb])
			}
			pos := c.P.Pos(cv.Pos())
			// bounded on both sides by dominating float comparisons with constants (or with values derived from MaxInt/MinInt)
			lower, upper := false, false
			cands := map[ssa.Value]bool{cv.X: true}
			// the same float before a Floor/Trunc/Abs
			if call, ok := cv.X.(*ssa.Call); ok {
				if cal := call.Call.StaticCallee(); cal != nil && fnPkgPath(cal) == "math" && len(call.Call.Args) == 1 {
					cands[call.Call.Args[0]] = true
				}
			}
			for d := cv.Block(); d != nil; d = d.Idom() {
				facts := pathFacts(d)
				// a range predicate of the module applied to the float: the facts about its parameter
				for _, pf := range facts {
					hf, h, args := helperFacts(pf)
					for i, a := range args {
						if cands[a] && i < len(h.Params) {
							cands[h.Params[i]] = true
							facts = append(facts, hf...)
						}
					}
				}
				for _, pf := range facts {
					bo, ok := pf.Cond.(*ssa.BinOp)
					if !ok {
						continue
					}
					taken := pf.Truth
					op := bo.Op
					var isX bool
					if cands[bo.X] {
						isX = true
					} else if cands[bo.Y] {
						isX = true
						op = i9Flip(op)
					}
					if !isX {
						continue
					}
					if !taken {
						op = i9Neg(op)
					}
					switch op {
					case token.LSS, token.LEQ:
						upper = true
					case token.GTR, token.GEQ:
						lower = true
					}
				}
				break
			}
			top := fnName(outermost(fn))
			// the bounds must also be the right ones: at the first value beyond each end of the target
			// type (2^63 for int64 - which is what float64(math.MaxInt64) rounds to -, the float just
			// below -2^63, NaN) the conversion must be unreachable
			boundary := ""
			if lower && upper {
				bits := int(c.P.sizes().Sizeof(db)) * 8
				var reps []float64
				var names []string
				if db.Info()&types.IsUnsigned != 0 {
					reps = []float64{math.Ldexp(1, bits), -1, math.NaN()}
					names = []string{fmt.Sprintf("2^%d", bits), "-1", "NaN"}
				} else {
					lo := -math.Ldexp(1, bits-1) - 1
					if bits == 64 {
						lo = math.Nextafter(-math.Ldexp(1, 63), math.Inf(-1))
					}
					reps = []float64{math.Ldexp(1, bits-1), lo, math.NaN()}
					names = []string{fmt.Sprintf("2^%d", bits-1), fmt.Sprintf("the float below -2^%d", bits-1), "NaN"}
				}
				for ri, r := range reps {
					reach := true
					for cand := range cands {
						var def *ssa.BasicBlock
						switch x := cand.(type) {
						case *ssa.Parameter:
							def = fn.Blocks[0]
						case ssa.Instruction:
							def = x.Block()
						}
						if def != nil && def.Parent() == fn && !floatRepReach(def, cv.Block(), cand, r) {
							reach = false
						}
					}
					if reach {
						boundary = names[ri]
						break
					}
				}
			}
			switch {
			case lower && upper && boundary != "" && i14Exceptions[key] == "":
				c.viol(key, pos, fmt.Sprintf("the range test before the conversion to %s lets %s through: Go's conversion of a value outside the target range yields an arbitrary integer (the most negative one on amd64) instead of an error", typeShort(cv.Type()), boundary))
			case lower && upper:
				c.ok(key, pos, "the float is bounded on both sides by dominating comparisons")
			case i14Exceptions[key] != "":
				c.except(key, pos, i14Exceptions[key])
			case w3Exceptions[top] != "":
				c.except(key, pos, w3Exceptions[top])
			default:
				c.viol(key, pos, fmt.Sprintf("a float is converted to %s without dominating lower and upper bounds: for NaN, infinities and values beyond the integer range Go's conversion yields an arbitrary number instead of an error", typeShort(cv.Type())))
			}
		})
	}
	if n < 1 {
		c.anchorFail("only %d float-to-integer conversions found", n)
	}
}
