package main

import (
	"fmt"
	"go/token"
	"go/types"
	"strings"

	"golang.org/x/tools/go/ssa"
)

func init() {
	register("ZONCE", "lazily decoded line table: (*Funcode).decodeLNT is referenced only as the argument of fn.lntOnce.Do, and every read of Funcode.lnt outside decodeLNT is dominated by that Do call, so concurrent threads sharing a program never race on it", 2, ruleZONCE)
	register("W3", "no execution-time writes to package-level state: every store to a package-level variable (or to a map/slice/struct reached from one) is in a package initialiser or a named exception (profiler, documented legacy option variables)", 3, ruleW3)
	register("TC", "thread confinement: fields of starlark.Thread and of its frames are written only through a *Thread parameter/receiver of the writing function (or on a thread created there); nothing stores into a Thread reached from shared values", 8, ruleTC)
}

func ruleZONCE(c *Ctx) {
	dec := c.P.Func("internal/compile", "Funcode.decodeLNT")
	if dec == nil {
		c.anchorFail("(*compile.Funcode).decodeLNT not found")
		return
	}
	// every reference to decodeLNT (direct call, method value)
	refs := 0
	for _, fn := range c.P.Funcs {
		eachInstr(fn, func(in ssa.Instruction) {
			for _, op := range in.Operands(nil) {
				f, ok := (*op).(*ssa.Function)
				if !ok {
					continue
				}
				isBound := strings.HasSuffix(f.Name(), "decodeLNT$bound")
				if f != dec && !isBound {
					continue
				}
				refs++
				key := fmt.Sprintf("%s: reference to decodeLNT", fnName(fn))
				pos := c.P.Pos(in.Pos())
				if f == dec {
					// direct call: only allowed from the $bound wrapper
					if strings.HasSuffix(fn.Name(), "$bound") {
						c.trivial(key, pos, "method-value wrapper")
					} else {
						c.viol(key, pos, "decodeLNT is called directly: the line table of a shared Funcode would be written without sync.Once (data race between threads running the same program)")
					}
					continue
				}
				mc, ok := in.(*ssa.MakeClosure)
				if !ok {
					c.viol(key, pos, "unexpected use of the decodeLNT method value")
					continue
				}
				okUse := true
				n := 0
				if r := mc.Referrers(); r != nil {
					for _, u := range *r {
						n++
						call, isCall := u.(*ssa.Call)
						if !isCall || call.Call.StaticCallee() == nil || call.Call.StaticCallee().String() != "(*sync.Once).Do" {
							okUse = false
							continue
						}
						tr := traceAddr(call.Call.Args[0])
						if len(tr.fields) == 0 || tr.fields[0].Name() != "lntOnce" || len(tr.bases) != 1 || len(mc.Bindings) != 1 || tr.bases[0].v != traceAddr(mc.Bindings[0]).bases[0].v {
							okUse = false
						}
					}
				}
				if okUse && n > 0 {
					c.ok(key, pos, "passed to fn.lntOnce.Do of the same Funcode")
				} else {
					c.viol(key, pos, "the decodeLNT method value is used other than as the argument of the same Funcode's lntOnce.Do")
				}
			}
		})
	}
	if refs == 0 {
		c.viol("decodeLNT references", c.P.Pos(dec.Pos()), "decodeLNT is never referenced: the line table is never decoded")
	}
	// reads of lnt outside decodeLNT are dominated by the Do call
	for _, fn := range c.P.Funcs {
		if fn == dec {
			continue
		}
		var do ssa.Instruction
		eachInstr(fn, func(in ssa.Instruction) {
			if call, ok := in.(*ssa.Call); ok && call.Call.StaticCallee() != nil && call.Call.StaticCallee().String() == "(*sync.Once).Do" {
				do = in
			}
		})
		eachInstr(fn, func(in ssa.Instruction) {
			fa, ok := in.(*ssa.FieldAddr)
			if !ok || qualType(fa.X.Type()) != "internal/compile.Funcode" {
				return
			}
			stt := deref(fa.X.Type()).Underlying().(*types.Struct)
			if stt.Field(fa.Field).Name() != "lnt" {
				return
			}
			key := fmt.Sprintf("%s: read of Funcode.lnt", fnName(fn))
			if do != nil && instrDominates(do, in) {
				c.ok(key, c.P.Pos(in.Pos()), "dominated by lntOnce.Do")
			} else {
				c.viol(key, c.P.Pos(in.Pos()), "Funcode.lnt is accessed without a dominating lntOnce.Do(decodeLNT): racy or undecoded table")
			}
		})
	}
}

// ---------- W3 ----------

var w3Exceptions = map[string]string{
	"starlark.StopProfile":             "profiler: process-wide by design",
	"starlark.StartProfile":            "profiler: process-wide by design, documented as not part of script-visible state",
	"starlark.profiler":                "profiler goroutine",
	"(*starlark.Thread).beginProfSpan": "profiler bookkeeping",
	"(*starlark.Thread).endProfSpan":   "profiler bookkeeping",
	"starlark.setMaxAlloc (test hook)": "",
}

func globalRoot(v ssa.Value) *ssa.Global {
	tr := traceAddr(v)
	for _, b := range tr.bases {
		if g, ok := b.v.(*ssa.Global); ok {
			return g
		}
	}
	return nil
}

func ruleW3(c *Ctx) {
	for _, s := range collectStores(c.P) {
		g := globalRoot(s.addr)
		if g == nil {
			continue
		}
		if g.Pkg == nil || !strings.HasPrefix(g.Pkg.Pkg.Path(), modPath) {
			continue
		}
		top := outermost(s.fn)
		key := fmt.Sprintf("%s: %s package variable %s.%s", fnName(s.fn), s.kind, relPkg(g.Pkg.Pkg.Path()), g.Name())
		pos := c.P.Pos(s.instr.Pos())
		if top.Name() == "init" || strings.HasPrefix(top.Name(), "init#") || top.Synthetic == "package initializer" {
			c.trivial(key, pos, "package initialisation")
			continue
		}
		if r, ok := w3Exceptions[fnName(top)]; ok {
			c.except(key, pos, r)
			continue
		}
		c.viol(key, pos, "package-level variable written during execution: earlier executions and concurrent threads can influence later results through it")
	}
}

// ---------- TC ----------

func ruleTC(c *Ctx) {
	fc := computeReturnsFresh(c.P)
	for _, s := range collectStores(c.P) {
		tr := traceAddr(s.addr)
		owner := ""
		var field *types.Var
		for i := range tr.owners {
			q := qualType(tr.owners[i])
			if q == "starlark.Thread" || q == "starlark.frame" {
				owner = q
				if field == nil {
					field = tr.fields[i]
				}
			}
		}
		if owner == "" {
			continue
		}
		key := fmt.Sprintf("%s: %s %s.%s", fnName(s.fn), s.kind, owner, field.Name())
		pos := c.P.Pos(s.instr.Pos())
		bases := resolveBases(s.fn, tr.bases)
		okAll := len(bases) > 0
		why := ""
		for _, b := range bases {
			switch x := b.v.(type) {
			case *ssa.Parameter:
				pt := qualType(x.Type())
				if pt == "starlark.Thread" || pt == "starlark.frame" || pt == "starlark.Function" && false {
					why = "through the function's own *Thread/*frame parameter"
					continue
				}
				// a private struct that carries the frame (a deferred closure turned into a method of a
				// small struct): every place that builds one stores a frame obtained from its own thread
				if tcCarrier(c.P, x.Type()) {
					why = "through a private carrier struct that is only ever built around the current thread's frame"
					continue
				}
				okAll = false
			case *ssa.Call:
				// thread.frameAt(i) / the frame just pushed
				// thread.frameAt(i), thread.allocFrame(): a frame handed out by a method of the writer's own thread
				if cal := x.Call.StaticCallee(); cal != nil && cal.Signature.Recv() != nil && qualType(cal.Signature.Recv().Type()) == "starlark.Thread" && len(x.Call.Args) > 0 {
					if isOwnParam(x.Call.Args[0]) && qualType(x.Call.Args[0].Type()) == "starlark.Thread" {
						why = "frame obtained from the current thread"
						continue
					}
				}
				if isFreshValue(fc, b.v) && !b.throughPtr {
					why = "object created in this function"
					continue
				}
				okAll = false
			case *ssa.Alloc:
				// a value receiver spilled to a local: the carrier struct itself
				carrier := false
				if x.Referrers() != nil {
					for _, r := range *x.Referrers() {
						if st, ok := r.(*ssa.Store); ok && st.Addr == ssa.Value(x) {
							if prm, ok := st.Val.(*ssa.Parameter); ok && tcCarrier(c.P, prm.Type()) {
								carrier = true
							}
						}
					}
				}
				if carrier {
					why = "through a private carrier struct that is only ever built around the current thread's frame"
					continue
				}
				if isFreshValue(fc, b.v) && !b.throughPtr {
					why = "object created in this function"
					continue
				}
				okAll = false
			default:
				if isFreshValue(fc, b.v) && !b.throughPtr {
					why = "object created in this function"
					continue
				}
				okAll = false
			}
		}
		if okAll {
			c.ok(key, pos, why)
		} else {
			c.viol(key, pos, "a Thread/frame field is written through something other than the writer's own *Thread parameter: "+describeBases(bases))
		}
	}
}

var _ = token.ADD

// tcCarrier: t is an unexported struct type of the value package with a *frame or *Thread field, and every
// construction of it in the module stores into that field a value that comes from the constructing
// function's own *Thread/*frame parameter or from a method of its own thread.
func tcCarrier(p *Prog, t types.Type) bool {
	named, ok := deref(t).(*types.Named)
	if !ok || named.Obj().Exported() || named.Obj().Pkg() == nil || relPkg(named.Obj().Pkg().Path()) != "starlark" {
		return false
	}
	st, ok := named.Underlying().(*types.Struct)
	if !ok {
		return false
	}
	carries := map[int]bool{}
	for i := 0; i < st.NumFields(); i++ {
		q := qualType(st.Field(i).Type())
		if q == "starlark.Thread" || q == "starlark.frame" {
			carries[i] = true
		}
	}
	if len(carries) == 0 {
		return false
	}
	sites, good := 0, 0
	for _, fn := range p.Funcs {
		eachInstr(fn, func(in ssa.Instruction) {
			st2, ok := in.(*ssa.Store)
			if !ok {
				return
			}
			fa, ok := st2.Addr.(*ssa.FieldAddr)
			if !ok || !carries[fa.Field] || !types.Identical(deref(fa.X.Type()), named) {
				return
			}
			sites++
			okv := false
			for _, b := range traceValue(st2.Val).bases {
				switch x := b.v.(type) {
				case *ssa.Parameter:
					q := qualType(x.Type())
					okv = q == "starlark.Thread" || q == "starlark.frame"
				case *ssa.Call:
					if cal := x.Call.StaticCallee(); cal != nil && cal.Signature.Recv() != nil && qualType(cal.Signature.Recv().Type()) == "starlark.Thread" && len(x.Call.Args) > 0 && isOwnParam(x.Call.Args[0]) {
						okv = true
					}
				}
			}
			if okv {
				good++
			}
		})
	}
	return sites > 0 && sites == good
}

// isOwnParam: v is a parameter of the enclosing function, possibly reloaded
// from the cell it was spilled to because a closure captures it.
func isOwnParam(v ssa.Value) bool {
	if _, ok := v.(*ssa.Parameter); ok {
		return true
	}
	u, ok := v.(*ssa.UnOp)
	if !ok || u.Op != token.MUL {
		return false
	}
	al, ok := u.X.(*ssa.Alloc)
	if !ok || al.Referrers() == nil {
		return false
	}
	n, fromParam := 0, false
	for _, r := range *al.Referrers() {
		if st, ok := r.(*ssa.Store); ok && st.Addr == al {
			n++
			_, fromParam = st.Val.(*ssa.Parameter)
		}
	}
	return n == 1 && fromParam
}
