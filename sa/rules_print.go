package main

import (
	"fmt"
	"go/ast"
	"go/constant"
	"go/token"
	"go/types"
	"sort"
	"strconv"
	"strings"

	"golang.org/x/tools/go/ssa"
)

func init() {
	register("Q1", "writer within reader: every escape introducer syntax.Quote can emit after a backslash is a case label of unquote's escape switch", 8, ruleQ1)
	register("Q2", "escape tables are inverse: for each one-character escape, the rune for which Quote emits \\c equals unesc[c]", 7, ruleQ2)
	register("Q3", "cycle guard in writeValue: every recursive call passes a path derived from the incoming path; calls that extend the path with the container (list, dict) are on the false edge of pathContains(path, container); no call restarts with an empty path", 6, ruleQ3)
	register("Q4", "invalid-byte escapes consume one byte: in Quote, the branch that encodes only s[0] as \\xXX for a decoding error is taken only when the decoded width is 1, so a genuine U+FFFD (3 bytes) is never mistaken for an invalid byte", 1, ruleQ4)
}

func quoteEscapes(c *Ctx) (map[string]token.Pos, map[int64]string, bool) {
	fd, pk := c.P.FuncDecl("syntax", "Quote")
	if fd == nil {
		c.anchorFail("syntax.Quote not found")
		return nil, nil, false
	}
	letters := map[string]token.Pos{}
	caseToLetter := map[int64]string{} // rune value of the case -> letter emitted
	var walk func(n ast.Node, caseVals []int64)
	walk = func(n ast.Node, caseVals []int64) {
		ast.Inspect(n, func(m ast.Node) bool {
			switch x := m.(type) {
			case *ast.CaseClause:
				if m == n {
					return true
				}
				var vals []int64
				for _, e := range x.List {
					if tv := pk.TypesInfo.Types[e]; tv.Value != nil && tv.Value.Kind() == constant.Int {
						v, _ := constant.Int64Val(tv.Value)
						vals = append(vals, v)
					}
				}
				walk(x, vals)
				return false
			case *ast.BasicLit:
				if x.Kind == token.STRING {
					s, err := strconv.Unquote(x.Value)
					if err == nil && len(s) == 2 && s[0] == '\\' {
						letters[string(s[1])] = x.Pos()
						for _, v := range caseVals {
							caseToLetter[v] = string(s[1])
						}
					}
				}
				if x.Kind == token.CHAR {
					s, err := strconv.Unquote(x.Value)
					if err == nil && s == "\\" {
						// buf = append(buf, '\\') followed by the rune itself: always-backslashed characters
						letters["<self>"] = x.Pos()
					}
				}
			}
			return true
		})
	}
	walk(fd.Body, nil)
	return letters, caseToLetter, true
}

func unquoteCases(c *Ctx) (map[string]bool, bool) {
	fd, pk := c.P.FuncDecl("syntax", "unquote")
	if fd == nil {
		c.anchorFail("syntax.unquote not found")
		return nil, false
	}
	out := map[string]bool{}
	ast.Inspect(fd.Body, func(n ast.Node) bool {
		cc, ok := n.(*ast.CaseClause)
		if !ok {
			return true
		}
		for _, e := range cc.List {
			if tv := pk.TypesInfo.Types[e]; tv.Value != nil && tv.Value.Kind() == constant.Int {
				v, _ := constant.Int64Val(tv.Value)
				if v > 0 && v < 128 {
					out[string(rune(v))] = true
				}
			}
		}
		return true
	})
	return out, len(out) > 0
}

func ruleQ1(c *Ctx) {
	letters, _, ok := quoteEscapes(c)
	cases, ok2 := unquoteCases(c)
	if !ok || !ok2 {
		return
	}
	var ls []string
	for l := range letters {
		ls = append(ls, l)
	}
	sort.Strings(ls)
	for _, l := range ls {
		if l == "<self>" {
			for _, ch := range []string{`"`, `\`} {
				key := "escape \\" + ch
				if cases[ch] {
					c.ok(key, c.P.Pos(letters[l]), "accepted by unquote")
				} else {
					c.viol(key, c.P.Pos(letters[l]), "Quote backslashes "+ch+" but unquote has no case for it")
				}
			}
			continue
		}
		key := "escape \\" + l
		if cases[l] {
			c.ok(key, c.P.Pos(letters[l]), "accepted by unquote")
		} else {
			c.viol(key, c.P.Pos(letters[l]), "Quote can emit \\"+l+" but unquote's escape switch has no case for '"+l+"': repr() output does not read back")
		}
	}
}

func ruleQ2(c *Ctx) {
	_, caseToLetter, ok := quoteEscapes(c)
	if !ok {
		return
	}
	pk := c.P.Pkg("syntax")
	tbl, _, tpos := arrayLitEntries(pk, "unesc")
	if len(tbl) == 0 {
		c.anchorFail("syntax.unesc table not found")
		return
	}
	var vals []int64
	for v := range caseToLetter {
		vals = append(vals, v)
	}
	sort.Slice(vals, func(i, j int) bool { return vals[i] < vals[j] })
	for _, v := range vals {
		l := caseToLetter[v]
		if l == "x" || l == "u" || l == "U" {
			continue
		}
		key := fmt.Sprintf("escape \\%s <-> rune %d", l, v)
		e, has := tbl[int64(l[0])]
		if !has {
			c.viol(key, c.P.Pos(tpos), "unesc has no entry for '"+l+"'")
			continue
		}
		tv := pk.TypesInfo.Types[e]
		got, _ := constant.Int64Val(constant.ToInt(tv.Value))
		if got == v {
			c.ok(key, c.P.Pos(e.Pos()), "unesc['"+l+"'] is the rune Quote escapes as \\"+l)
		} else {
			c.viol(key, c.P.Pos(e.Pos()), fmt.Sprintf("Quote writes rune %d as \\%s but unesc['%s'] = %d: the character changes when the literal is read back", v, l, l, got))
		}
	}
}

func ruleQ3(c *Ctx) {
	wv := c.P.Func("starlark", "writeValue")
	pc := c.P.Func("starlark", "pathContains")
	if wv == nil || pc == nil {
		c.anchorFail("starlark.writeValue / pathContains not found")
		return
	}
	// the printer: writeValue plus the package-local helpers it calls that take a
	// path parameter of the same type (writeList, writeDict, ... after a split)
	pathT := wv.Params[2].Type()
	printer := map[*ssa.Function]*ssa.Parameter{wv: wv.Params[2]}
	work := []*ssa.Function{wv}
	for i := 0; i < len(work); i++ {
		eachInstr(work[i], func(in ssa.Instruction) {
			call, ok := in.(*ssa.Call)
			if !ok {
				return
			}
			cal := call.Call.StaticCallee()
			if cal == nil || cal.Blocks == nil || fnPkgPath(cal) != modPath+"/starlark" || printer[cal] != nil || cal == pc {
				return
			}
			for _, prm := range cal.Params {
				if types.Identical(prm.Type(), pathT) && cal.Signature.Results().Len() == 0 {
					printer[cal] = prm
					work = append(work, cal)
				}
			}
		})
	}
	extendedTypes := map[string]bool{}
	n := 0
	for _, fn := range work {
		pathP := printer[fn]
		eachInstr(fn, func(in ssa.Instruction) {
			call, ok := in.(*ssa.Call)
			if !ok || printer[call.Call.StaticCallee()] == nil {
				return
			}
			cal := call.Call.StaticCallee()
			// which argument is the callee's path?
			var arg ssa.Value
			for i, prm := range cal.Params {
				if prm == printer[cal] && i < len(call.Call.Args) {
					arg = call.Call.Args[i]
				}
			}
			if arg == nil {
				return
			}
			n++
			key := fnName(fn) + ": call of " + cal.Name()
			pos := c.P.Pos(call.Pos())
			switch x := arg.(type) {
			case *ssa.Parameter:
				if x == pathP {
					c.ok(key+" (path passed on)", pos, "passes the incoming path unchanged")
					return
				}
			case *ssa.Call:
				if b, ok := x.Call.Value.(*ssa.Builtin); ok && b.Name() == "append" && x.Call.Args[0] == pathP {
					elemT := ""
					for _, v := range variadicElems(x.Call.Args[1]) {
						if mi, ok := v.(*ssa.MakeInterface); ok {
							elemT = qualType(mi.X.Type())
						}
					}
					guarded := false
					for _, pf := range pathFacts(call.Block()) {
						if cc, ok := pf.Cond.(*ssa.Call); ok && cc.Call.StaticCallee() == pc && cc.Call.Args[0] == pathP && !pf.Truth {
							guarded = true
						}
					}
					if !guarded && fn != wv {
						// a helper that prints the elements of a container handed to it: the test is owed by
						// every caller, on the path and the container it passes
						unwrap := func(v ssa.Value) ssa.Value {
							if mi, ok := v.(*ssa.MakeInterface); ok {
								return mi.X
							}
							return v
						}
						pathIdx, contIdx := -1, -1
						for i, prm := range fn.Params {
							if prm == pathP {
								pathIdx = i
							}
							for _, v := range variadicElems(x.Call.Args[1]) {
								if unwrap(v) == ssa.Value(prm) {
									contIdx = i
								}
							}
						}
						sites, good := 0, 0
						if pathIdx >= 0 && contIdx >= 0 {
							for _, caller := range c.P.Funcs {
								eachInstr(caller, func(in2 ssa.Instruction) {
									c2, ok := in2.(*ssa.Call)
									if !ok || c2.Call.StaticCallee() != fn || c2.Call.IsInvoke() || len(c2.Call.Args) <= pathIdx || len(c2.Call.Args) <= contIdx {
										return
									}
									sites++
									for _, pf := range pathFacts(c2.Block()) {
										if cc, ok := pf.Cond.(*ssa.Call); ok && cc.Call.StaticCallee() == pc && !pf.Truth && cc.Call.Args[0] == c2.Call.Args[pathIdx] && unwrap(cc.Call.Args[1]) == unwrap(c2.Call.Args[contIdx]) {
											good++
											return
										}
									}
								})
							}
						}
						if sites > 0 && sites == good {
							guarded = true
						}
					}
					if guarded {
						extendedTypes[elemT] = true
						c.ok(key+" (path extended with "+elemT+")", pos, "append(path, container) under !pathContains(path, container)")
					} else {
						c.viol(key+" (path extended with "+elemT+")", pos, "the path is extended with the container but the call is not guarded by !pathContains(path, container): a self-containing value is printed forever")
					}
					return
				}
			}
			c.viol(key, pos, "a recursive printer call does not pass a path derived from the incoming one (it restarts with an empty or unrelated path): the enclosing containers are forgotten and a cycle through this edge recurses until the stack overflows")
		})
	}
	if n == 0 {
		c.viol("writeValue: recursion", c.P.Pos(wv.Pos()), "writeValue no longer recurses")
	}
	for _, t := range []string{"starlark.List", "starlark.Dict"} {
		key := "writeValue: cycle check for " + t
		if extendedTypes[t] {
			c.ok(key, c.P.Pos(wv.Pos()), "elements are printed with the container pushed on the path")
		} else {
			c.viol(key, c.P.Pos(wv.Pos()), "no guarded path extension for "+t+": a "+t+" that contains itself is printed forever")
		}
	}
}

func ruleQ4(c *Ctx) {
	q := c.P.Func("syntax", "Quote")
	if q == nil {
		c.anchorFail("syntax.Quote not found")
		return
	}
	const runeError = 0xFFFD
	n := 0
	eachInstr(q, func(in ssa.Instruction) {
		ifi, ok := in.(*ssa.If)
		if !ok {
			return
		}
		b, ok := ifi.Cond.(*ssa.BinOp)
		if !ok || b.Op != token.EQL {
			return
		}
		k, isK := constInt(b.Y)
		if !isK || k != runeError {
			return
		}
		n++
		key := "syntax.Quote: decoding-error branch"
		tb := ifi.Block().Succs[0]
		// does the true region index s[0]?
		usesFirst := false
		for _, blk := range q.Blocks {
			if blk != tb && !tb.Dominates(blk) {
				continue
			}
			for _, x := range blk.Instrs {
				if lk, ok := x.(*ssa.Index); ok {
					if i, isK := constInt(lk.Index); isK && i == 0 {
						usesFirst = true
					}
				}
			}
		}
		if !usesFirst {
			c.anchorFail("the r == utf8.RuneError branch of Quote no longer encodes s[0]; the rule cannot recognise the invalid-byte path")
			return
		}
		widthOne := false
		for _, pf := range pathFacts(tb) {
			if bo, ok := pf.Cond.(*ssa.BinOp); ok && bo.Op == token.EQL && pf.Truth {
				if kk, isK := constInt(bo.Y); isK && kk == 1 && strings.Contains(bo.X.Name(), "") {
					if _, isPhi := bo.X.(*ssa.Phi); isPhi {
						widthOne = true
					}
					if _, isEx := bo.X.(*ssa.Extract); isEx {
						widthOne = true
					}
				}
			}
		}
		if widthOne {
			c.ok(key, c.P.Pos(b.Pos()), "taken only when width == 1 and r == RuneError")
		} else {
			c.viol(key, c.P.Pos(b.Pos()), "the branch that writes only the first byte as \\xXX is taken for every r == utf8.RuneError, including a validly encoded U+FFFD (3 bytes): repr of such a string is not a legal literal / reads back differently")
		}
	})
	if n == 0 {
		c.viol("syntax.Quote: decoding-error branch", c.P.Pos(q.Pos()), "Quote no longer distinguishes invalid bytes (r == utf8.RuneError)")
	}
}

// ---------- Q5 ----------

func init() {
	register("Q5", "the printer's fast paths agree with String(): an arm of writeValue that formats a scalar type itself (instead of calling its String method) writes the same string constants and calls the same formatting functions with the same constant arguments as that type's String method, so a value prints the same inside a container as on its own", 3, ruleQ5)
	claim("C15", "Q5")
}

// printSig collects what a piece of code can print: string constants and
// calls of formatting functions with their constant arguments. Package-local
// helpers without constant arguments are looked through.
func printSig(blocks []*ssa.BasicBlock, depth int, out map[string]bool) {
	for _, b := range blocks {
		for _, in := range b.Instrs {
			var ops []*ssa.Value
			for _, op := range in.Operands(ops) {
				if op == nil || *op == nil {
					continue
				}
				if k, ok := (*op).(*ssa.Const); ok && k.Value != nil {
					if bt, ok := k.Type().Underlying().(*types.Basic); ok && bt.Info()&types.IsString != 0 {
						out["const "+k.Value.ExactString()] = true
					}
				}
			}
			ci, ok := in.(ssa.CallInstruction)
			if !ok {
				continue
			}
			cal := ci.Common().StaticCallee()
			if cal == nil {
				continue
			}
			if r := cal.Signature.Recv(); r != nil {
				if isNamedAny(r.Type(), "strings", "Builder") || isNamedAny(r.Type(), "bytes", "Buffer") {
					continue
				}
			}
			var consts []string
			for _, a := range ci.Common().Args {
				if k, ok := a.(*ssa.Const); ok && k.Value != nil {
					consts = append(consts, k.Value.ExactString())
				}
			}
			if len(consts) == 0 && cal.Blocks != nil && fnPkgPath(cal) == modPath+"/starlark" && depth > 0 && cal.Name() != "String" {
				printSig(cal.Blocks, depth-1, out)
				continue
			}
			out["call "+fnName(cal)+"("+strings.Join(consts, ",")+")"] = true
		}
	}
}

func isNamedAny(t types.Type, pkg, name string) bool {
	n, ok := deref(t).(*types.Named)
	return ok && n.Obj().Pkg() != nil && n.Obj().Pkg().Path() == pkg && n.Obj().Name() == name
}

func ruleQ5(c *Ctx) {
	wv := c.P.Func("starlark", "writeValue")
	if wv == nil {
		c.anchorFail("starlark.writeValue not found")
		return
	}
	arms := 0
	eachInstr(wv, func(in ssa.Instruction) {
		ta, ok := in.(*ssa.TypeAssert)
		if !ok || !ta.CommaOk || ta.X != ssa.Value(wv.Params[1]) {
			return
		}
		if _, isPtr := ta.AssertedType.(*types.Pointer); isPtr {
			return // containers: judged by Q3
		}
		if types.IsInterface(ta.AssertedType) {
			return
		}
		var entry *ssa.BasicBlock
		var v ssa.Value
		for _, r := range *ta.Referrers() {
			if ex, ok := r.(*ssa.Extract); ok {
				if ex.Index == 0 {
					v = ex
				} else if ex.Referrers() != nil {
					for _, r2 := range *ex.Referrers() {
						if ifi, ok := r2.(*ssa.If); ok {
							entry = ifi.Block().Succs[0]
						}
					}
				}
			}
		}
		if entry == nil {
			return
		}
		var region []*ssa.BasicBlock
		for _, b := range wv.Blocks {
			if b == entry || entry.Dominates(b) {
				region = append(region, b)
			}
		}
		// arms that recurse (tuples) or delegate to String() are not fast paths
		recurses, delegates := false, false
		for _, b := range region {
			for _, in2 := range b.Instrs {
				if ci, ok := in2.(ssa.CallInstruction); ok {
					if cal := ci.Common().StaticCallee(); cal != nil {
						if cal == wv {
							recurses = true
						}
						if cal.Name() == "String" && len(ci.Common().Args) > 0 && ci.Common().Args[0] == v {
							delegates = true
						}
					} else if ci.Common().IsInvoke() && ci.Common().Method.Name() == "String" {
						delegates = true
					}
				}
			}
		}
		tname := qualType(ta.AssertedType)
		key := "writeValue: arm " + tname
		pos := c.P.Pos(ta.Pos())
		if recurses {
			return
		}
		arms++
		if delegates {
			c.trivial(key, pos, "the arm calls the type's String method")
			return
		}
		ms := c.P.SSA.MethodSets.MethodSet(ta.AssertedType)
		sel := ms.Lookup(nil, "String")
		if sel == nil {
			c.viol(key, pos, "type has no String method to agree with")
			return
		}
		sm := c.P.SSA.MethodValue(sel)
		if sm == nil || sm.Blocks == nil {
			c.anchorFail("String method of %s has no body", tname)
			return
		}
		a, b := map[string]bool{}, map[string]bool{}
		printSig(region, 2, a)
		printSig(sm.Blocks, 2, b)
		var onlyA, onlyB []string
		for k := range a {
			if !b[k] {
				onlyA = append(onlyA, k)
			}
		}
		for k := range b {
			if !a[k] {
				onlyB = append(onlyB, k)
			}
		}
		sort.Strings(onlyA)
		sort.Strings(onlyB)
		if len(onlyA)+len(onlyB) == 0 {
			c.ok(key, pos, fmt.Sprintf("same %d constants/formatting calls as %s", len(a), fnName(sm)))
		} else {
			c.viol(key, pos, fmt.Sprintf("the fast path prints differently from %s: only in writeValue %v, only in String %v - the value would print differently inside a container than on its own, and one of the two forms does not read back", fnName(sm), onlyA, onlyB))
		}
	})
	if arms < 3 {
		c.anchorFail("only %d scalar arms found in writeValue", arms)
	}
}
