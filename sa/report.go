package main

import (
	"crypto/sha1"
	"encoding/json"
	"fmt"
	"os"
	"path/filepath"
	"sort"
	"strings"
	"time"
)

// An Ob is one obligation examined by a rule: a named construct of /repo and
// the verdict on it. Keys never contain line numbers or source text.
type Ob struct {
	Rule    string `json:"rule"`
	Key     string `json:"construct"`
	Status  string `json:"status"` // ok | trivial | excepted | violation | known
	Reason  string `json:"reason"`
	Pos     string `json:"pos"`
	Finding string `json:"finding,omitempty"`
}

type ruleInfo struct {
	name  string
	doc   string
	floor int // vacuity floor: minimum number of obligations on a healthy tree
	run   func(c *Ctx)
}

// Ctx carries the program and collects the obligations of one check run.
type Ctx struct {
	P        *Prog
	Prop     string
	Tier     string
	cur      *ruleInfo
	obs      []Ob
	failures []string // checker failures (unresolved anchors, floors, panics)
	notes    []string
	seen     map[string]bool
}

func (c *Ctx) add(status, key, pos, reason string) {
	k := c.cur.name + "\x00" + key
	if c.seen == nil {
		c.seen = map[string]bool{}
	}
	if c.seen[k+"\x00"+status] && status != "violation" {
		// duplicate keys get an ordinal so that obligations stay distinct
	}
	n := 1
	base := key
	for c.seen[c.cur.name+"\x00"+key] {
		n++
		key = fmt.Sprintf("%s #%d", base, n)
	}
	c.seen[c.cur.name+"\x00"+key] = true
	c.obs = append(c.obs, Ob{Rule: c.cur.name, Key: key, Status: status, Reason: reason, Pos: pos})
}

func (c *Ctx) ok(key, pos, reason string)      { c.add("ok", key, pos, reason) }
func (c *Ctx) trivial(key, pos, reason string) { c.add("trivial", key, pos, reason) }
func (c *Ctx) except(key, pos, reason string)  { c.add("excepted", key, pos, reason) }
func (c *Ctx) viol(key, pos, reason string)    { c.add("violation", key, pos, reason) }

// anchorFail records that a rule could not be evaluated at all.
func (c *Ctx) anchorFail(format string, args ...any) {
	c.failures = append(c.failures, fmt.Sprintf("rule %s: ", c.cur.name)+fmt.Sprintf(format, args...))
}
func (c *Ctx) note(format string, args ...any) {
	c.notes = append(c.notes, fmt.Sprintf("%s: ", c.cur.name)+fmt.Sprintf(format, args...))
}

type knownFinding struct {
	Property   string   `json:"property"`
	Properties []string `json:"properties,omitempty"`
	Rule       string   `json:"rule"`
	Key        string   `json:"construct"`
	What       string   `json:"what"`
	Input      string   `json:"input"`
}

type knownFile struct {
	Findings []knownFinding `json:"findings"`
	Fixed    []string       `json:"fixed"`
}

func loadKnown(verifDir string) (*knownFile, error) {
	var kf knownFile
	b, err := os.ReadFile(filepath.Join(verifDir, "known_findings.json"))
	if err != nil {
		if os.IsNotExist(err) {
			return &kf, nil
		}
		return nil, err
	}
	if err := json.Unmarshal(b, &kf); err != nil {
		return nil, fmt.Errorf("known_findings.json: %v", err)
	}
	return &kf, nil
}

func (k *knownFinding) appliesTo(prop string) bool {
	if k.Property == prop || prop == "ALL" {
		return true
	}
	for _, p := range k.Properties {
		if p == prop {
			return true
		}
	}
	return false
}

// runRules executes the rules, converting panics into checker failures.
func (c *Ctx) runRules(rs []*ruleInfo) {
	for _, r := range rs {
		c.cur = r
		before := len(c.obs)
		func() {
			defer func() {
				if x := recover(); x != nil {
					c.failures = append(c.failures, fmt.Sprintf("rule %s: internal panic: %v", r.name, x))
					if os.Getenv("VERIF_DEBUG") != "" {
						panic(x)
					}
				}
			}()
			r.run(c)
		}()
		if n := len(c.obs) - before; n < r.floor {
			c.failures = append(c.failures, fmt.Sprintf("rule %s: vacuity floor: %d obligations found, at least %d expected (the rule no longer matches the code it was confirmed on)", r.name, n, r.floor))
		}
	}
}

// finish applies the known-findings file, writes evidence and violation
// reports, prints the verdict lines and returns the exit code.
func (c *Ctx) finish(verifDir string, rs []*ruleInfo, start time.Time, seed int64, extra map[string]any) int {
	kf, err := loadKnown(verifDir)
	if err != nil {
		c.failures = append(c.failures, err.Error())
		kf = &knownFile{}
	}
	usedKnown := map[int]bool{}
	for i := range c.obs {
		o := &c.obs[i]
		if o.Status != "violation" {
			continue
		}
		for j := range kf.Findings {
			k := &kf.Findings[j]
			if k.Rule == o.Rule && k.Key == strings.TrimPrefix(o.Key, "[GOARCH=386] ") && k.appliesTo(c.Prop) {
				o.Status = "known"
				o.Finding = k.What
				usedKnown[j] = true
			}
		}
	}
	perRule := map[string]map[string]int{}
	var viols, knowns []Ob
	nontrivial := map[string]bool{}
	for _, o := range c.obs {
		m := perRule[o.Rule]
		if m == nil {
			m = map[string]int{}
			perRule[o.Rule] = m
		}
		m["instances"]++
		m[o.Status]++
		if o.Status != "trivial" {
			nontrivial[o.Rule+"|"+o.Key] = true
		}
		switch o.Status {
		case "violation":
			viols = append(viols, o)
		case "known":
			knowns = append(knowns, o)
		}
	}
	// stale known findings (listed but not reproduced) are only noted
	for j, k := range kf.Findings {
		if k.appliesTo(c.Prop) && !usedKnown[j] {
			ran := false
			for _, r := range rs {
				if r.name == k.Rule {
					ran = true
				}
			}
			if ran {
				c.notes = append(c.notes, fmt.Sprintf("known finding %s/%s no longer reproduced (fixed?)", k.Rule, k.Key))
			}
		}
	}

	vdir := filepath.Join(verifDir, "evidence", "violations")
	os.MkdirAll(vdir, 0o755)
	// remove stale violation reports of this property
	if ents, err := os.ReadDir(vdir); err == nil {
		for _, e := range ents {
			if strings.HasPrefix(e.Name(), c.Prop+"-") {
				os.Remove(filepath.Join(vdir, e.Name()))
			}
		}
	}
	for _, k := range knowns {
		fmt.Printf("KNOWN-FINDING: property=%s rule=%s construct=%q at %s: %s\n", c.Prop, k.Rule, k.Key, k.Pos, k.Finding)
	}
	for _, v := range viols {
		h := sha1.Sum([]byte(v.Rule + "|" + v.Key))
		path := filepath.Join(vdir, fmt.Sprintf("%s-%s-%x.json", c.Prop, v.Rule, h[:4]))
		b, _ := json.MarshalIndent(map[string]any{"property": c.Prop, "rule": v.Rule, "construct": v.Key, "pos": v.Pos, "reason": v.Reason, "rule_doc": ruleDoc(rs, v.Rule)}, "", " ")
		os.WriteFile(path, b, 0o644)
		fmt.Printf("%s: [%s] %s: %s\n", v.Pos, v.Rule, v.Key, v.Reason)
		fmt.Printf("VIOLATION property=%s replay=%s\n", c.Prop, path)
	}
	for _, f := range c.failures {
		fmt.Printf("CHECKER-FAILURE property=%s %s\n", c.Prop, f)
	}

	// evidence
	var ruleNames []string
	docs := map[string]string{}
	for _, r := range rs {
		ruleNames = append(ruleNames, r.name)
		docs[r.name] = r.doc
	}
	samples := pickSamples(c.obs, seed)
	var expl strings.Builder
	fmt.Fprintf(&expl, "Static analysis of %s (GOARCH=%s): %d module packages type-checked, %d module functions in SSA form (%d functions program-wide). Rules applied: ", c.P.Repo, c.P.Arch, len(c.P.Pkgs), len(c.P.Funcs), c.P.nAllFns)
	for i, r := range rs {
		if i > 0 {
			expl.WriteString(" | ")
		}
		fmt.Fprintf(&expl, "%s: %s", r.name, r.doc)
	}
	cov := map[string]any{
		"explanation":         expl.String(),
		"evaluations":         len(c.obs),
		"distinct_nontrivial": len(nontrivial),
		"rule":                "one obligation per (rule, construct) found in the resolved program; trivial = discharged by local freshness/constant facts alone, non-trivial = needed a dominance, path, call-graph or table argument",
		"obligations":         len(c.obs),
		"discharged":          len(c.obs) - len(viols) - len(knowns),
		"per_rule":            perRule,
		"rule_docs":           docs,
		"samples":             samples,
		"packages":            len(c.P.Pkgs),
		"functions":           len(c.P.Funcs),
		"goarch":              c.P.Arch,
		"known_findings":      len(knowns),
		"checker_failures":    c.failures,
		"notes":               c.notes,
		"exhaustive":          true,
	}
	for k, v := range extra {
		cov[k] = v
	}
	ev := map[string]any{
		"property_id": c.Prop,
		"tier":        c.Tier,
		"seed":        seed,
		"level":       "other",
		"coverage":    cov,
		"assumptions": []string{
			"go/types, go/ssa and the VTA call graph of golang.org/x/tools v0.29.0 model the program faithfully",
			"host-defined Value types and callbacks are outside the analysed program",
			"the structural clauses checked are necessary conditions of the property, not the behavioural property itself (see DESIGN.md section 3)",
		},
		"wall_s":     time.Since(start).Seconds(),
		"violations": len(viols),
	}
	b, _ := json.MarshalIndent(ev, "", " ")
	os.MkdirAll(filepath.Join(verifDir, "evidence"), 0o755)
	if err := os.WriteFile(filepath.Join(verifDir, "evidence", c.Prop+".json"), b, 0o644); err != nil {
		fmt.Printf("CHECKER-FAILURE property=%s cannot write evidence: %v\n", c.Prop, err)
		return 2
	}
	// summary
	sort.Strings(ruleNames)
	for _, rn := range ruleNames {
		m := perRule[rn]
		fmt.Printf("  %-8s instances=%d ok=%d trivial=%d excepted=%d known=%d violated=%d\n", rn, m["instances"], m["ok"], m["trivial"], m["excepted"], m["known"], m["violation"])
	}
	for _, n := range c.notes {
		fmt.Printf("  note: %s\n", n)
	}
	switch {
	case len(viols) > 0:
		fmt.Printf("%s: %d violation(s)\n", c.Prop, len(viols))
		return 1
	case len(c.failures) > 0:
		fmt.Printf("%s: checker failure (not a pass)\n", c.Prop)
		return 2
	}
	fmt.Printf("%s: held on %d obligations (%d non-trivial, %d known findings) in %.1fs\n", c.Prop, len(c.obs), len(nontrivial), len(knowns), time.Since(start).Seconds())
	return 0
}

func ruleDoc(rs []*ruleInfo, name string) string {
	for _, r := range rs {
		if r.name == name {
			return r.doc
		}
	}
	return ""
}

// pickSamples writes out a few obligations per rule (seed rotates which).
func pickSamples(obs []Ob, seed int64) []Ob {
	byRule := map[string][]Ob{}
	var order []string
	for _, o := range obs {
		if _, ok := byRule[o.Rule]; !ok {
			order = append(order, o.Rule)
		}
		byRule[o.Rule] = append(byRule[o.Rule], o)
	}
	var out []Ob
	for _, r := range order {
		l := byRule[r]
		// always include non-ok ones
		n := 0
		for _, o := range l {
			if o.Status == "violation" || o.Status == "known" || o.Status == "excepted" {
				out = append(out, o)
			}
		}
		start := 0
		if len(l) > 0 {
			start = int(uint64(seed) % uint64(len(l)))
		}
		for i := 0; i < len(l) && n < 3; i++ {
			o := l[(start+i)%len(l)]
			if o.Status == "ok" || o.Status == "trivial" {
				out = append(out, o)
				n++
			}
		}
	}
	return out
}
