package main

// A small abstract executor for pure, comparison-and-arithmetic SSA code over
// concrete representative values. It is used by rules that decide a predicate
// "for all inputs" by evaluating one representative per region of the input
// space (the regions are delimited by the constants the code compares with).
// Repository code is never run: its SSA is interpreted, and any instruction the
// executor does not model makes the result "undetermined".

import (
	"go/constant"
	"go/token"
	"go/types"
	"math"

	"golang.org/x/tools/go/ssa"
)

type sval struct {
	k byte // 'i' signed, 'u' unsigned, 'f' float, 'b' bool
	i int64
	u uint64
	f float64
	b bool
}

func svInt(x int64) sval     { return sval{k: 'i', i: x} }
func svUint(x uint64) sval   { return sval{k: 'u', u: x} }
func svFloat(x float64) sval { return sval{k: 'f', f: x} }
func svBool(x bool) sval     { return sval{k: 'b', b: x} }

type sinterp struct {
	env  map[ssa.Value]sval
	prev *ssa.BasicBlock
	// input: values that carry the quantity being varied. The representatives are an exact
	// abstraction only while that quantity is merely compared (order-type abstraction);
	// nonCmp is set when it enters arithmetic, and the callers then refuse to conclude.
	input  map[ssa.Value]bool
	nonCmp bool
	depth  int
}

// runToReturn interprets fn from its entry with the environment already set for its parameters.
func (s *sinterp) runToReturn(fn *ssa.Function) (sval, bool) {
	if len(fn.Blocks) == 0 {
		return sval{}, false
	}
	blk := fn.Blocks[0]
	for steps := 0; steps < 300; steps++ {
		next, ret, ok := s.step(blk, 0)
		if !ok {
			return sval{}, false
		}
		if ret != nil {
			if len(ret.Results) != 1 {
				return sval{}, false
			}
			return s.eval(ret.Results[0])
		}
		blk = next
	}
	return sval{}, false
}

func (s *sinterp) markInput(v ssa.Value) {
	if s.input == nil {
		s.input = map[ssa.Value]bool{}
	}
	s.input[v] = true
}

func basicOf(t types.Type) *types.Basic {
	b, _ := t.Underlying().(*types.Basic)
	return b
}

// wrap truncates to the width and signedness of type t.
func wrapTo(t types.Type, v sval) sval {
	b := basicOf(t)
	if b == nil {
		return v
	}
	info := b.Info()
	switch {
	case info&types.IsFloat != 0:
		switch v.k {
		case 'i':
			return svFloat(float64(v.i))
		case 'u':
			return svFloat(float64(v.u))
		}
		if b.Kind() == types.Float32 {
			return svFloat(float64(float32(v.f)))
		}
		return v
	case info&types.IsInteger != 0:
		var bits uint = 64
		switch b.Kind() {
		case types.Int8, types.Uint8:
			bits = 8
		case types.Int16, types.Uint16:
			bits = 16
		case types.Int32, types.Uint32:
			bits = 32
		}
		var raw uint64
		switch v.k {
		case 'i':
			raw = uint64(v.i)
		case 'u':
			raw = v.u
		case 'f':
			if info&types.IsUnsigned != 0 {
				raw = uint64(v.f)
			} else {
				raw = uint64(int64(v.f))
			}
		}
		if bits < 64 {
			raw &= (1 << bits) - 1
		}
		if info&types.IsUnsigned != 0 {
			return svUint(raw)
		}
		if bits < 64 && raw&(1<<(bits-1)) != 0 {
			raw |= ^uint64(0) << bits
		}
		return svInt(int64(raw))
	}
	return v
}

func (s *sinterp) eval(v ssa.Value) (sval, bool) {
	if c, ok := v.(*ssa.Const); ok {
		if c.Value == nil {
			// nil of an interface, pointer, slice ...: only ever compared
			return sval{k: 'n'}, true
		}
		switch c.Value.Kind() {
		case constant.Bool:
			return svBool(constant.BoolVal(c.Value)), true
		case constant.Int:
			if b := basicOf(c.Type()); b != nil && b.Info()&types.IsUnsigned != 0 {
				u, _ := constant.Uint64Val(c.Value)
				return svUint(u), true
			}
			if b := basicOf(c.Type()); b != nil && b.Info()&types.IsFloat != 0 {
				f, _ := constant.Float64Val(c.Value)
				return svFloat(f), true
			}
			i, exact := constant.Int64Val(c.Value)
			if !exact {
				u, _ := constant.Uint64Val(c.Value)
				return svUint(u), true
			}
			return svInt(i), true
		case constant.Float:
			f, _ := constant.Float64Val(c.Value)
			return svFloat(f), true
		}
		return sval{}, false
	}
	x, ok := s.env[v]
	return x, ok
}

func cmpOp(op token.Token, c int) bool {
	switch op {
	case token.EQL:
		return c == 0
	case token.NEQ:
		return c != 0
	case token.LSS:
		return c < 0
	case token.LEQ:
		return c <= 0
	case token.GTR:
		return c > 0
	case token.GEQ:
		return c >= 0
	}
	return false
}

func (s *sinterp) binop(x *ssa.BinOp) (sval, bool) {
	a, ok1 := s.eval(x.X)
	b, ok2 := s.eval(x.Y)
	if !ok1 || !ok2 {
		return sval{}, false
	}
	switch x.Op {
	case token.EQL, token.NEQ, token.LSS, token.LEQ, token.GTR, token.GEQ:
		switch {
		case a.k == 'n' || b.k == 'n':
			// nil-ness: 'n' is nil, anything else is non-nil
			same := a.k == 'n' && b.k == 'n'
			if x.Op == token.EQL {
				return svBool(same), true
			}
			if x.Op == token.NEQ {
				return svBool(!same), true
			}
			return sval{}, false
		case a.k == 'f' || b.k == 'f':
			af, bf := a.f, b.f
			if a.k == 'i' {
				af = float64(a.i)
			}
			if b.k == 'i' {
				bf = float64(b.i)
			}
			switch x.Op { // NaN-aware
			case token.EQL:
				return svBool(af == bf), true
			case token.NEQ:
				return svBool(af != bf), true
			case token.LSS:
				return svBool(af < bf), true
			case token.LEQ:
				return svBool(af <= bf), true
			case token.GTR:
				return svBool(af > bf), true
			case token.GEQ:
				return svBool(af >= bf), true
			}
		case a.k == 'b':
			if x.Op == token.EQL {
				return svBool(a.b == b.b), true
			}
			return svBool(a.b != b.b), true
		case a.k == 'u' || b.k == 'u':
			au, bu := a.u, b.u
			if a.k == 'i' {
				au = uint64(a.i)
			}
			if b.k == 'i' {
				bu = uint64(b.i)
			}
			c := 0
			if au < bu {
				c = -1
			} else if au > bu {
				c = 1
			}
			return svBool(cmpOp(x.Op, c)), true
		default:
			c := 0
			if a.i < b.i {
				c = -1
			} else if a.i > b.i {
				c = 1
			}
			return svBool(cmpOp(x.Op, c)), true
		}
	}
	t := x.Type()
	bt := basicOf(t)
	if bt == nil {
		return sval{}, false
	}
	if bt.Info()&types.IsFloat != 0 {
		var r float64
		switch x.Op {
		case token.ADD:
			r = a.f + b.f
		case token.SUB:
			r = a.f - b.f
		case token.MUL:
			r = a.f * b.f
		case token.QUO:
			r = a.f / b.f
		default:
			return sval{}, false
		}
		return wrapTo(t, svFloat(r)), true
	}
	if bt.Info()&types.IsBoolean != 0 {
		switch x.Op {
		case token.AND, token.LAND:
			return svBool(a.b && b.b), true
		case token.OR, token.LOR:
			return svBool(a.b || b.b), true
		}
		return sval{}, false
	}
	unsigned := bt.Info()&types.IsUnsigned != 0
	au, bu := a.u, b.u
	if a.k == 'i' {
		au = uint64(a.i)
	}
	if b.k == 'i' {
		bu = uint64(b.i)
	}
	var r uint64
	switch x.Op {
	case token.ADD:
		r = au + bu
	case token.SUB:
		r = au - bu
	case token.MUL:
		r = au * bu
	case token.AND:
		r = au & bu
	case token.OR:
		r = au | bu
	case token.XOR:
		r = au ^ bu
	case token.AND_NOT:
		r = au &^ bu
	case token.SHL:
		if bu >= 64 {
			r = 0
		} else {
			r = au << bu
		}
	case token.SHR:
		if unsigned {
			if bu >= 64 {
				r = 0
			} else {
				r = au >> bu
			}
		} else {
			sh := bu
			if sh > 63 {
				sh = 63
			}
			r = uint64(int64(au) >> sh)
		}
	case token.QUO, token.REM:
		if bu == 0 {
			return sval{}, false
		}
		if unsigned {
			if x.Op == token.QUO {
				r = au / bu
			} else {
				r = au % bu
			}
		} else {
			if x.Op == token.QUO {
				r = uint64(int64(au) / int64(bu))
			} else {
				r = uint64(int64(au) % int64(bu))
			}
		}
	default:
		return sval{}, false
	}
	if unsigned {
		return wrapTo(t, svUint(r)), true
	}
	return wrapTo(t, svInt(int64(r))), true
}

// step executes the non-control instructions of blk from index start; it returns the
// successor chosen by the terminating If/Jump, or the Return instruction, or ok=false
// if the terminator's condition is undetermined.
func (s *sinterp) step(blk *ssa.BasicBlock, start int) (next *ssa.BasicBlock, ret *ssa.Return, ok bool) {
	for _, in := range blk.Instrs[start:] {
		switch x := in.(type) {
		case *ssa.Phi:
			for i, p := range blk.Preds {
				if p == s.prev {
					if s.input[x.Edges[i]] {
						s.markInput(x)
					}
					if v, ok := s.eval(x.Edges[i]); ok {
						s.env[x] = v
					} else {
						delete(s.env, x)
					}
				}
			}
		case *ssa.BinOp:
			if s.input[x.X] || s.input[x.Y] {
				switch x.Op {
				case token.EQL, token.NEQ, token.LSS, token.LEQ, token.GTR, token.GEQ:
				default:
					s.nonCmp = true
				}
			}
			if v, ok := s.binop(x); ok {
				s.env[x] = v
			}
		case *ssa.UnOp:
			if s.input[x.X] && x.Op != token.NOT {
				s.markInput(x)
			}
			if v, ok := s.eval(x.X); ok {
				switch x.Op {
				case token.NOT:
					s.env[x] = svBool(!v.b)
				case token.SUB:
					switch v.k {
					case 'f':
						s.env[x] = svFloat(-v.f)
					case 'i':
						s.env[x] = wrapTo(x.Type(), svInt(-v.i))
					case 'u':
						s.env[x] = wrapTo(x.Type(), svUint(-v.u))
					}
				case token.XOR:
					if v.k == 'i' {
						s.env[x] = wrapTo(x.Type(), svInt(^v.i))
					} else if v.k == 'u' {
						s.env[x] = wrapTo(x.Type(), svUint(^v.u))
					}
				}
			}
		case *ssa.Convert:
			if s.input[x.X] {
				s.markInput(x)
			}
			if v, ok := s.eval(x.X); ok {
				s.env[x] = wrapTo(x.Type(), v)
			}
		case *ssa.ChangeType:
			if s.input[x.X] {
				s.markInput(x)
			}
			if v, ok := s.eval(x.X); ok {
				s.env[x] = v
			}
		case *ssa.Call:
			if cal := x.Call.StaticCallee(); cal != nil {
				var args []sval
				all := true
				for _, a := range x.Call.Args {
					v, ok := s.eval(a)
					if !ok {
						all = false
					}
					args = append(args, v)
				}
				for _, a := range x.Call.Args {
					if s.input[a] && cal.String() == "math.Abs" {
						s.markInput(x) // |f| is monotone on each sign region; representatives cover both signs
					}
				}
				if all {
					switch cal.String() {
					case "math.Abs":
						s.env[x] = svFloat(math.Abs(args[0].f))
					case "math.IsNaN":
						s.env[x] = svBool(math.IsNaN(args[0].f))
					case "math.IsInf":
						s.env[x] = svBool(math.IsInf(args[0].f, int(args[1].i)))
					case "math.Floor":
						s.env[x] = svFloat(math.Floor(args[0].f))
					case "math.Trunc":
						s.env[x] = svFloat(math.Trunc(args[0].f))
					default:
						// a pure helper of the module (isFinite, isdigit, ...): interpret it too
						if cal.Blocks != nil && s.depth < 3 && len(args) == len(cal.Params) {
							sub := &sinterp{env: map[ssa.Value]sval{}, depth: s.depth + 1}
							for i, p := range cal.Params {
								sub.env[p] = args[i]
								if s.input[x.Call.Args[i]] {
									sub.markInput(p)
								}
							}
							if r, ok := sub.runToReturn(cal); ok {
								s.env[x] = r
							}
							if sub.nonCmp {
								s.nonCmp = true
							}
						}
					}
				}
			}
		case *ssa.If:
			v, ok := s.eval(x.Cond)
			if !ok || v.k != 'b' {
				return nil, nil, false
			}
			s.prev = blk
			if v.b {
				return blk.Succs[0], nil, true
			}
			return blk.Succs[1], nil, true
		case *ssa.Jump:
			s.prev = blk
			return blk.Succs[0], nil, true
		case *ssa.Return:
			return nil, x, true
		}
	}
	return nil, nil, false
}

// runFunc evaluates a pure function on concrete arguments; result is the first return value.
func sinterpFunc(fn *ssa.Function, args ...sval) (sval, bool) {
	if len(fn.Blocks) == 0 || len(args) != len(fn.Params) {
		return sval{}, false
	}
	s := &sinterp{env: map[ssa.Value]sval{}}
	for i, p := range fn.Params {
		s.env[p] = args[i]
		s.markInput(p)
	}
	blk := fn.Blocks[0]
	for steps := 0; steps < 500; steps++ {
		next, ret, ok := s.step(blk, 0)
		if !ok || s.nonCmp {
			return sval{}, false
		}
		if ret != nil {
			if len(ret.Results) == 0 {
				return sval{}, false
			}
			return s.eval(ret.Results[0])
		}
		blk = next
	}
	return sval{}, false
}
