package main

// Rules added in the fourteenth seeding round.

import (
	"fmt"
	"go/token"
	"go/types"
	"strings"

	"golang.org/x/tools/go/ssa"
)

// ---------- O22: an options parameter is used ----------

func init() {
	register("O22", "explicit options are not dropped on the way: every function of the value package that takes a *syntax.FileOptions parameter uses it - reads a field or passes it on. A function that accepts the options and then delegates to the legacy, flag-driven variant of the API (ExprFunc for ExprFuncOptions) resolves and compiles under the process-wide flags: `set` is accepted although Set is off, recursion fails although Recursion is on", 5, ruleO22)
	claim("C09", "O22")
}

func ruleO22(c *Ctx) {
	n := 0
	for _, fn := range c.P.Funcs {
		pk := relPkg(fnPkgPath(fn))
		if pk != "starlark" && pk != "repl" && pk != "resolve" && pk != "internal/compile" {
			continue
		}
		if strings.HasSuffix(c.P.Fset.Position(fn.Pos()).Filename, "_test.go") || len(fn.Blocks) == 0 {
			continue
		}
		for _, p := range fn.Params {
			pt, ok := p.Type().(*types.Pointer)
			if !ok || !isNamed(pt.Elem(), "syntax", "FileOptions") {
				continue
			}
			if fn.Signature.Recv() != nil && p == fn.Params[0] {
				continue
			}
			n++
			key := fmt.Sprintf("%s: options parameter", fnName(fn))
			used := false
			if refs := p.Referrers(); refs != nil {
				for _, r := range *refs {
					if _, dbg := r.(*ssa.DebugRef); !dbg {
						used = true
					}
				}
			}
			if used {
				c.ok(key, c.P.Pos(fn.Pos()), "read or passed on")
			} else {
				c.viol(key, c.P.Pos(fn.Pos()), "the function takes the caller's FileOptions and never uses them: whatever it calls runs under other options (the legacy process-wide flags)")
			}
		}
	}
	c.note("%d options parameters", n)
}

// ---------- E19: a failed element comparison is not swallowed ----------

func init() {
	register("E19", "an error from comparing two elements reaches the caller: wherever the error result of CompareDepth, EqualDepth, Compare or Equal is taken (not blanked) in the value packages, it does more than decide a branch - it is returned, stored where the caller reads it, or wrapped. A comparison error that is only tested (`if lt, err := CompareDepth(...); err != nil { return 0 }` inside a callback, with a shadowed err) turns 'int < string not implemented' into 'equal', so ordered comparisons of sequences stop failing and sorted() returns its input", 10, ruleE19)
	claim("C11", "E19")
	claim("C12", "E19")
}

func ruleE19(c *Ctx) {
	n := 0
	for _, fn := range c.P.Funcs {
		if !isProdPkg(fnPkgPath(fn)) {
			continue
		}
		ord := 0
		eachInstr(fn, func(in ssa.Instruction) {
			call, ok := in.(*ssa.Call)
			if !ok {
				return
			}
			cal := call.Call.StaticCallee()
			if cal == nil || relPkg(fnPkgPath(cal)) != "starlark" || cal.Signature.Recv() != nil {
				return
			}
			switch cal.Name() {
			case "CompareDepth", "EqualDepth", "Compare", "Equal":
			default:
				return
			}
			var errv *ssa.Extract
			if refs := call.Referrers(); refs != nil {
				for _, r := range *refs {
					if ex, ok := r.(*ssa.Extract); ok && ex.Index == 1 {
						errv = ex
					}
				}
			}
			if errv == nil || errv.Referrers() == nil {
				return // blanked: the author states it cannot fail; not this rule's business
			}
			n++
			ord++
			key := fmt.Sprintf("%s: error of %s #%d", fnName(fn), cal.Name(), ord)
			kept := false
			tested := false
			seen := map[ssa.Value]bool{}
			var walk func(v ssa.Value, d int)
			walk = func(v ssa.Value, d int) {
				if seen[v] || d > 5 || v.Referrers() == nil {
					return
				}
				seen[v] = true
				for _, r := range *v.Referrers() {
					switch x := r.(type) {
					case *ssa.DebugRef:
					case *ssa.BinOp:
						if _, _, isNil := nilTest(x); isNil {
							tested = true
						} else {
							kept = true
						}
					case *ssa.Phi:
						walk(x, d+1)
					case *ssa.ChangeInterface:
						walk(x, d+1)
					case *ssa.MakeInterface:
						walk(x, d+1)
					default:
						kept = true // returned, stored, passed on, type-asserted ...
					}
				}
			}
			walk(errv, 0)
			switch {
			case kept:
				c.ok(key, c.P.Pos(call.Pos()), "the error is returned, stored or passed on")
			case tested:
				c.viol(key, c.P.Pos(call.Pos()), "the error of an element comparison is tested and then dropped: on the failing path the function carries on with an ordinary answer, so values that cannot be ordered compare as if they could")
			default:
				c.ok(key, c.P.Pos(call.Pos()), "not used")
			}
		})
	}
	c.note("%d element comparisons whose error result is taken", n)
}

// ---------- L12: positions come from fields the parser fills in ----------

func init() {
	register("L12", "a position handed to the compiler was set by the parser: every field of type syntax.Position of a syntax node that the compiler, the resolver or the evaluator reads is assigned somewhere in the module (by the parser when it builds the node, or by the compiler for the nodes it synthesises). DotExpr.NamePos is declared and never filled in: `fcomp.setPos(lhs.NamePos)` records the zero position, the instruction gets no row in the line table and a failing `x.f = v` is reported at an earlier instruction", 20, ruleL12)
	claim("C16", "L12")
}

func ruleL12(c *Ctx) {
	type fk struct{ owner, field string }
	stored := map[fk]bool{}
	isPosField := func(fa *ssa.FieldAddr) (fk, bool) {
		st, ok := deref(fa.X.Type()).Underlying().(*types.Struct)
		if !ok {
			return fk{}, false
		}
		o := qualType(fa.X.Type())
		if !strings.HasPrefix(o, "syntax.") {
			return fk{}, false
		}
		f := st.Field(fa.Field)
		if !isNamed(f.Type(), "syntax", "Position") {
			return fk{}, false
		}
		return fk{o, f.Name()}, true
	}
	for _, fn := range c.P.Funcs {
		if !strings.HasPrefix(fnPkgPath(fn), modPath) {
			continue
		}
		eachInstr(fn, func(in ssa.Instruction) {
			st, ok := in.(*ssa.Store)
			if !ok {
				return
			}
			if fa, ok := st.Addr.(*ssa.FieldAddr); ok {
				if k, ok := isPosField(fa); ok {
					stored[k] = true
				}
			}
		})
	}
	n := 0
	reported := map[string]bool{}
	for _, fn := range c.P.Funcs {
		pk := relPkg(fnPkgPath(fn))
		if pk != "internal/compile" && pk != "resolve" && pk != "starlark" {
			continue
		}
		eachInstr(fn, func(in ssa.Instruction) {
			var k fk
			var ok bool
			switch x := in.(type) {
			case *ssa.UnOp:
				if fa, isFA := x.X.(*ssa.FieldAddr); isFA && x.Op == token.MUL {
					k, ok = isPosField(fa)
				}
			case *ssa.Field:
				if st, isS := x.X.Type().Underlying().(*types.Struct); isS {
					o := qualType(x.X.Type())
					if strings.HasPrefix(o, "syntax.") && isNamed(st.Field(x.Field).Type(), "syntax", "Position") {
						k, ok = fk{o, st.Field(x.Field).Name()}, true
					}
				}
			}
			if !ok {
				return
			}
			key := fmt.Sprintf("%s: reads %s.%s", fnName(fn), k.owner, k.field)
			if reported[key] {
				return
			}
			reported[key] = true
			n++
			if stored[k] {
				c.ok(key, c.P.Pos(in.Pos()), "the field is assigned when the node is built")
			} else {
				c.viol(key, c.P.Pos(in.Pos()), fmt.Sprintf("%s.%s is read here but assigned nowhere in the module: it is always the zero position, so the instruction it is meant to position gets none", k.owner, k.field))
			}
		})
	}
	c.note("%d reads of position fields of syntax nodes", n)
}

// ---------- L13: only Call calls CallInternal ----------

func init() {
	register("L13", "every call goes through starlark.Call: the CallInternal method of a callable is invoked by starlark.Call alone, which pushes the frame (so that the callee appears in the call stack and an error is wrapped with it), counts the depth and pops on every exit. A built-in that invokes key.CallInternal directly to save the bookkeeping runs the callee without a frame: a failure inside it is reported with the caller as innermost frame, and frames of anything it calls back are missing", 1, ruleL13)
	claim("C16", "L13")
	claim("C06", "L13")
}

func ruleL13(c *Ctx) {
	callFn := c.P.Func("starlark", "Call")
	if callFn == nil {
		c.anchorFail("starlark.Call not found")
		return
	}
	n := 0
	for _, fn := range c.P.Funcs {
		if !strings.HasPrefix(fnPkgPath(fn), modPath) || strings.HasSuffix(c.P.Fset.Position(fn.Pos()).Filename, "_test.go") {
			continue
		}
		ord := 0
		eachInstr(fn, func(in ssa.Instruction) {
			ci, ok := in.(ssa.CallInstruction)
			if !ok {
				return
			}
			cc := ci.Common()
			name := ""
			if cc.IsInvoke() {
				name = cc.Method.Name()
			} else if cal := cc.StaticCallee(); cal != nil && cal.Signature.Recv() != nil {
				name = cal.Name()
			}
			if name != "CallInternal" {
				return
			}
			n++
			ord++
			key := fmt.Sprintf("%s: CallInternal invoked #%d", fnName(fn), ord)
			if outermost(fn) == callFn {
				c.ok(key, c.P.Pos(in.Pos()), "inside starlark.Call, after the frame was pushed")
			} else {
				c.viol(key, c.P.Pos(in.Pos()), "CallInternal is invoked outside starlark.Call: the callee runs without a frame of its own, so backtraces name the wrong innermost function and the frame-based checks (depth, recursion) do not see it")
			}
		})
	}
	c.note("%d invocations of CallInternal", n)
}

// ---------- N20: a fixed array is re-sliced within its length ----------

func init() {
	register("N20", "a guard and the slice it guards agree: where a fixed-size array is re-sliced up to a computed bound (`buf[:len(y)+1]` for `var buf [64]int`) and a test on the path bounds the variable part of that bound by a constant or by the array's length, the arithmetic works out - bound + offset does not exceed the array length. `if len(y) <= len(buf) { row = buf[:len(y)+1] }` panics for exactly one length; such an off-by-one is invisible to tests that never hit the boundary", 0, ruleN20)
	claim("C02", "N20")
	claim("C09", "N20")
}

func ruleN20(c *Ctx) {
	n := 0
	for _, fn := range c.P.Funcs {
		if !strings.HasPrefix(fnPkgPath(fn), modPath) || !isProdPkg(fnPkgPath(fn)) && relPkg(fnPkgPath(fn)) != "internal/spell" {
			continue
		}
		ord := 0
		eachInstr(fn, func(in ssa.Instruction) {
			sl, ok := in.(*ssa.Slice)
			if !ok || sl.High == nil {
				return
			}
			pt, ok := sl.X.Type().Underlying().(*types.Pointer)
			if !ok {
				return
			}
			arr, ok := pt.Elem().Underlying().(*types.Array)
			if !ok {
				return
			}
			if _, isK := constInt(sl.High); isK {
				return // checked by the compiler
			}
			// high = a + c
			a, off := sl.High, int64(0)
			if b, ok := sl.High.(*ssa.BinOp); ok && b.Op == token.ADD {
				if k, isK := constInt(b.Y); isK {
					a, off = b.X, k
				} else if k, isK := constInt(b.X); isK {
					a, off = b.Y, k
				}
			}
			K := arr.Len()
			// the tightest upper bound that a test on the path gives for a
			best := int64(-1)
			for _, pf := range pathFacts(sl.Block()) {
				b, ok := pf.Cond.(*ssa.BinOp)
				if !ok {
					continue
				}
				op, x, y := b.Op, b.X, b.Y
				same := func(p, q ssa.Value) bool {
					if p == q || sameOperand(p, q) {
						return true
					}
					pc, ok1 := p.(*ssa.Call)
					qc, ok2 := q.(*ssa.Call)
					if ok1 && ok2 {
						pb, ok3 := pc.Call.Value.(*ssa.Builtin)
						qb, ok4 := qc.Call.Value.(*ssa.Builtin)
						if ok3 && ok4 && pb.Name() == "len" && qb.Name() == "len" {
							return n9Same(pc.Call.Args[0], qc.Call.Args[0])
						}
					}
					return false
				}
				if !same(x, a) {
					if same(y, a) {
						x, y, op = y, x, i9Flip(op)
					} else {
						continue
					}
				}
				if !pf.Truth {
					switch op {
					case token.GTR:
						op = token.LEQ
					case token.GEQ:
						op = token.LSS
					default:
						continue
					}
				}
				lim, isK := constInt(y)
				if !isK {
					continue
				}
				var ub int64
				switch op {
				case token.LEQ:
					ub = lim
				case token.LSS:
					ub = lim - 1
				default:
					continue
				}
				if best < 0 || ub < best {
					best = ub
				}
			}
			if best < 0 {
				return // no explicit guard to compare with; not this rule's business
			}
			n++
			ord++
			key := fmt.Sprintf("%s: array re-sliced under a guard #%d", fnName(fn), ord)
			if best+off <= K {
				c.ok(key, c.P.Pos(sl.Pos()), fmt.Sprintf("the guard allows at most %d, the array holds %d", best+off, K))
			} else {
				c.viol(key, c.P.Pos(sl.Pos()), fmt.Sprintf("the guard on the path allows the bound to reach %d, the array holds %d: the boundary value panics with slice bounds out of range", best+off, K))
			}
		})
	}
	c.note("%d guarded re-slicings of fixed arrays", n)
}

// ---------- I19: arbitrary precision becomes float64 in the Int implementation only ----------

func init() {
	register("I19", "one way from big numbers to floats: (*big.Float).Float64, (*big.Rat).Float64 and (*big.Int).Float64 return +-Inf (and an accuracy that callers tend to drop) when the value is out of range. In the value and library packages they are called only inside the implementation files of Int, where Int.Float does the conversion and finiteFloat turns an infinite result into 'int too large to convert to float'; a second conversion site elsewhere (an 'exact' true division through big.Rat in the evaluator) returns a silent infinity for huge operands", 1, ruleI19)
	claim("C10", "I19")
}

func ruleI19(c *Ctx) {
	n := 0
	for _, fn := range c.P.Funcs {
		if !isProdPkg(fnPkgPath(fn)) {
			continue
		}
		ord := 0
		eachInstr(fn, func(in ssa.Instruction) {
			call, ok := in.(*ssa.Call)
			if !ok {
				return
			}
			cal := call.Call.StaticCallee()
			if cal == nil || fnPkgPath(cal) != "math/big" || cal.Name() != "Float64" || cal.Signature.Recv() == nil {
				return
			}
			n++
			ord++
			key := fmt.Sprintf("%s: big number to float64 #%d", fnName(fn), ord)
			if inIntFiles(c.P, fn) {
				c.ok(key, c.P.Pos(call.Pos()), "inside the Int implementation, whose callers go through finiteFloat")
				return
			}
			// elsewhere the result must be tested for infinity before it is used
			tested := false
			var res ssa.Value = call
			if refs := call.Referrers(); refs != nil {
				for _, r := range *refs {
					if ex, ok := r.(*ssa.Extract); ok && ex.Index == 0 {
						res = ex
					}
				}
			}
			if refs := res.Referrers(); refs != nil {
				for _, r := range *refs {
					if c2, ok := r.(*ssa.Call); ok {
						if f := c2.Call.StaticCallee(); f != nil && fnPkgPath(f) == "math" && f.Name() == "IsInf" {
							tested = true
						}
					}
				}
			}
			if tested {
				c.ok(key, c.P.Pos(call.Pos()), "the result is tested with math.IsInf")
			} else {
				c.viol(key, c.P.Pos(call.Pos()), "an arbitrary-precision number is converted to float64 outside the Int implementation and the result is not tested for infinity: a value beyond the float range becomes +-Inf silently where the operation must fail with 'int too large to convert to float'")
			}
		})
	}
	c.note("%d conversions of big numbers to float64", n)
}

// ---------- M8: an unknown length (-1) is not computed with ----------

func init() {
	register("M8", "-1 means 'length unknown', not a number: starlark.Len returns -1 for iterables that cannot tell their length (string.codepoints(), bytes.elems(), host iterables). Wherever its result takes part in arithmetic (+, -, *) or sizes an allocation, a test on the path has excluded the negative case (n >= 0, n > 0, n == k, n < 0 on the other branch); summing lengths without that test lets one unknown-length argument cancel a one-element list (`set.union(b\"e\".elems(), [7])` would see a total of zero and skip its work)", 3, ruleM8)
	claim("C12", "M8")
	claim("C02", "M8")
}

func ruleM8(c *Ctx) {
	lenFn := c.P.Func("starlark", "Len")
	if lenFn == nil {
		c.anchorFail("starlark.Len not found")
		return
	}
	n := 0
	for _, fn := range c.P.Funcs {
		if !isProdPkg(fnPkgPath(fn)) || fn == lenFn {
			continue
		}
		ord := 0
		eachInstr(fn, func(in ssa.Instruction) {
			call, ok := in.(*ssa.Call)
			if !ok || call.Call.StaticCallee() != lenFn || call.Referrers() == nil {
				return
			}
			nonNegAt := func(b *ssa.BasicBlock) bool {
				for _, pf := range pathFacts(b) {
					bo, ok := pf.Cond.(*ssa.BinOp)
					if !ok {
						continue
					}
					op, x, y := bo.Op, bo.X, bo.Y
					if y == ssa.Value(call) {
						x, y, op = y, x, i9Flip(op)
					}
					if x != ssa.Value(call) {
						continue
					}
					k, isK := constInt(y)
					if !isK {
						continue
					}
					if !pf.Truth {
						switch op {
						case token.LSS:
							op = token.GEQ
						case token.LEQ:
							op = token.GTR
						case token.NEQ:
							op = token.EQL
						default:
							continue
						}
					}
					switch op {
					case token.GEQ:
						if k >= 0 {
							return true
						}
					case token.GTR:
						if k >= -1 {
							return true
						}
					case token.EQL:
						if k >= 0 {
							return true
						}
					}
				}
				return false
			}
			for _, r := range *call.Referrers() {
				var at *ssa.BasicBlock
				what := ""
				switch x := r.(type) {
				case *ssa.BinOp:
					switch x.Op {
					case token.ADD, token.SUB, token.MUL:
						at, what = x.Block(), "arithmetic"
					}
				case *ssa.MakeSlice:
					at, what = x.Block(), "an allocation size"
				case *ssa.MakeMap:
					at, what = x.Block(), "an allocation size"
				case *ssa.Phi:
					// merged into an accumulator: judged at the predecessor it comes from
					for i, e := range x.Edges {
						if e == ssa.Value(call) {
							_ = i
						}
					}
				}
				if at == nil {
					continue
				}
				n++
				ord++
				key := fmt.Sprintf("%s: Len() result in %s #%d", fnName(fn), what, ord)
				if nonNegAt(at) {
					c.ok(key, c.P.Pos(r.Pos()), "a test on the path excludes -1")
				} else {
					c.viol(key, c.P.Pos(r.Pos()), "the result of Len(), which is -1 for an iterable of unknown length, is used in "+what+" without a test that it is not negative")
				}
			}
		})
	}
	c.note("%d uses of Len() results in arithmetic or allocation sizes", n)
}
