package main

import (
	"fmt"
	"go/ast"
	"go/constant"
	"go/token"
	"go/types"
	"sort"
	"strings"

	"golang.org/x/tools/go/ssa"
)

func init() {
	register("A1", "CALL operand layout agreement: the compiler packs arg = npositional<<S | nnamed, the interpreter and insn.stackeffect unpack with the same shift and the mask 2^S-1 (named pairs counted twice), and the resolver's and compiler's argument limits equal 2^S", 6, ruleA1)
	register("A2", "CALL opcode arithmetic: CALL_VAR, CALL_KW, CALL_VAR_KW are CALL+1, +2, +3, matching callmode bits 1 (*args) and 2 (**kwargs); the compiler pushes *args before **kwargs and the interpreter pops **kwargs first", 4, ruleA2)
	register("A3", "unpack never clobbers on type error: in unpackArgNoEscape every store through the caller's pointer is dominated by the success edge of the type test its value comes from (the reflective path by AssignableTo)", 8, ruleA3)
}

type shiftMask struct {
	shifts []int64
	masks  []int64
	limits []int64
	coef2  bool
	pos    token.Pos
}

func scanShiftMask(body ast.Node, info *types.Info, onIdent func(e ast.Expr) bool) shiftMask {
	var sm shiftMask
	ast.Inspect(body, func(n ast.Node) bool {
		be, ok := n.(*ast.BinaryExpr)
		if !ok {
			return true
		}
		k, isK := constOf(info, be.Y)
		if !isK {
			return true
		}
		if _, lhsConst := constOf(info, be.X); lhsConst {
			return true // constant expression (1 << iota ...), not an operand computation
		}
		switch be.Op {
		case token.SHL, token.SHR:
			if onIdent(be.X) {
				sm.shifts = append(sm.shifts, k)
				sm.pos = be.Pos()
			}
		case token.AND:
			if onIdent(be.X) {
				sm.masks = append(sm.masks, k)
				sm.pos = be.Pos()
			}
		case token.GEQ, token.GTR:
			if k >= 128 && k <= 70000 {
				if be.Op == token.GTR {
					k++
				}
				sm.limits = append(sm.limits, k)
			}
		}
		return true
	})
	return sm
}

func ruleA1(c *Ctx) {
	// compiler packing
	args, cpk := c.P.FuncDecl(compilePkg, "fcomp.args")
	se, _ := c.P.FuncDecl(compilePkg, "insn.stackeffect")
	sw, spk := interpSwitch(c)
	rfd, rpk := c.P.FuncDecl("resolve", "resolver.expr")
	if args == nil || se == nil || sw == nil || rfd == nil {
		c.anchorFail("fcomp.args / insn.stackeffect / interpreter switch / resolver.expr not found")
		return
	}
	// operands are not matched by name: the functions examined contain no other shifts or masks by constants
	anyOperand := func(ast.Expr) bool { return true }
	// compiler: p<<K | n
	csm := scanShiftMask(args.Body, cpk.TypesInfo, anyOperand)
	key := "compiler: CALL operand packing"
	if len(csm.shifts) != 1 {
		c.viol(key, c.P.Pos(args.Pos()), "cannot find the single `p<<S | n` packing of the CALL operand in fcomp.args")
		return
	}
	S := csm.shifts[0]
	c.ok(key, c.P.Pos(csm.pos), fmt.Sprintf("positional count in the high bits (shift %d), named count in the low bits", S))
	want := int64(1)<<S - 1
	lim := int64(1) << S
	// compiler limits
	key = "compiler: argument limit"
	okLim := len(csm.limits) > 0
	for _, l := range csm.limits {
		if l != lim {
			okLim = false
		}
	}
	if okLim {
		c.ok(key, c.P.Pos(args.Pos()), fmt.Sprintf("counts are checked against %d", lim))
	} else {
		c.viol(key, c.P.Pos(args.Pos()), fmt.Sprintf("fcomp.args checks its counts against %v but each field of the operand holds fewer than %d: a larger count overflows into the other field", csm.limits, lim))
	}
	// interpreter CALL arm
	var callArm *ast.CaseClause
	for _, cl := range sw.Body.List {
		cc := cl.(*ast.CaseClause)
		for _, e := range cc.List {
			if sel, ok := e.(*ast.SelectorExpr); ok && sel.Sel.Name == "CALL" {
				callArm = cc
			}
		}
	}
	key = "interpreter: CALL operand unpacking"
	if callArm == nil {
		c.viol(key, c.P.Pos(sw.Pos()), "no CALL arm in the interpreter")
	} else {
		ism := scanShiftMask(callArm, spk.TypesInfo, anyOperand)
		if len(ism.shifts) == 1 && ism.shifts[0] == S && len(ism.masks) == 1 && ism.masks[0] == want {
			c.ok(key, c.P.Pos(ism.pos), fmt.Sprintf("arg >> %d and arg & %#x", S, want))
		} else {
			c.viol(key, c.P.Pos(callArm.Pos()), fmt.Sprintf("the interpreter unpacks the CALL operand with shifts %v and masks %v but the compiler packs with shift %d (mask should be %#x): argument counts are misread", ism.shifts, ism.masks, S, want))
		}
	}
	// stackeffect
	key = "insn.stackeffect: CALL operand unpacking"
	ssm := scanShiftMask(se.Body, cpk.TypesInfo, anyOperand)
	if len(ssm.shifts) == 1 && ssm.shifts[0] == S && len(ssm.masks) == 1 && ssm.masks[0] == want {
		c.ok(key, c.P.Pos(ssm.pos), fmt.Sprintf("insn.arg >> %d and insn.arg & %#x", S, want))
	} else {
		c.viol(key, c.P.Pos(se.Pos()), fmt.Sprintf("insn.stackeffect unpacks the CALL operand with shifts %v and masks %v but the compiler packs with shift %d", ssm.shifts, ssm.masks, S))
	}
	// named pairs counted twice in stackeffect: 2*(insn.arg&M)
	key = "insn.stackeffect: named arguments occupy two slots"
	two := false
	ast.Inspect(se.Body, func(n ast.Node) bool {
		if be, ok := n.(*ast.BinaryExpr); ok && be.Op == token.MUL {
			if k, isK := constOf(cpk.TypesInfo, be.X); isK && k == 2 {
				if p, ok := be.Y.(*ast.ParenExpr); ok {
					if in, ok := p.X.(*ast.BinaryExpr); ok && in.Op == token.AND {
						two = true
					}
				}
			}
		}
		return true
	})
	if two {
		c.ok(key, c.P.Pos(se.Pos()), "2*(arg & mask) + arg>>shift")
	} else {
		c.viol(key, c.P.Pos(se.Pos()), "the stack effect of CALL does not count two slots per named argument")
	}
	// resolver limits
	key = "resolver: argument limits"
	var rsm shiftMask
	for _, f := range rpk.Syntax {
		x := scanShiftMask(f, rpk.TypesInfo, func(ast.Expr) bool { return false })
		rsm.limits = append(rsm.limits, x.limits...)
	}
	var rl []int64
	for _, l := range rsm.limits {
		if l == 256 || (l > 128 && l < 70000) {
			rl = append(rl, l)
		}
	}
	okR := len(rl) >= 1
	for _, l := range rl {
		if l != lim {
			okR = false
		}
	}
	if okR {
		c.ok(key, c.P.Pos(rfd.Pos()), fmt.Sprintf("positional and named counts are limited to < %d before compilation", lim))
	} else {
		c.viol(key, c.P.Pos(rfd.Pos()), fmt.Sprintf("the resolver limits argument counts with %v but the CALL operand's fields hold fewer than %d each: a call the resolver accepts overflows the operand (the compiler panics or misencodes)", rl, lim))
	}
}

func ruleA2(c *Ctx) {
	oi := opcodes(c)
	if oi == nil {
		return
	}
	base, ok := oi.byName["CALL"]
	if !ok {
		c.anchorFail("opcode CALL not found")
		return
	}
	args, cpk := c.P.FuncDecl(compilePkg, "fcomp.args")
	if args == nil {
		c.anchorFail("fcomp.args not found")
		return
	}
	// how is the opcode derived from the call mode: arithmetic (CALL + Opcode(mode)) or a lookup table
	// (a package-level array of opcodes indexed by the mode)?
	usesArith, tableName := false, ""
	ast.Inspect(args.Body, func(n ast.Node) bool {
		switch x := n.(type) {
		case *ast.BinaryExpr:
			if x.Op == token.ADD {
				for _, e := range []ast.Expr{x.X, x.Y} {
					if tv, ok := cpk.TypesInfo.Types[e]; ok && tv.Value != nil && strings.HasSuffix(tv.Type.String(), "compile.Opcode") {
						if k, ok := constant.Int64Val(tv.Value); ok && k == base {
							usesArith = true
						}
					}
				}
			}
		case *ast.IndexExpr:
			if id, ok := x.X.(*ast.Ident); ok {
				if v, ok := cpk.TypesInfo.Uses[id].(*types.Var); ok && v.Parent() == cpk.Types.Scope() {
					if tv, ok := cpk.TypesInfo.Types[x]; ok && strings.HasSuffix(tv.Type.String(), "compile.Opcode") {
						tableName = id.Name
					}
				}
			}
		}
		return true
	})
	want := map[int64]string{0: "CALL", 1: "CALL_VAR", 2: "CALL_KW", 3: "CALL_VAR_KW"}
	switch {
	case usesArith:
		for off, name := range want {
			if off == 0 {
				continue
			}
			key := "opcode " + name + " = CALL+" + fmt.Sprint(off)
			if oi.byName[name] == base+off {
				c.ok(key, "-", "matches callmode bits")
			} else {
				c.viol(key, "-", fmt.Sprintf("%s is CALL%+d but the compiler emits CALL + callmode with bit 1 = *args and bit 2 = **kwargs", name, oi.byName[name]-base))
			}
		}
	case tableName != "":
		tbl, _, tpos := arrayLitEntries(c.P.Pkg(compilePkg), tableName)
		for bitsv, name := range want {
			key := fmt.Sprintf("%s[%d] = %s", tableName, bitsv, name)
			e, ok := tbl[bitsv]
			got := ""
			if ok {
				got = types.ExprString(e)
			}
			if got == name {
				c.ok(key, c.P.Pos(tpos), "call-mode table entry matches callmode bits")
			} else {
				c.viol(key, c.P.Pos(tpos), fmt.Sprintf("call-mode table maps mode %d to %q, expected %s (bit 1 = *args, bit 2 = **kwargs)", bitsv, got, name))
			}
		}
	default:
		c.anchorFail("cannot find how fcomp.args derives the CALL opcode from callmode")
	}
	// compiler: the bit OR-ed into the call mode under a `*x` and under a `**x` argument, and the order in
	// which their operands are compiled - read from the SSA (a2Compiler), so that helpers, renamings and
	// if/switch reshaping do not matter
	bits, order := a2Compiler(c)
	key := "compiler: callmode bits"
	if bits["STAR"] == 1 && bits["STARSTAR"] == 2 {
		c.ok(key, c.P.Pos(args.Pos()), "*args sets bit 1, **kwargs sets bit 2")
	} else {
		c.viol(key, c.P.Pos(args.Pos()), fmt.Sprintf("callmode bits are %v; expected STAR:1 STARSTAR:2", bits))
	}
	// interpreter pop order: first if mentions CALL_KW, second CALL_VAR
	sw, _ := interpSwitch(c)
	var pops []string
	if sw != nil {
		for _, cl := range sw.Body.List {
			cc := cl.(*ast.CaseClause)
			isCall := false
			for _, e := range cc.List {
				if sel, ok := e.(*ast.SelectorExpr); ok && sel.Sel.Name == "CALL" {
					isCall = true
				}
			}
			if !isCall {
				continue
			}
			// named predicates defined in the arm (hasKwargs := op == CALL_KW || ...)
			defs := map[string]ast.Expr{}
			for _, st := range cc.Body {
				if as, ok := st.(*ast.AssignStmt); ok && len(as.Lhs) == 1 && len(as.Rhs) == 1 {
					if id, ok := as.Lhs[0].(*ast.Ident); ok {
						defs[id.Name] = as.Rhs[0]
					}
				}
			}
			for _, st := range cc.Body {
				// switch op { case CALL_KW, CALL_VAR_KW: kwargs = stack[sp-1]; sp-- }
				if ss, ok := st.(*ast.SwitchStmt); ok && ss.Tag != nil {
					for _, cl2 := range ss.Body.List {
						c2 := cl2.(*ast.CaseClause)
						mentions := map[string]bool{}
						for _, e := range c2.List {
							if sel, ok := e.(*ast.SelectorExpr); ok {
								mentions[sel.Sel.Name] = true
							}
						}
						popsSp := false
						for _, b := range c2.Body {
							ast.Inspect(b, func(n ast.Node) bool {
								if inc, ok := n.(*ast.IncDecStmt); ok && inc.Tok == token.DEC {
									popsSp = true
								}
								return true
							})
						}
						if !popsSp {
							continue
						}
						switch {
						case mentions["CALL_KW"] && mentions["CALL_VAR_KW"] && !mentions["CALL_VAR"]:
							pops = append(pops, "kwargs")
						case mentions["CALL_VAR"] && mentions["CALL_VAR_KW"] && !mentions["CALL_KW"]:
							pops = append(pops, "varargs")
						}
					}
					continue
				}
				ifs, ok := st.(*ast.IfStmt)
				if !ok {
					continue
				}
				var cond ast.Expr = ifs.Cond
				if id, ok := cond.(*ast.Ident); ok {
					if d, ok := defs[id.Name]; ok {
						cond = d
					}
				}
				mentions := map[string]bool{}
				ast.Inspect(cond, func(n ast.Node) bool {
					if sel, ok := n.(*ast.SelectorExpr); ok {
						mentions[sel.Sel.Name] = true
					}
					return true
				})
				popsSp := false
				ast.Inspect(ifs.Body, func(n ast.Node) bool {
					if inc, ok := n.(*ast.IncDecStmt); ok && inc.Tok == token.DEC {
						popsSp = true
					}
					return true
				})
				if !popsSp {
					continue
				}
				switch {
				case mentions["CALL_KW"] && mentions["CALL_VAR_KW"] && !mentions["CALL_VAR"]:
					pops = append(pops, "kwargs")
				case mentions["CALL_VAR"] && mentions["CALL_VAR_KW"] && !mentions["CALL_KW"]:
					pops = append(pops, "varargs")
				}
			}
		}
	}
	key = "push/pop order of *args and **kwargs"
	if len(order) == 2 && order[0] == "varargs" && order[1] == "kwargs" && len(pops) == 2 && pops[0] == "kwargs" && pops[1] == "varargs" {
		c.ok(key, c.P.Pos(args.Pos()), "compiler pushes *args then **kwargs; interpreter pops **kwargs then *args")
	} else {
		c.viol(key, c.P.Pos(args.Pos()), fmt.Sprintf("compiler pushes %v, interpreter pops %v: *args and **kwargs are exchanged or one is not popped", order, pops))
	}
}

func ruleA3(c *Ctx) {
	fn := c.P.Func("starlark", "unpackArgNoEscape")
	if fn == nil {
		c.anchorFail("starlark.unpackArgNoEscape not found")
		return
	}
	vP, ptrP := fn.Params[0], fn.Params[1]
	n := 0
	derivesFromPtr := func(a ssa.Value) bool {
		for i := 0; i < 6; i++ {
			switch x := a.(type) {
			case *ssa.Extract:
				a = x.Tuple
			case *ssa.TypeAssert:
				a = x.X
			case *ssa.Phi:
				a = x.Edges[0]
			default:
				return a == ptrP
			}
		}
		return a == ptrP
	}
	eachInstr(fn, func(in ssa.Instruction) {
		switch x := in.(type) {
		case *ssa.Store:
			if !derivesFromPtr(x.Addr) {
				return
			}
			n++
			key := fmt.Sprintf("unpackArgNoEscape: store through %s", typeShort(x.Addr.Type()))
			pos := c.P.Pos(x.Pos())
			// value source
			var src ssa.Value = x.Val
			for i := 0; i < 4; i++ {
				switch y := src.(type) {
				case *ssa.Convert:
					src = y.X
				case *ssa.ChangeType:
					src = y.X
				case *ssa.MakeInterface:
					src = y.X
				case *ssa.ChangeInterface:
					src = y.X
				}
			}
			if src == vP {
				c.ok(key, pos, "stores the value itself (any Value is acceptable for a *Value target)")
				return
			}
			ex, ok := src.(*ssa.Extract)
			if !ok || ex.Index != 0 {
				c.viol(key, pos, "the stored value does not come from a checked conversion of the argument")
				return
			}
			guarded := false
			for _, pf := range pathFacts(x.Block()) {
				cv, neg := pf.Cond, false
				if e2, ok := cv.(*ssa.Extract); ok && e2.Tuple == ex.Tuple && e2.Index == 1 && (pf.Truth != neg) {
					guarded = true
				}
			}
			if guarded {
				c.ok(key, pos, "dominated by the ok edge of the conversion that produced the value")
			} else {
				c.viol(key, pos, "the caller's variable is written before (or regardless of) the type test: a wrong-typed argument clobbers the target with a zero value")
			}
		case *ssa.Call:
			if cal := x.Call.StaticCallee(); cal != nil && cal.Name() == "reflectSetElem" {
				n++
				key := "unpackArgNoEscape: reflective store"
				guarded := false
				for _, pf := range pathFacts(x.Block()) {
					cv, neg := pf.Cond, false
					if call, ok := cv.(*ssa.Call); ok && call.Call.IsInvoke() && call.Call.Method.Name() == "AssignableTo" && (pf.Truth != neg) {
						guarded = true
					}
				}
				if guarded {
					c.ok(key, c.P.Pos(x.Pos()), "dominated by reflect.Type.AssignableTo")
				} else {
					c.viol(key, c.P.Pos(x.Pos()), "reflectSetElem is reached without the AssignableTo test: an argument of the wrong type panics in reflect or clobbers the target")
				}
			}
		}
	})
	if n < 8 {
		c.anchorFail("only %d stores through the caller's pointer found in unpackArgNoEscape", n)
	}
}

// a2Compiler reads, from the SSA of fcomp.args and of the helpers of its package that it calls, (1) the
// constant OR-ed into the call mode on the paths where the argument's operator is the token STAR and where
// it is STARSTAR, and (2) the order in which the two operands are compiled after the loop. A path "is
// under token T" when a dominating comparison `x == T` holds on it, or a comparison `m == k` where m is a
// result of a helper that returns the constant k exactly on its own paths under T (and, for a helper that
// distinguishes exactly two tokens, the failing comparison stands for the other one).
func a2Compiler(c *Ctx) (map[string]int64, []string) {
	bits := map[string]int64{}
	fn := c.P.Func(compilePkg, "fcomp.args")
	spk := c.P.Pkg("syntax")
	if fn == nil || spk == nil {
		return bits, nil
	}
	tokName := map[int64]string{}
	for _, n := range []string{"STAR", "STARSTAR"} {
		if k, ok := spk.Types.Scope().Lookup(n).(*types.Const); ok {
			if v, ok := constant.Int64Val(k.Val()); ok {
				tokName[v] = n
			}
		}
	}
	isTok := func(v ssa.Value) (string, bool) {
		k, ok := v.(*ssa.Const)
		if !ok || !strings.HasSuffix(k.Type().String(), "syntax.Token") {
			return "", false
		}
		n, ok := tokName[k.Int64()]
		return n, ok
	}
	type summary map[int]map[string]int64 // result index -> token -> constant returned under it
	sums := map[*ssa.Call]summary{}
	var facts func(conds []pathCond, useSums bool) map[string]bool
	facts = func(conds []pathCond, useSums bool) map[string]bool {
		out := map[string]bool{}
		for _, pc := range conds {
			cv, neg := stripNot(pc.If.Cond)
			b, ok := cv.(*ssa.BinOp)
			if !ok || (b.Op != token.EQL && b.Op != token.NEQ) {
				continue
			}
			eq := (b.Op == token.EQL) == (pc.Branch != neg)
			for _, pr := range [][2]ssa.Value{{b.X, b.Y}, {b.Y, b.X}} {
				if n, ok := isTok(pr[1]); ok && eq {
					out[n] = true
				}
				if !useSums {
					continue
				}
				k, isK := constInt(pr[1])
				ex, isEx := pr[0].(*ssa.Extract)
				if !isK || !isEx {
					continue
				}
				call, _ := ex.Tuple.(*ssa.Call)
				m := sums[call][ex.Index]
				for t, kk := range m {
					if kk == k && eq {
						out[t] = true
					}
					if kk == k && !eq && len(m) == 2 {
						for t2 := range m {
							if t2 != t {
								out[t2] = true
							}
						}
					}
				}
			}
		}
		return out
	}
	eachInstr(fn, func(in ssa.Instruction) {
		call, ok := in.(*ssa.Call)
		if !ok {
			return
		}
		h := call.Call.StaticCallee()
		if h == nil || h.Pkg != fn.Pkg || len(h.Blocks) == 0 {
			return
		}
		sm := summary{}
		eachInstr(h, func(hi ssa.Instruction) {
			ret, ok := hi.(*ssa.Return)
			if !ok {
				return
			}
			f := facts(pathConds(ret.Block()), false)
			if len(f) != 1 {
				return
			}
			for t := range f {
				for j, r := range ret.Results {
					if k, ok := constInt(r); ok && !strings.HasSuffix(r.Type().String(), "syntax.Token") {
						if sm[j] == nil {
							sm[j] = map[string]int64{}
						}
						sm[j][t] = k
					}
				}
			}
		})
		if len(sm) > 0 {
			sums[call] = sm
		}
	})
	// (1) the bits
	var rets []ssa.Value
	eachInstr(fn, func(in ssa.Instruction) {
		if r, ok := in.(*ssa.Return); ok && len(r.Results) > 0 {
			rets = append(rets, r.Results[0])
		}
	})
	// the values the returned opcode is computed from: through arithmetic, conversions, phis and the
	// index of a table lookup (callOpcodes[mode])
	feeds := map[ssa.Value]bool{}
	var walk func(v ssa.Value, d int)
	walk = func(v ssa.Value, d int) {
		if v == nil || feeds[v] || d > 10 {
			return
		}
		feeds[v] = true
		switch x := v.(type) {
		case *ssa.BinOp:
			walk(x.X, d+1)
			walk(x.Y, d+1)
		case *ssa.Convert:
			walk(x.X, d+1)
		case *ssa.ChangeType:
			walk(x.X, d+1)
		case *ssa.Phi:
			for _, e := range x.Edges {
				walk(e, d+1)
			}
		case *ssa.UnOp:
			walk(x.X, d+1)
		case *ssa.IndexAddr:
			walk(x.Index, d+1)
		case *ssa.Index:
			walk(x.Index, d+1)
		case *ssa.Lookup:
			walk(x.Index, d+1)
		}
	}
	for _, r := range rets {
		walk(r, 0)
	}
	flows := func(v ssa.Value) bool { return feeds[v] }
	eachInstr(fn, func(in ssa.Instruction) {
		b, ok := in.(*ssa.BinOp)
		if !ok || b.Op != token.OR || !flows(b) {
			return
		}
		for _, op := range []ssa.Value{b.X, b.Y} {
			if k, ok := constInt(op); ok {
				f := facts(pathConds(b.Block()), true)
				if len(f) == 1 {
					for t := range f {
						bits[t] = k
					}
				}
			}
			if ex, ok := op.(*ssa.Extract); ok {
				call, _ := ex.Tuple.(*ssa.Call)
				for t, k := range sums[call][ex.Index] {
					bits[t] = k
				}
			}
		}
	})
	// (2) the order: calls one of whose arguments is a phi that receives, on an edge under token T, the
	// operand of the argument
	edgeConds := func(pred, succ *ssa.BasicBlock) []pathCond {
		conds := pathConds(pred)
		if len(pred.Instrs) > 0 {
			if ifi, ok := pred.Instrs[len(pred.Instrs)-1].(*ssa.If); ok && pred.Succs[0] != pred.Succs[1] {
				conds = append(conds, pathCond{ifi, pred.Succs[0] == succ})
			}
		}
		return conds
	}
	var kindOf func(v ssa.Value, seen map[ssa.Value]bool) map[string]bool
	kindOf = func(v ssa.Value, seen map[ssa.Value]bool) map[string]bool {
		out := map[string]bool{}
		phi, ok := v.(*ssa.Phi)
		if !ok || seen[v] {
			return out
		}
		seen[v] = true
		for i, e := range phi.Edges {
			if isNilConst(e) || e == v {
				continue
			}
			if _, isPhi := e.(*ssa.Phi); isPhi {
				for t := range kindOf(e, seen) {
					out[t] = true
				}
				continue
			}
			f := facts(edgeConds(phi.Block().Preds[i], phi.Block()), true)
			if len(f) == 1 {
				for t := range f {
					out[t] = true
				}
			} else {
				out["?"] = true
			}
		}
		return out
	}
	type site struct {
		kind string
		in   ssa.Instruction
	}
	var sites []site
	eachInstr(fn, func(in ssa.Instruction) {
		call, ok := in.(*ssa.Call)
		if !ok {
			return
		}
		for _, a := range call.Call.Args {
			if _, isPhi := a.(*ssa.Phi); !isPhi || !strings.HasSuffix(a.Type().String(), "syntax.Expr") {
				continue
			}
			k := kindOf(a, map[ssa.Value]bool{})
			if len(k) == 1 {
				for t := range k {
					switch t {
					case "STAR":
						sites = append(sites, site{"varargs", in})
					case "STARSTAR":
						sites = append(sites, site{"kwargs", in})
					}
				}
			}
		}
	})
	before := func(a, b ssa.Instruction) bool {
		if a.Block() == b.Block() {
			return instrDominates(a, b)
		}
		return reachable(a.Block(), b.Block()) && !reachable(b.Block(), a.Block())
	}
	sort.SliceStable(sites, func(i, j int) bool { return before(sites[i].in, sites[j].in) })
	var order []string
	for i, s := range sites {
		if i > 0 && !before(sites[i-1].in, s.in) {
			order = append(order, "unordered")
		}
		order = append(order, s.kind)
	}
	return bits, order
}
