package main

import (
	"encoding/json"
	"fmt"
	"os"
	"os/exec"
	"path/filepath"
	"sort"
	"strings"
	"sync"
)

// A mutant is a one-edit variant of /repo's source, applied in memory through
// a go/packages overlay (nothing is written into /repo). Each must still
// type-check and must be reported by the named rule.
type mutant struct {
	ID       string `json:"id"`
	Property string `json:"property"`
	Rule     string `json:"rule"`
	File     string `json:"file"`
	Find     string `json:"find"`
	Replace  string `json:"replace"`
	Find2    string `json:"find2,omitempty"` // optional second edit in the same file (a declaration and its use)
	Replace2 string `json:"replace2,omitempty"`
	Note     string `json:"note"`
	Kind     string `json:"kind"` // "break" (must be detected) | "equiv" (behaviour-preserving: must stay silent)
}

type mutantResult struct {
	ID      string `json:"id"`
	Kind    string `json:"kind"`
	Rule    string `json:"rule"`
	Outcome string `json:"outcome"` // detected | missed | silent | false-alarm | skipped | broken
	Detail  string `json:"detail,omitempty"`
}

func loadMutants(verifDir string) ([]mutant, error) {
	b, err := os.ReadFile(filepath.Join(verifDir, "mutants.json"))
	if err != nil {
		if os.IsNotExist(err) {
			return nil, nil
		}
		return nil, err
	}
	var ms []mutant
	if err := json.Unmarshal(b, &ms); err != nil {
		return nil, fmt.Errorf("mutants.json: %v", err)
	}
	return ms, nil
}

// runMutants executes the self-test for one property in subprocesses (at most
// 4 in flight), never touching /verif/evidence.
func runMutants(prop, repo, verifDir string) ([]mutantResult, []string) {
	ms, err := loadMutants(verifDir)
	if err != nil {
		return nil, []string{err.Error()}
	}
	self, err := os.Executable()
	if err != nil {
		return nil, []string{"cannot locate own executable: " + err.Error()}
	}
	var mine []mutant
	for _, m := range ms {
		if m.Property == prop {
			mine = append(mine, m)
		}
	}
	results := make([]mutantResult, len(mine))
	var wg sync.WaitGroup
	sem := make(chan struct{}, 4)
	for i, m := range mine {
		wg.Add(1)
		go func(i int, m mutant) {
			defer wg.Done()
			sem <- struct{}{}
			defer func() { <-sem }()
			results[i] = runOneMutant(self, m, repo, verifDir)
		}(i, m)
	}
	wg.Wait()
	var failures []string
	for _, r := range results {
		switch r.Outcome {
		case "missed":
			failures = append(failures, fmt.Sprintf("selftest: seeded mutant %s was NOT reported by rule %s (%s)", r.ID, r.Rule, r.Detail))
		case "false-alarm":
			failures = append(failures, fmt.Sprintf("selftest: behaviour-preserving variant %s raised an alarm: %s", r.ID, r.Detail))
		case "broken":
			failures = append(failures, fmt.Sprintf("selftest: mutant %s could not be evaluated: %s", r.ID, r.Detail))
		}
	}
	sort.Slice(results, func(i, j int) bool { return results[i].ID < results[j].ID })
	return results, failures
}

func runOneMutant(self string, m mutant, repo, verifDir string) mutantResult {
	res := mutantResult{ID: m.ID, Kind: m.Kind, Rule: m.Rule}
	if res.Kind == "" {
		res.Kind = "break"
	}
	src, err := os.ReadFile(filepath.Join(repo, m.File))
	if err != nil {
		res.Outcome, res.Detail = "skipped", "file not found: "+m.File
		return res
	}
	if n := strings.Count(string(src), m.Find); n != 1 {
		res.Outcome, res.Detail = "skipped", fmt.Sprintf("the text to mutate occurs %d times in %s (source has drifted)", n, m.File)
		return res
	}
	mutated := strings.Replace(string(src), m.Find, m.Replace, 1)
	if m.Find2 != "" {
		if n := strings.Count(mutated, m.Find2); n != 1 {
			res.Outcome, res.Detail = "skipped", fmt.Sprintf("the second text to mutate occurs %d times in %s (source has drifted)", n, m.File)
			return res
		}
		mutated = strings.Replace(mutated, m.Find2, m.Replace2, 1)
	}
	tmp, err := os.MkdirTemp("", "verifmut")
	if err != nil {
		res.Outcome, res.Detail = "broken", err.Error()
		return res
	}
	defer os.RemoveAll(tmp)
	mf := filepath.Join(tmp, "mutated.go")
	os.WriteFile(mf, []byte(mutated), 0o644)
	if kf, err := os.ReadFile(filepath.Join(verifDir, "known_findings.json")); err == nil {
		os.WriteFile(filepath.Join(tmp, "known_findings.json"), kf, 0o644)
	}
	args := []string{"-repo", repo, "-verif", tmp, "-overlay", m.File + "=" + mf, "-tier", "quick"}
	if m.Rule != "" && res.Kind == "break" {
		args = append(args, "-rules", m.Rule)
	}
	args = append(args, "check", m.Property)
	cmd := exec.Command(self, args...)
	cmd.Env = append(os.Environ(), "VERIF_SELFTEST=1")
	out, _ := cmd.CombinedOutput()
	code := cmd.ProcessState.ExitCode()
	text := string(out)
	firstViol := ""
	for _, l := range strings.Split(text, "\n") {
		if strings.Contains(l, ": [") && !strings.HasPrefix(l, "VIOLATION") && !strings.HasPrefix(l, "KNOWN") && firstViol == "" && strings.Contains(l, "] ") {
			firstViol = l
		}
	}
	if len(firstViol) > 240 {
		firstViol = firstViol[:240]
	}
	switch res.Kind {
	case "equiv":
		switch code {
		case 0:
			res.Outcome = "silent"
		case 1:
			res.Outcome, res.Detail = "false-alarm", firstViol
		default:
			res.Outcome, res.Detail = "broken", lastLines(text, 3)
		}
	default:
		switch {
		case code == 1 && strings.Contains(text, "["+m.Rule+"]"):
			res.Outcome, res.Detail = "detected", firstViol
		case code == 2 && strings.Contains(text, "type-check errors"):
			res.Outcome, res.Detail = "broken", "mutant does not compile: "+lastLines(text, 2)
		case code == 2:
			// a checker failure (vacuity floor, lost anchor) is also a refusal to pass
			res.Outcome, res.Detail = "detected", "checker refused to pass: "+lastLines(text, 2)
		default:
			res.Outcome, res.Detail = "missed", fmt.Sprintf("exit %d", code)
		}
	}
	return res
}

func lastLines(s string, n int) string {
	ls := strings.Split(strings.TrimSpace(s), "\n")
	if len(ls) > n {
		ls = ls[len(ls)-n:]
	}
	r := strings.Join(ls, " | ")
	if len(r) > 300 {
		r = r[:300]
	}
	return r
}

// ---- seeded breakages as a regression of the checker (thorough tier) ----

type seedMeta struct {
	Property string   `json:"property"`
	Variant  string   `json:"variant"`
	Rules    []string `json:"detected_by_rules"`
	Detected bool     `json:"detected"`
}

// runSeeds re-applies, in memory, every independently written breakage of this property that the
// property's own rules are recorded to detect, and requires the check to refuse each of them.
// Patches that no longer apply to /repo's current source are skipped.
func runSeeds(prop, repo, verifDir string) ([]mutantResult, []string) {
	self, err := os.Executable()
	if err != nil {
		return nil, []string{"cannot locate own executable: " + err.Error()}
	}
	mine := map[string]bool{}
	for _, r := range propRules[prop] {
		mine[r] = true
	}
	dirs, _ := filepath.Glob(filepath.Join(verifDir, "seeded", prop+"-*"))
	sort.Strings(dirs)
	type job struct {
		dir   string
		rules []string
	}
	var jobs []job
	for _, d := range dirs {
		b, err := os.ReadFile(filepath.Join(d, "meta.json"))
		if err != nil {
			continue
		}
		var m seedMeta
		if json.Unmarshal(b, &m) != nil || !m.Detected {
			continue
		}
		var rs []string
		for _, r := range m.Rules {
			if mine[r] {
				rs = append(rs, r)
			}
		}
		if len(rs) > 0 {
			jobs = append(jobs, job{d, rs})
		}
	}
	results := make([]mutantResult, len(jobs))
	var wg sync.WaitGroup
	sem := make(chan struct{}, 4)
	for i, j := range jobs {
		wg.Add(1)
		go func(i int, j job) {
			defer wg.Done()
			sem <- struct{}{}
			defer func() { <-sem }()
			results[i] = runOneSeed(self, prop, j.dir, j.rules, repo, verifDir)
		}(i, j)
	}
	wg.Wait()
	var failures []string
	for _, r := range results {
		if r.Outcome == "missed" {
			failures = append(failures, fmt.Sprintf("selftest: seeded breakage %s is no longer reported by this check (recorded rules: %s; %s)", r.ID, r.Rule, r.Detail))
		}
	}
	return results, failures
}

func runOneSeed(self, prop, dir string, rules []string, repo, verifDir string) mutantResult {
	res := mutantResult{ID: filepath.Base(dir), Kind: "seed", Rule: strings.Join(rules, " ")}
	patch := filepath.Join(dir, "patch.head.diff")
	if _, err := os.Stat(patch); err != nil {
		patch = filepath.Join(dir, "patch.diff")
	}
	pb, err := os.ReadFile(patch)
	if err != nil {
		res.Outcome, res.Detail = "skipped", "no patch"
		return res
	}
	var files []string
	for _, l := range strings.Split(string(pb), "\n") {
		if strings.HasPrefix(l, "+++ b/") {
			files = append(files, strings.TrimSpace(strings.TrimPrefix(l, "+++ b/")))
		}
	}
	tmp, err := os.MkdirTemp("", "verifseed")
	if err != nil {
		res.Outcome, res.Detail = "skipped", err.Error()
		return res
	}
	defer os.RemoveAll(tmp)
	for _, f := range files {
		src, err := os.ReadFile(filepath.Join(repo, f))
		dst := filepath.Join(tmp, "src", f)
		os.MkdirAll(filepath.Dir(dst), 0o755)
		if err == nil {
			os.WriteFile(dst, src, 0o644)
		}
	}
	cmd := exec.Command("patch", "-p1", "-s", "-F0", "--no-backup-if-mismatch", "-d", filepath.Join(tmp, "src"), "-i", patch)
	if out, err := cmd.CombinedOutput(); err != nil {
		res.Outcome, res.Detail = "skipped", "patch no longer applies to the current source: "+lastLines(string(out), 1)
		return res
	}
	var ov []string
	for _, f := range files {
		if _, err := os.Stat(filepath.Join(tmp, "src", f)); err == nil && strings.HasSuffix(f, ".go") {
			ov = append(ov, f+"="+filepath.Join(tmp, "src", f))
		}
	}
	ev := filepath.Join(tmp, "ev")
	os.MkdirAll(ev, 0o755)
	if kf, err := os.ReadFile(filepath.Join(verifDir, "known_findings.json")); err == nil {
		os.WriteFile(filepath.Join(ev, "known_findings.json"), kf, 0o644)
	}
	args := []string{"-repo", repo, "-verif", ev, "-overlay", strings.Join(ov, ","), "-tier", "quick", "-rules", strings.Join(rules, ","), "check", prop}
	c2 := exec.Command(self, args...)
	c2.Env = append(os.Environ(), "VERIF_SELFTEST=1")
	out, _ := c2.CombinedOutput()
	code := c2.ProcessState.ExitCode()
	text := string(out)
	switch {
	case code == 1:
		res.Outcome = "detected"
		for _, l := range strings.Split(text, "\n") {
			if strings.Contains(l, ": [") && !strings.HasPrefix(l, "VIOLATION") {
				if len(l) > 200 {
					l = l[:200]
				}
				res.Detail = l
				break
			}
		}
	case code == 2 && strings.Contains(text, "type-check errors"):
		res.Outcome, res.Detail = "skipped", "the patched source does not type-check against the current tree"
	case code == 2:
		res.Outcome, res.Detail = "detected", "checker refused to pass: "+lastLines(text, 1)
	default:
		res.Outcome, res.Detail = "missed", fmt.Sprintf("exit %d", code)
	}
	return res
}
