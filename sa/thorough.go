package main

import (
	"encoding/json"
	"fmt"
	"os"
	"os/exec"
	"path/filepath"
	"sort"
	"strings"
	"sync"
)

// A mutant is a one-edit variant of /repo's source, applied in memory through
// a go/packages overlay (nothing is written into /repo). Each must still
// type-check and must be reported by the named rule.
type mutant struct {
	ID       string `json:"id"`
	Property string `json:"property"`
	Rule     string `json:"rule"`
	File     string `json:"file"`
	Find     string `json:"find"`
	Replace  string `json:"replace"`
	Note     string `json:"note"`
	Kind     string `json:"kind"` // "break" (must be detected) | "equiv" (behaviour-preserving: must stay silent)
}

type mutantResult struct {
	ID      string `json:"id"`
	Kind    string `json:"kind"`
	Rule    string `json:"rule"`
	Outcome string `json:"outcome"` // detected | missed | silent | false-alarm | skipped | broken
	Detail  string `json:"detail,omitempty"`
}

func loadMutants(verifDir string) ([]mutant, error) {
	b, err := os.ReadFile(filepath.Join(verifDir, "mutants.json"))
	if err != nil {
		if os.IsNotExist(err) {
			return nil, nil
		}
		return nil, err
	}
	var ms []mutant
	if err := json.Unmarshal(b, &ms); err != nil {
		return nil, fmt.Errorf("mutants.json: %v", err)
	}
	return ms, nil
}

// runMutants executes the self-test for one property in subprocesses (at most
// 4 in flight), never touching /verif/evidence.
func runMutants(prop, repo, verifDir string) ([]mutantResult, []string) {
	ms, err := loadMutants(verifDir)
	if err != nil {
		return nil, []string{err.Error()}
	}
	self, err := os.Executable()
	if err != nil {
		return nil, []string{"cannot locate own executable: " + err.Error()}
	}
	var mine []mutant
	for _, m := range ms {
		if m.Property == prop {
			mine = append(mine, m)
		}
	}
	results := make([]mutantResult, len(mine))
	var wg sync.WaitGroup
	sem := make(chan struct{}, 4)
	for i, m := range mine {
		wg.Add(1)
		go func(i int, m mutant) {
			defer wg.Done()
			sem <- struct{}{}
			defer func() { <-sem }()
			results[i] = runOneMutant(self, m, repo, verifDir)
		}(i, m)
	}
	wg.Wait()
	var failures []string
	for _, r := range results {
		switch r.Outcome {
		case "missed":
			failures = append(failures, fmt.Sprintf("selftest: seeded mutant %s was NOT reported by rule %s (%s)", r.ID, r.Rule, r.Detail))
		case "false-alarm":
			failures = append(failures, fmt.Sprintf("selftest: behaviour-preserving variant %s raised an alarm: %s", r.ID, r.Detail))
		case "broken":
			failures = append(failures, fmt.Sprintf("selftest: mutant %s could not be evaluated: %s", r.ID, r.Detail))
		}
	}
	sort.Slice(results, func(i, j int) bool { return results[i].ID < results[j].ID })
	return results, failures
}

func runOneMutant(self string, m mutant, repo, verifDir string) mutantResult {
	res := mutantResult{ID: m.ID, Kind: m.Kind, Rule: m.Rule}
	if res.Kind == "" {
		res.Kind = "break"
	}
	src, err := os.ReadFile(filepath.Join(repo, m.File))
	if err != nil {
		res.Outcome, res.Detail = "skipped", "file not found: "+m.File
		return res
	}
	if n := strings.Count(string(src), m.Find); n != 1 {
		res.Outcome, res.Detail = "skipped", fmt.Sprintf("the text to mutate occurs %d times in %s (source has drifted)", n, m.File)
		return res
	}
	mutated := strings.Replace(string(src), m.Find, m.Replace, 1)
	tmp, err := os.MkdirTemp("", "verifmut")
	if err != nil {
		res.Outcome, res.Detail = "broken", err.Error()
		return res
	}
	defer os.RemoveAll(tmp)
	mf := filepath.Join(tmp, "mutated.go")
	os.WriteFile(mf, []byte(mutated), 0o644)
	if kf, err := os.ReadFile(filepath.Join(verifDir, "known_findings.json")); err == nil {
		os.WriteFile(filepath.Join(tmp, "known_findings.json"), kf, 0o644)
	}
	args := []string{"-repo", repo, "-verif", tmp, "-overlay", m.File + "=" + mf, "-tier", "quick"}
	if m.Rule != "" && res.Kind == "break" {
		args = append(args, "-rules", m.Rule)
	}
	args = append(args, "check", m.Property)
	cmd := exec.Command(self, args...)
	cmd.Env = append(os.Environ(), "VERIF_SELFTEST=1")
	out, _ := cmd.CombinedOutput()
	code := cmd.ProcessState.ExitCode()
	text := string(out)
	firstViol := ""
	for _, l := range strings.Split(text, "\n") {
		if strings.Contains(l, ": [") && !strings.HasPrefix(l, "VIOLATION") && !strings.HasPrefix(l, "KNOWN") && firstViol == "" && strings.Contains(l, "] ") {
			firstViol = l
		}
	}
	if len(firstViol) > 240 {
		firstViol = firstViol[:240]
	}
	switch res.Kind {
	case "equiv":
		switch code {
		case 0:
			res.Outcome = "silent"
		case 1:
			res.Outcome, res.Detail = "false-alarm", firstViol
		default:
			res.Outcome, res.Detail = "broken", lastLines(text, 3)
		}
	default:
		switch {
		case code == 1 && strings.Contains(text, "["+m.Rule+"]"):
			res.Outcome, res.Detail = "detected", firstViol
		case code == 2 && strings.Contains(text, "type-check errors"):
			res.Outcome, res.Detail = "broken", "mutant does not compile: "+lastLines(text, 2)
		case code == 2:
			// a checker failure (vacuity floor, lost anchor) is also a refusal to pass
			res.Outcome, res.Detail = "detected", "checker refused to pass: "+lastLines(text, 2)
		default:
			res.Outcome, res.Detail = "missed", fmt.Sprintf("exit %d", code)
		}
	}
	return res
}

func lastLines(s string, n int) string {
	ls := strings.Split(strings.TrimSpace(s), "\n")
	if len(ls) > n {
		ls = ls[len(ls)-n:]
	}
	r := strings.Join(ls, " | ")
	if len(r) > 300 {
		r = r[:300]
	}
	return r
}
