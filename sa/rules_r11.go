package main

// Rules added in the eleventh seeding round.

import (
	"fmt"
	"go/token"
	"go/types"
	"strings"

	"golang.org/x/tools/go/ssa"
)

// ---------- N17: start and end from indices() may be crossed ----------

func init() {
	register("N17", "a pair of bounds from the slice-index normaliser is ordered before it is used to re-slice: indices() clamps start and end independently, so start may exceed end (its comment says so); every Go slice expression whose low and high bound are the two results of one call of such a helper (a module function returning two ints and an error) is dominated by a test that orders them, or an index loop is used instead - `[1,2,3].index(2, 2, 1)` must answer 'value not in list', not panic with 'slice bounds out of range [2:1]'", 1, ruleN17)
	claim("C02", "N17")
}

func ruleN17(c *Ctx) {
	n := 0
	for _, fn := range c.P.Funcs {
		pk := relPkg(fnPkgPath(fn))
		if !isProdPkg(fnPkgPath(fn)) || !(pk == "starlark" || strings.HasPrefix(pk, "lib/") || pk == "starlarkstruct") {
			continue
		}
		// pairs of int results of one helper call
		pairOf := func(v ssa.Value) (*ssa.Call, int) {
			for i := 0; i < 3; i++ {
				if cv, ok := v.(*ssa.Convert); ok {
					v = cv.X
					continue
				}
				break
			}
			ex, ok := v.(*ssa.Extract)
			if !ok {
				return nil, 0
			}
			call, ok := ex.Tuple.(*ssa.Call)
			if !ok {
				return nil, 0
			}
			h := call.Call.StaticCallee()
			if h == nil || !strings.HasPrefix(fnPkgPath(h), modPath) {
				return nil, 0
			}
			res := h.Signature.Results()
			if res.Len() != 3 || res.At(0).Type().String() != "int" || res.At(1).Type().String() != "int" || res.At(2).Type().String() != "error" {
				return nil, 0
			}
			return call, ex.Index
		}
		ord := 0
		seenCall := map[*ssa.Call]bool{}
		eachInstr(fn, func(in ssa.Instruction) {
			// census of the helper calls (so the rule is not vacuous when no slice uses them)
			if call, ok := in.(*ssa.Call); ok {
				if h := call.Call.StaticCallee(); h != nil && strings.HasPrefix(fnPkgPath(h), modPath) {
					res := h.Signature.Results()
					if res.Len() == 3 && res.At(0).Type().String() == "int" && res.At(1).Type().String() == "int" && res.At(2).Type().String() == "error" && !seenCall[call] {
						seenCall[call] = true
					}
				}
			}
			sl, ok := in.(*ssa.Slice)
			if !ok || sl.Low == nil || sl.High == nil {
				return
			}
			c1, i1 := pairOf(sl.Low)
			c2, i2 := pairOf(sl.High)
			if c1 == nil || c1 != c2 || i1 == i2 {
				return
			}
			n++
			ord++
			key := fmt.Sprintf("%s: re-slice by a start/end pair #%d", fnName(fn), ord)
			pos := c.P.Pos(sl.Pos())
			ordered := false
			for _, f := range pathFacts(sl.Block()) {
				bo, ok := f.Cond.(*ssa.BinOp)
				if !ok {
					continue
				}
				a1, x1 := pairOf(bo.X)
				a2, x2 := pairOf(bo.Y)
				if a1 != c1 || a2 != c1 || x1 == x2 {
					continue
				}
				// low <= high in any spelling
				lo, hi := i1, i2
				op := bo.Op
				if !f.Truth {
					op = i9Neg(op)
				}
				if x1 == hi && x2 == lo {
					op = i9Flip(op)
				}
				if op == token.LEQ || op == token.LSS {
					ordered = true
				}
			}
			if ordered {
				c.ok(key, pos, "dominated by a test that the start does not exceed the end")
			} else {
				c.viol(key, pos, "a slice expression uses the start and end that the index normaliser returned without ordering them first: the two are clamped independently, so start > end is possible and Go panics with 'slice bounds out of range'")
			}
		})
		if len(seenCall) > 0 && ord == 0 {
			n += 0
		}
	}
	if n == 0 {
		c.trivial("re-slicing by normalised start/end pairs", "-", "no slice expression takes both bounds from one call of an index-normalising helper (index loops are used)")
	}
}

// ---------- L10: synthesised syntax keeps its position ----------

func init() {
	register("L10", "syntax synthesised by the compiler keeps the operator position: every syntax.BinaryExpr or UnaryExpr that package compile builds itself (the `x not in y` -> `not (x in y)` rewrite, augmented assignments) is either a copy of an existing node or sets OpPos; the position of the instruction that can fail is taken from that field, so a node built with X, Op and Y only reports a failing `not in` at the position of some earlier operation", 1, ruleL10)
	claim("C16", "L10")
}

func ruleL10(c *Ctx) {
	n := 0
	for _, fn := range c.P.Funcs {
		if fnPkgPath(fn) != modPath+"/"+compilePkg {
			continue
		}
		ord := 0
		eachInstr(fn, func(in ssa.Instruction) {
			al, ok := in.(*ssa.Alloc)
			if !ok {
				return
			}
			_, tn := namedOf(al.Type())
			if tn != "BinaryExpr" && tn != "UnaryExpr" {
				return
			}
			st, ok := deref(al.Type()).Underlying().(*types.Struct)
			if !ok {
				return
			}
			posIdx := -1
			for i := 0; i < st.NumFields(); i++ {
				if st.Field(i).Name() == "OpPos" {
					posIdx = i
				}
			}
			if posIdx < 0 {
				return
			}
			n++
			ord++
			key := fmt.Sprintf("%s: synthesised %s #%d", fnName(fn), tn, ord)
			set := false
			if refs := al.Referrers(); refs != nil {
				for _, r := range *refs {
					switch x := r.(type) {
					case *ssa.Store:
						// *copy = *orig: a whole-node copy brings the position along
						if x.Addr == ssa.Value(al) {
							set = true
						}
					case *ssa.FieldAddr:
						if x.Field == posIdx && x.Referrers() != nil {
							for _, rr := range *x.Referrers() {
								if s, ok := rr.(*ssa.Store); ok && s.Addr == ssa.Value(x) {
									set = true
								}
							}
						}
					}
				}
			}
			if set {
				c.ok(key, c.P.Pos(al.Pos()), "copied from an existing node or given an operator position")
			} else {
				c.viol(key, c.P.Pos(al.Pos()), "the compiler builds a "+tn+" without an operator position: the instruction compiled from it has no line-table entry of its own, so a failure in it is reported at the position of an earlier operation")
			}
		})
	}
	if n == 0 {
		c.anchorFail("package compile synthesises no BinaryExpr/UnaryExpr")
	}
}

// ---------- Z10: a compiled program is decoded from exactly the bytes that were read ----------

func init() {
	register("Z10", "a compiled program is decoded from exactly the bytes that were read: in CompiledProgram the result of reading the input reaches compile.DecodeProgram without being handed to anything else (a TrimRight of zero bytes 'to tolerate padding' eats the NOP padding of a final jump operand, and a valid file no longer loads)", 1, ruleZ10)
	claim("C17", "Z10")
}

func ruleZ10(c *Ctx) {
	fn := c.P.Func("starlark", "CompiledProgram")
	if fn == nil {
		c.anchorFail("starlark.CompiledProgram not found")
		return
	}
	var dec *ssa.Call
	eachInstr(fn, func(in ssa.Instruction) {
		if call, ok := in.(*ssa.Call); ok {
			if cal := call.Call.StaticCallee(); cal != nil && cal.Name() == "DecodeProgram" {
				dec = call
			}
		}
	})
	key := "starlark.CompiledProgram: bytes handed to DecodeProgram"
	if dec == nil || len(dec.Call.Args) == 0 {
		c.anchorFail("CompiledProgram does not call compile.DecodeProgram")
		return
	}
	// the argument must be the first result of a read (io.ReadAll, a Read loop's buffer) - not the result of
	// any other call
	v := dec.Call.Args[0]
	bad := ""
	for i := 0; i < 6; i++ {
		switch x := v.(type) {
		case *ssa.Extract:
			if call, ok := x.Tuple.(*ssa.Call); ok {
				cal := call.Call.StaticCallee()
				if cal != nil && (fnPkgPath(cal) == "io" || fnPkgPath(cal) == "os" || fnPkgPath(cal) == "io/ioutil") {
					i = 6
					continue
				}
				bad = calleeName(call)
			}
			i = 6
		case *ssa.Call:
			bad = calleeName(x)
			i = 6
		case *ssa.Slice:
			bad = "a re-slicing"
			i = 6
		case *ssa.Phi:
			bad = "a choice between several values"
			i = 6
		case *ssa.ChangeType:
			v = x.X
		default:
			i = 6
		}
	}
	if bad == "" {
		c.ok(key, c.P.Pos(dec.Pos()), "the bytes read are passed on unchanged")
	} else {
		c.viol(key, c.P.Pos(dec.Pos()), "the bytes handed to DecodeProgram are the result of "+bad+", not what was read: whatever it strips or rewrites is part of the encoding (trailing zero bytes are NOP padding of jump operands)")
	}
}

// ---------- D7: sorted is stable in both directions ----------

func init() {
	register("D7", "sorted() is stable also when reversed: the built-in sorts with a stable algorithm (sort.Stable or slices.SortStableFunc) and obtains descending order by reversing the comparison (sort.Reverse, or a comparison function with its operands exchanged), never by reversing the sorted slice afterwards - that would also reverse the original order of equal elements, which the specification fixes", 1, ruleD7)
	claim("C01", "D7")
	claim("C03", "D7")
}

func ruleD7(c *Ctx) {
	fn := c.P.Func("starlark", "sorted")
	if fn == nil {
		c.anchorFail("starlark.sorted not found")
		return
	}
	stable, unstable, reversedAfter := false, "", ""
	var at token.Pos
	var visit func(g *ssa.Function, depth int)
	seen := map[*ssa.Function]bool{}
	visit = func(g *ssa.Function, depth int) {
		if seen[g] || depth > 2 {
			return
		}
		seen[g] = true
		eachInstr(g, func(in ssa.Instruction) {
			ci, ok := in.(ssa.CallInstruction)
			if !ok {
				return
			}
			cal := ci.Common().StaticCallee()
			if cal == nil {
				return
			}
			name := cal.String()
			if o := cal.Origin(); o != nil {
				name = o.String()
			}
			switch name {
			case "sort.Stable", "slices.SortStableFunc", "sort.SliceStable":
				stable = true
			case "sort.Sort", "sort.Slice", "slices.Sort", "slices.SortFunc":
				unstable = name
				at = in.Pos()
			case "slices.Reverse":
				reversedAfter = name
				at = in.Pos()
			}
			if relPkg(fnPkgPath(cal)) == "starlark" && len(cal.Blocks) > 0 && cal.Parent() == nil && depth < 1 {
				if strings.Contains(strings.ToLower(cal.Name()), "sort") {
					visit(cal, depth+1)
				}
			}
		})
		for _, af := range g.AnonFuncs {
			visit(af, depth+1)
		}
	}
	visit(fn, 0)
	key := "starlark.sorted: stable in both directions"
	switch {
	case reversedAfter != "":
		c.viol(key, c.P.Pos(at), "sorted reverses the slice after sorting ("+reversedAfter+"): elements with equal keys come out in the reverse of their original order, so the descending sort is not stable")
	case unstable != "":
		c.viol(key, c.P.Pos(at), "sorted uses "+unstable+", which is not a stable sort: the order of elements with equal keys depends on the algorithm")
	case !stable:
		c.viol(key, c.P.Pos(fn.Pos()), "sorted calls no stable sorting routine")
	default:
		c.ok(key, c.P.Pos(fn.Pos()), "a stable sort; no reversal of the result")
	}
}

// ---------- S11: reaching the step limit always does something ----------

func init() {
	register("S11", "reaching the step limit always has an effect: at the test of the step counter against the limit, on the branch where the limit is reached, every path either calls the host's OnMaxSteps hook (under a test that it is not nil) or cancels the thread; a hook slot that is nil - the documented way to ask for the default - must lead to Cancel, not to nothing, or a thread whose host set the hook back to nil runs arbitrarily far past its limit", 1, ruleS11)
	claim("C07", "S11")
	claim("C02", "S11")
}

func ruleS11(c *Ctx) {
	n := 0
	for _, fn := range c.P.Funcs {
		if relPkg(fnPkgPath(fn)) != "starlark" {
			continue
		}
		eachInstr(fn, func(in ssa.Instruction) {
			ifi, ok := in.(*ssa.If)
			if !ok {
				return
			}
			cv, neg := stripNot(ifi.Cond)
			b, ok := cv.(*ssa.BinOp)
			if !ok {
				return
			}
			op := b.Op
			switch {
			case derivesFromField(b.X, "starlark.Thread", "Steps") && derivesFromField(b.Y, "starlark.Thread", "maxSteps"):
			case derivesFromField(b.Y, "starlark.Thread", "Steps") && derivesFromField(b.X, "starlark.Thread", "maxSteps"):
				op = i9Flip(op)
			default:
				return
			}
			// the edge on which the limit is reached
			reachedOnTrue := false
			switch op {
			case token.GEQ, token.GTR:
				reachedOnTrue = true
			case token.LSS, token.LEQ:
				reachedOnTrue = false
			default:
				return
			}
			if neg {
				reachedOnTrue = !reachedOnTrue
			}
			n++
			key := fmt.Sprintf("%s: step limit reached #%d", fnName(fn), n)
			start := ifi.Block().Succs[0]
			other := ifi.Block().Succs[1]
			if !reachedOnTrue {
				start, other = other, start
			}
			// a path from `start` to the join that neither calls a function value loaded from Thread.OnMaxSteps
			// nor Thread.Cancel
			isAction := func(x ssa.Instruction) bool {
				ci, ok := x.(ssa.CallInstruction)
				if !ok {
					return false
				}
				if cal := ci.Common().StaticCallee(); cal != nil && cal.Name() == "Cancel" {
					return true
				}
				if !ci.Common().IsInvoke() && ci.Common().StaticCallee() == nil && derivesFromField(ci.Common().Value, "starlark.Thread", "OnMaxSteps") {
					return true
				}
				// a helper that does one of the two
				if cal := ci.Common().StaticCallee(); cal != nil && relPkg(fnPkgPath(cal)) == "starlark" && len(cal.Blocks) > 0 {
					found := false
					eachInstr(cal, func(y ssa.Instruction) {
						if c2, ok := y.(ssa.CallInstruction); ok {
							if k := c2.Common().StaticCallee(); k != nil && k.Name() == "Cancel" {
								found = true
							}
						}
					})
					return found
				}
				return false
			}
			join := other
			seen := map[*ssa.BasicBlock]bool{}
			var silent func(b *ssa.BasicBlock) bool
			silent = func(b *ssa.BasicBlock) bool {
				if b == join {
					return true
				}
				// leaving the function (a helper that returns after acting) also ends the branch
				if len(b.Instrs) > 0 {
					if _, isRet := b.Instrs[len(b.Instrs)-1].(*ssa.Return); isRet {
						for _, x := range b.Instrs {
							if isAction(x) {
								return false
							}
						}
						return true
					}
				}
				if seen[b] {
					return false
				}
				seen[b] = true
				for _, x := range b.Instrs {
					if isAction(x) {
						return false
					}
				}
				for _, s := range b.Succs {
					if silent(s) {
						return true
					}
				}
				return false
			}
			if silent(start) {
				c.viol(key, c.P.Pos(ifi.Pos()), "when the step limit is reached there is a path on which neither the OnMaxSteps hook is called nor the thread cancelled (the hook is nil and there is no default): execution simply goes on past the limit")
			} else {
				c.ok(key, c.P.Pos(ifi.Pos()), "every path calls the hook or cancels the thread")
			}
		})
	}
	if n == 0 {
		c.anchorFail("no comparison of Thread.Steps with Thread.maxSteps found")
	}
}

// ---------- N18: the last element is read only from a value known to have one ----------

func init() {
	register("N18", "accesses counted from the end are guarded by the length of the same value: every s[len(s)-k] and s[:len(s)-k] with a constant k >= 1 on a string in the value, library and syntax packages is dominated by a test that establishes len(s) >= k for that very value - a test made on the value before it was trimmed, re-sliced or converted does not count, the result can be shorter - or indexes a value whose length the same function fixed; otherwise an empty (or all-blank) input panics the host with index out of range [-1]", 3, ruleN18)
	claim("C02", "N18")
}

var n18Exceptions = map[string]string{}

// n18AfterAccess: an index access s[len(s)-k'] (k' >= need) or s[c] (c >= need-1) on the same value
// dominates the instruction - had the value been shorter, that access would have failed first, in the
// same way.
func n18AfterAccess(at ssa.Instruction, coll ssa.Value, need int64) bool {
	found := false
	eachInstr(at.Parent(), func(in ssa.Instruction) {
		if found || in == at {
			return
		}
		var x, idx ssa.Value
		switch y := in.(type) {
		case *ssa.Lookup:
			x, idx = y.X, y.Index
		case *ssa.Index:
			x, idx = y.X, y.Index
		default:
			return
		}
		if !n9Same(x, coll) {
			return
		}
		if !(in.Block().Dominates(at.Block()) && (in.Block() != at.Block() || instrIndex(in) < instrIndex(at))) {
			return
		}
		if sub, ok := idx.(*ssa.BinOp); ok && sub.Op == token.SUB && n9IsLenOf(sub.X, coll) {
			if k, isK := constInt(sub.Y); isK && k >= need {
				found = true
			}
		}
		if k, isK := constInt(idx); isK && k >= need-1 {
			found = true
		}
	})
	return found
}

// n18BuiltinName: the value is (*Builtin).Name() or the name field of a Builtin.
func n18BuiltinName(v ssa.Value) bool {
	switch x := v.(type) {
	case *ssa.Call:
		cal := x.Call.StaticCallee()
		return cal != nil && cal.Name() == "Name" && cal.Signature.Recv() != nil && isNamed(deref(cal.Signature.Recv().Type()), "starlark", "Builtin")
	case *ssa.UnOp:
		if fa, ok := x.X.(*ssa.FieldAddr); ok && x.Op == token.MUL {
			return isNamed(deref(fa.X.Type()), "starlark", "Builtin")
		}
	}
	return false
}

func ruleN18(c *Ctx) {
	n := 0
	pl := newPairLists(c.P)
	for _, fn := range c.P.Funcs {
		pk := relPkg(fnPkgPath(fn))
		if !isProdPkg(fnPkgPath(fn)) || !(pk == "starlark" || strings.HasPrefix(pk, "lib/") || pk == "starlarkstruct" || pk == "syntax" || pk == "resolve" || pk == "internal/compile") || strings.Contains(pk, "/cmd/") {
			continue
		}
		ord := map[string]int{}
		eachInstr(fn, func(in ssa.Instruction) {
			var coll, idx ssa.Value
			switch x := in.(type) {
			case *ssa.IndexAddr:
				coll, idx = x.X, x.Index
			case *ssa.Index:
				coll, idx = x.X, x.Index
			case *ssa.Lookup:
				if bt, ok := x.X.Type().Underlying().(*types.Basic); ok && bt.Info()&types.IsString != 0 {
					coll, idx = x.X, x.Index
				}
			}
			form := "[len-%d]"
			var low int64
			if sl, ok := in.(*ssa.Slice); ok && sl.High != nil {
				// s[l:len(s)-k] needs len(s) >= k+l
				// s[:len(s)-k]; a token cut at both ends (s[1:len(s)-1]) has its length from the scan that
				// delimited it, which is not a test on the value
				coll, idx, form = sl.X, sl.High, "[:len-%d]"
				if sl.Low != nil {
					if l, isK := constInt(sl.Low); !isK || l != 0 {
						return
					}
				}
			}
			if coll == nil {
				return
			}
			sub, ok := idx.(*ssa.BinOp)
			if !ok || sub.Op != token.SUB {
				return
			}
			k, isK := constInt(sub.Y)
			if !isK || k < 1 || !n9IsLenOf(sub.X, coll) {
				return
			}
			need := k + low
			// strings (text from the script or the input); slices indexed from the end are stacks whose
			// non-emptiness is a data-structure invariant, not a test
			if t, ok := coll.Type().Underlying().(*types.Basic); !ok || t.Info()&types.IsString == 0 {
				return
			}
			n++
			base := fmt.Sprintf("%s: %s"+form, fnName(fn), n9Describe(coll), k)
			ord[base]++
			key := base
			if ord[base] > 1 {
				key = fmt.Sprintf("%s #%d", base, ord[base])
			}
			pos := c.P.Pos(in.Pos())
			if why := n9Guard(fn, in, coll, need-1); why != "" {
				c.ok(key, pos, why)
			} else if n18AfterAccess(in, coll, need) {
				c.ok(key, pos, "an access to the same value that needs as many elements is executed first on every path")
			} else if r, ok := n18Exceptions[key]; ok {
				c.except(key, pos, r)
			} else if n18BuiltinName(coll) {
				c.except(key, pos, "the name of a method built-in: fixed by the method table, whose keys are all longer")
			} else if n18HostName(pl, coll) {
				c.except(key, pos, "a parameter name from the name/variable list of UnpackArgs: written by the host program (a non-empty literal at every call in the module), never by a script")
			} else {
				c.viol(key, pos, fmt.Sprintf("%d element(s) are taken off the end without a dominating test that this very value has at least %d", k, need))
			}
		})
	}
	c.note("%d accesses counted from the end", n)
}
