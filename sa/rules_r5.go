package main

// Rules added in the fifth round (after reading the round-4 misses): each is a
// general structural condition, formulated for the whole code base.

import (
	"fmt"
	"go/token"
	"go/types"
	"math"
	"os"
	"sort"
	"strconv"
	"strings"

	"golang.org/x/tools/go/ssa"
)

// ---------- F6: Freeze sets its flag on every path ----------

func init() {
	register("F6", "freezing always takes effect: in every Freeze/freeze function that memoises with a `frozen` flag, every path from the entry to a return either stores true into the flag (directly or through a callee that always does) or runs on the edge where the flag is already true; an early return before the store (e.g. for an empty table) would leave the value mutable after its module is frozen", 4, ruleF6)
	claim("C04", "F6")
	claim("C05", "F6")
}

// frozenFlagLoad: is v (after peeling negations) a load of a field named frozen
// (bool field, or the bool behind a *bool field)? neg reports an odd number of
// negations.
func frozenFlagLoad(v ssa.Value) (ok, neg bool) {
	cond, neg := stripNot(v)
	ld, isLd := cond.(*ssa.UnOp)
	if !isLd || ld.Op != token.MUL {
		return false, false
	}
	tr := traceAddr(ld.X)
	if len(tr.fields) == 0 || tr.fields[0].Name() != "frozen" {
		return false, false
	}
	return true, neg
}

func isFrozenTrueStore(in ssa.Instruction) bool {
	st, ok := in.(*ssa.Store)
	if !ok {
		return false
	}
	k, ok := st.Val.(*ssa.Const)
	if !ok || k.Value == nil || k.Value.String() != "true" {
		return false
	}
	tr := traceAddr(st.Addr)
	return len(tr.fields) > 0 && tr.fields[0].Name() == "frozen"
}

type f6state struct {
	memo map[*ssa.Function]int // 0 unknown, 1 in progress, 2 always sets, 3 does not (or has no flag)
	leak map[*ssa.Function]ssa.Instruction
}

// alwaysSets: does every path through fn reach a flag store (or the
// already-frozen edge) before returning?  Functions without any flag store in
// their freeze tree answer false.
func (s *f6state) alwaysSets(fn *ssa.Function) bool {
	switch s.memo[fn] {
	case 1:
		return false
	case 2:
		return true
	case 3:
		return false
	}
	s.memo[fn] = 1
	if len(fn.Blocks) == 0 {
		s.memo[fn] = 3
		return false
	}
	satisfies := func(in ssa.Instruction) bool {
		if isFrozenTrueStore(in) {
			return true
		}
		if ci, ok := in.(ssa.CallInstruction); ok {
			if cal := ci.Common().StaticCallee(); cal != nil && (cal.Name() == "Freeze" || cal.Name() == "freeze" || strings.Contains(strings.ToLower(cal.Name()), "frozen")) && isProdPkg(fnPkgPath(cal)) {
				if _, isDefer := in.(*ssa.Defer); isDefer {
					return s.alwaysSets(cal)
				}
				return s.alwaysSets(cal)
			}
		}
		return false
	}
	any := false
	eachInstr(fn, func(in ssa.Instruction) {
		if in.Parent() == fn && satisfies(in) {
			any = true
		}
	})
	if !any {
		s.memo[fn] = 3
		return false
	}
	seen := map[*ssa.BasicBlock]bool{}
	var leak ssa.Instruction
	var visit func(b *ssa.BasicBlock)
	visit = func(b *ssa.BasicBlock) {
		if seen[b] || leak != nil {
			return
		}
		seen[b] = true
		for _, in := range b.Instrs {
			if satisfies(in) {
				return
			}
			if _, ok := in.(*ssa.Return); ok {
				leak = in
				return
			}
		}
		if len(b.Instrs) > 0 {
			if ifi, ok := b.Instrs[len(b.Instrs)-1].(*ssa.If); ok {
				if isFlag, neg := frozenFlagLoad(ifi.Cond); isFlag {
					// frozen is true on Succs[0] iff !neg: follow only the edge where it is false
					if neg {
						visit(b.Succs[0])
					} else {
						visit(b.Succs[1])
					}
					return
				}
			}
		}
		for _, sc := range b.Succs {
			visit(sc)
		}
	}
	visit(fn.Blocks[0])
	if leak != nil {
		s.leak[fn] = leak
		s.memo[fn] = 3
		return false
	}
	s.memo[fn] = 2
	return true
}

func ruleF6(c *Ctx) {
	s := &f6state{memo: map[*ssa.Function]int{}, leak: map[*ssa.Function]ssa.Instruction{}}
	n := 0
	var fns []*ssa.Function
	for _, fn := range c.P.Funcs {
		if !isProdPkg(fnPkgPath(fn)) || fn.Signature.Recv() == nil {
			continue
		}
		if fn.Name() != "Freeze" && fn.Name() != "freeze" {
			continue
		}
		fns = append(fns, fn)
	}
	sort.Slice(fns, func(i, j int) bool { return fnName(fns[i]) < fnName(fns[j]) })
	for _, fn := range fns {
		// in scope: the function's own body or a freeze-named static callee stores the flag
		inScope := false
		for _, g := range freezeTree(fn) {
			eachInstr(g, func(in ssa.Instruction) {
				if isFrozenTrueStore(in) {
					inScope = true
				}
			})
		}
		if !inScope {
			continue
		}
		n++
		key := fnName(fn)
		if s.alwaysSets(fn) {
			c.ok(key, c.P.Pos(fn.Pos()), "every path to a return stores the frozen flag or runs with the flag already set")
			continue
		}
		// name the innermost function with a leaking return
		where := fn
		var at ssa.Instruction = s.leak[fn]
		for _, g := range freezeTree(fn) {
			if l, ok := s.leak[g]; ok && g != fn {
				where, at = g, l
			}
		}
		pos := c.P.Pos(fn.Pos())
		if at != nil {
			pos = c.P.Pos(at.Pos())
			if pos == "" || strings.HasSuffix(pos, ":0") {
				pos = c.P.Pos(where.Pos())
			}
		}
		c.viol(key, pos, fmt.Sprintf("a return of %s is reachable from the entry without the frozen flag having been set (and not on the already-frozen edge): on that path Freeze has no effect and the value stays mutable", fnName(where)))
	}
	if n == 0 {
		c.anchorFail("no flag-memoised Freeze function found")
	}
}

// ---------- F7: the frozen root set is all module globals ----------

func init() {
	register("F7", "the module's freeze roots are all of its globals: the function that builds the dictionary of module globals (which ExecFile freezes, and which Program.Init returns) copies every non-nil slot of Module.globals - the copy is conditional on nothing but the slot being set, so no global (e.g. by name pattern) escapes the freeze", 1, ruleF7)
	claim("C04", "F7")
}

func ruleF7(c *Ctx) {
	n := 0
	for _, fn := range c.P.Funcs {
		if !isProdPkg(fnPkgPath(fn)) || relPkg(fnPkgPath(fn)) != "starlark" {
			continue
		}
		res := fn.Signature.Results()
		if res.Len() == 0 || !isNamed(res.At(0).Type(), "starlark", "StringDict") {
			continue
		}
		eachInstr(fn, func(in ssa.Instruction) {
			mu, ok := in.(*ssa.MapUpdate)
			if !ok || in.Parent() != fn {
				return
			}
			// the stored value comes from Module.globals
			tr := traceValue(mu.Value)
			fromGlobals := false
			for i, f := range tr.fields {
				if f.Name() == "globals" && isNamed(tr.owners[i], "starlark", "Module") {
					fromGlobals = true
				}
			}
			if !fromGlobals {
				return
			}
			n++
			key := fnName(fn) + ": copy of Module.globals"
			var bad []string
			for _, pc := range pathConds(mu.Block()) {
				cond := pc.If.Cond
				// loop conditions: range-next ok flag, index < len
				if ex, ok := cond.(*ssa.Extract); ok {
					if _, ok := ex.Tuple.(*ssa.Next); ok {
						continue
					}
				}
				if bo, ok := cond.(*ssa.BinOp); ok {
					if bo.Op == token.LSS || bo.Op == token.GTR || bo.Op == token.LEQ || bo.Op == token.GEQ {
						if isLenOrIndex(bo.X) || isLenOrIndex(bo.Y) {
							continue
						}
					}
				}
				if x, _, ok := nilTest(cond); ok {
					// nil test of the stored value (or of the slot it was loaded from)
					if x == mu.Value || sameTraceRoot(x, mu.Value) {
						continue
					}
				}
				bad = append(bad, c.P.Pos(pc.If.Pos()))
			}
			// and conversely: once the slot is known to be set, the copy happens on every way round the loop
			// (a filter written as `v != nil && !(cond)` leaves the copy undominated by the extra test)
			if len(bad) == 0 {
				for _, pc := range pathConds(mu.Block()) {
					x, neq, ok := nilTest(pc.If.Cond)
					if !ok || !(x == mu.Value || sameTraceRoot(x, mu.Value)) || neq != pc.Branch {
						continue
					}
					_, header := innermostLoop(fn, mu.Block())
					if header == nil {
						continue
					}
					start := pc.If.Block().Succs[0]
					if !pc.Branch {
						start = pc.If.Block().Succs[1]
					}
					if len(start.Instrs) == 0 {
						continue
					}
					// a path from the "slot is set" edge back to the loop header that avoids the copy
					seen := map[*ssa.BasicBlock]bool{}
					var skip func(b *ssa.BasicBlock) bool
					skip = func(b *ssa.BasicBlock) bool {
						if b == header {
							return true
						}
						if seen[b] || b == mu.Block() {
							return false
						}
						seen[b] = true
						for _, sc := range b.Succs {
							if skip(sc) {
								return true
							}
						}
						return false
					}
					if skip(start) {
						bad = append(bad, c.P.Pos(pc.If.Pos())+" (a path from the non-nil test back to the loop header bypasses the copy)")
					}
				}
			}
			if len(bad) > 0 {
				c.viol(key, c.P.Pos(mu.Pos()), fmt.Sprintf("the copy of a module global into the globals dictionary is conditional on more than the slot being set (extra condition at %s): a global that is filtered out is not in the set that ExecFile freezes, so values reachable only from it stay mutable", strings.Join(bad, ", ")))
			} else {
				c.ok(key, c.P.Pos(mu.Pos()), "every non-nil global slot is copied (conditions: loop bound, nil test of the slot)")
			}
		})
	}
	if n == 0 {
		c.anchorFail("no function copying Module.globals into a StringDict found")
	}
}

func isLenOrIndex(v ssa.Value) bool {
	switch x := v.(type) {
	case *ssa.Call:
		if b, ok := x.Call.Value.(*ssa.Builtin); ok && b.Name() == "len" {
			return true
		}
	case *ssa.Phi:
		return true // loop counter
	case *ssa.BinOp:
		return isLenOrIndex(x.X) || isLenOrIndex(x.Y)
	}
	return false
}

func sameTraceRoot(a, b ssa.Value) bool {
	ta, tb := traceValue(a), traceValue(b)
	if len(ta.bases) == 0 || len(tb.bases) == 0 || len(ta.fields) != len(tb.fields) {
		return false
	}
	for i := range ta.fields {
		if ta.fields[i] != tb.fields[i] {
			return false
		}
	}
	for _, x := range ta.bases {
		found := false
		for _, y := range tb.bases {
			if x.v == y.v {
				found = true
			}
		}
		if !found {
			return false
		}
	}
	return true
}

var _ = types.Typ

// ---------- A8: built-ins consume their arguments on every success path ----------

func init() {
	register("A8", "no argument is silently ignored: every function with the built-in signature (thread, builtin, args, kwargs) inspects both its positional and its named arguments (unpacks them, tests their length, ranges over them or hands them to a callee) on every path to a successful return, so surplus or unexpected arguments are rejected and a fast path cannot skip the named arguments", 60, ruleA8)
	claim("C08", "A8")
}

func isBuiltinSig(sig *types.Signature) bool {
	if sig.Recv() != nil && false {
		return false
	}
	ps, rs := sig.Params(), sig.Results()
	if ps.Len() != 4 || rs.Len() != 2 {
		return false
	}
	if !isNamed(deref(ps.At(0).Type()), "starlark", "Thread") || !isNamed(deref(ps.At(1).Type()), "starlark", "Builtin") {
		return false
	}
	if !isNamed(ps.At(2).Type(), "starlark", "Tuple") {
		return false
	}
	sl, ok := ps.At(3).Type().Underlying().(*types.Slice)
	if !ok || !isNamed(sl.Elem(), "starlark", "Tuple") {
		return false
	}
	return isNamed(rs.At(0).Type(), "starlark", "Value") && rs.At(1).Type().String() == "error"
}

// usesValue: does instruction in have v as an operand (directly)?
func instrUses(in ssa.Instruction, v ssa.Value) bool {
	for _, op := range in.Operands(nil) {
		if op != nil && *op == v {
			return true
		}
	}
	return false
}

// a8Exceptions: built-ins that by specification accept and ignore surplus arguments.
var a8Exceptions = map[string]string{
	"starlark.string_format": "str.format consumes positional and named arguments on demand, one per replacement field; surplus arguments are legal (as in Python)",
}

func ruleA8(c *Ctx) {
	n := 0
	var fns []*ssa.Function
	for _, fn := range c.P.Funcs {
		if !isProdPkg(fnPkgPath(fn)) || len(fn.Blocks) == 0 || fn.Synthetic != "" {
			continue
		}
		if !isBuiltinSig(fn.Signature) || len(fn.Params) < 4 {
			continue
		}
		fns = append(fns, fn)
	}
	sort.Slice(fns, func(i, j int) bool { return fnName(fns[i]) < fnName(fns[j]) })
	for _, fn := range fns {
		np := len(fn.Params)
		params := map[string]ssa.Value{"args": fn.Params[np-2], "kwargs": fn.Params[np-1]}
		n++
		for _, which := range []string{"args", "kwargs"} {
			pv := params[which]
			key := fnName(fn) + ": " + which
			// values that stand for the parameter: the parameter and, if spilled, loads of its cell
			alias := map[ssa.Value]bool{pv: true}
			if refs := pv.Referrers(); refs != nil {
				for _, r := range *refs {
					if st, ok := r.(*ssa.Store); ok && st.Val == pv {
						if a, ok := st.Addr.(*ssa.Alloc); ok {
							alias[a] = true // closures capture the cell: creation of such a closure counts as a use
							if ar := a.Referrers(); ar != nil {
								for _, u := range *ar {
									if ld, ok := u.(*ssa.UnOp); ok && ld.Op == token.MUL {
										alias[ld] = true
									}
								}
							}
						}
					}
				}
			}
			consumes := func(in ssa.Instruction) bool {
				if st, ok := in.(*ssa.Store); ok && st.Val == pv {
					return false // the spill itself
				}
				if _, ok := in.(*ssa.DebugRef); ok {
					return false
				}
				for a := range alias {
					if _, isAlloc := a.(*ssa.Alloc); isAlloc {
						if mc, ok := in.(*ssa.MakeClosure); ok && instrUses(mc, a) {
							return true
						}
						continue
					}
					if instrUses(in, a) {
						if ld, ok := in.(*ssa.UnOp); ok && alias[ld] {
							continue
						}
						return true
					}
				}
				return false
			}
			seen := map[*ssa.BasicBlock]bool{}
			var leak *ssa.Return
			var visit func(b *ssa.BasicBlock)
			visit = func(b *ssa.BasicBlock) {
				if seen[b] || leak != nil {
					return
				}
				seen[b] = true
				for _, in := range b.Instrs {
					if consumes(in) {
						return
					}
					if r, ok := in.(*ssa.Return); ok {
						if len(r.Results) == 2 && isNilConst(r.Results[1]) {
							leak = r
						}
						return
					}
				}
				for _, s := range b.Succs {
					visit(s)
				}
			}
			visit(fn.Blocks[0])
			if why, ok := a8Exceptions[fnName(fn)]; ok && leak != nil {
				c.except(key, c.P.Pos(fn.Pos()), why)
			} else if leak != nil {
				c.viol(key, c.P.Pos(leak.Pos()), fmt.Sprintf("a successful return is reachable without %s ever having been inspected: the built-in silently accepts (and drops) whatever the caller passed there", which))
			} else {
				c.ok(key, c.P.Pos(fn.Pos()), which+" is inspected on every path to a successful return")
			}
		}
	}
	if n == 0 {
		c.anchorFail("no function with the built-in signature found")
	}
}

// ---------- A6 / A7: one binding authority, and it honours the keyword-only boundary ----------

func init() {
	register("A6", "arguments are bound in one place: in CallInternal the instruction fetch of the interpreter loop is dominated by the success edge of the setArgs call, so no fast path enters the function body with parameters bound by other code", 1, ruleA6)
	register("A7", "the positional arity test knows the keyword-only boundary: in setArgs every path to a successful return passes a comparison between the number of positional arguments and a quantity derived from NumKwonlyParams (or lies on the branch where the function has no parameters at all); a shortcut that compares len(args) with NumParams alone would bind surplus positional values to keyword-only parameters", 1, ruleA7)
	claim("C08", "A6", "A7")
	claim("C01", "A6")
}

func ruleA6(c *Ctx) {
	fn := c.P.Func("starlark", "Function.CallInternal")
	if fn == nil {
		c.anchorFail("(*starlark.Function).CallInternal not found")
		return
	}
	fetch := findFetch(fn)
	if fetch == nil {
		c.anchorFail("cannot locate the instruction fetch in CallInternal")
		return
	}
	key := "(*starlark.Function).CallInternal: setArgs before the loop"
	var calls []*ssa.Call
	eachInstr(fn, func(in ssa.Instruction) {
		if call, ok := in.(*ssa.Call); ok && in.Parent() == fn {
			if cal := call.Call.StaticCallee(); cal != nil && reachesSetArgs(c.P, cal, 0) {
				calls = append(calls, call)
			}
		}
	})
	if len(calls) == 0 {
		c.viol(key, c.P.Pos(fn.Pos()), "CallInternal no longer calls setArgs (directly or through a helper): parameters are bound by other code")
		return
	}
	for _, call := range calls {
		var errRes ssa.Value = call
		if tup, ok := call.Type().(*types.Tuple); ok {
			errRes = nil
			if refs := call.Referrers(); refs != nil {
				for _, r := range *refs {
					if ex, ok := r.(*ssa.Extract); ok && ex.Index == tup.Len()-1 {
						errRes = ex
					}
				}
			}
		}
		if errRes != nil && dominatedByNilErr(fetch.Block(), errRes) {
			c.ok(key, c.P.Pos(call.Pos()), "the fetch is dominated by the nil-error edge of the binding call")
			return
		}
	}
	c.viol(key, c.P.Pos(calls[0].Pos()), "the interpreter loop can be reached on a path that does not pass a successful setArgs call: on that path the parameters were bound by other code (a fast path), outside the checks setArgs performs")
}

func reachesSetArgs(p *Prog, fn *ssa.Function, depth int) bool {
	if fn == nil || depth > 2 || relPkg(fnPkgPath(fn)) != "starlark" {
		return false
	}
	if fn.Name() == "setArgs" {
		return true
	}
	if fn.Object() != nil && fn.Object().Exported() {
		return false
	}
	found := false
	eachInstr(fn, func(in ssa.Instruction) {
		if call, ok := in.(*ssa.Call); ok && in.Parent() == fn && !found {
			if cal := call.Call.StaticCallee(); cal != nil && cal != fn && depth < 2 {
				if cal.Name() == "setArgs" && relPkg(fnPkgPath(cal)) == "starlark" {
					found = true
				}
			}
		}
	})
	return found
}

// forwardSlice: the values of fn that are computed (by arithmetic, conversion,
// phi) from a seed value.
func forwardSlice(fn *ssa.Function, seed func(v ssa.Value) bool) map[ssa.Value]bool {
	s := map[ssa.Value]bool{}
	for changed := true; changed; {
		changed = false
		eachInstr(fn, func(in ssa.Instruction) {
			v, ok := in.(ssa.Value)
			if !ok || s[v] {
				return
			}
			if seed(v) {
				s[v] = true
				changed = true
				return
			}
			switch x := in.(type) {
			case *ssa.BinOp:
				switch x.Op {
				case token.ADD, token.SUB, token.MUL, token.QUO, token.REM:
					if s[x.X] || s[x.Y] {
						s[v] = true
						changed = true
					}
				}
			case *ssa.Convert:
				if s[x.X] {
					s[v] = true
					changed = true
				}
			case *ssa.ChangeType:
				if s[x.X] {
					s[v] = true
					changed = true
				}
			case *ssa.Phi:
				for _, e := range x.Edges {
					if s[e] {
						s[v] = true
						changed = true
					}
				}
			case *ssa.UnOp:
				if x.Op == token.MUL {
					// load of a spilled local: follow stores into the cell
					if a, ok := x.X.(*ssa.Alloc); ok {
						for _, r := range *a.Referrers() {
							if st, ok := r.(*ssa.Store); ok && st.Addr == a && s[st.Val] {
								s[v] = true
								changed = true
							}
						}
					}
				} else if s[x.X] {
					s[v] = true
					changed = true
				}
			}
		})
	}
	return s
}

func ruleA7(c *Ctx) {
	fn := c.P.Func("starlark", "setArgs")
	if fn == nil {
		c.anchorFail("starlark.setArgs not found")
		return
	}
	var argsP ssa.Value
	for _, p := range fn.Params {
		if isNamed(p.Type(), "starlark", "Tuple") {
			argsP = p
		}
	}
	if argsP == nil {
		c.anchorFail("setArgs has no Tuple parameter")
		return
	}
	isAccessor := func(v ssa.Value, name, field string) bool {
		if call, ok := v.(*ssa.Call); ok {
			if cal := call.Call.StaticCallee(); cal != nil && cal.Name() == name {
				return true
			}
		}
		if ld, ok := v.(*ssa.UnOp); ok && ld.Op == token.MUL {
			if fa, ok := ld.X.(*ssa.FieldAddr); ok {
				_, f := ownerField(fa)
				return f == field
			}
		}
		return false
	}
	kw := forwardSlice(fn, func(v ssa.Value) bool { return isAccessor(v, "NumKwonlyParams", "NumKwonlyParams") })
	la := forwardSlice(fn, func(v ssa.Value) bool {
		if call, ok := v.(*ssa.Call); ok {
			if b, ok := call.Call.Value.(*ssa.Builtin); ok && b.Name() == "len" && len(call.Call.Args) == 1 {
				tr := traceValue(call.Call.Args[0])
				for _, b := range tr.bases {
					if b.v == argsP {
						return len(tr.fields) == 0
					}
				}
			}
		}
		return false
	})
	if len(kw) == 0 {
		c.viol("starlark.setArgs: arity test", c.P.Pos(fn.Pos()), "setArgs never reads the number of keyword-only parameters")
		return
	}
	isArityTest := func(b *ssa.BasicBlock) bool {
		if len(b.Instrs) == 0 {
			return false
		}
		ifi, ok := b.Instrs[len(b.Instrs)-1].(*ssa.If)
		if !ok {
			return false
		}
		cond, _ := stripNot(ifi.Cond)
		bo, ok := cond.(*ssa.BinOp)
		if !ok {
			return false
		}
		switch bo.Op {
		case token.LSS, token.GTR, token.LEQ, token.GEQ, token.EQL, token.NEQ:
		default:
			return false
		}
		return (la[bo.X] && kw[bo.Y]) || (la[bo.Y] && kw[bo.X])
	}
	// the nullary branch: NumParams() == 0
	nullaryEdge := func(b *ssa.BasicBlock) *ssa.BasicBlock {
		if len(b.Instrs) == 0 {
			return nil
		}
		ifi, ok := b.Instrs[len(b.Instrs)-1].(*ssa.If)
		if !ok {
			return nil
		}
		cond, neg := stripNot(ifi.Cond)
		bo, ok := cond.(*ssa.BinOp)
		if !ok || (bo.Op != token.EQL && bo.Op != token.NEQ) {
			return nil
		}
		var other ssa.Value
		if isAccessor(bo.X, "NumParams", "NumParams") {
			other = bo.Y
		} else if isAccessor(bo.Y, "NumParams", "NumParams") {
			other = bo.X
		}
		if k, ok := constInt(other); !ok || k != 0 {
			return nil
		}
		eq := (bo.Op == token.EQL) != neg
		if eq {
			return b.Succs[0]
		}
		return b.Succs[1]
	}
	seen := map[*ssa.BasicBlock]bool{}
	var leak *ssa.Return
	var visit func(b *ssa.BasicBlock)
	visit = func(b *ssa.BasicBlock) {
		if seen[b] || leak != nil {
			return
		}
		seen[b] = true
		for _, in := range b.Instrs {
			if r, ok := in.(*ssa.Return); ok && len(r.Results) == 1 && isNilConst(r.Results[0]) {
				leak = r
				return
			}
		}
		if isArityTest(b) {
			return
		}
		skip := nullaryEdge(b)
		for _, s := range b.Succs {
			if s != skip {
				visit(s)
			}
		}
	}
	visit(fn.Blocks[0])
	key := "starlark.setArgs: arity test"
	if leak != nil {
		c.viol(key, c.P.Pos(leak.Pos()), "a successful return of setArgs is reachable without the number of positional arguments having been compared with a bound derived from NumKwonlyParams (and not on the no-parameters branch): on that path surplus positional values can be bound to keyword-only parameters")
		return
	}
	c.ok(key, c.P.Pos(fn.Pos()), "every successful return passes the positional-arity comparison that accounts for keyword-only parameters (or the nullary branch)")
}

// ---------- E8: hashes are functions of the value, not of its bit pattern ----------

func init() {
	register("E8", "float hashes do not depend on the representation: no Hash method (nor the module functions it calls) applies math.Float64bits/Float32bits: == treats -0.0 and 0.0, and all NaNs, as equal, so a hash of the bit pattern would give equal values different hashes", 20, ruleE8)
	claim("C11", "E8")
}

func ruleE8(c *Ctx) {
	n := 0
	for _, fn := range c.P.Funcs {
		if fn.Name() != "Hash" || fn.Signature.Recv() == nil || !isProdPkg(fnPkgPath(fn)) || !hasMethod(fn.Signature.Recv().Type(), "Freeze") {
			continue
		}
		n++
		key := fnName(fn)
		bad := ""
		reach := []*ssa.Function{fn}
		seen := map[*ssa.Function]bool{fn: true}
		for i := 0; i < len(reach) && i < 200; i++ {
			g := reach[i]
			eachInstr(g, func(in ssa.Instruction) {
				ci, ok := in.(ssa.CallInstruction)
				if !ok {
					return
				}
				cal := ci.Common().StaticCallee()
				if cal == nil {
					return
				}
				switch cal.String() {
				case "math.Float64bits", "math.Float32bits":
					bad = "calls " + cal.String()
					if g != fn {
						bad += " (through " + fnName(g) + ")"
					}
				}
				if pk := fnPkgPath(cal); (pk == modPath || strings.HasPrefix(pk, modPath+"/")) && cal.Blocks != nil && !seen[cal] && cal.Name() != "Hash" {
					seen[cal] = true
					reach = append(reach, cal)
				}
			})
		}
		if bad != "" {
			c.viol(key, c.P.Pos(fn.Pos()), key+" "+bad+": the hash depends on the float's bit pattern, but equal floats (-0.0 and 0.0, NaNs with different payloads) have different patterns")
		} else {
			c.ok(key, c.P.Pos(fn.Pos()), "no bit-pattern access in the hash computation")
		}
	}
	if n < 20 {
		c.anchorFail("only %d Hash methods found", n)
	}
}

// ---------- W9: package-level storage is not lent to writers ----------

func init() {
	register("W9", "package-level buffers are not shared scratch space: outside package initialisation, no slice of (or pointer into) a package-level array, slice or struct of the module is passed to a function that may write through it (append-style helpers, Read, copy destinations, method calls on the variable's address other than synchronisation primitives); a buffer hoisted from a local to a package variable would be shared by all threads", 0, ruleW9)
	claim("C03", "W9")
	claim("C05", "W9")
}

func ruleW9(c *Ctx) {
	n := 0
	// read-only or synchronising uses of a global's address
	okMethodRecv := func(cal *ssa.Function) string {
		if cal == nil || cal.Signature.Recv() == nil {
			return ""
		}
		pp, tn := namedOf(cal.Signature.Recv().Type())
		if pp == "sync/atomic" {
			// an atomic cell at package level that holds a pointer or an arbitrary value is shared storage:
			// publishing into it (Store, Swap, CompareAndSwap) is a write to process-wide state
			if (tn == "Pointer" || tn == "Value") && cal.Name() != "Load" {
				return ""
			}
			return "synchronisation primitive " + pp + "." + tn
		}
		if pp == "sync" {
			switch tn {
			case "Mutex", "RWMutex", "Once", "WaitGroup", "Cond":
				return "synchronisation primitive sync." + tn
			}
			// sync.Map and sync.Pool are process-wide storage: values put there by one execution are
			// found by the next
		}
		return ""
	}
	for _, fn := range c.P.Funcs {
		if !isProdPkg(fnPkgPath(fn)) {
			continue
		}
		top := outermost(fn)
		if top.Name() == "init" || strings.HasPrefix(top.Name(), "init#") {
			continue
		}
		eachInstr(fn, func(in ssa.Instruction) {
			ci, ok := in.(ssa.CallInstruction)
			if !ok {
				return
			}
			cc := ci.Common()
			args := cc.Args
			for ai, a := range args {
				// only address-like operands: pointers and slices
				switch at := a.Type().Underlying().(type) {
				case *types.Slice:
				case *types.Pointer:
					// pointers to scalars and strings are names, not buffers (e.g. &builtinFilename in a Position)
					switch at.Elem().Underlying().(type) {
					case *types.Array, *types.Struct, *types.Slice, *types.Map:
					default:
						continue
					}
				default:
					continue
				}
				// the operand itself must be an address INTO the global (slice of a global array,
				// &global, &global.field), not a pointer value loaded from it
				g := addrIntoGlobal(a)
				if g == nil || g.Pkg == nil || !strings.HasPrefix(g.Pkg.Pkg.Path(), modPath) {
					continue
				}
				n++
				key := fmt.Sprintf("%s: &%s.%s passed to %s", fnName(fn), relPkg(g.Pkg.Pkg.Path()), g.Name(), calleeName(ci))
				pos := c.P.Pos(in.Pos())
				if why := okMethodRecv(cc.StaticCallee()); why != "" && ai == 0 {
					c.ok(key, pos, why)
					continue
				}
				if r, ok := w3Exceptions[fnName(top)]; ok {
					c.except(key, pos, r)
					continue
				}
				if b, ok := cc.Value.(*ssa.Builtin); ok && (b.Name() == "len" || b.Name() == "cap") {
					c.ok(key, pos, "length only")
					continue
				}
				c.viol(key, pos, "storage of a package-level variable is handed to a callee that can write through it during execution: every thread (and every execution) shares that buffer")
			}
		})
	}
	c.note("%d address-of-global call operands examined", n)
}

// addrIntoGlobal: v is an address computed from a package-level variable
// without loading a pointer out of it (so writes through v land in the
// variable's own storage).
func addrIntoGlobal(v ssa.Value) *ssa.Global {
	for i := 0; i < 20; i++ {
		switch x := v.(type) {
		case *ssa.Global:
			return x
		case *ssa.FieldAddr:
			v = x.X
		case *ssa.IndexAddr:
			// element of an array (by address) stays inside; element of a slice loaded from the global does not
			if _, isPtr := x.X.Type().Underlying().(*types.Pointer); isPtr {
				v = x.X
			} else {
				return nil
			}
		case *ssa.Slice:
			if _, isPtr := x.X.Type().Underlying().(*types.Pointer); isPtr {
				v = x.X // slicing *[N]T
			} else {
				return nil
			}
		case *ssa.ChangeType:
			v = x.X
		case *ssa.Convert:
			v = x.X
		default:
			return nil
		}
	}
	return nil
}

// ---------- B7: duration arithmetic uses exact nanosecond counts ----------

func init() {
	register("B7", "lossy unit accessors are for display only: in lib/time the rounded or truncated accessors of time.Duration (Hours, Minutes, Seconds as float64; Milliseconds, Microseconds truncated) are called only from attribute accessors (Attr); operators and constructors compute from the exact nanosecond count, so d / u is the correctly rounded quotient of two integers", 3, ruleB7)
	claim("C19", "B7")
}

func ruleB7(c *Ctx) {
	lossy := map[string]bool{"Hours": true, "Minutes": true, "Seconds": true, "Milliseconds": true, "Microseconds": true}
	n := 0
	for _, fn := range c.P.Funcs {
		if relPkg(fnPkgPath(fn)) != "lib/time" {
			continue
		}
		eachInstr(fn, func(in ssa.Instruction) {
			ci, ok := in.(ssa.CallInstruction)
			if !ok {
				return
			}
			cal := ci.Common().StaticCallee()
			if cal == nil || cal.Signature.Recv() == nil || !lossy[cal.Name()] {
				return
			}
			if pp, tn := namedOf(cal.Signature.Recv().Type()); pp != "time" || tn != "Duration" {
				return
			}
			n++
			top := outermost(fn)
			key := fmt.Sprintf("%s: time.Duration.%s", fnName(fn), cal.Name())
			if top.Name() == "Attr" || top.Name() == "String" || b7OnlyFromAttr(c.P, top, 0) {
				c.ok(key, c.P.Pos(in.Pos()), "attribute accessor / display")
				return
			}
			c.viol(key, c.P.Pos(in.Pos()), fmt.Sprintf("%s computes with time.Duration.%s, a rounded (or truncated) view of the duration, outside the attribute accessors: results of duration arithmetic are no longer those of exact nanosecond arithmetic", fnName(top), cal.Name()))
		})
	}
	if n < 3 {
		c.anchorFail("only %d lossy-accessor call(s) found in lib/time (expected the hours/minutes/seconds attributes)", n)
	}
}

// b7OnlyFromAttr: an unexported helper all of whose callers are Attr methods (or such helpers).
func b7OnlyFromAttr(p *Prog, fn *ssa.Function, depth int) bool {
	if depth > 2 || fn.Object() == nil || fn.Object().Exported() {
		return false
	}
	node := p.CG().Nodes[fn]
	if node == nil || len(node.In) == 0 {
		return false
	}
	for _, e := range node.In {
		caller := outermost(e.Caller.Func)
		if caller.Name() == "Attr" || caller == fn {
			continue
		}
		if !b7OnlyFromAttr(p, caller, depth+1) {
			return false
		}
	}
	return true
}

// ---------- I9: signed Go division is truncating, Starlark's is flooring ----------

func init() {
	register("I9", "no truncating division of possibly-negative quantities: every Go integer / and % on signed operands in the value and library packages has operands proven non-negative (lengths, counters, masks, constants, values dominated by a sign test), is the quotient/remainder step of the flooring idiom (followed by the sign adjustment), or is a named site; Go rounds toward zero while Starlark's // and %, Unix seconds and similar quantities round toward minus infinity", 8, ruleI9)
	claim("C10", "I9")
	claim("C19", "I9")
}

var i9Exceptions = map[string]string{
	"sig: / overflow by starlark.rangeValue.step": "range membership (delta / step): the quotient is only compared with 0 and the length, and only when the remainder is zero; the single wrapping case (delta = MinInt, step = -1) yields a negative quotient and the answer False, which is also the exact answer (the exact quotient 2^63 exceeds every length)",
	"(starlark.rangeValue).contains: / overflow":  "the quotient is only compared with 0 and the length, and only when the remainder is zero; the single wrapping case (delta = MinInt, step = -1) yields a negative quotient and the answer False, which is also the exact answer (the exact quotient 2^63 exceeds every length)",
	"(lib/time.Duration).Binary: /":               "duration / int (operator /, not //): the time module defines it as Go's Duration division, which discards the sub-nanosecond part toward zero",
}

// onlyZeroTested: every use of v is an ==/!= comparison.
func onlyZeroTested(v ssa.Value) bool {
	refs := v.Referrers()
	if refs == nil || len(*refs) == 0 {
		return false
	}
	for _, r := range *refs {
		switch x := r.(type) {
		case *ssa.BinOp:
			if x.Op != token.EQL && x.Op != token.NEQ {
				return false
			}
		case *ssa.DebugRef:
		default:
			return false
		}
	}
	return true
}

// exactByRemainder: q = x / y where the function also computes r = x % y and
// every use of q lies in a block dominated by the edge r == 0.
func exactByRemainder(q *ssa.BinOp) bool {
	var rem *ssa.BinOp
	eachInstr(q.Parent(), func(in ssa.Instruction) {
		if b, ok := in.(*ssa.BinOp); ok && b.Op == token.REM && sameOperand(b.X, q.X) && sameOperand(b.Y, q.Y) {
			rem = b
		}
	})
	if rem == nil || q.Referrers() == nil {
		return false
	}
	for _, r := range *q.Referrers() {
		if _, ok := r.(*ssa.DebugRef); ok {
			continue
		}
		okUse := false
		for _, pf := range pathFacts(r.Block()) {
			cond, neg := pf.Cond, false
			cb, ok := cond.(*ssa.BinOp)
			if !ok || (cb.Op != token.EQL && cb.Op != token.NEQ) {
				continue
			}
			var other ssa.Value
			if cb.X == rem {
				other = cb.Y
			} else if cb.Y == rem {
				other = cb.X
			} else {
				continue
			}
			if k, ok := constInt(other); !ok || k != 0 {
				continue
			}
			isZero := (cb.Op == token.EQL) == (pf.Truth != neg)
			if isZero {
				okUse = true
			}
		}
		if !okUse {
			return false
		}
	}
	return true
}

func ruleI9(c *Ctx) {
	n := 0
	for _, fn := range c.P.Funcs {
		pk := relPkg(fnPkgPath(fn))
		if !isProdPkg(fnPkgPath(fn)) || !(pk == "starlark" || strings.HasPrefix(pk, "lib/") || pk == "starlarkstruct") {
			continue
		}
		ord := map[string]int{}
		eachInstr(fn, func(in ssa.Instruction) {
			bo, ok := in.(*ssa.BinOp)
			if !ok || (bo.Op != token.QUO && bo.Op != token.REM) {
				return
			}
			bt, ok := bo.Type().Underlying().(*types.Basic)
			if !ok || bt.Info()&types.IsInteger == 0 || bt.Info()&types.IsUnsigned != 0 {
				return
			}
			n++
			op := "/"
			if bo.Op == token.REM {
				op = "%"
			}
			base := fmt.Sprintf("%s: %s", fnName(fn), op)
			ord[base]++
			key := base
			if ord[base] > 1 {
				key = fmt.Sprintf("%s #%d", base, ord[base])
			}
			pos := c.P.Pos(bo.Pos())
			// the one overflowing signed division: MinInt64 / -1 (wraps to MinInt64, no panic)
			if bo.Op == token.QUO && i9Size(bt) == 8 {
				if _, isK := constInt(bo.Y); !isK && i9NonNeg(bo.Y, bo.Block(), 0) == "" && i9NonNeg(bo.X, bo.Block(), 0) == "" && i2Small(bo.X, bo.Block(), 0) == "" && !onlyZeroTested(bo) {
					guarded := false
					// a test mentioning -1 or MinInt64 in a block that dominates the division (the test is a
					// conjunction, so no single edge of it dominates: `if i == -1 && d == MinInt64 { return err }`)
					for d := bo.Block(); d != nil; d = d.Idom() {
						if len(d.Instrs) == 0 {
							continue
						}
						ifi, ok := d.Instrs[len(d.Instrs)-1].(*ssa.If)
						if !ok {
							continue
						}
						cond, _ := stripNot(ifi.Cond)
						for v := range backSlice(cond) {
							if k, ok := constInt(v); ok && (k == -1 || k == math.MinInt64) {
								guarded = true
							}
						}
					}
					// exactly: with the divisor -1 and the dividend the minimum, is the division still
					// reachable? (tests on either value, and predicate helpers of the module given both, are
					// decided; `isMinDurationNegation(d, i)` is interpreted)
					if !guarded {
						strip := func(v ssa.Value) ssa.Value {
							for {
								switch x := v.(type) {
								case *ssa.ChangeType:
									v = x.X
								case *ssa.Convert:
									if sb, ok := x.X.Type().Underlying().(*types.Basic); ok && sb.Info()&types.IsInteger != 0 && i9Size(sb) == 8 {
										v = x.X
									} else {
										return v
									}
								default:
									return v
								}
							}
						}
						dv, iv := strip(bo.X), strip(bo.Y)
						valOf := func(v ssa.Value) (int64, bool) {
							switch strip(v) {
							case dv:
								return math.MinInt64, true
							case iv:
								return -1, true
							}
							return constInt(v)
						}
						eval := func(cond ssa.Value) (bool, bool) {
							cv, neg := stripNot(cond)
							switch x := cv.(type) {
							case *ssa.BinOp:
								a, ok1 := valOf(x.X)
								b, ok2 := valOf(x.Y)
								if !ok1 || !ok2 {
									return false, false
								}
								if _, c1 := x.X.(*ssa.Const); c1 {
									if _, c2 := x.Y.(*ssa.Const); c2 {
										return false, false
									}
								}
								var r bool
								switch x.Op {
								case token.EQL:
									r = a == b
								case token.NEQ:
									r = a != b
								case token.LSS:
									r = a < b
								case token.LEQ:
									r = a <= b
								case token.GTR:
									r = a > b
								case token.GEQ:
									r = a >= b
								default:
									return false, false
								}
								return r != neg, true
							case *ssa.Call:
								cal := x.Call.StaticCallee()
								if cal == nil || len(cal.Blocks) == 0 || !strings.HasPrefix(fnPkgPath(cal), modPath) || len(x.Call.Args) != len(cal.Params) {
									return false, false
								}
								var args []sval
								for _, a := range x.Call.Args {
									k, ok := valOf(a)
									if !ok {
										return false, false
									}
									args = append(args, svInt(k))
								}
								if res, ok := sinterpFunc(cal, args...); ok && res.k == 'b' {
									return res.b != neg, true
								}
							}
							return false, false
						}
						if dv != iv && !reachUnder(fn.Blocks[0], bo.Block(), eval) {
							guarded = true
						}
					}
					// a named site is also recognised by what it divides by (a field of a named struct), so that
					// turning a method into a function or renaming it does not lose the reason
					if _, named := i9Exceptions[key+" overflow"]; !named && !guarded {
						if tr := traceValue(bo.Y); len(tr.fields) > 0 && len(tr.owners) > 0 {
							sig := "sig: / overflow by " + qualType(tr.owners[0]) + "." + tr.fields[0].Name()
							if r, ok := i9Exceptions[sig]; ok {
								c.except(key+" overflow", pos, r)
								guarded = true
							}
						}
					}
					if r, ok := i9Exceptions[key+" overflow"]; ok && !guarded {
						c.except(key+" overflow", pos, r)
					} else if !guarded && w3Exceptions[fnName(outermost(fn))] == "" {
						c.viol(key+" overflow", pos, fmt.Sprintf("64-bit signed division in %s with a divisor that may be -1 and a dividend that may be the most negative value: Go's MinInt64 / -1 wraps to MinInt64, so the quotient has the wrong sign instead of being exact or rejected (use Int.Div, or test for the case)", fnName(fn)))
					}
				}
			}
			xs, ys := i9NonNeg(bo.X, bo.Block(), 0), i9NonNeg(bo.Y, bo.Block(), 0)
			switch {
			case xs != "" && ys != "":
				c.ok(key, pos, "operands non-negative: "+xs+"; "+ys)
			case xs != "":
				// non-negative dividend: truncation and flooring agree when the divisor is positive; a negative divisor
				// only flips the sign of an exact or truncated quotient of a non-negative number (no floor needed for x>=0, y>0)
				if ys2 := nonZeroSignKnown(bo.Y, bo.Block()); ys2 != "" {
					c.ok(key, pos, "dividend non-negative ("+xs+"), divisor "+ys2)
				} else {
					c.viol(key, pos, i9msg(fn, op, "the dividend is non-negative but the divisor's sign is unknown"))
				}
			case onlyZeroTested(bo):
				c.ok(key, pos, "the result is only compared with zero or for equality (divisibility / overflow test): the rounding direction is irrelevant")
			case bo.Op == token.QUO && exactByRemainder(bo):
				c.ok(key, pos, "every use of the quotient is dominated by the zero test of the remainder of the same operands: the division is exact")
			case w3Exceptions[fnName(outermost(fn))] != "":
				c.except(key, pos, w3Exceptions[fnName(outermost(fn))])
			case floorAdjusted(bo):
				c.ok(key, pos, "quotient/remainder step of the flooring idiom: the result is adjusted under a sign test")
			case i9Exceptions[key] != "":
				c.except(key, pos, i9Exceptions[key])
			case bo.Op == token.QUO && isNamed(bo.Type(), "lib/time", "Duration") && isNamed(bo.X.Type(), "lib/time", "Duration"):
				c.except(key, pos, i9Exceptions["(lib/time.Duration).Binary: /"])
			default:
				c.viol(key, pos, i9msg(fn, op, "neither operand is known to be non-negative and no sign adjustment follows"))
			}
		})
	}
	if n < 8 {
		c.anchorFail("only %d signed integer divisions found", n)
	}
}

func i9msg(fn *ssa.Function, op, why string) string {
	return fmt.Sprintf("Go's signed %s in %s rounds toward zero; %s, so for negative operands the result differs from the floored result that Starlark arithmetic and epoch-based quantities require", op, fnName(fn), why)
}

// nonNegative: a reason why v >= 0, or "".
func i9NonNeg(v ssa.Value, at *ssa.BasicBlock, depth int) string {
	if depth > 6 {
		return ""
	}
	if k, ok := constInt(v); ok {
		if k >= 0 {
			return "constant"
		}
		return ""
	}
	if bt, ok := v.Type().Underlying().(*types.Basic); ok && bt.Info()&types.IsUnsigned != 0 {
		return "unsigned"
	}
	switch x := v.(type) {
	case *ssa.Call:
		if b, ok := x.Call.Value.(*ssa.Builtin); ok && (b.Name() == "len" || b.Name() == "cap") {
			return "len"
		}
		if cal := x.Call.StaticCallee(); cal != nil {
			switch cal.Name() {
			case "Len", "len", "NumField", "NumMethod", "RuneCountInString", "RuneCount", "Abs":
				return cal.Name() + "()"
			}
		}
		if x.Call.IsInvoke() && x.Call.Method.Name() == "Len" {
			return "Len()"
		}
	case *ssa.Convert:
		// widening of an unsigned or non-negative value
		if r := i9NonNeg(x.X, at, depth+1); r != "" {
			if sb, ok := x.X.Type().Underlying().(*types.Basic); ok {
				if db, ok := x.Type().Underlying().(*types.Basic); ok && i9Size(db) >= i9Size(sb) {
					if sb.Info()&types.IsUnsigned != 0 && i9Size(db) == i9Size(sb) {
						return "" // uint64 -> int64 may turn negative
					}
					return r
				}
			}
		}
	case *ssa.BinOp:
		switch x.Op {
		case token.AND:
			if i9NonNeg(x.X, at, depth+1) != "" || i9NonNeg(x.Y, at, depth+1) != "" {
				return "masked"
			}
		case token.SUB:
			// a - b (- k) under a dominating a > b: the difference of an ordered pair (overflow is rule I6's concern)
			a, b := x.X, x.Y
			if inner, ok := x.X.(*ssa.BinOp); ok && inner.Op == token.SUB {
				if k, isK := constInt(inner.Y); isK && k >= 0 && k <= 1 {
					a = inner.X
				}
			}
			for _, pf := range pathFacts(at) {
				cond, neg := pf.Cond, false
				bo, ok := cond.(*ssa.BinOp)
				if !ok {
					continue
				}
				taken := pf.Truth != neg
				op := bo.Op
				if !taken {
					op = i9Neg(op)
				}
				if (i9Same(bo.X, a) && i9Same(bo.Y, b) && (op == token.GTR || op == token.GEQ)) || (i9Same(bo.X, b) && i9Same(bo.Y, a) && (op == token.LSS || op == token.LEQ)) {
					return "difference of an ordered pair"
				}
			}
		case token.ADD, token.MUL, token.QUO, token.REM, token.SHR:
			if i9NonNeg(x.X, at, depth+1) != "" && i9NonNeg(x.Y, at, depth+1) != "" {
				return "arithmetic on non-negative values"
			}
			if x.Op == token.SHR && i9NonNeg(x.X, at, depth+1) != "" {
				return "shift of a non-negative value"
			}
		}
	case *ssa.Phi:
		// loop counter: all edges non-negative, or incremented from a non-negative start
		okAll := true
		for _, e := range x.Edges {
			if e == v {
				continue
			}
			if bo, ok := e.(*ssa.BinOp); ok && bo.Op == token.ADD && (bo.X == v || bo.Y == v) {
				other := bo.Y
				if bo.Y == v {
					other = bo.X
				}
				if i9NonNeg(other, at, depth+1) != "" {
					continue
				}
			}
			if i9NonNeg(e, at, depth+1) == "" {
				okAll = false
			}
		}
		if okAll && len(x.Edges) > 0 {
			return "counter"
		}
	case *ssa.Extract:
		// index of a range loop
		if _, ok := x.Tuple.(*ssa.Next); ok && x.Index == 1 {
			if bt, ok := x.Type().Underlying().(*types.Basic); ok && bt.Kind() == types.Int {
				return "range index"
			}
		}
	case *ssa.UnOp:
		if x.Op == token.SUB {
			// -v where a dominating test shows v < 0 (or v <= 0)
			for _, pf := range pathFacts(at) {
				cond, neg := pf.Cond, false
				bo, ok := cond.(*ssa.BinOp)
				if !ok {
					continue
				}
				taken := pf.Truth != neg
				op := bo.Op
				var k int64
				var okk bool
				if i9Same(bo.X, x.X) {
					k, okk = constInt(bo.Y)
				} else if i9Same(bo.Y, x.X) {
					k, okk = constInt(bo.X)
					op = i9Flip(op)
				}
				if !okk {
					continue
				}
				if !taken {
					op = i9Neg(op)
				}
				if (op == token.LSS && k <= 0) || (op == token.LEQ && k <= 0) {
					return "negation of a value known to be negative"
				}
			}
		}
		if x.Op == token.MUL {
			// load of a field documented by its uses as a count: len-like names
			if fa, ok := x.X.(*ssa.FieldAddr); ok {
				_, f := ownerField(fa)
				switch f {
				case "len", "itercount", "steps", "Steps":
					return "field " + f
				}
			}
		}
	}
	// dominating sign test: v >= 0, v > 0, 0 <= v, !(v < 0)
	for _, pf := range pathFacts(at) {
		cond, neg := pf.Cond, false
		bo, ok := cond.(*ssa.BinOp)
		if !ok {
			continue
		}
		taken := pf.Truth != neg
		var op token.Token
		var k int64
		var haveK bool
		if i9Same(bo.X, v) {
			k, haveK = constInt(bo.Y)
			op = bo.Op
		} else if i9Same(bo.Y, v) {
			k, haveK = constInt(bo.X)
			op = i9Flip(bo.Op)
		}
		if !haveK {
			continue
		}
		if !taken {
			op = i9Neg(op)
		}
		switch {
		case op == token.GEQ && k >= 0, op == token.GTR && k >= -1, op == token.EQL && k >= 0:
			return "dominating sign test"
		}
	}
	return ""
}

func i9Same(a, b ssa.Value) bool {
	if a == b {
		return true
	}
	// two loads of the same local cell / field with no way to tell stores apart: accept identical address chains of allocs
	la, ok1 := a.(*ssa.UnOp)
	lb, ok2 := b.(*ssa.UnOp)
	if ok1 && ok2 && la.Op == token.MUL && lb.Op == token.MUL && la.X == lb.X {
		if _, isAlloc := la.X.(*ssa.Alloc); isAlloc {
			return true
		}
	}
	return false
}

func i9Flip(op token.Token) token.Token {
	switch op {
	case token.LSS:
		return token.GTR
	case token.GTR:
		return token.LSS
	case token.LEQ:
		return token.GEQ
	case token.GEQ:
		return token.LEQ
	}
	return op
}

func i9Neg(op token.Token) token.Token {
	switch op {
	case token.LSS:
		return token.GEQ
	case token.GTR:
		return token.LEQ
	case token.LEQ:
		return token.GTR
	case token.GEQ:
		return token.LSS
	case token.EQL:
		return token.NEQ
	case token.NEQ:
		return token.EQL
	}
	return op
}

func i9Size(b *types.Basic) int {
	switch b.Kind() {
	case types.Int8, types.Uint8:
		return 1
	case types.Int16, types.Uint16:
		return 2
	case types.Int32, types.Uint32:
		return 4
	case types.Int64, types.Uint64, types.Int, types.Uint, types.Uintptr:
		return 8
	}
	return 8
}

// nonZeroSignKnown: the divisor is a positive constant or proven positive.
func nonZeroSignKnown(v ssa.Value, at *ssa.BasicBlock) string {
	if k, ok := constInt(v); ok && k > 0 {
		return "a positive constant"
	}
	if r := i9NonNeg(v, at, 0); r != "" {
		return "non-negative (" + r + ")"
	}
	return ""
}

// floorAdjusted: the quotient (or remainder) is later adjusted by one (or by the
// divisor) under a sign test - the flooring idiom `q := x / y; if (x < 0) != (y < 0) && x%y != 0 { q-- }`.
func floorAdjusted(bo *ssa.BinOp) bool {
	fn := bo.Parent()
	// the same function contains, after this operation, an ADD/SUB on its result (or on a phi of it)
	// inside a block guarded by a comparison with zero, or an XOR-sign test
	related := map[ssa.Value]bool{bo: true}
	for changed := true; changed; {
		changed = false
		eachInstr(fn, func(in ssa.Instruction) {
			if ph, ok := in.(*ssa.Phi); ok && !related[ph] {
				for _, e := range ph.Edges {
					if related[e] {
						related[ph] = true
						changed = true
					}
				}
			}
		})
	}
	found := false
	eachInstr(fn, func(in ssa.Instruction) {
		adj, ok := in.(*ssa.BinOp)
		if !ok || (adj.Op != token.ADD && adj.Op != token.SUB) || !(related[adj.X] || related[adj.Y]) {
			return
		}
		for _, pf := range pathFacts(adj.Block()) {
			cond, _ := pf.Cond, false
			if cb, ok := cond.(*ssa.BinOp); ok {
				switch cb.Op {
				case token.LSS, token.GTR, token.LEQ, token.GEQ, token.NEQ, token.EQL:
					if k, ok := constInt(cb.Y); ok && k == 0 {
						found = true
					}
					if k, ok := constInt(cb.X); ok && k == 0 {
						found = true
					}
					// (x < 0) != (y < 0)
					if isSignTest(cb.X) || isSignTest(cb.Y) {
						found = true
					}
				}
			}
		}
	})
	return found
}

func isSignTest(v ssa.Value) bool {
	cb, ok := v.(*ssa.BinOp)
	if !ok {
		return false
	}
	switch cb.Op {
	case token.LSS, token.GTR, token.LEQ, token.GEQ:
		if k, ok := constInt(cb.Y); ok && k == 0 {
			return true
		}
		if k, ok := constInt(cb.X); ok && k == 0 {
			return true
		}
	}
	return false
}

// sameOperand: identical SSA values, or two loads of the same field of the same
// object (go/ssa performs no common-subexpression elimination).
func sameOperand(a, b ssa.Value) bool {
	if a == b {
		return true
	}
	la, ok1 := a.(*ssa.UnOp)
	lb, ok2 := b.(*ssa.UnOp)
	if ok1 && ok2 && la.Op == token.MUL && lb.Op == token.MUL {
		fa, ok1 := la.X.(*ssa.FieldAddr)
		fb, ok2 := lb.X.(*ssa.FieldAddr)
		if ok1 && ok2 && fa.Field == fb.Field && sameOperand(fa.X, fb.X) {
			return true
		}
		if la.X == lb.X {
			return true
		}
	}
	fa, ok1 := a.(*ssa.Field)
	fb, ok2 := b.(*ssa.Field)
	if ok1 && ok2 && fa.Field == fb.Field && sameOperand(fa.X, fb.X) {
		return true
	}
	return false
}

// ---------- O11 / O12: scope precedence at top level ----------

func init() {
	register("O11", "the predeclared/universal memo is consulted only at file scope: resolver.predeclared (a table keyed by name alone) is read only inside the function that resolves top-level uses, after the lexical blocks have been searched; any other reader would let a built-in's name shadow an enclosing function's variable", 1, ruleO11)
	register("O12", "top-level names resolve in the order file-local (load), module global, predeclared, universal: in the function that resolves top-level uses the lookups occur in that dominance order, and a static error that depends on a dialect option (sets) is raised only on the branch where the name has resolved to the universal binding - never for a name the program itself defines", 2, ruleO12)
	claim("C09", "O11", "O12")
	claim("C01", "O11", "O12")
}

// fieldFuncCall: a call of the function stored in field `name` of a struct (r.isUniversal(x)).
func fieldFuncCall(in ssa.Instruction, name string) bool {
	call, ok := in.(*ssa.Call)
	if !ok {
		return false
	}
	ld, ok := call.Call.Value.(*ssa.UnOp)
	if !ok || ld.Op != token.MUL {
		return false
	}
	fa, ok := ld.X.(*ssa.FieldAddr)
	if !ok {
		return false
	}
	_, f := ownerField(fa)
	return f == name
}

// mapLookupOfField: v, ok := x.<field>[k]
func mapLookupOfField(in ssa.Instruction, field string) bool {
	lk, ok := in.(*ssa.Lookup)
	if !ok {
		return false
	}
	if _, isMap := lk.X.Type().Underlying().(*types.Map); !isMap {
		return false
	}
	tr := traceValue(lk.X)
	return len(tr.fields) > 0 && tr.fields[0].Name() == field
}

func toplevelResolvers(p *Prog) []*ssa.Function {
	var out []*ssa.Function
	for _, fn := range p.Funcs {
		if relPkg(fnPkgPath(fn)) != "resolve" {
			continue
		}
		has := false
		eachInstr(fn, func(in ssa.Instruction) {
			if in.Parent() == fn && fieldFuncCall(in, "isUniversal") {
				has = true
			}
		})
		if has {
			out = append(out, fn)
		}
	}
	return out
}

func ruleO11(c *Ctx) {
	tops := toplevelResolvers(c.P)
	if len(tops) == 0 {
		c.anchorFail("no function of package resolve calls the isUniversal predicate")
		return
	}
	isTop := map[*ssa.Function]bool{}
	for _, t := range tops {
		isTop[t] = true
	}
	n := 0
	for _, fn := range c.P.Funcs {
		if relPkg(fnPkgPath(fn)) != "resolve" {
			continue
		}
		eachInstr(fn, func(in ssa.Instruction) {
			if !mapLookupOfField(in, "predeclared") {
				return
			}
			lk := in.(*ssa.Lookup)
			tr := traceValue(lk.X)
			if _, on := namedOf(tr.owners[0]); on != "resolver" {
				return
			}
			n++
			key := fnName(fn) + ": read of resolver.predeclared"
			if isTop[outermost(fn)] {
				c.ok(key, c.P.Pos(in.Pos()), "inside the top-level resolution function")
			} else {
				c.viol(key, c.P.Pos(in.Pos()), "the name-keyed memo of predeclared/universal bindings is consulted outside top-level resolution: a use inside a function would find the built-in before the enclosing function's variable of the same name")
			}
		})
	}
	if n == 0 {
		c.anchorFail("no read of resolver.predeclared found")
	}
}

func ruleO12(c *Ctx) {
	for _, fn := range toplevelResolvers(c.P) {
		// decision points, in the order the specification gives
		type dp struct {
			name string
			in   ssa.Instruction
		}
		var pts []dp
		find := func(name string, pred func(ssa.Instruction) bool) {
			var first ssa.Instruction
			eachInstr(fn, func(in ssa.Instruction) {
				if in.Parent() == fn && first == nil && pred(in) {
					first = in
				}
			})
			if first != nil {
				pts = append(pts, dp{name, first})
			}
		}
		find("file-local bindings", func(in ssa.Instruction) bool {
			if !mapLookupOfField(in, "bindings") {
				return false
			}
			tr := traceValue(in.(*ssa.Lookup).X)
			return len(tr.fields) > 1 && tr.fields[1].Name() == "file"
		})
		find("module globals", func(in ssa.Instruction) bool { return mapLookupOfField(in, "globals") })
		find("REPL globals (isGlobal)", func(in ssa.Instruction) bool { return fieldFuncCall(in, "isGlobal") })
		find("predeclared memo", func(in ssa.Instruction) bool { return mapLookupOfField(in, "predeclared") })
		find("isPredeclared", func(in ssa.Instruction) bool { return fieldFuncCall(in, "isPredeclared") })
		find("isUniversal", func(in ssa.Instruction) bool { return fieldFuncCall(in, "isUniversal") })
		key := fnName(fn) + ": lookup order"
		if len(pts) < 4 {
			c.viol(key, c.P.Pos(fn.Pos()), fmt.Sprintf("only %d of the scope lookups (file-local, globals, predeclared, universal) found in the top-level resolution function", len(pts)))
			continue
		}
		bad := ""
		for i := 0; i+1 < len(pts); i++ {
			if !o12Before(pts[i].in, pts[i+1].in) {
				bad = fmt.Sprintf("the lookup in %s does not precede the lookup in %s", pts[i].name, pts[i+1].name)
			}
		}
		if bad != "" {
			c.viol(key, c.P.Pos(fn.Pos()), bad+": a name defined in an inner scope could resolve to an outer one")
		} else {
			var names []string
			for _, p := range pts {
				names = append(names, p.name)
			}
			c.ok(key, c.P.Pos(fn.Pos()), strings.Join(names, " < "))
		}
		// option-dependent errors only under the universal branch
		var uni *ssa.Call
		for _, p := range pts {
			if p.name == "isUniversal" {
				uni = p.in.(*ssa.Call)
			}
		}
		eachInstr(fn, func(in ssa.Instruction) {
			call, ok := in.(*ssa.Call)
			if !ok || in.Parent() != fn {
				return
			}
			cal := call.Call.StaticCallee()
			if cal == nil || cal.Name() != "errorf" {
				return
			}
			// does a dominating condition read r.options.X ?
			optDep := ""
			for _, pf := range pathFacts(call.Block()) {
				if f := readsOptionsField(pf.Cond, 0); f != "" {
					optDep = f
				}
			}
			if optDep == "" {
				return
			}
			k2 := fmt.Sprintf("%s: error under option %s", fnName(fn), optDep)
			underUni := false
			if uni != nil {
				for _, pf := range pathFacts(call.Block()) {
					cond, neg := pf.Cond, false
					if cond == ssa.Value(uni) && pf.Truth != neg {
						underUni = true
					}
				}
			}
			if underUni {
				c.ok(k2, c.P.Pos(call.Pos()), "raised only where the name resolved to the universal binding")
			} else {
				c.viol(k2, c.P.Pos(call.Pos()), "a dialect-option error in top-level name resolution is not confined to the branch where the name is the universal one: programs that define that name themselves are rejected (or accepted) depending on the option")
			}
		})
	}
}

// readsOptionsField: the condition (through boolean/compare operators) loads a field of the resolver's options.
func readsOptionsField(v ssa.Value, depth int) string {
	if depth > 5 {
		return ""
	}
	switch x := v.(type) {
	case *ssa.UnOp:
		if x.Op == token.MUL {
			tr := traceAddr(x.X)
			if len(tr.fields) >= 2 && tr.fields[1].Name() == "options" {
				return tr.fields[0].Name()
			}
			return ""
		}
		return readsOptionsField(x.X, depth+1)
	case *ssa.BinOp:
		if f := readsOptionsField(x.X, depth+1); f != "" {
			return f
		}
		return readsOptionsField(x.Y, depth+1)
	case *ssa.Phi:
		for _, e := range x.Edges {
			if f := readsOptionsField(e, depth+1); f != "" {
				return f
			}
		}
	}
	return ""
}

// o12Before: b can execute after a, and a never after b (the function has no loop through them).
func o12Before(a, b ssa.Instruction) bool {
	if a.Block() == b.Block() {
		for _, in := range a.Block().Instrs {
			if in == a {
				return true
			}
			if in == b {
				return false
			}
		}
	}
	return reachable(a.Block(), b.Block()) && !reachable(b.Block(), a.Block())
}

// ---------- N10: unchecked type assertions are justified ----------

func init() {
	register("N10", "unchecked type assertions cannot fail: every single-result assertion x.(T) in the value and library packages is justified by a fact the program itself establishes - a dominating comma-ok test or type switch on the same value, the receiver of a method built-in (fixed by the method table), the same-type contract of CompareSameType (N6), a value taken from a container whose every insertion stores that type, or a named invariant; otherwise a script-supplied value of another type panics the host", 40, ruleN10)
	claim("C02", "N10")
}

var n10Exceptions = map[string]string{
	"starlark.FileProgram: .(resolve.Module)":        "resolve.File stores a *resolve.Module in File.Module whenever it succeeds, and the assertion is dominated by that success (O2)",
	"starlark.ExecREPLChunk: .(resolve.Module)":      "resolve.REPLChunk stores a *resolve.Module in File.Module whenever it succeeds, and the assertion is dominated by that success (O2)",
	"(*starlark.Function).FreeVar: .(starlark.cell)": "a closure's freevars tuple is built by MAKEFUNC from the operands the compiler pushes for free variables, which are cells",
	"(*starlark.frame).Local: .(starlark.Function)":  "debugger API: documented to be called on frames of Starlark functions only (host contract, not reachable from script input)",
	"starlark.UnpackArgs: .()":                       "Go API contract: the pairs argument alternates parameter names (string) and pointers; a violation is a host programming error that panics by design",
	"starlark.UnpackArgs$1: .()":                     "Go API contract: the pairs argument alternates parameter names (string) and pointers; a violation is a host programming error that panics by design",
	"(lib/proto.EnumValueDescriptor).Attr: .(google.golang.org/protobuf/reflect/protoreflect.EnumDescriptor)": "protoreflect contract: the parent of an enum value descriptor is its enum descriptor",
}

func ruleN10(c *Ctx) {
	n := 0
	for _, fn := range c.P.Funcs {
		pk := relPkg(fnPkgPath(fn))
		if !isProdPkg(fnPkgPath(fn)) || !(pk == "starlark" || strings.HasPrefix(pk, "lib/") || pk == "starlarkstruct") {
			continue
		}
		ord := map[string]int{}
		eachInstr(fn, func(in ssa.Instruction) {
			ta, ok := in.(*ssa.TypeAssert)
			if !ok || ta.CommaOk {
				return
			}
			// only operands that can hold a script-supplied value: interfaces that embed starlark.Value
			if vi := valueIface(c.P); vi == nil || !types.Implements(ta.X.Type(), vi) {
				return
			}
			n++
			base := fmt.Sprintf("%s: .(%s)", fnName(fn), qualType(ta.AssertedType))
			ord[base]++
			key := base
			if ord[base] > 1 {
				key = fmt.Sprintf("%s #%d", base, ord[base])
			}
			pos := c.P.Pos(ta.Pos())
			if why := n10Justify(c, fn, ta); why != "" {
				c.ok(key, pos, why)
			} else if r, ok := n10Exceptions[key]; ok {
				c.except(key, pos, r)
			} else {
				c.viol(key, pos, fmt.Sprintf("the assertion .(%s) has a single result (it panics on failure) and nothing in the program establishes the operand's type at this point", qualType(ta.AssertedType)))
			}
		})
	}
	if n < 40 {
		c.anchorFail("only %d unchecked type assertions found", n)
	}
}

func n10Justify(c *Ctx, fn *ssa.Function, ta *ssa.TypeAssert) string {
	x := ta.X
	// (a) interface-to-interface assertion to an interface the static type already implements
	if it, ok := ta.AssertedType.Underlying().(*types.Interface); ok {
		if types.Implements(x.Type(), it) {
			return "static type already implements the interface"
		}
	}
	// (b) receiver of a method built-in: b.Receiver().(T)
	if call, ok := x.(*ssa.Call); ok {
		if cal := call.Call.StaticCallee(); cal != nil && cal.Name() == "Receiver" {
			return "receiver of a method built-in: the method table binds this function to values of that type only"
		}
	}
	// value loaded from a local that was assigned b.Receiver()
	tr := traceValue(x)
	for _, b := range tr.bases {
		if call, ok := b.v.(*ssa.Call); ok {
			if cal := call.Call.StaticCallee(); cal != nil && cal.Name() == "Receiver" && len(tr.fields) == 0 {
				return "receiver of a method built-in: the method table binds this function to values of that type only"
			}
		}
	}
	// (c) CompareSameType / Cmp contract: the parameter y of a same-type comparison
	top := outermost(fn)
	if (top.Name() == "CompareSameType" || top.Name() == "Cmp") && top.Signature.Recv() != nil {
		for _, b := range tr.bases {
			if p, ok := b.v.(*ssa.Parameter); ok && p.Parent() == top && len(tr.fields) == 0 {
				return "same-type comparison contract: CompareDepth calls it only when both Type() strings are equal, and Type() strings are unique per Go type (N6)"
			}
		}
	}
	// (d) dominating successful comma-ok assertion / type switch arm on the same value for the same type
	for _, pf := range pathFacts(ta.Block()) {
		cond, neg := pf.Cond, false
		ex, ok := cond.(*ssa.Extract)
		if !ok || ex.Index != 1 {
			continue
		}
		ta2, ok := ex.Tuple.(*ssa.TypeAssert)
		if !ok || !ta2.CommaOk {
			continue
		}
		if pf.Truth == neg {
			continue // failure edge
		}
		if sameOperand(ta2.X, x) || sameTraceRoot(ta2.X, x) {
			if types.Identical(ta2.AssertedType, ta.AssertedType) {
				return "dominated by a successful comma-ok test of the same value for the same type"
			}
			if it, ok := ta.AssertedType.Underlying().(*types.Interface); ok && types.Implements(ta2.AssertedType, it) {
				return "dominated by a successful test for a type that implements the asserted interface"
			}
		}
	}
	// (e) error values: err.(*T) after errors.As etc. are not Starlark values; assertion on a non-Value interface
	//     produced by the same function's own allocation
	if mi, ok := x.(*ssa.MakeInterface); ok {
		if types.Identical(mi.X.Type(), ta.AssertedType) {
			return "the interface value was made from that type in this function"
		}
	}
	// (f) element of a keyword-argument pair: kwargs[i][0].(String) - the interpreter and Call build
	//     named-argument pairs with String keys only
	if n10KwargsKey(fn, ta) {
		return "first element of a named-argument pair: CALL and the Go API construct these pairs with String keys (checked where the pairs are built)"
	}
	// (f2) an operand of the interpreter: the value was pushed by an instruction the compiler emitted for
	//      this very purpose (SETDICT on a MAKEDICT result, APPEND on a MAKELIST result, the MAKEFUNC tuple,
	//      LOAD's string constants, cell slots) - rule V8 ties those opcodes to their constructs
	if why := n10InterpOperand(fn, ta, 0); why != "" {
		return why
	}
	// (g) container with a single stored type: every value put into the local slice/map this element
	//     comes from has the asserted type
	if why := n10HomogeneousSource(fn, ta); why != "" {
		return why
	}
	return ""
}

// n10KwargsKey: x is pair[0] where pair ranges over a []Tuple parameter named kwargs (or typed []Tuple
// parameter of a built-in-shaped function) and T is String.
func n10KwargsKey(fn *ssa.Function, ta *ssa.TypeAssert) bool {
	if !isNamed(ta.AssertedType, "starlark", "String") {
		return false
	}
	tr := traceValue(ta.X)
	for _, b := range tr.bases {
		p, ok := b.v.(*ssa.Parameter)
		if !ok {
			if fv, ok := b.v.(*ssa.FreeVar); ok {
				_ = fv
			}
			continue
		}
		if sl, ok := p.Type().Underlying().(*types.Slice); ok && isNamed(sl.Elem(), "starlark", "Tuple") {
			return true
		}
	}
	return false
}

// n10HomogeneousSource: the asserted operand is an element loaded from a local
// slice (or from elements of a local slice of Tuples) all of whose stores put in
// values made from the asserted type, or values already tested to be of it.
func n10HomogeneousSource(fn *ssa.Function, ta *ssa.TypeAssert) string {
	// (g1) result of a module function all of whose value returns are made from the asserted type
	tr := traceValue(ta.X)
	for _, b := range tr.bases {
		var call *ssa.Call
		switch x := b.v.(type) {
		case *ssa.Call:
			call = x
		case *ssa.Extract:
			call, _ = x.Tuple.(*ssa.Call)
		}
		if call != nil && len(tr.fields) == 0 {
			if cal := call.Call.StaticCallee(); cal != nil && cal.Blocks != nil && n10ReturnsOnly(cal, ta.AssertedType) {
				return "result of " + fnName(cal) + ", whose every non-nil value result is made from that type"
			}
		}
	}
	// (g2) forwarded method receiver: a parameter of an unexported function whose callers all pass b.Receiver()
	for _, b := range tr.bases {
		p, ok := b.v.(*ssa.Parameter)
		if !ok || len(tr.fields) != 0 || p.Parent() != fn || fn.Object() == nil || fn.Object().Exported() {
			continue
		}
		idx := -1
		for i, q := range fn.Params {
			if q == p {
				idx = i
			}
		}
		node := curProg.CG().Nodes[fn]
		if idx < 0 || node == nil || len(node.In) == 0 {
			continue
		}
		all := true
		for _, e := range node.In {
			args := e.Site.Common().Args
			if e.Site.Common().IsInvoke() || idx >= len(args) {
				all = false
				break
			}
			atr := traceValue(args[idx])
			okArg := false
			for _, ab := range atr.bases {
				if c2, ok := ab.v.(*ssa.Call); ok {
					if cal := c2.Call.StaticCallee(); cal != nil && cal.Name() == "Receiver" {
						okArg = true
					}
				}
			}
			if !okArg {
				all = false
			}
		}
		if all {
			return "method receiver forwarded by every caller (b.Receiver()): the method table binds the function to that type"
		}
	}
	// (g3) comparator of a sort over a local slice whose elements were validated by a loop that dominates the sort
	if fn.Parent() != nil {
		for _, b := range tr.bases {
			fv, ok := b.v.(*ssa.FreeVar)
			if !ok {
				continue
			}
			for _, mc := range closureSites(fn) {
				bound := freeVarBinding(mc, fv)
				if bound == nil {
					continue
				}
				if n10ValidatedBefore(mc, bound, ta.AssertedType) {
					return "elements of the captured slice were tested for that type (failure returns an error) by a loop that dominates the creation of this closure"
				}
			}
		}
	}
	return ""
}

// n10ReturnsOnly: every return of fn whose first result is not nil yields a value made from type t.
func n10ReturnsOnly(fn *ssa.Function, t types.Type) bool {
	any := false
	okAll := true
	for _, b := range fn.Blocks {
		if len(b.Instrs) == 0 {
			continue
		}
		ret, ok := b.Instrs[len(b.Instrs)-1].(*ssa.Return)
		if !ok || len(ret.Results) == 0 {
			continue
		}
		var check func(v ssa.Value, depth int) bool
		check = func(v ssa.Value, depth int) bool {
			if depth > 4 {
				return false
			}
			if isNilConst(v) {
				return true
			}
			switch x := v.(type) {
			case *ssa.MakeInterface:
				if types.Identical(x.X.Type(), t) {
					any = true
					return true
				}
				return false
			case *ssa.Phi:
				for _, e := range x.Edges {
					if !check(e, depth+1) {
						return false
					}
				}
				return true
			}
			return false
		}
		if !check(ret.Results[0], 0) {
			okAll = false
		}
	}
	return okAll && any
}

// n10ValidatedBefore: in mc's function, a comma-ok assertion to type t on an element of the slice held in
// cell `bound`, whose failure edge returns, inside a loop whose header dominates mc.
func n10ValidatedBefore(mc *ssa.MakeClosure, bound ssa.Value, t types.Type) bool {
	parent := mc.Parent()
	found := false
	// the slice value(s) held in the captured cell
	isSlice := func(v ssa.Value) bool {
		if v == bound {
			return true
		}
		if a, ok := bound.(*ssa.Alloc); ok {
			for _, r := range *a.Referrers() {
				if st, ok := r.(*ssa.Store); ok && st.Addr == a && st.Val == v {
					return true
				}
				if ld, ok := r.(*ssa.UnOp); ok && ld.Op == token.MUL && ssa.Value(ld) == v {
					return true
				}
			}
		}
		return false
	}
	// validation delegated to a helper: if bad := firstNonStringKey(items); bad != nil { return err }
	eachInstr(parent, func(in ssa.Instruction) {
		call, ok := in.(*ssa.Call)
		if !ok || in.Parent() != parent || found {
			return
		}
		cal := call.Call.StaticCallee()
		if cal == nil || cal.Blocks == nil || !strings.HasPrefix(fnPkgPath(cal), modPath) {
			return
		}
		argIdx := -1
		for i, a := range call.Call.Args {
			if isSlice(a) {
				argIdx = i
			}
		}
		if argIdx < 0 || argIdx >= len(cal.Params) {
			return
		}
		// the helper tests elements of that parameter for type t
		tests := false
		eachInstr(cal, func(in2 ssa.Instruction) {
			ta, ok := in2.(*ssa.TypeAssert)
			if !ok || !ta.CommaOk || !types.Identical(ta.AssertedType, t) {
				return
			}
			for _, b := range traceValue(ta.X).bases {
				if b.v == ssa.Value(cal.Params[argIdx]) {
					tests = true
				}
			}
		})
		if !tests || !instrDominates(call, mc) {
			return
		}
		// the caller branches on the helper's result and one branch returns
		var results []ssa.Value
		results = append(results, call)
		for _, r := range *call.Referrers() {
			if ex, ok := r.(*ssa.Extract); ok {
				results = append(results, ex)
			}
		}
		for _, rv := range results {
			if rv.Referrers() == nil {
				continue
			}
			for _, r := range *rv.Referrers() {
				var ifi *ssa.If
				switch x := r.(type) {
				case *ssa.If:
					ifi = x
				case *ssa.BinOp:
					for _, r2 := range *x.Referrers() {
						if i2, ok := r2.(*ssa.If); ok {
							ifi = i2
						}
					}
				}
				if ifi == nil {
					continue
				}
				for _, sc := range ifi.Block().Succs {
					for _, fi := range sc.Instrs {
						if ret, ok := fi.(*ssa.Return); ok && len(ret.Results) > 0 && !isNilConst(ret.Results[len(ret.Results)-1]) {
							if ifi.Block().Dominates(mc.Block()) {
								found = true
							}
						}
					}
				}
			}
		}
	})
	if found {
		return true
	}
	eachInstr(parent, func(in ssa.Instruction) {
		ta, ok := in.(*ssa.TypeAssert)
		if !ok || !ta.CommaOk || in.Parent() != parent || !types.Identical(ta.AssertedType, t) {
			return
		}
		tr := traceValue(ta.X)
		from := false
		for _, b := range tr.bases {
			if b.v == bound {
				from = true
			}
			// the cell's stored value
			if a, ok := bound.(*ssa.Alloc); ok {
				for _, r := range *a.Referrers() {
					if st, ok := r.(*ssa.Store); ok && st.Addr == a && st.Val == b.v {
						from = true
					}
				}
			}
		}
		if !from {
			return
		}
		// failure edge leads to a return
		var okEx *ssa.Extract
		for _, r := range *ta.Referrers() {
			if ex, ok := r.(*ssa.Extract); ok && ex.Index == 1 {
				okEx = ex
			}
		}
		if okEx == nil {
			return
		}
		failsReturn := false
		for _, r := range *okEx.Referrers() {
			ifi, ok := r.(*ssa.If)
			if !ok {
				continue
			}
			fail := ifi.Block().Succs[1]
			if len(fail.Instrs) > 0 {
				for _, fi := range fail.Instrs {
					if ret, ok := fi.(*ssa.Return); ok && len(ret.Results) > 0 && !isNilConst(ret.Results[len(ret.Results)-1]) {
						failsReturn = true
					}
				}
			}
		}
		if !failsReturn {
			return
		}
		// the loop containing the test dominates the closure creation and the closure is outside that loop
		for d := ta.Block(); d != nil; d = d.Idom() {
			isHeader := false
			for _, p := range d.Preds {
				if d.Dominates(p) {
					isHeader = true
				}
			}
			if isHeader && d.Dominates(mc.Block()) && !reachable(mc.Block(), d) {
				found = true
			}
		}
	})
	return found
}

// ---------- N9: constant indexing is length-guarded ----------

func init() {
	register("N9", "constant-index accesses are guarded by the length of the same value: every s[k] with a constant k on a string or slice in the value, library and syntax packages is dominated by a test that establishes len(s) > k for that very value (after a re-slicing the test must be repeated), or indexes a value whose length the same function fixed (a make/literal/pair); otherwise an input that ends early panics the host with index out of range", 40, ruleN9)
	claim("C02", "N9")
}

var n9Exceptions = map[string]string{
	"(*syntax.scanner).peekRune: sc.rest[0]": "eof() is false here: either rest was non-empty or readLine() returned true, which it does only after storing a non-empty line in sc.rest",
	"(*syntax.TupleExpr).Span: x.List[0]":    "parser invariant: a tuple expression without parentheses has at least one element (the empty tuple is always written ())",
	"starlark.reserveAddresses: value[0]":    "first byte of the successfully mmap'ed 4GB region",
	"starlark.string_removefix: b.name[6]":   "shared implementation of exactly two methods, removeprefix and removesuffix (12 characters each)",
	"*: strings.Split()[0]":                  "guarded by excess = len(res) - maxsplit > 0 with maxsplit >= 0 on this branch, so res is non-empty (strings.Split never returns an empty slice for a non-empty separator)",
	"lib/json.decode$4: s[0]":                "num is the number token just scanned: this branch is entered on '-' or a digit, which the scan loop consumes, so the token is non-empty",
}

func ruleN9(c *Ctx) {
	n := 0
	for _, fn := range c.P.Funcs {
		pk := relPkg(fnPkgPath(fn))
		if !isProdPkg(fnPkgPath(fn)) || !(pk == "starlark" || strings.HasPrefix(pk, "lib/") || pk == "starlarkstruct" || pk == "syntax") || strings.Contains(pk, "/cmd/") {
			continue
		}
		ord := map[string]int{}
		eachInstr(fn, func(in ssa.Instruction) {
			var coll, idx ssa.Value
			switch x := in.(type) {
			case *ssa.IndexAddr:
				coll, idx = x.X, x.Index
			case *ssa.Index:
				coll, idx = x.X, x.Index
			case *ssa.Lookup:
				if bt, ok := x.X.Type().Underlying().(*types.Basic); ok && bt.Info()&types.IsString != 0 {
					coll, idx = x.X, x.Index
				}
			}
			if coll == nil {
				return
			}
			k, isK := constInt(idx)
			if !isK {
				return
			}
			switch t := coll.Type().Underlying().(type) {
			case *types.Slice:
			case *types.Basic:
				if t.Info()&types.IsString == 0 {
					return
				}
			default:
				return // arrays and pointers to arrays are checked by the compiler
			}
			n++
			base := fmt.Sprintf("%s: %s[%d]", fnName(fn), n9Describe(coll), k)
			ord[base]++
			key := base
			if ord[base] > 1 {
				key = fmt.Sprintf("%s #%d", base, ord[base])
			}
			pos := c.P.Pos(in.Pos())
			if why := n9Guard(fn, in, coll, k); why != "" {
				c.ok(key, pos, why)
			} else if r, ok := n9Exceptions[key]; ok {
				c.except(key, pos, r)
			} else if r, ok := n9Exceptions[fmt.Sprintf("*: %s[%d]", n9Describe(coll), k)]; ok && relPkg(fnPkgPath(fn)) == "starlark" {
				c.except(key, pos, r)
			} else {
				c.viol(key, pos, fmt.Sprintf("index %d is read without a dominating test that this value has more than %d element(s)", k, k))
			}
		})
	}
	if n < 40 {
		c.anchorFail("only %d constant-index accesses found", n)
	}
}

func n9Describe(v ssa.Value) string {
	tr := traceValue(v)
	var parts []string
	for _, b := range tr.bases {
		switch x := b.v.(type) {
		case *ssa.Parameter:
			parts = append(parts, x.Name())
		case *ssa.FreeVar:
			parts = append(parts, x.Name())
		case *ssa.Call:
			parts = append(parts, calleeName(x)+"()")
		default:
			parts = append(parts, "value")
		}
		break
	}
	for i := len(tr.fields) - 1; i >= 0; i-- {
		parts = append(parts, tr.fields[i].Name())
	}
	return strings.Join(parts, ".")
}

// lenOf: is v = len(x) for x "the same" as coll?
func n9IsLenOf(v, coll ssa.Value) bool {
	call, ok := v.(*ssa.Call)
	if !ok {
		return false
	}
	if b, ok := call.Call.Value.(*ssa.Builtin); !ok || b.Name() != "len" || len(call.Call.Args) != 1 {
		return false
	}
	return n9Same(call.Call.Args[0], coll)
}

func n9Same(a, b ssa.Value) bool {
	if a == b || sameOperand(a, b) {
		return true
	}
	// conversions between string-like named types
	if ct, ok := a.(*ssa.ChangeType); ok && n9Same(ct.X, b) {
		return true
	}
	if ct, ok := b.(*ssa.ChangeType); ok && n9Same(a, ct.X) {
		return true
	}
	// loads of the same spilled local with no intervening store are not distinguished by SSA names;
	// accept loads of the same Alloc cell when the cell has a single store (assigned once)
	la, ok1 := a.(*ssa.UnOp)
	lb, ok2 := b.(*ssa.UnOp)
	if ok1 && ok2 && la.Op == token.MUL && lb.Op == token.MUL && la.X == lb.X {
		if al, ok := la.X.(*ssa.Alloc); ok {
			stores := 0
			for _, r := range *al.Referrers() {
				if st, ok := r.(*ssa.Store); ok && st.Addr == al {
					stores++
				}
			}
			return stores <= 1
		}
	}
	return false
}

func n9Guard(fn *ssa.Function, at ssa.Instruction, coll ssa.Value, k int64) string {
	// (1) the value's length is fixed by construction in this function
	if l, ok := n9FixedLen(coll, 0); ok && l > k {
		return "length fixed by construction in this function (literal, make or constant-bounded slice)"
	}
	// (2) lower bound of len(coll) established on every path (forward must-analysis with kills)
	if lb := n9LowerBound(fn, at, coll); lb > k {
		return "a length test of the same value holds on every path to the access"
	}
	// (3) positional arguments after a successful unpack with min > k
	if p, ok := coll.(*ssa.Parameter); ok && isNamed(p.Type(), "starlark", "Tuple") {
		found := false
		eachInstr(fn, func(in ssa.Instruction) {
			call, ok := in.(*ssa.Call)
			if !ok || found {
				return
			}
			cal := call.Call.StaticCallee()
			if cal == nil || !(cal.Name() == "UnpackPositionalArgs" || cal.Name() == "unpackPositionalArgsNoEscape") || len(call.Call.Args) < 4 {
				return
			}
			if call.Call.Args[1] != coll {
				return
			}
			if min, ok := constInt(call.Call.Args[3]); ok && min > k && dominatedByNilErr(at.Block(), call) {
				found = true
			}
		})
		if found {
			return "after a successful positional unpack that requires more than that many arguments"
		}
	}
	// (4) element of a pair: Items() results and named-argument pairs have length 2 by construction
	if k < 2 && isNamed(coll.Type(), "starlark", "Tuple") {
		tr := traceValue(coll)
		for _, b := range tr.bases {
			if call, ok := b.v.(*ssa.Call); ok && strings.Contains(calleeName(call), "Items") {
				return "key/value pair returned by Items()"
			}
			if ex, ok := b.v.(*ssa.Extract); ok {
				if call, ok := ex.Tuple.(*ssa.Call); ok && strings.Contains(calleeName(call), "Items") {
					return "key/value pair returned by Items() (through a helper)"
				}
			}
			if p, ok := b.v.(*ssa.Parameter); ok {
				if sl, ok := p.Type().Underlying().(*types.Slice); ok && isNamed(sl.Elem(), "starlark", "Tuple") {
					return "named-argument pair (kwargs elements are pairs by the calling convention)"
				}
			}
			if fv, ok := b.v.(*ssa.FreeVar); ok {
				if sl, ok := deref(fv.Type()).Underlying().(*types.Slice); ok && isNamed(sl.Elem(), "starlark", "Tuple") {
					return "pair taken from a captured slice of pairs"
				}
			}
		}
	}
	// (5a) lowest word of the big arm of an Int: the big arm never holds zero (canonical representation, I1/I7)
	if k == 0 {
		if call, ok := coll.(*ssa.Call); ok {
			if cal := call.Call.StaticCallee(); cal != nil && cal.Name() == "Bits" && cal.Signature.Recv() != nil {
				if pp, tn := namedOf(cal.Signature.Recv().Type()); pp == "math/big" && tn == "Int" {
					if r := fn.Signature.Recv(); r != nil && isNamed(r.Type(), "starlark", "Int") {
						return "lowest word of an Int's big arm, which never holds a value that fits in 32 bits (canonical representation, rules I1/I7), so Bits() is non-empty"
					}
				}
			}
		}
	}
	// (5) first character of a built-in's name (keys of the method tables are non-empty identifiers)
	if k == 0 {
		if call, ok := coll.(*ssa.Call); ok {
			if cal := call.Call.StaticCallee(); cal != nil && cal.Name() == "Name" && cal.Signature.Recv() != nil && isNamed(deref(cal.Signature.Recv().Type()), "starlark", "Builtin") {
				return "first character of a built-in's name: names in the method tables are non-empty identifiers"
			}
		}
	}
	return ""
}

// n9FixedLen: the length of v as fixed by its construction.
func n9FixedLen(v ssa.Value, depth int) (int64, bool) {
	if depth > 5 {
		return 0, false
	}
	switch x := v.(type) {
	case *ssa.ChangeType:
		return n9FixedLen(x.X, depth+1)
	case *ssa.MakeSlice:
		return constIntOK(x.Len)
	case *ssa.Const:
		if x.Value != nil && x.Value.Kind().String() == "String" {
			return int64(len(constantStringVal(x))), true
		}
	case *ssa.Slice:
		lo := int64(0)
		loOK := x.Low == nil
		if x.Low != nil {
			lo, loOK = constIntOK(x.Low)
		}
		if x.High != nil {
			if hi, ok := constIntOK(x.High); ok && loOK {
				return hi - lo, true
			}
			// s[n : n+c]
			if bo, ok := x.High.(*ssa.BinOp); ok && bo.Op == token.ADD && x.Low != nil {
				if bo.X == x.Low {
					return constIntOK(bo.Y)
				}
				if bo.Y == x.Low {
					return constIntOK(bo.X)
				}
			}
			return 0, false
		}
		if al, ok := x.X.(*ssa.Alloc); ok && loOK {
			if arr, ok := deref(al.Type()).Underlying().(*types.Array); ok {
				return arr.Len() - lo, true
			}
		}
	case *ssa.Phi:
		min := int64(1 << 40)
		for _, e := range x.Edges {
			if isNilConst(e) {
				continue // a variable that is either unset or a literal of fixed length: judged by its non-nil definitions
			}
			l, ok := n9FixedLen(e, depth+1)
			if !ok {
				return 0, false
			}
			if l < min {
				min = l
			}
		}
		return min, len(x.Edges) > 0 && min < int64(1<<40)
	case *ssa.UnOp:
		if x.Op == token.MUL {
			// a local variable cell (possibly shared with closures): every value ever stored in it is nil
			// or has a fixed length
			var stores []ssa.Value
			complete := false
			switch cell := x.X.(type) {
			case *ssa.Alloc:
				stores, complete = cellStores(cell)
			case *ssa.FreeVar:
				fn := cell.Parent()
				for _, mc := range closureSites(fn) {
					if a, ok := freeVarBinding(mc, cell).(*ssa.Alloc); ok {
						stores, complete = cellStores(a)
					}
				}
			}
			if complete && len(stores) > 0 {
				min := int64(1 << 40)
				for _, v := range stores {
					if isNilConst(v) {
						continue
					}
					l, ok := n9FixedLen(v, depth+1)
					if !ok {
						return 0, false
					}
					if l < min {
						min = l
					}
				}
				return min, min < int64(1<<40)
			}
		}
	}
	return 0, false
}

// cellStores: every value stored into the local variable cell a, by its function and by the
// closures that capture it; complete is false if the cell's address escapes otherwise.
func cellStores(a *ssa.Alloc) (vals []ssa.Value, complete bool) {
	complete = true
	var visit func(cell ssa.Value)
	visit = func(cell ssa.Value) {
		refs := cell.Referrers()
		if refs == nil {
			return
		}
		for _, r := range *refs {
			switch x := r.(type) {
			case *ssa.Store:
				if x.Addr == cell {
					vals = append(vals, x.Val)
				} else {
					complete = false
				}
			case *ssa.UnOp, *ssa.DebugRef:
			case *ssa.MakeClosure:
				cf, _ := x.Fn.(*ssa.Function)
				if cf == nil {
					complete = false
					continue
				}
				for i, b := range x.Bindings {
					if b == cell && i < len(cf.FreeVars) {
						visit(cf.FreeVars[i])
					}
				}
			default:
				complete = false
			}
		}
	}
	visit(a)
	return
}

func constIntOK(v ssa.Value) (int64, bool) { return constInt(v) }

func constantStringVal(c *ssa.Const) string {
	s := c.Value.ExactString()
	if len(s) >= 2 {
		if u, err := strconvUnquote(s); err == nil {
			return u
		}
	}
	return s
}

// n9Kills: may instruction in change the length of the storage coll denotes?
// SSA values (parameters, locals, results) never change; a value loaded from a
// field or through a pointer can be changed by a store to that field or by a call.
func n9Mutable(coll ssa.Value) (fieldOf *types.Var, mutable bool) {
	ld, ok := coll.(*ssa.UnOp)
	if !ok || ld.Op != token.MUL {
		return nil, false
	}
	if fa, ok := ld.X.(*ssa.FieldAddr); ok {
		st := deref(fa.X.Type()).Underlying().(*types.Struct)
		return st.Field(fa.Field), true
	}
	if _, ok := ld.X.(*ssa.Alloc); ok {
		return nil, false // local cell: handled through n9Same's single-store rule
	}
	return nil, true
}

// n9LowerBound: greatest lb such that len(coll) >= lb on every path from the entry to `at`.
var n9Depth = 0

// n9EntryBound: for a parameter of an unexported, never address-taken function, the least
// lower bound of the argument's length over all call sites (a precondition the callers establish).
func n9EntryBound(fn *ssa.Function, coll ssa.Value) int64 {
	prm, ok := coll.(*ssa.Parameter)
	if !ok || prm.Parent() != fn || n9Depth >= 2 || fn.Object() == nil || fn.Object().Exported() {
		return 0
	}
	idx := -1
	for i, q := range fn.Params {
		if q == prm {
			idx = i
		}
	}
	if idx < 0 {
		return 0
	}
	min := int64(1) << 40
	n := 0
	bad := false
	for _, g := range curProg.Funcs {
		eachInstr(g, func(in ssa.Instruction) {
			for _, op := range in.Operands(nil) {
				if f, ok := (*op).(*ssa.Function); ok && f == fn {
					if ci, ok := in.(ssa.CallInstruction); !ok || ci.Common().Value != f {
						bad = true
					}
				}
			}
			ci, ok := in.(ssa.CallInstruction)
			if !ok || ci.Common().StaticCallee() != fn || idx >= len(ci.Common().Args) {
				return
			}
			n++
			arg := ci.Common().Args[idx]
			n9Depth++
			lb := int64(0)
			if l, ok := n9FixedLen(arg, 0); ok {
				lb = l
			}
			if l2 := n9LowerBound(g, in, arg); l2 > lb {
				lb = l2
			}
			n9Depth--
			if lb < min {
				min = lb
			}
		})
	}
	if bad || n == 0 {
		return 0
	}
	return min
}

func n9LowerBound(fn *ssa.Function, at ssa.Instruction, coll ssa.Value) int64 {
	const top = int64(1) << 40
	field, mutable := n9Mutable(coll)
	kills := func(in ssa.Instruction) bool {
		if !mutable {
			return false
		}
		switch x := in.(type) {
		case *ssa.Store:
			if fa, ok := x.Addr.(*ssa.FieldAddr); ok && field != nil {
				st := deref(fa.X.Type()).Underlying().(*types.Struct)
				return st.Field(fa.Field) == field
			}
			return field == nil
		case *ssa.Call:
			if b, ok := x.Call.Value.(*ssa.Builtin); ok {
				_ = b
				return false
			}
			// a call that cannot reach a store of the field: pure accessors of the same package with no stores at all
			if cal := x.Call.StaticCallee(); cal != nil && cal.Blocks != nil && !hasAnyStore(cal, 0) {
				return false
			}
			return true
		case *ssa.Defer, *ssa.Go:
			return true
		}
		return false
	}
	apply := func(lb int64, cond ssa.Value, branch bool) int64 {
		lb = n9ApplyCond(lb, cond, branch, coll, 0)
		// the condition may be a named boolean (hasPrefix := len(s) > 2 && s[0] == '0'): take it apart
		for _, f := range expandFact(cond, branch) {
			if f.Cond != cond {
				if v := n9ApplyCond(lb, f.Cond, f.Truth, coll, 0); v > lb {
					lb = v
				}
			}
		}
		return lb
	}
	in := map[*ssa.BasicBlock]int64{}
	out := map[*ssa.BasicBlock]int64{}
	for _, b := range fn.Blocks {
		in[b], out[b] = top, top
	}
	entryLB := n9EntryBound(fn, coll)
	transfer := func(b *ssa.BasicBlock, lb int64, upto ssa.Instruction) int64 {
		for _, ins := range b.Instrs {
			if ins == upto {
				break
			}
			if kills(ins) {
				lb = 0
			}
		}
		return lb
	}
	for round := 0; round < 60; round++ {
		changed := false
		for _, b := range fn.Blocks {
			var nin int64
			if b == fn.Blocks[0] {
				nin = entryLB
			} else {
				nin = top
				for _, p := range b.Preds {
					v := out[p]
					if len(p.Instrs) > 0 {
						if ifi, ok := p.Instrs[len(p.Instrs)-1].(*ssa.If); ok {
							// which edge?
							if p.Succs[0] == b && p.Succs[1] != b {
								v = apply(v, ifi.Cond, true)
							} else if p.Succs[1] == b && p.Succs[0] != b {
								v = apply(v, ifi.Cond, false)
							}
						}
					}
					if v < nin {
						nin = v
					}
				}
			}
			nout := transfer(b, nin, nil)
			if nin != in[b] || nout != out[b] {
				in[b], out[b] = nin, nout
				changed = true
			}
		}
		if !changed {
			break
		}
	}
	lb := transfer(at.Block(), in[at.Block()], at)
	if lb >= top {
		return 0 // unreachable block: no claim
	}
	return lb
}

func hasAnyStore(fn *ssa.Function, depth int) bool {
	if depth > 2 {
		return true
	}
	found := false
	eachInstr(fn, func(in ssa.Instruction) {
		switch x := in.(type) {
		case *ssa.Store:
			if _, ok := x.Addr.(*ssa.Alloc); !ok {
				found = true
			}
		case *ssa.MapUpdate:
			found = true
		case *ssa.Call:
			if _, ok := x.Call.Value.(*ssa.Builtin); ok {
				return
			}
			cal := x.Call.StaticCallee()
			if cal == nil || cal.Blocks == nil {
				// unknown or external callee: assume pure only for a few standard-library readers
				if cal != nil {
					switch cal.Pkg.Pkg.Path() {
					case "unicode/utf8", "strings", "bytes", "unicode", "math", "math/bits":
						return
					}
				}
				found = true
				return
			}
			if cal != fn && hasAnyStore(cal, depth+1) {
				found = true
			}
		}
	})
	return found
}

// n9ApplyCond refines the lower bound lb of len(coll) by taking `branch` of cond.
func n9ApplyCond(lb int64, cond ssa.Value, branch bool, coll ssa.Value, depth int) int64 {
	if depth > 3 {
		return lb
	}
	cv, neg := stripNot(cond)
	taken := branch != neg
	// bool helper: if sc.eof() { ... } with eof() == (len(sc.rest) == 0)
	if call, ok := cv.(*ssa.Call); ok {
		cal := call.Call.StaticCallee()
		if cal != nil && len(cal.Blocks) == 1 && len(call.Call.Args) >= 1 {
			if ret, ok := cal.Blocks[0].Instrs[len(cal.Blocks[0].Instrs)-1].(*ssa.Return); ok && len(ret.Results) == 1 {
				// map the callee's len(param0.f) onto coll = load of arg0.f
				if cl, ok := coll.(*ssa.UnOp); ok && cl.Op == token.MUL {
					if cfa, ok := cl.X.(*ssa.FieldAddr); ok && sameOperand(cfa.X, call.Call.Args[0]) {
						if rb, ok := ret.Results[0].(*ssa.BinOp); ok {
							// find len(load(FieldAddr(param0, f))) in rb
							match := func(v ssa.Value) bool {
								lc, ok := v.(*ssa.Call)
								if !ok {
									return false
								}
								if b, ok := lc.Call.Value.(*ssa.Builtin); !ok || b.Name() != "len" {
									return false
								}
								ld, ok := lc.Call.Args[0].(*ssa.UnOp)
								if !ok || ld.Op != token.MUL {
									return false
								}
								fa, ok := ld.X.(*ssa.FieldAddr)
								return ok && fa.Field == cfa.Field && len(cal.Params) > 0 && fa.X == cal.Params[0]
							}
							var c int64
							var okc bool
							op := rb.Op
							if match(rb.X) {
								c, okc = constInt(rb.Y)
							} else if match(rb.Y) {
								c, okc = constInt(rb.X)
								op = i9Flip(op)
							}
							if okc {
								if !taken {
									op = i9Neg(op)
								}
								return n9Refine(lb, op, c)
							}
						}
					}
				}
			}
		}
		return lb
	}
	b, ok := cv.(*ssa.BinOp)
	if !ok {
		return lb
	}
	// coll != "" / coll == ""
	if bt, isB := coll.Type().Underlying().(*types.Basic); isB && bt.Info()&types.IsString != 0 {
		isEmpty := func(v ssa.Value) bool {
			c, ok := v.(*ssa.Const)
			return ok && c.Value != nil && c.Value.ExactString() == `""`
		}
		if (n9Same(b.X, coll) && isEmpty(b.Y)) || (n9Same(b.Y, coll) && isEmpty(b.X)) {
			op := b.Op
			if !taken {
				op = i9Neg(op)
			}
			return n9Refine(lb, op, 0)
		}
	}
	op := b.Op
	var other ssa.Value
	if n9IsLenOf(b.X, coll) {
		other = b.Y
	} else if n9IsLenOf(b.Y, coll) {
		other = b.X
		op = i9Flip(op)
	} else {
		return lb
	}
	c, isK := constInt(other)
	if !isK {
		return lb
	}
	if !taken {
		op = i9Neg(op)
	}
	return n9Refine(lb, op, c)
}

// n9Refine: new lower bound of n given n >= lb and (n op c).
func n9Refine(lb int64, op token.Token, c int64) int64 {
	switch op {
	case token.GTR:
		if c+1 > lb {
			return c + 1
		}
	case token.GEQ, token.EQL:
		if c > lb {
			return c
		}
	case token.NEQ:
		if c == lb {
			return lb + 1
		}
	}
	return lb
}

// n9CondEstablishes: taking `branch` of cond implies len(coll) > k.
func n9CondEstablishes(cond ssa.Value, branch bool, coll ssa.Value, k int64, depth int) bool {
	if depth > 4 {
		return false
	}
	cv, neg := stripNot(cond)
	taken := branch != neg
	b, ok := cv.(*ssa.BinOp)
	if !ok {
		return false
	}
	// coll != "" / coll == ""
	if bt, isB := coll.Type().Underlying().(*types.Basic); isB && bt.Info()&types.IsString != 0 && k == 0 {
		isEmpty := func(v ssa.Value) bool {
			c, ok := v.(*ssa.Const)
			return ok && c.Value != nil && c.Value.ExactString() == `""`
		}
		if (n9Same(b.X, coll) && isEmpty(b.Y)) || (n9Same(b.Y, coll) && isEmpty(b.X)) {
			if (b.Op == token.NEQ && taken) || (b.Op == token.EQL && !taken) {
				return true
			}
		}
	}
	op := b.Op
	var lenSide, other ssa.Value
	if n9IsLenOf(b.X, coll) {
		lenSide, other = b.X, b.Y
	} else if n9IsLenOf(b.Y, coll) {
		lenSide, other = b.Y, b.X
		op = i9Flip(op)
	}
	if lenSide == nil {
		return false
	}
	c, isK := constInt(other)
	if !isK {
		return false
	}
	if !taken {
		op = i9Neg(op)
	}
	switch op {
	case token.GTR:
		return c >= k
	case token.GEQ:
		return c > k
	case token.EQL:
		return c > k
	case token.NEQ:
		return k == 0 && c == 0
	}
	return false
}

func strconvUnquote(s string) (string, error) { return strconv.Unquote(s) }

// ---------- I2: arguments of the unchecked small-int constructor are in range ----------

func init() {
	register("I2", "the unchecked small constructor only sees 32-bit values: every argument of makeSmallInt is a constant in range, the small arm of another Int, a bitwise combination (& | ^ &^ ^x) or floored remainder of such values, or is dominated by the int32 range test / isSmall; anything computed by + - * << or negation must go through MakeInt64 (-(-2^31) does not fit), otherwise the packed representation treats the number as a pointer", 6, ruleI2)
	claim("C10", "I2")
	claim("C02", "I2")
}

func ruleI2(c *Ctx) {
	n := 0
	for _, fn := range append(append([]*ssa.Function{}, c.P.Funcs...), c.P.InitFuncs...) {
		if relPkg(fnPkgPath(fn)) != "starlark" {
			continue
		}
		ord := 0
		eachInstr(fn, func(in ssa.Instruction) {
			call, ok := in.(*ssa.Call)
			if !ok {
				return
			}
			cal := call.Call.StaticCallee()
			if cal == nil || cal.Name() != "makeSmallInt" || len(call.Call.Args) != 1 {
				return
			}
			n++
			ord++
			key := fmt.Sprintf("%s: makeSmallInt #%d", fnName(fn), ord)
			if why := i2Small(call.Call.Args[0], call.Block(), 0); why != "" {
				c.ok(key, c.P.Pos(call.Pos()), why)
			} else {
				c.viol(key, c.P.Pos(call.Pos()), "the argument of makeSmallInt is not shown to fit in 32 bits (it is computed, not a small arm, a bitwise combination of small arms, or range-tested): a value outside int32 would be stored unchecked, and the address-space representation would dereference it as a pointer")
			}
		})
	}
	if n < 6 {
		c.anchorFail("only %d makeSmallInt calls found", n)
	}
}

func isSmallArm(v ssa.Value) bool { return isSmallArm1(v, 0) }

func isSmallArm1(v ssa.Value, depth int) bool {
	ex, ok := v.(*ssa.Extract)
	if !ok {
		return false
	}
	call, ok := ex.Tuple.(*ssa.Call)
	if !ok {
		return false
	}
	cal := call.Call.StaticCallee()
	if cal == nil {
		return false
	}
	if ex.Index == 0 && cal.Name() == "get" && cal.Signature.Recv() != nil && isNamed(cal.Signature.Recv().Type(), "starlark", "Int") {
		return true
	}
	// a helper of the Int implementation that hands out small arms (smallOperands(x, y))
	if depth < 2 && cal.Blocks != nil && relPkg(fnPkgPath(cal)) == "starlark" {
		any, all := false, true
		for _, b := range cal.Blocks {
			if len(b.Instrs) == 0 {
				continue
			}
			if ret, ok := b.Instrs[len(b.Instrs)-1].(*ssa.Return); ok && ex.Index < len(ret.Results) {
				any = true
				r := ret.Results[ex.Index]
				if k, isK := constInt(r); isK && k >= -(1<<31) && k <= (1<<31)-1 {
					continue
				}
				if !isSmallArm1(r, depth+1) {
					all = false
				}
			}
		}
		return any && all
	}
	return false
}

func i2Small(v ssa.Value, at *ssa.BasicBlock, depth int) string {
	if depth > 6 {
		return ""
	}
	if k, ok := constInt(v); ok {
		if k >= -(1<<31) && k <= (1<<31)-1 {
			return "constant in range"
		}
		return ""
	}
	if isSmallArm(v) {
		return "small arm of an Int"
	}
	switch x := v.(type) {
	case *ssa.BinOp:
		switch x.Op {
		case token.AND, token.OR, token.XOR, token.AND_NOT:
			if i2Small(x.X, at, depth+1) != "" && i2Small(x.Y, at, depth+1) != "" {
				return "bitwise combination of 32-bit values"
			}
		case token.REM:
			if i2Small(x.Y, at, depth+1) != "" {
				return "remainder by a 32-bit divisor"
			}
		case token.ADD:
			// floored remainder: (a % b) + b
			if r, ok := x.X.(*ssa.BinOp); ok && r.Op == token.REM && r.Y == x.Y && i2Small(x.Y, at, depth+1) != "" {
				return "floored remainder (rem + divisor under the sign test)"
			}
			if ph, ok := x.X.(*ssa.Phi); ok {
				_ = ph
			}
		}
	case *ssa.UnOp:
		if x.Op == token.XOR && i2Small(x.X, at, depth+1) != "" {
			return "bitwise complement of a 32-bit value"
		}
	case *ssa.Phi:
		for _, e := range x.Edges {
			if e == v {
				continue
			}
			if i2Small(e, at, depth+1) == "" {
				return ""
			}
		}
		return "all incoming values fit"
	case *ssa.Convert:
		if bt, ok := x.X.Type().Underlying().(*types.Basic); ok {
			switch bt.Kind() {
			case types.Int8, types.Int16, types.Int32, types.Uint8, types.Uint16:
				return "widened from a narrower type"
			}
		}
	}
	// dominating range test on v (or on the value v was converted from / read from)
	cands := []ssa.Value{v}
	if cv, ok := v.(*ssa.Convert); ok {
		cands = append(cands, cv.X)
	}
	var recvOfInt64 ssa.Value
	if call, ok := v.(*ssa.Call); ok {
		if cal := call.Call.StaticCallee(); cal != nil && cal.Name() == "Int64" && len(call.Call.Args) == 1 {
			recvOfInt64 = call.Call.Args[0]
		}
	}
	lower, upper := false, false
	for _, pf := range pathFacts(at) {
		cond, taken := pf.Cond, pf.Truth
		if call, ok := cond.(*ssa.Call); ok && recvOfInt64 != nil {
			if cal := call.Call.StaticCallee(); cal != nil && cal.Name() == "isSmall" && len(call.Call.Args) == 1 && call.Call.Args[0] == recvOfInt64 && taken {
				return "under isSmall of the same big.Int"
			}
		}
		// a range predicate on the value: if fitsInt32(x) { makeSmallInt(x) } - evaluated at the int32 boundaries
		if call, ok := cond.(*ssa.Call); ok && len(call.Call.Args) == 1 {
			isCand := false
			for _, cv := range cands {
				if call.Call.Args[0] == cv {
					isCand = true
				}
			}
			if cal := call.Call.StaticCallee(); isCand && cal != nil && cal.Blocks != nil && relPkg(fnPkgPath(cal)) == "starlark" {
				exact := true
				for _, x := range []int64{math.MinInt64, math.MinInt32 - 1, math.MinInt32, 0, math.MaxInt32, math.MaxInt32 + 1, math.MaxInt64} {
					arg := svInt(x)
					if b := basicOf(call.Call.Args[0].Type()); b != nil && b.Info()&types.IsUnsigned != 0 {
						if x < 0 {
							continue
						}
						arg = svUint(uint64(x))
					}
					r, ok := sinterpFunc(cal, arg)
					in32 := x >= math.MinInt32 && x <= math.MaxInt32
					// on the edge we are on, the predicate has value `taken`: every x for which it has that value must fit
					if !ok || r.k != 'b' || (r.b == taken && !in32) {
						exact = false
					}
				}
				if exact {
					return "under the range predicate " + fnName(cal) + " (evaluated at the int32 boundaries)"
				}
			}
		}
		bo, ok := cond.(*ssa.BinOp)
		if !ok {
			continue
		}
		for _, cv := range cands {
			op := bo.Op
			var k int64
			var okk bool
			if bo.X == cv {
				k, okk = constInt(bo.Y)
			} else if bo.Y == cv {
				k, okk = constInt(bo.X)
				op = i9Flip(op)
			}
			if !okk {
				continue
			}
			if !taken {
				op = i9Neg(op)
			}
			switch op {
			case token.LEQ:
				if k <= (1<<31)-1 {
					upper = true
				}
			case token.LSS:
				if k <= (1 << 31) {
					upper = true
				}
			case token.GEQ:
				if k >= -(1 << 31) {
					lower = true
				}
			case token.GTR:
				if k >= -(1<<31)-1 {
					lower = true
				}
			}
			if bt, ok := cv.Type().Underlying().(*types.Basic); ok && bt.Info()&types.IsUnsigned != 0 {
				lower = true
			}
		}
	}
	if lower && upper {
		return "dominated by the int32 range test"
	}
	return ""
}

// ---------- J5: the Go-syntax quoting fast path is confined to bytes where Go and JSON agree ----------

func init() {
	register("J5", "JSON strings are quoted by JSON's rules: where json.encode quotes a string with Go's strconv quoting (a fast path), the guarding predicate - evaluated here for each of the 256 byte values - admits only bytes 0x20..0x7e, for which Go's and JSON's escapes coincide (Go writes DEL as \\x7f and non-ASCII as \\u/\\x forms that JSON does not have); json.decode unquotes escapes only with encoding/json, never with strconv.Unquote (Go's escape syntax is a superset)", 1, ruleJ5)
	claim("C18", "J5")
}

// evalBytePredicate abstractly executes a func(string) bool for the one-byte
// string {b}: it follows the SSA from the entry, taking s[i] = b, len(s) = 1, and
// resolving comparisons on constants; returns (result, ok).
func evalBytePredicate(fn *ssa.Function, b byte) (bool, bool) {
	if len(fn.Params) != 1 || len(fn.Blocks) == 0 {
		return false, false
	}
	env := map[ssa.Value]int64{}
	known := map[ssa.Value]bool{}
	var eval func(v ssa.Value) (int64, bool)
	eval = func(v ssa.Value) (int64, bool) {
		if k, ok := constInt(v); ok {
			return k, true
		}
		if c, ok := v.(*ssa.Const); ok && c.Value != nil && c.Value.Kind().String() == "Bool" {
			if c.Value.String() == "true" {
				return 1, true
			}
			return 0, true
		}
		if known[v] {
			return env[v], true
		}
		return 0, false
	}
	set := func(v ssa.Value, x int64) { env[v] = x; known[v] = true }
	// values that denote the argument string itself (the parameter, []byte(s), a renamed copy)
	alias := map[ssa.Value]bool{fn.Params[0]: true}
	elemPtr := map[ssa.Value]bool{} // &alias[0]
	rangeCount := map[*ssa.Range]int{}
	nextState := map[*ssa.Next]int{}
	blk := fn.Blocks[0]
	var prev *ssa.BasicBlock
	for steps := 0; steps < 400; steps++ {
		for _, in := range blk.Instrs {
			switch x := in.(type) {
			case *ssa.Phi:
				for i, p := range blk.Preds {
					if p == prev {
						if v, ok := eval(x.Edges[i]); ok {
							set(x, v)
						} else {
							return false, false
						}
					}
				}
			case *ssa.Call:
				if bi, ok := x.Call.Value.(*ssa.Builtin); ok && bi.Name() == "len" && len(x.Call.Args) == 1 && alias[x.Call.Args[0]] {
					set(x, 1)
				} else {
					return false, false
				}
			case *ssa.IndexAddr:
				if alias[x.X] {
					if i, ok := eval(x.Index); ok && i == 0 {
						elemPtr[x] = true
						continue
					}
				}
				return false, false
			case *ssa.Lookup:
				if alias[x.X] {
					i, ok := eval(x.Index)
					if !ok || i != 0 {
						return false, false
					}
					set(x, int64(b))
				} else {
					return false, false
				}
			case *ssa.Index:
				if alias[x.X] {
					i, ok := eval(x.Index)
					if !ok || i != 0 {
						return false, false
					}
					set(x, int64(b))
				} else {
					return false, false
				}
			case *ssa.Range:
				if !alias[x.X] {
					return false, false
				}
				rangeCount[x] = 0
			case *ssa.Next:
				rg, ok := x.Iter.(*ssa.Range)
				if !ok {
					return false, false
				}
				rangeCount[rg]++
				nextState[x] = rangeCount[rg]
			case *ssa.Extract:
				nx, ok := x.Tuple.(*ssa.Next)
				if !ok {
					return false, false
				}
				first := nextState[nx] == 1
				switch x.Index {
				case 0:
					if first {
						set(x, 1)
					} else {
						set(x, 0)
					}
				case 1:
					set(x, 0)
				case 2:
					r := int64(b)
					if b >= 0x80 {
						r = 0xFFFD // a lone byte >= 0x80 is not valid UTF-8
					}
					set(x, r)
				}
			case *ssa.Convert:
				if alias[x.X] {
					alias[x] = true // []byte(s), string(b)
					continue
				}
				if v, ok := eval(x.X); ok {
					set(x, v)
				}
			case *ssa.ChangeType:
				if alias[x.X] {
					alias[x] = true
					continue
				}
				if v, ok := eval(x.X); ok {
					set(x, v)
				}
			case *ssa.BinOp:
				a, ok1 := eval(x.X)
				c, ok2 := eval(x.Y)
				if !ok1 || !ok2 {
					continue
				}
				var r int64
				bi := func(t bool) int64 {
					if t {
						return 1
					}
					return 0
				}
				switch x.Op {
				case token.ADD:
					r = a + c
				case token.SUB:
					r = a - c
				case token.LSS:
					r = bi(a < c)
				case token.GTR:
					r = bi(a > c)
				case token.LEQ:
					r = bi(a <= c)
				case token.GEQ:
					r = bi(a >= c)
				case token.EQL:
					r = bi(a == c)
				case token.NEQ:
					r = bi(a != c)
				case token.AND:
					r = a & c
				case token.OR:
					r = a | c
				default:
					continue
				}
				set(x, r)
			case *ssa.UnOp:
				if x.Op == token.NOT {
					if v, ok := eval(x.X); ok {
						set(x, 1-v)
					}
				}
				if x.Op == token.MUL && elemPtr[x.X] {
					set(x, int64(b))
				}
			case *ssa.If:
				v, ok := eval(x.Cond)
				if !ok {
					return false, false
				}
				prev = blk
				if v != 0 {
					blk = blk.Succs[0]
				} else {
					blk = blk.Succs[1]
				}
			case *ssa.Jump:
				prev = blk
				blk = blk.Succs[0]
			case *ssa.Return:
				if len(x.Results) != 1 {
					return false, false
				}
				v, ok := eval(x.Results[0])
				return v != 0, ok
			case *ssa.DebugRef:
			default:
				if os.Getenv("VERIF_DEBUG") != "" {
					fmt.Fprintf(os.Stderr, "evalBytePredicate: unsupported %T %s\n", in, in)
				}
				return false, false
			}
		}
	}
	return false, false
}

func ruleJ5(c *Ctx) {
	n := 0
	for _, fn := range c.P.Funcs {
		if relPkg(fnPkgPath(fn)) != "lib/json" {
			continue
		}
		top := outermost(fn)
		eachInstr(fn, func(in ssa.Instruction) {
			call, ok := in.(*ssa.Call)
			if !ok {
				return
			}
			cal := call.Call.StaticCallee()
			if cal == nil {
				return
			}
			name := cal.String()
			switch {
			case strings.HasPrefix(name, "strconv.AppendQuote") || strings.HasPrefix(name, "strconv.Quote"):
				n++
				key := fmt.Sprintf("%s: %s", fnName(fn), name)
				if top.Name() != "encode" && top.Name() != "encodeIndent" {
					c.ok(key, c.P.Pos(call.Pos()), "not in the encoder (error message)")
					return
				}
				// the guarding predicate: a dominating call of a func(string) bool on the quoted string
				var pred *ssa.Function
				for _, pf := range pathFacts(call.Block()) {
					cond, neg := pf.Cond, false
					if pcall, ok := cond.(*ssa.Call); ok && pf.Truth != neg {
						if pf := pcall.Call.StaticCallee(); pf != nil && pf.Blocks != nil && len(pf.Params) == 1 {
							pred = pf
						}
					}
				}
				if pred == nil {
					c.viol(key, c.P.Pos(call.Pos()), "json.encode quotes with Go's strconv quoting without a guarding predicate on the string's bytes: Go's escapes (\\x7f, \\a, \\v, \\U...) are not JSON")
					return
				}
				var bad []string
				for b := 0; b < 256; b++ {
					acc, ok := evalBytePredicate(pred, byte(b))
					if !ok {
						c.viol(key, c.P.Pos(call.Pos()), fmt.Sprintf("cannot evaluate the guarding predicate %s for byte 0x%02x: the set of strings sent to Go-syntax quoting is undetermined", fnName(pred), b))
						return
					}
					if acc && !(b >= 0x20 && b <= 0x7e) {
						bad = append(bad, fmt.Sprintf("0x%02x", b))
					}
				}
				if len(bad) > 0 {
					if len(bad) > 6 {
						bad = append(bad[:6], "...")
					}
					c.viol(key, c.P.Pos(call.Pos()), fmt.Sprintf("the predicate %s admits byte(s) %s to the Go-syntax quoting fast path, but for them strconv's output is not valid JSON (e.g. DEL is written \\x7f)", fnName(pred), strings.Join(bad, " ")))
				} else {
					c.ok(key, c.P.Pos(call.Pos()), fmt.Sprintf("guarded by %s, which admits only bytes 0x20..0x7e (evaluated for all 256 byte values)", fnName(pred)))
				}
			case strings.HasPrefix(name, "strconv.Unquote"):
				n++
				key := fmt.Sprintf("%s: %s", fnName(fn), name)
				if top.Name() == "decode" {
					c.viol(key, c.P.Pos(call.Pos()), "json.decode unquotes with strconv.Unquote: Go's escape syntax (\\x41, \\a, \\101, \\U0001F600) is a superset of JSON's, so invalid documents are accepted")
				} else {
					c.ok(key, c.P.Pos(call.Pos()), "not in the decoder")
				}
			}
		})
	}
	if n == 0 {
		c.anchorFail("no strconv quoting call found in lib/json")
	}
}

// ---------- V11: the compiler folds concatenations only ----------

func init() {
	register("V11", "no arithmetic at compile time: package compile calls no arithmetic method of math/big (Add, Sub, Mul, Quo, Neg, Lsh, ...) and performs no floating-point arithmetic; it folds only concatenations of string, bytes, list and tuple literals (associative and type-closed), so x + 1 + 1 is evaluated left to right at run time - folding numeric literals would re-associate chains with a float or host-defined left operand", 1, ruleV11)
	claim("C01", "V11")
}

func ruleV11(c *Ctx) {
	allowed := map[string]bool{"SetString": true, "String": true, "Text": true, "Append": true, "IsInt64": true, "Int64": true, "IsUint64": true, "Uint64": true, "Sign": true, "Cmp": true, "BitLen": true, "Set": true, "SetInt64": true, "SetUint64": true}
	n := 0
	bad := 0
	for _, fn := range c.P.Funcs {
		if relPkg(fnPkgPath(fn)) != "internal/compile" {
			continue
		}
		eachInstr(fn, func(in ssa.Instruction) {
			switch x := in.(type) {
			case ssa.CallInstruction:
				cal := x.Common().StaticCallee()
				if cal == nil || cal.Signature.Recv() == nil {
					return
				}
				pp, tn := namedOf(cal.Signature.Recv().Type())
				if pp != "math/big" {
					return
				}
				n++
				key := fmt.Sprintf("%s: big.%s.%s", fnName(fn), tn, cal.Name())
				if allowed[cal.Name()] {
					c.ok(key, c.P.Pos(in.Pos()), "conversion or inspection of a constant, no arithmetic")
				} else {
					bad++
					c.viol(key, c.P.Pos(in.Pos()), "the compiler computes with big numbers at compile time: folding numeric literals changes the order in which a chain of operators is evaluated (float addition is not associative; a host type may define + itself)")
				}
			case *ssa.BinOp:
				bt, ok := x.Type().Underlying().(*types.Basic)
				if !ok || bt.Info()&types.IsFloat == 0 {
					return
				}
				switch x.Op {
				case token.ADD, token.SUB, token.MUL, token.QUO:
					n++
					bad++
					c.viol(fmt.Sprintf("%s: float %s", fnName(fn), x.Op), c.P.Pos(x.Pos()), "floating-point arithmetic in the compiler: constant folding of floats is not value-preserving for chains (not associative)")
				}
			}
		})
	}
	if bad == 0 {
		c.ok("internal/compile: no numeric folding", "", fmt.Sprintf("%d math/big call(s), all conversions; no float arithmetic", n))
	}
}

// ---------- V12: constructor instructions create new objects ----------

func init() {
	register("V12", "every execution of a def, lambda, list or dict display yields a new object: wherever the interpreter pushes a value whose static type is *Function, *List, *Dict or *Set onto the operand stack (MAKEFUNC, MAKELIST, MAKEDICT), the object is allocated in that very step (a composite literal, new, or a constructor that returns a fresh object) - never fetched from a cache, because functions and mutable collections are compared by identity and collections must not be shared between executions", 3, ruleV12)
	claim("C01", "V12")
}

func ruleV12(c *Ctx) {
	fn := c.P.Func("starlark", "Function.CallInternal")
	if fn == nil {
		c.anchorFail("(*starlark.Function).CallInternal not found")
		return
	}
	fc := computeReturnsFresh(c.P)
	n := 0
	ord := map[string]int{}
	eachInstr(fn, func(in ssa.Instruction) {
		st, ok := in.(*ssa.Store)
		if !ok || in.Parent() != fn {
			return
		}
		ia, ok := st.Addr.(*ssa.IndexAddr)
		if !ok {
			return
		}
		sl, ok := ia.X.Type().Underlying().(*types.Slice)
		if !ok || !isNamed(sl.Elem(), "starlark", "Value") {
			return
		}
		mi, ok := st.Val.(*ssa.MakeInterface)
		if !ok {
			return
		}
		pt, ok := mi.X.Type().(*types.Pointer)
		if !ok {
			return
		}
		_, tn := namedOf(pt.Elem())
		switch tn {
		case "Function", "List", "Dict", "Set":
		default:
			return
		}
		if pk, _ := namedOf(pt.Elem()); !strings.HasSuffix(pk, "starlark") {
			return
		}
		n++
		base := fmt.Sprintf("(*starlark.Function).CallInternal: push *%s", tn)
		ord[base]++
		key := base
		if ord[base] > 1 {
			key = fmt.Sprintf("%s #%d", base, ord[base])
		}
		tr := traceAddr(mi.X)
		fresh := len(tr.fields) == 0 && len(tr.bases) > 0
		for _, b := range tr.bases {
			if b.throughPtr || !isFreshValue(fc, b.v) {
				fresh = false
			}
		}
		if fresh {
			c.ok(key, c.P.Pos(st.Pos()), "allocated in this step")
		} else {
			c.viol(key, c.P.Pos(st.Pos()), fmt.Sprintf("the *%s pushed on the operand stack is not allocated here (it comes from %s): two executions of the same def/lambda/display could yield the same object, which identity comparison, hashing and mutation observe", tn, describeBases(resolveBases(fn, tr.bases))))
		}
	})
	if n < 3 {
		c.anchorFail("only %d pushes of *Function/*List/*Dict found in CallInternal", n)
	}
}

// ---------- O13: parenthesis stripping is complete ----------

func init() {
	register("O13", "redundant parentheses are stripped completely: a helper that takes an expression, tests it for *syntax.ParenExpr and returns an expression (unparen) returns only values that are results of its own recursive call or that failed the ParenExpr test on the way to the return; stripping one level only would send ((x)) += 1, which the parser and resolver accept, to the compiler's panic(lhs)", 1, ruleO13)
	claim("C09", "O13")
	claim("C02", "O13")
}

func ruleO13(c *Ctx) {
	n := 0
	isExpr := func(t types.Type) bool { return isNamed(t, "syntax", "Expr") }
	for _, fn := range c.P.Funcs {
		if !isProdPkg(fnPkgPath(fn)) || fn.Signature.Recv() != nil {
			continue
		}
		ps, rs := fn.Signature.Params(), fn.Signature.Results()
		if ps.Len() != 1 || rs.Len() != 1 || !isExpr(ps.At(0).Type()) || !isExpr(rs.At(0).Type()) {
			continue
		}
		var tests []*ssa.TypeAssert
		eachInstr(fn, func(in ssa.Instruction) {
			if ta, ok := in.(*ssa.TypeAssert); ok && ta.CommaOk && in.Parent() == fn {
				if pt, ok := ta.AssertedType.(*types.Pointer); ok && isNamed(pt.Elem(), "syntax", "ParenExpr") {
					tests = append(tests, ta)
				}
			}
		})
		if len(tests) == 0 {
			continue
		}
		n++
		key := fnName(fn)
		bad := ""
		notParenAt := func(v ssa.Value, b *ssa.BasicBlock) bool {
			for _, pf := range pathFacts(b) {
				cond, neg := pf.Cond, false
				ex, ok := cond.(*ssa.Extract)
				if !ok || ex.Index != 1 {
					continue
				}
				ta, ok := ex.Tuple.(*ssa.TypeAssert)
				if !ok || ta.X != v {
					continue
				}
				isParen := false
				for _, t := range tests {
					if t == ta {
						isParen = true
					}
				}
				if isParen && pf.Truth == neg { // failure edge of the test
					return true
				}
			}
			return false
		}
		var okVal func(v ssa.Value, b *ssa.BasicBlock, depth int) bool
		okVal = func(v ssa.Value, b *ssa.BasicBlock, depth int) bool {
			if depth > 5 {
				return false
			}
			if notParenAt(v, b) {
				return true
			}
			switch x := v.(type) {
			case *ssa.Call:
				if cal := x.Call.StaticCallee(); cal == fn {
					return true
				}
			case *ssa.Phi:
				for i, e := range x.Edges {
					if !okVal(e, x.Block().Preds[i], depth+1) {
						return false
					}
				}
				return true
			case *ssa.MakeInterface:
				if pt, ok := x.X.Type().(*types.Pointer); ok && isNamed(pt.Elem(), "syntax", "ParenExpr") {
					return false
				}
				return true // a concrete node of another type
			}
			return false
		}
		for _, b := range fn.Blocks {
			if len(b.Instrs) == 0 {
				continue
			}
			ret, ok := b.Instrs[len(b.Instrs)-1].(*ssa.Return)
			if !ok || len(ret.Results) != 1 {
				continue
			}
			if !okVal(ret.Results[0], b, 0) {
				bad = c.P.Pos(ret.Pos())
			}
		}
		if bad != "" {
			c.viol(key, bad, key+" can return an expression that was not tested (or tested positive) for *ParenExpr: nested redundant parentheses survive, and callers that switch on the node type reach their default: panic")
		} else {
			c.ok(key, c.P.Pos(fn.Pos()), "every returned expression failed the ParenExpr test or comes from the recursive call")
		}
	}
	if n == 0 {
		c.anchorFail("no parenthesis-stripping helper found")
	}
}

// ---------- F8: Freeze descends unconditionally ----------

func init() {
	register("F8", "freezing does not pick and choose: inside Freeze methods and their freeze helpers, the Freeze call on a contained value is not conditional on a property of that value (its dynamic type, a predicate on it) - only on its being non-nil, on the container's own frozen flag, or on loop bounds; a 'skip stateless leaves' shortcut that lists a type with reachable state (a bound method's receiver) leaves that state mutable", 10, ruleF8)
	claim("C04", "F8")
	claim("C05", "F8")
}

func ruleF8(c *Ctx) {
	n := 0
	for _, fn := range c.P.Funcs {
		if !isProdPkg(fnPkgPath(fn)) {
			continue
		}
		top := outermost(fn)
		if !(top.Name() == "Freeze" || top.Name() == "freeze") {
			continue
		}
		ord := 0
		eachInstr(fn, func(in ssa.Instruction) {
			ci, ok := in.(ssa.CallInstruction)
			if !ok {
				return
			}
			rv, ok := isFreezeCall(ci)
			if !ok {
				return
			}
			n++
			ord++
			key := fmt.Sprintf("%s: descent #%d", fnName(fn), ord)
			// the element the receiver stands for
			elem := map[ssa.Value]bool{}
			var back func(v ssa.Value, d int)
			back = func(v ssa.Value, d int) {
				if d > 6 || elem[v] {
					return
				}
				elem[v] = true
				switch x := v.(type) {
				case *ssa.MakeInterface:
					back(x.X, d+1)
				case *ssa.ChangeInterface:
					back(x.X, d+1)
				case *ssa.ChangeType:
					back(x.X, d+1)
				case *ssa.TypeAssert:
					back(x.X, d+1)
				case *ssa.Extract:
					if ta, ok := x.Tuple.(*ssa.TypeAssert); ok {
						back(ta.X, d+1)
					}
				case *ssa.Phi:
					for _, e := range x.Edges {
						back(e, d+1)
					}
				}
			}
			back(rv, 0)
			dependsOnElem := func(cond ssa.Value) string {
				seen := map[ssa.Value]bool{}
				why := ""
				var walk func(v ssa.Value, d int)
				walk = func(v ssa.Value, d int) {
					if d > 6 || seen[v] || why != "" {
						return
					}
					seen[v] = true
					switch x := v.(type) {
					case *ssa.UnOp:
						if x.Op == token.NOT {
							walk(x.X, d+1)
						}
					case *ssa.BinOp:
						if _, _, isNil := nilTest(x); isNil {
							return
						}
						walk(x.X, d+1)
						walk(x.Y, d+1)
					case *ssa.Extract:
						if ta, ok := x.Tuple.(*ssa.TypeAssert); ok {
							if elem[ta.X] {
								// a test for the very interface/type whose Freeze is then called is how a
								// typed descent is written (if f, ok := v.(Freezer)); any other type test selects
								if x.Index == 1 && !elem[ssa.Value(ta)] && !extractOfUsed(ta, elem) {
									why = "a test of the element's dynamic type"
								}
							}
							return
						}
						walk(x.Tuple, d+1)
					case *ssa.Call:
						for _, a := range x.Call.Args {
							if elem[a] {
								why = "the result of " + calleeName(x) + " applied to the element"
								return
							}
						}
						if x.Call.IsInvoke() && elem[x.Call.Value] {
							why = "the element's " + x.Call.Method.Name() + "() result"
						}
					case *ssa.Phi:
						for _, e := range x.Edges {
							walk(e, d+1)
						}
					}
				}
				walk(cond, 0)
				return why
			}
			bad := ""
			for _, pf := range pathFacts(in.Block()) {
				if w := dependsOnElem(pf.Cond); w != "" {
					bad = w
				}
			}
			if bad != "" {
				c.viol(key, c.P.Pos(in.Pos()), "the Freeze of a contained value is conditional on "+bad+": values for which the condition fails are skipped, and whatever they reach stays mutable after the container is frozen")
			} else {
				c.ok(key, c.P.Pos(in.Pos()), "unconditional (up to nil tests, the container's flag and loop bounds)")
			}
		})
	}
	if n < 10 {
		c.anchorFail("only %d Freeze descents found", n)
	}
}

// extractOfUsed: the value produced by the comma-ok assertion is itself (one of) the receiver values.
func extractOfUsed(ta *ssa.TypeAssert, elem map[ssa.Value]bool) bool {
	if refs := ta.Referrers(); refs != nil {
		for _, r := range *refs {
			if ex, ok := r.(*ssa.Extract); ok && ex.Index == 0 && elem[ex] {
				return true
			}
		}
	}
	return false
}

// ---------- A9: typed unpack targets do not coerce ----------

func init() {
	register("A9", "typed parameters of host built-ins are not coerced: in the argument unpacker every value stored through a typed target pointer (*bool, *float64, **List, **Dict, *Callable, *Iterable, *string) comes from a type assertion of the argument to the one corresponding Starlark type (or from AsString, which is that assertion); a lenient converter such as AsFloat - which also accepts ints and rounds them - would make a float64 parameter silently accept and alter an int", 5, ruleA9)
	claim("C08", "A9")
}

func ruleA9(c *Ctx) {
	fn := c.P.Func("starlark", "unpackArgNoEscape")
	if fn == nil {
		c.anchorFail("starlark.unpackArgNoEscape not found")
		return
	}
	vParam := fn.Params[0]
	n := 0
	eachInstr(fn, func(in ssa.Instruction) {
		st, ok := in.(*ssa.Store)
		if !ok || in.Parent() != fn {
			return
		}
		// destination: a pointer obtained from the type switch on the second parameter
		dst := traceAddr(st.Addr)
		fromPtr := false
		for _, b := range dst.bases {
			if b.v == ssa.Value(fn.Params[1]) {
				fromPtr = true
			}
		}
		if !fromPtr {
			return
		}
		n++
		key := fmt.Sprintf("starlark.unpackArgNoEscape: store through %s", typeShort(st.Addr.Type()))
		// source: walk back through conversions to an assertion on v or a call
		v := st.Val
		why := ""
		okSrc := false
		for i := 0; i < 8 && v != nil; i++ {
			switch x := v.(type) {
			case *ssa.Convert:
				v = x.X
				continue
			case *ssa.ChangeType:
				v = x.X
				continue
			case *ssa.MakeInterface:
				v = x.X
				continue
			case *ssa.Extract:
				switch t := x.Tuple.(type) {
				case *ssa.TypeAssert:
					if t.X == ssa.Value(vParam) {
						okSrc = true
					}
				case *ssa.Call:
					if cal := t.Call.StaticCallee(); cal != nil && cal.Name() == "AsString" {
						okSrc = true
					} else {
						why = "the value stored comes from " + calleeName(t) + ", a converter that accepts more than the parameter's own Starlark type"
					}
				}
			case *ssa.Parameter:
				if x == vParam {
					okSrc = true // *Value target: any value
				}
			case *ssa.TypeAssert:
				if x.X == ssa.Value(vParam) {
					okSrc = true
				}
			case *ssa.Call:
				why = "the value stored comes from " + calleeName(x) + ", a converter that accepts more than the parameter's own Starlark type"
			}
			break
		}
		if okSrc {
			c.ok(key, c.P.Pos(st.Pos()), "stored value is the argument asserted to the target's Starlark type")
		} else {
			if why == "" {
				why = "the stored value is not a type assertion of the argument"
			}
			c.viol(key, c.P.Pos(st.Pos()), why+": an argument of another type would be accepted and converted instead of rejected")
		}
	})
	if n < 5 {
		c.anchorFail("only %d typed stores found in unpackArgNoEscape", n)
	}
}

// ---------- O14: dialect options are judged independently ----------

func init() {
	register("O14", "each dialect option is consulted whatever the others say: in the resolver no test of one FileOptions field is reached only through a branch that depends on a different option (directly or through a helper that reads one), except the one named pair; otherwise enabling one feature (top-level control flow) would silently switch off the check of another (while loops)", 6, ruleO14)
	claim("C09", "O14")
}

var o14Exceptions = map[string]string{
	"GlobalReassign under LoadBindsGlobally": "load binds locally only when LoadBindsGlobally is off; for a local binding GlobalReassign decides whether a duplicate is an error - the two options are about the same binding by design",
}

// optionsRead: which FileOptions field(s) does evaluating v read (through boolean operators and helper calls)?
func optionsRead(v ssa.Value, depth int, out map[string]bool) {
	if depth > 6 || v == nil {
		return
	}
	switch x := v.(type) {
	case *ssa.UnOp:
		if x.Op == token.MUL {
			tr := traceAddr(x.X)
			if len(tr.fields) >= 1 && len(tr.owners) >= 1 && isNamed(tr.owners[0], "syntax", "FileOptions") {
				out[tr.fields[0].Name()] = true
			}
			return
		}
		optionsRead(x.X, depth+1, out)
	case *ssa.BinOp:
		optionsRead(x.X, depth+1, out)
		optionsRead(x.Y, depth+1, out)
	case *ssa.Phi:
		for _, e := range x.Edges {
			optionsRead(e, depth+1, out)
		}
	case *ssa.Call:
		if cal := x.Call.StaticCallee(); cal != nil && cal.Blocks != nil && relPkg(fnPkgPath(cal)) == "resolve" && depth < 3 {
			// a helper whose boolean result depends on an option
			eachInstr(cal, func(in ssa.Instruction) {
				if ret, ok := in.(*ssa.Return); ok {
					for _, r := range ret.Results {
						optionsRead(r, depth+2, out)
					}
				}
				if ifi, ok := in.(*ssa.If); ok {
					optionsRead(ifi.Cond, depth+2, out)
				}
			})
		}
	}
}

func ruleO14(c *Ctx) {
	n := 0
	for _, fn := range c.P.Funcs {
		if relPkg(fnPkgPath(fn)) != "resolve" {
			continue
		}
		ord := map[string]int{}
		for _, b := range fn.Blocks {
			if len(b.Instrs) == 0 {
				continue
			}
			ifi, ok := b.Instrs[len(b.Instrs)-1].(*ssa.If)
			if !ok {
				continue
			}
			// direct reads only (the option tested at this branch)
			own := map[string]bool{}
			cond, _ := stripNot(ifi.Cond)
			if ld, ok := cond.(*ssa.UnOp); ok && ld.Op == token.MUL {
				optionsRead(ld, 0, own)
			}
			if len(own) == 0 {
				continue
			}
			for opt := range own {
				n++
				base := fmt.Sprintf("%s: test of option %s", fnName(fn), opt)
				ord[base]++
				key := base
				if ord[base] > 1 {
					key = fmt.Sprintf("%s #%d", base, ord[base])
				}
				bad := ""
				for _, pf := range pathFacts(b) {
					others := map[string]bool{}
					optionsRead(pf.Cond, 0, others)
					for o := range others {
						if o != opt {
							pair := opt + " under " + o
							if _, ok := o14Exceptions[pair]; !ok {
								bad = o
							}
						}
					}
				}
				if bad != "" {
					c.viol(key, c.P.Pos(ifi.Cond.Pos()), fmt.Sprintf("the test of option %s is reached only on a branch that depends on option %s: for some value of %s the %s rule is never evaluated", opt, bad, bad, opt))
				} else {
					c.ok(key, c.P.Pos(ifi.Cond.Pos()), "not conditional on another option")
				}
			}
		}
	}
	if n < 6 {
		c.anchorFail("only %d option tests found in the resolver", n)
	}
}

// ---------- E9: floats are ordered by floatCmp only ----------

func init() {
	register("E9", "floats are ordered in one place: Go's native < <= > >= on values of type starlark.Float (which treat NaN as unordered) occur only inside the float comparison helper and inside NaN-free numeric guards (tests against constants); min, max, sorted and comparison operators must go through Compare, under which NaN is greater than every other float and equal to itself", 1, ruleE9)
	claim("C11", "E9")
}

func ruleE9(c *Ctx) {
	n := 0
	for _, fn := range c.P.Funcs {
		if relPkg(fnPkgPath(fn)) != "starlark" {
			continue
		}
		ord := 0
		eachInstr(fn, func(in ssa.Instruction) {
			bo, ok := in.(*ssa.BinOp)
			if !ok {
				return
			}
			switch bo.Op {
			case token.LSS, token.GTR, token.LEQ, token.GEQ:
			default:
				return
			}
			isF := func(v ssa.Value) bool {
				if isNamed(v.Type(), "starlark", "Float") {
					return true
				}
				switch x := v.(type) {
				case *ssa.Convert:
					return isNamed(x.X.Type(), "starlark", "Float")
				case *ssa.ChangeType:
					return isNamed(x.X.Type(), "starlark", "Float")
				}
				return false
			}
			if !isF(bo.X) && !isF(bo.Y) {
				return
			}
			_, kx := bo.X.(*ssa.Const)
			_, ky := bo.Y.(*ssa.Const)
			n++
			ord++
			key := fmt.Sprintf("%s: Float %s #%d", fnName(fn), bo.Op, ord)
			top := outermost(fn)
			switch {
			case kx || ky:
				c.ok(key, c.P.Pos(bo.Pos()), "comparison with a constant (sign or range guard)")
			case top.Name() == "floatCmp":
				c.ok(key, c.P.Pos(bo.Pos()), "inside the float comparison helper, which handles NaN explicitly")
			default:
				c.viol(key, c.P.Pos(bo.Pos()), "two Float values are ordered with Go's native operator outside floatCmp: with a NaN operand the result contradicts the total order used by <, sorted and dict/set lookup")
			}
		})
	}
	if n == 0 {
		c.anchorFail("no native Float comparison found (expected those of floatCmp)")
	}
}

// ---------- H8: unlinking an entry repairs both neighbours ----------

func init() {
	register("H8", "removing an entry from the insertion-order list repairs both directions: any function that redirects a forward link of the hashtable's order list (ht.head, or the link a prevLink/tailLink pointer designates) to an entry's successor (a value loaded from entry.next) also stores the successor's prevLink and the table's tailLink in the same function; otherwise a later deletion writes through a stale back-pointer and the iteration order no longer matches the contents", 1, ruleH8)
	claim("C12", "H8")
}

func ruleH8(c *Ctx) {
	n := 0
	isEntryPtr := func(t types.Type) bool {
		pt, ok := t.(*types.Pointer)
		return ok && isNamed(pt.Elem(), "starlark", "entry")
	}
	for _, fn := range c.P.Funcs {
		if relPkg(fnPkgPath(fn)) != "starlark" {
			continue
		}
		var unlinks []*ssa.Store
		storesPrev, storesTail := false, false
		eachInstr(fn, func(in ssa.Instruction) {
			st, ok := in.(*ssa.Store)
			if !ok {
				return
			}
			if fa, ok := st.Addr.(*ssa.FieldAddr); ok {
				o, f := ownerField(fa)
				if o == "starlark.entry" && f == "prevLink" {
					storesPrev = true
				}
				if o == "starlark.hashtable" && f == "tailLink" {
					storesTail = true
				}
			}
			if !isEntryPtr(st.Val.Type()) {
				return
			}
			// destination is a forward link: ht.head, e.next, or *(**entry)
			isLink := false
			switch a := st.Addr.(type) {
			case *ssa.FieldAddr:
				o, f := ownerField(a)
				isLink = (o == "starlark.hashtable" && f == "head") || (o == "starlark.entry" && f == "next")
			case *ssa.UnOp:
				if a.Op == token.MUL {
					if pt, ok := a.Type().(*types.Pointer); ok && isEntryPtr(pt.Elem()) {
						isLink = true // *e.prevLink = ..., *ht.tailLink = ...
					}
				}
			}
			if !isLink {
				return
			}
			// value: loaded from some entry's next field
			tr := traceValue(st.Val)
			fromNext := false
			for i, f := range tr.fields {
				if f.Name() == "next" && isNamed(tr.owners[i], "starlark", "entry") {
					fromNext = true
				}
			}
			if fromNext {
				unlinks = append(unlinks, st)
			}
		})
		for i, st := range unlinks {
			n++
			key := fmt.Sprintf("%s: unlink #%d", fnName(fn), i+1)
			if storesPrev && storesTail {
				c.ok(key, c.P.Pos(st.Pos()), "the function also stores the successor's prevLink and the table's tailLink")
			} else {
				missing := "the successor's prevLink"
				if storesPrev {
					missing = "ht.tailLink"
				}
				c.viol(key, c.P.Pos(st.Pos()), "an order-list link is redirected to an entry's successor, but the function never stores "+missing+": the back-pointers of the list are left stale, and a later delete or insert corrupts the iteration order")
			}
		}
	}
	if n == 0 {
		c.anchorFail("no unlink of the order list found (expected the one in hashtable.delete)")
	}
}

// ---------- J6: trivial unquoting is chosen only for bytes JSON allows unescaped ----------

func init() {
	register("J6", "json.decode's shortcut for strings is confined to what JSON allows unescaped: the string scanner keeps its 'trivial unquoting is safe' flag only for bytes 0x20..0x7f other than the quote and the backslash - the classification is evaluated here for each of the 256 byte values by abstract execution of the scan loop's SSA; every other byte (control characters, non-ASCII) must clear the flag so that the string goes through encoding/json, which rejects raw control characters and validates UTF-8", 1, ruleJ6)
	claim("C18", "J6")
}

func ruleJ6(c *Ctx) {
	n := 0
	reach := pkgReach(c.P, "lib/json", "decode")
	for _, fn := range c.P.Funcs {
		if relPkg(fnPkgPath(fn)) != "lib/json" || !reach[fn] {
			continue
		}
		// the fallback: encoding/json.Unmarshal, reached on the false edge of the flag
		var flag ssa.Value
		var um *ssa.Call
		var scanFn *ssa.Function
		eachInstr(fn, func(in ssa.Instruction) {
			call, ok := in.(*ssa.Call)
			if !ok || in.Parent() != fn {
				return
			}
			if cal := call.Call.StaticCallee(); cal != nil && cal.String() == "encoding/json.Unmarshal" {
				for _, pf := range pathFacts(call.Block()) {
					cond, neg := pf.Cond, false
					if pf.Truth != neg {
						continue
					}
					switch x := cond.(type) {
					case *ssa.Phi:
						flag, um = cond, call
					case *ssa.Extract:
						// the scan lives in a helper: end, safe, closed := scanString(s, i)
						if hc, ok := x.Tuple.(*ssa.Call); ok {
							if g := hc.Call.StaticCallee(); g != nil && g.Blocks != nil && relPkg(fnPkgPath(g)) == "lib/json" {
								eachInstr(g, func(in2 ssa.Instruction) {
									if ret, ok := in2.(*ssa.Return); ok && x.Index < len(ret.Results) {
										if _, isPhi := ret.Results[x.Index].(*ssa.Phi); isPhi {
											flag, um = ret.Results[x.Index], call
											scanFn = g
										}
									}
								})
							}
						}
					}
				}
			}
		})
		if flag == nil {
			continue
		}
		if scanFn != nil {
			fn = scanFn
		}
		n++
		key := fnName(fn) + ": string scan classification"
		pos := c.P.Pos(um.Pos())
		// the flag's phi family
		fam := map[ssa.Value]bool{}
		var addFam func(v ssa.Value)
		addFam = func(v ssa.Value) {
			if ph, ok := v.(*ssa.Phi); ok && !fam[ph] {
				fam[ph] = true
				for _, e := range ph.Edges {
					addFam(e)
				}
			}
		}
		addFam(flag)
		// the byte read: a string index whose result is compared with '"' and '\\'
		var rd ssa.Value
		var rdIn ssa.Instruction
		eachInstr(fn, func(in ssa.Instruction) {
			v, ok := in.(ssa.Value)
			if !ok || in.Parent() != fn {
				return
			}
			switch in.(type) {
			case *ssa.Index, *ssa.Lookup:
			default:
				return
			}
			seenQ, seenB := false, false
			if refs := v.Referrers(); refs != nil {
				for _, r := range *refs {
					if bo, ok := r.(*ssa.BinOp); ok && bo.Op == token.EQL {
						if k, ok := constInt(bo.Y); ok {
							if k == '"' {
								seenQ = true
							}
							if k == '\\' {
								seenB = true
							}
						}
					}
				}
			}
			if seenQ && seenB {
				rd, rdIn = v, in
			}
		})
		if rd == nil {
			c.viol(key, pos, "cannot locate the scan loop's byte read (a string index compared with '\"' and '\\\\'): the set of strings that bypass encoding/json is undetermined")
			continue
		}
		header := flag.(*ssa.Phi).Block()
		var bad, undet []string
		for b := 0; b < 256; b++ {
			cleared, exited, ok := j6Run(fn, rdIn, rd, int64(b), fam, header)
			if !ok {
				undet = append(undet, fmt.Sprintf("0x%02x", b))
				continue
			}
			if exited || cleared {
				continue
			}
			if !(b >= 0x20 && b <= 0x7f && b != '"' && b != '\\') {
				bad = append(bad, fmt.Sprintf("0x%02x", b))
			}
		}
		switch {
		case len(undet) > 0:
			c.viol(key, pos, fmt.Sprintf("cannot evaluate the scan loop for byte(s) %s...: the set of strings that bypass encoding/json is undetermined", undet[0]))
		case len(bad) > 0:
			if len(bad) > 6 {
				bad = append(bad[:6], "...")
			}
			c.viol(key, pos, fmt.Sprintf("the string scanner keeps the trivial-unquoting flag for byte(s) %s, which JSON does not allow unescaped inside a string: such documents are accepted instead of rejected", strings.Join(bad, " ")))
		default:
			c.ok(key, pos, "flag kept only for 0x20..0x7f minus quote and backslash (evaluated for all 256 byte values)")
		}
	}
	if n == 0 {
		c.anchorFail("no string-unquoting fallback (encoding/json.Unmarshal under a flag) found in json.decode")
	}
}

// j6Run executes the loop body for one byte value: from the read instruction to the
// loop header (continue) or out of the loop (exit). cleared: the flag was set false.
func j6Run(fn *ssa.Function, rdIn ssa.Instruction, rd ssa.Value, b int64, fam map[ssa.Value]bool, header *ssa.BasicBlock) (cleared, exited, ok bool) {
	env := map[ssa.Value]int64{rd: b}
	eval := func(v ssa.Value) (int64, bool) {
		if k, ok := constInt(v); ok {
			return k, true
		}
		if x, ok := env[v]; ok {
			return x, true
		}
		return 0, false
	}
	blk := rdIn.Block()
	start := 0
	for i, in := range blk.Instrs {
		if in == rdIn {
			start = i + 1
		}
	}
	canReachHeader := func(b *ssa.BasicBlock) bool { return b == header || reachable(b, header) }
	for steps := 0; steps < 200; steps++ {
		var next *ssa.BasicBlock
		for _, in := range blk.Instrs[start:] {
			switch x := in.(type) {
			case *ssa.BinOp:
				a, ok1 := eval(x.X)
				c2, ok2 := eval(x.Y)
				if !ok1 || !ok2 {
					continue
				}
				t := func(v bool) int64 {
					if v {
						return 1
					}
					return 0
				}
				switch x.Op {
				case token.EQL:
					env[x] = t(a == c2)
				case token.NEQ:
					env[x] = t(a != c2)
				case token.LSS:
					env[x] = t(a < c2)
				case token.LEQ:
					env[x] = t(a <= c2)
				case token.GTR:
					env[x] = t(a > c2)
				case token.GEQ:
					env[x] = t(a >= c2)
				case token.AND:
					env[x] = a & c2
				case token.OR:
					env[x] = a | c2
				case token.SUB:
					env[x] = a - c2
				case token.ADD:
					env[x] = a + c2
				}
			case *ssa.UnOp:
				if x.Op == token.NOT {
					if v, ok := eval(x.X); ok {
						env[x] = 1 - v
					}
				}
			case *ssa.Convert:
				if v, ok := eval(x.X); ok {
					env[x] = v
				}
			case *ssa.Call:
				// pure byte-class helpers: isdigit(b) style - evaluate through the predicate interpreter
				if cal := x.Call.StaticCallee(); cal != nil && len(x.Call.Args) == 1 && cal.Blocks != nil {
					if a, ok := eval(x.Call.Args[0]); ok {
						if r, ok := evalByteFunc(cal, a); ok {
							env[x] = r
						}
					}
				}
			case *ssa.If:
				v, ok := eval(x.Cond)
				if !ok {
					if os.Getenv("VERIF_DEBUG") != "" {
						fmt.Fprintf(os.Stderr, "j6Run: b=%d undetermined condition %s in block %d\n", b, x.Cond, blk.Index)
					}
					return false, false, false
				}
				if v != 0 {
					next = blk.Succs[0]
				} else {
					next = blk.Succs[1]
				}
			case *ssa.Jump:
				next = blk.Succs[0]
			case *ssa.Return, *ssa.Panic:
				return cleared, true, true
			}
		}
		if next == nil {
			return false, false, false
		}
		// phi transfer for the flag family
		for _, in := range next.Instrs {
			ph, ok := in.(*ssa.Phi)
			if !ok {
				break
			}
			if !fam[ph] {
				// an ordinary phi (the value of an || or &&, a loop counter): take the incoming value if known
				for i, p := range next.Preds {
					if p == blk {
						if c, ok := ph.Edges[i].(*ssa.Const); ok && c.Value != nil && c.Value.Kind().String() == "Bool" {
							if c.Value.String() == "true" {
								env[ph] = 1
							} else {
								env[ph] = 0
							}
						} else if v, ok := eval(ph.Edges[i]); ok {
							env[ph] = v
						} else {
							delete(env, ph)
						}
					}
				}
				continue
			}
			for i, p := range next.Preds {
				if p != blk {
					continue
				}
				e := ph.Edges[i]
				if k, ok := e.(*ssa.Const); ok && k.Value != nil {
					cleared = k.Value.String() == "false"
				} else if fam[e] {
					// carried
				} else {
					return false, false, false
				}
			}
		}
		if next == header {
			return cleared, false, true
		}
		if !canReachHeader(next) {
			return cleared, true, true
		}
		blk, start = next, 0
	}
	return false, false, false
}

// evalByteFunc evaluates a one-argument byte/rune classification function (isdigit) on a constant.
func evalByteFunc(fn *ssa.Function, arg int64) (int64, bool) {
	if len(fn.Params) != 1 || len(fn.Blocks) == 0 {
		return 0, false
	}
	env := map[ssa.Value]int64{fn.Params[0]: arg}
	eval := func(v ssa.Value) (int64, bool) {
		if k, ok := constInt(v); ok {
			return k, true
		}
		if c, ok := v.(*ssa.Const); ok && c.Value != nil && c.Value.Kind().String() == "Bool" {
			if c.Value.String() == "true" {
				return 1, true
			}
			return 0, true
		}
		x, ok := env[v]
		return x, ok
	}
	blk := fn.Blocks[0]
	var prev *ssa.BasicBlock
	for steps := 0; steps < 100; steps++ {
		var next *ssa.BasicBlock
		for _, in := range blk.Instrs {
			switch x := in.(type) {
			case *ssa.Phi:
				for i, p := range blk.Preds {
					if p == prev {
						if v, ok := eval(x.Edges[i]); ok {
							env[x] = v
						} else {
							return 0, false
						}
					}
				}
			case *ssa.BinOp:
				a, ok1 := eval(x.X)
				c2, ok2 := eval(x.Y)
				if !ok1 || !ok2 {
					return 0, false
				}
				t := func(v bool) int64 {
					if v {
						return 1
					}
					return 0
				}
				switch x.Op {
				case token.EQL:
					env[x] = t(a == c2)
				case token.NEQ:
					env[x] = t(a != c2)
				case token.LSS:
					env[x] = t(a < c2)
				case token.LEQ:
					env[x] = t(a <= c2)
				case token.GTR:
					env[x] = t(a > c2)
				case token.GEQ:
					env[x] = t(a >= c2)
				case token.SUB:
					env[x] = a - c2
				case token.ADD:
					env[x] = a + c2
				case token.AND:
					env[x] = a & c2
				case token.OR:
					env[x] = a | c2
				default:
					return 0, false
				}
			case *ssa.Convert:
				if v, ok := eval(x.X); ok {
					env[x] = v
				}
			case *ssa.If:
				v, ok := eval(x.Cond)
				if !ok {
					return 0, false
				}
				prev = blk
				if v != 0 {
					next = blk.Succs[0]
				} else {
					next = blk.Succs[1]
				}
			case *ssa.Jump:
				prev = blk
				next = blk.Succs[0]
			case *ssa.Return:
				if len(x.Results) != 1 {
					return 0, false
				}
				return eval(x.Results[0])
			case *ssa.DebugRef:
			default:
				return 0, false
			}
		}
		if next == nil {
			return 0, false
		}
		blk = next
	}
	return 0, false
}

// ---------- S7: the interpreter loop keeps no per-thread state of its own ----------

func init() {
	register("S7", "the interpreter caches nothing on the thread: CallInternal and the unexported helpers it calls with the thread store to no field of Thread other than the step counter (and the profiler's bookkeeping); cancellation state lives only in the atomic cancelReason, so an error, a flag or a budget remembered on the thread cannot go stale across Cancel/Uncancel or survive a panicking hook", 1, ruleS7)
	claim("C07", "S7")
}

func ruleS7(c *Ctx) {
	fn := c.P.Func("starlark", "Function.CallInternal")
	if fn == nil {
		c.anchorFail("(*starlark.Function).CallInternal not found")
		return
	}
	var thread ssa.Value
	for _, p := range fn.Params {
		if qualType(p.Type()) == "starlark.Thread" {
			thread = p
		}
	}
	fns := []*ssa.Function{fn}
	seen := map[*ssa.Function]bool{fn: true}
	for _, an := range fn.AnonFuncs {
		fns = append(fns, an)
		seen[an] = true
	}
	eachInstr(fn, func(in ssa.Instruction) {
		call, ok := in.(ssa.CallInstruction)
		if !ok || thread == nil {
			return
		}
		cal := call.Common().StaticCallee()
		if cal == nil || cal.Blocks == nil || fnPkgPath(cal) != modPath+"/starlark" || seen[cal] {
			return
		}
		if cal.Object() != nil && cal.Object().Exported() {
			return // Call, Load callbacks etc.: API entry points with their own rules (P2, L3, L5)
		}
		for _, a := range call.Common().Args {
			if a == thread {
				seen[cal] = true
				fns = append(fns, cal)
			}
		}
	})
	n := 0
	allowed := map[string]string{"Steps": "the step counter (S1-S3)", "proftime": "profiler bookkeeping", "profStart": "profiler bookkeeping"}
	for _, g := range fns {
		eachInstr(g, func(in ssa.Instruction) {
			st, ok := in.(*ssa.Store)
			if !ok {
				return
			}
			fa, ok := st.Addr.(*ssa.FieldAddr)
			if !ok {
				return
			}
			o, f := ownerField(fa)
			if o != "starlark.Thread" {
				return
			}
			n++
			key := fmt.Sprintf("%s: store Thread.%s", fnName(g), f)
			if why, ok := allowed[f]; ok {
				c.ok(key, c.P.Pos(st.Pos()), why)
			} else if r, ok := w3Exceptions[fnName(outermost(g))]; ok {
				c.except(key, c.P.Pos(st.Pos()), r)
			} else {
				c.viol(key, c.P.Pos(st.Pos()), fmt.Sprintf("the interpreter (or a helper it calls with the thread) stores Thread.%s: state remembered on the thread outside the step counter and the atomic cancel reason can outlive the condition it was computed from (a stale error after Uncancel, a guard flag left set by a panic)", f))
			}
		})
	}
	if n == 0 {
		c.anchorFail("no store to a Thread field found in the interpreter (expected the step counter)")
	}
}

// ---------- R7: values cross into protobuf storage unaltered ----------

func init() {
	register("R7", "what is stored is what was written: in lib/proto the Go value handed to a protoreflect.ValueOf* constructor is obtained from the Starlark value by type conversion and range-checked integer narrowing only; no text or byte transformation (strings.*, bytes.*, unicode/utf8 repair functions, strconv) lies on the way, so an assignment either stores exactly the value or fails", 10, ruleR7)
	claim("C20", "R7")
}

func ruleR7(c *Ctx) {
	n := 0
	transformer := func(cal *ssa.Function) bool {
		if cal == nil || cal.Pkg == nil {
			return false
		}
		switch cal.Pkg.Pkg.Path() {
		case "strings", "bytes", "unicode/utf8", "unicode", "strconv", "unicode/utf16":
			switch cal.Name() {
			case "ValidString", "Valid", "RuneCountInString", "HasPrefix", "HasSuffix", "Contains", "Index", "IndexByte":
				return false // predicates and measurements do not produce the stored value
			}
			return true
		}
		return false
	}
	for _, fn := range c.P.Funcs {
		if relPkg(fnPkgPath(fn)) != "lib/proto" {
			continue
		}
		ord := map[string]int{}
		eachInstr(fn, func(in ssa.Instruction) {
			call, ok := in.(*ssa.Call)
			if !ok {
				return
			}
			cal := call.Call.StaticCallee()
			if cal == nil || cal.Pkg == nil || !strings.HasSuffix(cal.Pkg.Pkg.Path(), "reflect/protoreflect") || !strings.HasPrefix(cal.Name(), "ValueOf") || len(call.Call.Args) != 1 {
				return
			}
			n++
			base := fmt.Sprintf("%s: %s", fnName(fn), cal.Name())
			ord[base]++
			key := base
			if ord[base] > 1 {
				key = fmt.Sprintf("%s #%d", base, ord[base])
			}
			bad := ""
			for v := range backSlice(call.Call.Args[0]) {
				if c2, ok := v.(*ssa.Call); ok && transformer(c2.Call.StaticCallee()) {
					bad = c2.Call.StaticCallee().String()
				}
			}
			if bad != "" {
				c.viol(key, c.P.Pos(call.Pos()), fmt.Sprintf("the value stored into the message has passed through %s: the field no longer holds what the program assigned (two distinct inputs can collapse into one), although the assignment reports success", bad))
			} else {
				c.ok(key, c.P.Pos(call.Pos()), "conversion only")
			}
		})
	}
	if n < 10 {
		c.anchorFail("only %d protoreflect.ValueOf* calls found in lib/proto", n)
	}
}

// ---------- Q6: str of a string is that string ----------

func init() {
	register("Q6", "str(s) is s: in the str built-in, every return on the branch where the argument is a String yields the argument itself - not the result of a call (a transcoding or normalisation would change strings that hold fragments of a UTF-8 sequence)", 1, ruleQ6)
	claim("C15", "Q6")
}

func ruleQ6(c *Ctx) {
	fn := c.P.Func("starlark", "str")
	if fn == nil {
		c.anchorFail("starlark.str not found")
		return
	}
	n := 0
	eachInstr(fn, func(in ssa.Instruction) {
		ta, ok := in.(*ssa.TypeAssert)
		if !ok || !ta.CommaOk || !isNamed(ta.AssertedType, "starlark", "String") {
			return
		}
		var okEx, valEx *ssa.Extract
		for _, r := range *ta.Referrers() {
			if ex, ok := r.(*ssa.Extract); ok {
				if ex.Index == 1 {
					okEx = ex
				} else {
					valEx = ex
				}
			}
		}
		if okEx == nil {
			return
		}
		for _, b := range fn.Blocks {
			if len(b.Instrs) == 0 {
				continue
			}
			ret, ok := b.Instrs[len(b.Instrs)-1].(*ssa.Return)
			if !ok || len(ret.Results) != 2 || !isNilConst(ret.Results[1]) {
				continue
			}
			onString := false
			for _, pf := range pathFacts(b) {
				cond, neg := pf.Cond, false
				if cond == ssa.Value(okEx) && pf.Truth != neg {
					onString = true
				}
			}
			if !onString {
				continue
			}
			n++
			key := "starlark.str: String arm"
			v := ret.Results[0]
			if mi, ok := v.(*ssa.MakeInterface); ok {
				v = mi.X
			}
			if (valEx != nil && v == ssa.Value(valEx)) || v == ta.X {
				c.ok(key, c.P.Pos(ret.Pos()), "returns the argument unchanged")
			} else {
				c.viol(key, c.P.Pos(ret.Pos()), "on the branch where the argument is already a string, str returns something other than the argument itself: str(s) != s for some s")
			}
		}
	})
	if n == 0 {
		c.viol("starlark.str: String arm", c.P.Pos(fn.Pos()), "str has no branch that returns a String argument unchanged: strings are routed through a conversion")
	}
}

// ---------- Z6: decoded constants do not share storage ----------

func init() {
	register("Z6", "every decoded big-integer constant is its own object: in the program decoder a *big.Int that a loop fills (SetString, SetBytes, Set...) and hands on is allocated inside that loop iteration; a big.Int hoisted out of the loop would make all big constants of a reloaded program alias one value - the last one decoded", 1, ruleZ6)
	claim("C17", "Z6")
}

func ruleZ6(c *Ctx) {
	n := 0
	inLoop := func(b *ssa.BasicBlock) bool { return reachable(b, b) }
	for _, fn := range c.P.Funcs {
		if relPkg(fnPkgPath(fn)) != "internal/compile" {
			continue
		}
		top := outermost(fn)
		if !strings.Contains(strings.ToLower(top.Name()), "decode") && !(top.Signature.Recv() != nil && strings.Contains(qualType(top.Signature.Recv().Type()), "decoder")) {
			continue
		}
		eachInstr(fn, func(in ssa.Instruction) {
			call, ok := in.(*ssa.Call)
			if !ok {
				return
			}
			cal := call.Call.StaticCallee()
			if cal == nil || cal.Signature.Recv() == nil || !strings.HasPrefix(cal.Name(), "Set") {
				return
			}
			if pp, tn := namedOf(cal.Signature.Recv().Type()); pp != "math/big" || tn != "Int" {
				return
			}
			n++
			key := fmt.Sprintf("%s: big.Int.%s receiver", fnName(fn), cal.Name())
			recv := call.Call.Args[0]
			al, isAlloc := recv.(*ssa.Alloc)
			switch {
			case !inLoop(call.Block()):
				c.ok(key, c.P.Pos(call.Pos()), "not in a loop")
			case isAlloc && inLoop(al.Block()) && (al.Block() == call.Block() || al.Block().Dominates(call.Block())):
				c.ok(key, c.P.Pos(call.Pos()), "receiver allocated in the same loop iteration")
			default:
				c.viol(key, c.P.Pos(call.Pos()), "a big.Int that is filled inside a decoding loop is not allocated inside that loop: every constant decoded through it is the same pointer, so all of them end up denoting the last value")
			}
		})
	}
	if n == 0 {
		c.anchorFail("no big.Int decoding found in the program decoder")
	}
}

// ---------- Q7: isFinite classifies the extreme finite values as finite ----------

func init() {
	register("Q7", "every finite float is finite: each helper that decides whether a float64 is finite (isFinite in the value package and in lib/json) is evaluated - by interpreting its SSA, not by running it - on one representative of every region its comparisons delimit (0, +-1, +-MaxFloat64, +-Inf, NaN) and must answer true exactly for the non-infinite, non-NaN ones; an off-by-one-ulp bound (< instead of <=) would print the largest finite float as nan", 1, ruleQ7)
	claim("C15", "Q7")
	claim("C18", "Q7")
}

func ruleQ7(c *Ctx) {
	n := 0
	reps := []float64{0, math.Copysign(0, -1), 1, -1, math.SmallestNonzeroFloat64, math.MaxFloat64, -math.MaxFloat64, math.Inf(1), math.Inf(-1), math.NaN()}
	for _, fn := range c.P.Funcs {
		if !isProdPkg(fnPkgPath(fn)) || fn.Signature.Recv() != nil || fn.Parent() != nil {
			continue
		}
		ps, rs := fn.Signature.Params(), fn.Signature.Results()
		if ps.Len() != 1 || rs.Len() != 1 {
			continue
		}
		pb, rb := basicOf(ps.At(0).Type()), basicOf(rs.At(0).Type())
		if pb == nil || rb == nil || pb.Kind() != types.Float64 || rb.Info()&types.IsBoolean == 0 {
			continue
		}
		if !strings.Contains(strings.ToLower(fn.Name()), "finite") {
			continue
		}
		n++
		key := fnName(fn)
		bad := ""
		for _, f := range reps {
			r, ok := sinterpFunc(fn, svFloat(f))
			if !ok || r.k != 'b' {
				bad = fmt.Sprintf("cannot be evaluated for %v (an operation the abstract executor does not model)", f)
				break
			}
			want := !math.IsInf(f, 0) && !math.IsNaN(f)
			if r.b != want {
				bad = fmt.Sprintf("answers %v for %v", r.b, f)
				break
			}
		}
		if bad != "" {
			c.viol(key, c.P.Pos(fn.Pos()), key+" "+bad+": callers print, hash or encode that float as if it were (non-)finite")
		} else {
			c.ok(key, c.P.Pos(fn.Pos()), fmt.Sprintf("correct on all %d representatives (0, -0, +-1, denormal, +-MaxFloat64, +-Inf, NaN)", len(reps)))
		}
	}
	if n < 1 {
		c.anchorFail("no isFinite helper found")
	}
}

// ---------- A10: AsInt accepts exactly the range of the target type ----------

func init() {
	register("A10", "sized integer parameters accept exactly their range: the range test in AsInt (the conversion behind UnpackArgs' *int8 ... *uint64 targets) is evaluated - abstractly, on the SSA of the function - for every width 8/16/32/64 at the values just inside and just outside the type's range, and must reject exactly the outside ones (accepting 2^(bits-1) would wrap to a negative number in the target)", 1, ruleA10)
	claim("C08", "A10")
	claim("C10", "A10")
}

func ruleA10(c *Ctx) {
	fn := c.P.Func("starlark", "AsInt")
	if fn == nil {
		c.anchorFail("starlark.AsInt not found")
		return
	}
	// bits = ptrt.Elem().Size() * 8
	var bitsV ssa.Value
	eachInstr(fn, func(in ssa.Instruction) {
		if bo, ok := in.(*ssa.BinOp); ok && bo.Op == token.MUL {
			if k, ok := constInt(bo.Y); ok && k == 8 {
				bitsV = bo
			}
			if k, ok := constInt(bo.X); ok && k == 8 {
				bitsV = bo
			}
		}
	})
	if bitsV == nil {
		c.anchorFail("AsInt: the width computation (Size() * 8) was not found")
		return
	}
	type arm struct {
		call   *ssa.Call
		signed bool
	}
	var arms []arm
	eachInstr(fn, func(in ssa.Instruction) {
		if call, ok := in.(*ssa.Call); ok && in.Parent() == fn {
			if cal := call.Call.StaticCallee(); cal != nil && cal.Signature.Recv() != nil && isNamed(cal.Signature.Recv().Type(), "starlark", "Int") {
				switch cal.Name() {
				case "Int64":
					arms = append(arms, arm{call, true})
				case "Uint64":
					arms = append(arms, arm{call, false})
				}
			}
		}
	})
	if len(arms) < 2 {
		c.anchorFail("AsInt: expected an Int64 arm and a Uint64 arm, found %d", len(arms))
		return
	}
	run := func(a arm, bits uint64, v sval) (accepted, ok bool) {
		s := &sinterp{env: map[ssa.Value]sval{}}
		s.env[bitsV] = svUint(bits)
		for _, r := range *a.call.Referrers() {
			if ex, ok := r.(*ssa.Extract); ok {
				if ex.Index == 0 {
					s.env[ex] = v
					s.markInput(ex)
				} else {
					s.env[ex] = svBool(true)
				}
			}
		}
		blk := a.call.Block()
		start := 0
		for i, in := range blk.Instrs {
			if in == ssa.Instruction(a.call) {
				start = i + 1
			}
		}
		for steps := 0; steps < 100; steps++ {
			if steps > 0 {
				for _, in := range blk.Instrs {
					if ta, ok := in.(*ssa.TypeAssert); ok && len(fn.Params) > 1 && ta.X == ssa.Value(fn.Params[1]) {
						return true, true // reached the inner switch that assigns to the target
					}
				}
			}
			next, ret, ok := s.step(blk, start)
			if !ok || s.nonCmp {
				return false, false
			}
			if ret != nil {
				last := ret.Results[len(ret.Results)-1]
				return isNilConst(last), true
			}
			blk, start = next, 0
		}
		return false, false
	}
	for _, a := range arms {
		for _, bits := range []uint64{8, 16, 32, 64} {
			kind := "unsigned"
			if a.signed {
				kind = "signed"
			}
			key := fmt.Sprintf("starlark.AsInt: %s %d-bit range", kind, bits)
			type tc struct {
				v    sval
				want bool
				desc string
			}
			var tcs []tc
			if a.signed {
				if bits < 64 {
					lo, hi := -(int64(1) << (bits - 1)), int64(1)<<(bits-1)-1
					tcs = []tc{{svInt(lo - 1), false, "min-1"}, {svInt(lo), true, "min"}, {svInt(-1), true, "-1"}, {svInt(0), true, "0"}, {svInt(hi), true, "max"}, {svInt(hi + 1), false, "max+1"}}
				} else {
					tcs = []tc{{svInt(math.MinInt64), true, "min"}, {svInt(math.MaxInt64), true, "max"}, {svInt(0), true, "0"}}
				}
			} else {
				if bits < 64 {
					hi := uint64(1)<<bits - 1
					tcs = []tc{{svUint(0), true, "0"}, {svUint(hi), true, "max"}, {svUint(hi + 1), false, "max+1"}}
				} else {
					tcs = []tc{{svUint(0), true, "0"}, {svUint(math.MaxUint64), true, "max"}}
				}
			}
			bad := ""
			for _, t := range tcs {
				acc, ok := run(a, bits, t.v)
				if !ok {
					bad = "the range test cannot be evaluated for " + t.desc + " (an operation the abstract executor does not model)"
					break
				}
				if acc != t.want {
					verb := "rejects"
					if acc {
						verb = "accepts"
					}
					bad = fmt.Sprintf("AsInt %s %s of the %s %d-bit range", verb, t.desc, kind, bits)
					break
				}
			}
			if bad != "" {
				c.viol(key, c.P.Pos(a.call.Pos()), bad+": a built-in with a sized integer parameter receives a wrapped value or refuses a legal one")
			} else {
				c.ok(key, c.P.Pos(a.call.Pos()), fmt.Sprintf("accepts exactly the range (%d boundary values evaluated)", len(tcs)))
			}
		}
	}
}

// ---------- Q8: \u and \U escapes denote exactly the Unicode scalar values ----------

func init() {
	register("Q8", "code-point escapes are validated exactly: the checks that follow the parsing of a \\uXXXX / \\UXXXXXXXX escape in unquote are evaluated (abstractly, on the function's SSA) at the boundaries of the Unicode scalar-value ranges - 0xD7FF, 0xD800, 0xDFFF, 0xE000, 0x10FFFF, 0x110000 - and must reject exactly the surrogates and the values above U+10FFFF; Quote never produces such escapes, so reading back what was printed depends on the accepted set being exact", 1, ruleQ8)
	claim("C15", "Q8")
	claim("C14", "Q8")
}

func ruleQ8(c *Ctx) {
	// the \u arm: a strconv.ParseUint call whose result is compared with unicode.MaxRune (in unquote or a helper of it)
	var call *ssa.Call
	var fn *ssa.Function
	_ = fn
	for _, f := range c.P.Funcs {
		if relPkg(fnPkgPath(f)) != "syntax" {
			continue
		}
		f := f
		eachInstr(f, func(in ssa.Instruction) {
			cl, ok := in.(*ssa.Call)
			if !ok || in.Parent() != f {
				return
			}
			if cal := cl.Call.StaticCallee(); cal == nil || cal.String() != "strconv.ParseUint" {
				return
			}
			for _, r := range *cl.Referrers() {
				ex, ok := r.(*ssa.Extract)
				if !ok || ex.Index != 0 || ex.Referrers() == nil {
					continue
				}
				for _, u := range *ex.Referrers() {
					if bo, ok := u.(*ssa.BinOp); ok {
						if k, ok := constInt(bo.Y); ok && k == 0x10FFFF {
							call, fn = cl, f
						}
						if k, ok := constInt(bo.X); ok && k == 0x10FFFF {
							call, fn = cl, f
						}
					}
				}
			}
		})
	}
	key := "syntax.unquote: \\u escape range"
	if call == nil {
		c.viol(key, "-", "no check of the parsed code point against unicode.MaxRune found after strconv.ParseUint: escapes above U+10FFFF are not rejected")
		return
	}
	run := func(n uint64) (accepted, ok bool) {
		s := &sinterp{env: map[ssa.Value]sval{}}
		for _, r := range *call.Referrers() {
			if ex, ok := r.(*ssa.Extract); ok {
				if ex.Index == 0 {
					s.env[ex] = svUint(n)
					s.markInput(ex)
				} else {
					s.env[ex] = sval{k: 'n'} // err == nil
				}
			}
		}
		blk := call.Block()
		start := 0
		for i, in := range blk.Instrs {
			if in == ssa.Instruction(call) {
				start = i + 1
			}
		}
		for steps := 0; steps < 60; steps++ {
			for _, in := range blk.Instrs[start:] {
				if cl, ok := in.(*ssa.Call); ok {
					if cal := cl.Call.StaticCallee(); cal != nil {
						if cal.String() == "fmt.Errorf" {
							return false, true
						}
						if cal.Signature.Recv() != nil && strings.HasPrefix(cal.Name(), "Write") {
							return true, true
						}
					}
				}
			}
			next, ret, ok := s.step(blk, start)
			if !ok || s.nonCmp {
				return false, false
			}
			if ret != nil {
				// a helper: accepted iff it returns a nil error
				if len(ret.Results) > 0 && ret.Results[len(ret.Results)-1].Type().String() == "error" {
					return isNilConst(ret.Results[len(ret.Results)-1]), true
				}
				return false, false
			}
			blk, start = next, 0
		}
		return false, false
	}
	reps := []uint64{0, 0x41, 0x7f, 0x80, 0xff, 0xd7ff, 0xd800, 0xdbff, 0xdc00, 0xdfff, 0xe000, 0xffff, 0x10000, 0x10ffff, 0x110000, 0xffffffff}
	bad := ""
	for _, n := range reps {
		acc, ok := run(n)
		if !ok {
			bad = fmt.Sprintf("the checks cannot be evaluated for U+%04X (an operation the abstract executor does not model)", n)
			break
		}
		want := n <= 0x10ffff && !(n >= 0xd800 && n <= 0xdfff)
		if acc != want {
			verb := "rejects"
			if acc {
				verb = "accepts"
			}
			bad = fmt.Sprintf("unquote %s the escape for U+%04X", verb, n)
			break
		}
	}
	if bad != "" {
		c.viol(key, c.P.Pos(call.Pos()), bad+": the set of code-point escapes accepted is not exactly the Unicode scalar values")
	} else {
		c.ok(key, c.P.Pos(call.Pos()), fmt.Sprintf("accepts exactly the scalar values (%d boundary code points evaluated)", len(reps)))
	}
}

// ---------- I10: the representation switch-over points are exactly the int32 limits ----------

func init() {
	register("I10", "small means int32: MakeInt64 and MakeUint64 are evaluated (abstractly, on their SSA) at the values just inside and just outside the int32 range and must choose the unchecked small constructor exactly for the values that fit; a bound that is off by one stores 2^31 in the small form, which the packed representation misreads", 2, ruleI10)
	claim("C10", "I10")
}

func ruleI10(c *Ctx) {
	n := 0
	for _, name := range []string{"MakeInt64", "MakeUint64"} {
		fn := c.P.Func("starlark", name)
		if fn == nil {
			c.anchorFail("starlark.%s not found", name)
			continue
		}
		n++
		key := "starlark." + name + ": small/big switch-over"
		run := func(v sval) (small, ok bool) {
			s := &sinterp{env: map[ssa.Value]sval{fn.Params[0]: v}}
			s.markInput(fn.Params[0])
			blk := fn.Blocks[0]
			for steps := 0; steps < 50; steps++ {
				for _, in := range blk.Instrs {
					if cl, ok := in.(*ssa.Call); ok {
						if cal := cl.Call.StaticCallee(); cal != nil {
							switch cal.Name() {
							case "makeSmallInt":
								return true, true
							case "makeBigInt":
								return false, true
							}
						}
					}
				}
				next, ret, ok := s.step(blk, 0)
				if !ok || ret != nil || s.nonCmp {
					return false, false
				}
				blk = next
			}
			return false, false
		}
		var reps []sval
		if name == "MakeInt64" {
			for _, x := range []int64{math.MinInt64, math.MinInt32 - 1, math.MinInt32, -1, 0, 1, math.MaxInt32, math.MaxInt32 + 1, math.MaxInt64} {
				reps = append(reps, svInt(x))
			}
		} else {
			for _, x := range []uint64{0, 1, math.MaxInt32, math.MaxInt32 + 1, math.MaxUint32, math.MaxInt64, math.MaxUint64} {
				reps = append(reps, svUint(x))
			}
		}
		bad := ""
		for _, v := range reps {
			small, ok := run(v)
			var want bool
			var show string
			if v.k == 'i' {
				want = v.i >= math.MinInt32 && v.i <= math.MaxInt32
				show = fmt.Sprint(v.i)
			} else {
				want = v.u <= math.MaxInt32
				show = fmt.Sprint(v.u)
			}
			if !ok {
				bad = "cannot be evaluated for " + show
				break
			}
			if small != want {
				which := "big"
				if small {
					which = "small"
				}
				bad = fmt.Sprintf("chooses the %s representation for %s", which, show)
				break
			}
		}
		if bad != "" {
			c.viol(key, c.P.Pos(fn.Pos()), "starlark."+name+" "+bad+": the canonical-representation invariant (small iff the value fits in int32) is broken at the boundary")
		} else {
			c.ok(key, c.P.Pos(fn.Pos()), fmt.Sprintf("small exactly for the int32 range (%d boundary values evaluated)", len(reps)))
		}
	}
	if n == 0 {
		c.anchorFail("MakeInt64/MakeUint64 not found")
	}
}

// n10InterpOperand: the asserted value is read from the frame's operand stack or locals in
// CallInternal (or from a slice parameter that CallInternal fills from them).
func n10InterpOperand(fn *ssa.Function, ta *ssa.TypeAssert, depth int) string {
	isFrameStorage := func(f *ssa.Function, v ssa.Value) bool {
		if !methodIs(outermost(f), "starlark", "Function", "CallInternal") {
			return false
		}
		tr := traceValue(v)
		for _, b := range tr.bases {
			switch x := b.v.(type) {
			case *ssa.MakeSlice:
				if sl, ok := x.Type().Underlying().(*types.Slice); ok && isNamed(sl.Elem(), "starlark", "Value") {
					return true
				}
			case *ssa.Parameter:
				// fn.freevars / fn.funcode via the receiver: cells of the function
				if len(tr.fields) > 0 && (tr.fields[len(tr.fields)-1].Name() == "freevars") {
					return true
				}
			}
		}
		return false
	}
	if isFrameStorage(fn, ta.X) {
		return "operand taken from the frame's operand stack / locals: its type is fixed by the instruction sequence the compiler emits for this opcode (V8, V5)"
	}
	if depth >= 1 {
		return ""
	}
	// slice parameter of an unexported helper that every caller fills from the frame's storage
	tr := traceValue(ta.X)
	for _, b := range tr.bases {
		p, ok := b.v.(*ssa.Parameter)
		if !ok || p.Parent() != fn || fn.Object() == nil || fn.Object().Exported() {
			continue
		}
		idx := -1
		for i, q := range fn.Params {
			if q == p {
				idx = i
			}
		}
		callers := 0
		all := true
		for _, g := range curProg.Funcs {
			eachInstr(g, func(in ssa.Instruction) {
				ci, ok := in.(ssa.CallInstruction)
				if !ok || ci.Common().StaticCallee() != fn || idx < 0 || idx >= len(ci.Common().Args) {
					return
				}
				callers++
				if !isFrameStorage(g, ci.Common().Args[idx]) {
					all = false
				}
			})
		}
		if callers > 0 && all {
			return "operand handed over from the frame's operand stack by the interpreter (every caller passes a window of it): its type is fixed by the compiler's instruction sequence (V8)"
		}
	}
	return ""
}
