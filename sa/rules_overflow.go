package main

import (
	"fmt"
	"go/token"
	"go/types"
	"strings"

	"golang.org/x/tools/go/ssa"
)

func init() {
	register("I6T", "script-integer overflow in lib/time: 64-bit arithmetic on an integer operand supplied by the script (duration * int) is overflow-checked or bounded", 1, ruleI6T)
	register("I6", "script-integer overflow: Go integer +, -, * and << on 64-bit operands that are full-range integers chosen by the script (unpacked into a Go int, obtained from Int64/Uint64, or fields of rangeValue) are preceded by a dominating bound on the operand, or listed with the reason why wrapping is harmless; otherwise the built-in can wrap silently", 3, ruleI6)
}

// i6Exceptions: arithmetic on full-range script integers that cannot change a result.
var i6Exceptions = map[string]string{
	"(starlark.rangeValue).Index: MUL":    "0 <= i < len, and len was computed so that start + i*step is an element between start and stop (sound whenever rangeLen did not overflow, which is the separate known finding)",
	"(starlark.rangeValue).Index: ADD":    "same invariant as the multiplication: start + i*step is an element of the range",
	"(starlark.rangeValue).Slice: MUL":    "start <= len: r.start + r.step*start is an element (or the end) of the range",
	"(starlark.rangeValue).Slice: ADD":    "same invariant",
	"(starlark.rangeValue).Slice: MUL #2": "end <= len: r.start + r.step*end is an element (or the end) of the range",
	"(starlark.rangeValue).Slice: ADD #2": "same invariant",
	"(starlark.rangeValue).contains: SUB": "a wrapped delta cannot alias an in-range one: start+d is an element of the range, so start+d+-2^64 is not an int64; the later divisibility/range test therefore still answers correctly",
}

// i6Known: confirmed genuine overflow sites (also listed in known_findings.json).
func ruleI6(c *Ctx)  { ruleI6In(c, "", 3) }
func ruleI6T(c *Ctx) { ruleI6In(c, modPath+"/lib/time", 1) }

func ruleI6In(c *Ctx, onlyPkg string, floor int) {
	n := 0
	ordinals := map[string]int{}
	// seeds: as in N2, plus int fields of rangeValue (start, stop, step, len are full-range Go ints)
	paramSeed := map[*ssa.Parameter]string{}
	for _, fn := range c.P.Funcs {
		if !isProdPkg(fnPkgPath(fn)) {
			continue
		}
		taint := i6Taint(fn)
		eachInstr(fn, func(in ssa.Instruction) {
			call, ok := in.(*ssa.Call)
			if !ok {
				return
			}
			cal := call.Call.StaticCallee()
			if cal == nil || cal.Blocks == nil || !strings.HasPrefix(fnPkgPath(cal), modPath) {
				return
			}
			for i, a := range call.Call.Args {
				if src := taint[a]; src != "" && i < len(cal.Params) && !boundedBothSides(call.Block(), a) {
					paramSeed[cal.Params[i]] = src + " in " + fnName(fn)
				}
			}
		})
	}
	for _, fn := range c.P.Funcs {
		if !isProdPkg(fnPkgPath(fn)) {
			continue
		}
		taint := i6Taint(fn)
		seeded := false
		for _, p := range fn.Params {
			if src, ok := paramSeed[p]; ok {
				taint[p] = "parameter " + p.Name() + " <- " + src
				seeded = true
			}
		}
		if seeded {
			propagateTaintNoArith(fn, taint)
		}
		if onlyPkg != "" && fnPkgPath(fn) != onlyPkg {
			continue
		}
		eachInstr(fn, func(in ssa.Instruction) {
			// sign-changing conversion of a full-range unsigned script integer
			if cv, ok := in.(*ssa.Convert); ok {
				src := taint[cv.X]
				sb, ok1 := cv.X.Type().Underlying().(*types.Basic)
				db, ok2 := cv.Type().Underlying().(*types.Basic)
				if src != "" && ok1 && ok2 && (sb.Kind() == types.Uint64 || sb.Kind() == types.Uint) && (db.Kind() == types.Int64 || db.Kind() == types.Int) && reachesNumberSink(cv, map[ssa.Value]bool{}, 0) {
					n++
					key := fmt.Sprintf("%s: CONV unsigned->signed", fnName(fn))
					ordinals[key]++
					if k := ordinals[key]; k > 1 {
						key = fmt.Sprintf("%s #%d", key, k)
					}
					if boundedBothSides(cv.Block(), cv.X) || upperBounded(cv.Block(), cv.X) {
						c.ok(key, c.P.Pos(cv.Pos()), "the unsigned value ("+src+") is bounded by a dominating comparison before it is reinterpreted as signed")
					} else if r, ok := i6Exceptions[key]; ok {
						c.except(key, c.P.Pos(cv.Pos()), r)
					} else {
						c.viol(key, c.P.Pos(cv.Pos()), fmt.Sprintf("an unsigned 64-bit integer chosen by the script (%s) is converted to a signed one without a dominating bound: values of 2^63 and above turn negative and the built-in answers with a wrong number", src))
					}
				}
				return
			}
			b, ok := in.(*ssa.BinOp)
			if !ok {
				return
			}
			switch b.Op {
			case token.ADD, token.SUB, token.MUL, token.SHL:
			default:
				return
			}
			bt, ok := b.Type().Underlying().(*types.Basic)
			if !ok || bt.Info()&types.IsInteger == 0 {
				return
			}
			switch bt.Kind() {
			case types.Int, types.Int64, types.Uint64, types.Uint:
			default:
				return
			}
			sx, sy := taint[b.X], taint[b.Y]
			if sx == "" && sy == "" {
				return
			}
			// only arithmetic whose (possibly wrapped) result becomes a script-visible number:
			// index normalisation feeding a bounds check fails loudly and is not judged here
			if !reachesNumberSink(b, map[ssa.Value]bool{}, 0) {
				return
			}
			// bounded operands?
			okX := sx == "" || boundedBothSides(b.Block(), b.X)
			okY := sy == "" || boundedBothSides(b.Block(), b.Y)
			n++
			key := fmt.Sprintf("%s: %s", fnName(fn), b.Op)
			switch b.Op {
			case token.ADD:
				key = fmt.Sprintf("%s: ADD", fnName(fn))
			case token.SUB:
				key = fmt.Sprintf("%s: SUB", fnName(fn))
			case token.MUL:
				key = fmt.Sprintf("%s: MUL", fnName(fn))
			case token.SHL:
				key = fmt.Sprintf("%s: SHL", fnName(fn))
			}
			ordinals[key]++
			if k := ordinals[key]; k > 1 {
				key = fmt.Sprintf("%s #%d", key, k)
			}
			pos := c.P.Pos(b.Pos())
			src := sx
			if src == "" {
				src = sy
			}
			if okX && okY {
				c.ok(key, pos, "operand(s) from the script ("+src+") are range-checked by a dominating comparison")
				return
			}
			if why := i6Safe(b, taint); why != "" {
				c.ok(key, pos, why)
				return
			}
			if r, ok := i6Exceptions[key]; ok {
				c.except(key, pos, r)
				return
			}
			c.viol(key, pos, fmt.Sprintf("64-bit Go arithmetic on an integer chosen by the script (%s) with no dominating bound: for values near the ends of the int64 range the operation wraps and the built-in answers silently with a wrong value", src))
		})
	}
	if n < floor {
		c.anchorFail("only %d arithmetic sites on script integers found", n)
	}
}

// i6Taint: full-range script integers (not AsInt32 results, which are already narrow).
func i6Taint(fn *ssa.Function) map[ssa.Value]string {
	t := scriptIntTaintRaw(fn)
	// fields of rangeValue
	eachInstr(fn, func(in ssa.Instruction) {
		switch x := in.(type) {
		case *ssa.Call:
			// the seconds or nanoseconds since the epoch of an instant the script built: any 64-bit value
			if cal := x.Call.StaticCallee(); cal != nil && fnPkgPath(cal) == "time" && cal.Signature.Recv() != nil && strings.HasPrefix(cal.Name(), "Unix") {
				if _, tn := namedOf(cal.Signature.Recv().Type()); tn == "Time" {
					t[x] = "time.Time." + cal.Name() + "() of an instant built by the script"
				}
			}
		case *ssa.Field:
			if _, n := namedOf(x.X.Type()); strings.HasPrefix(n, "range") {
				t[x] = "rangeValue." + x.X.Type().Underlying().(*types.Struct).Field(x.Field).Name()
			}
		case *ssa.UnOp:
			if x.Op == token.MUL {
				if fa, ok := x.X.(*ssa.FieldAddr); ok {
					if _, n := namedOf(fa.X.Type()); strings.HasPrefix(n, "range") {
						t[x] = "rangeValue field"
					}
				}
			}
		}
	})
	propagateTaintNoArith(fn, t)
	return t
}

// scriptIntTaintRaw: sources only (unpacked Go ints of 64-bit width, Int64/Uint64 results).
func scriptIntTaintRaw(fn *ssa.Function) map[ssa.Value]string {
	all := scriptIntTaint(fn)
	out := map[ssa.Value]string{}
	for v, s := range all {
		if strings.Contains(s, "AsInt32") {
			continue
		}
		// keep only direct sources (loads of unpacked variables, extracts), not derived arithmetic
		switch v.(type) {
		case *ssa.UnOp, *ssa.Extract:
			bt, ok := v.Type().Underlying().(*types.Basic)
			if ok && (bt.Kind() == types.Int || bt.Kind() == types.Int64 || bt.Kind() == types.Uint64 || bt.Kind() == types.Uint) {
				out[v] = s
			}
		}
	}
	return out
}

// propagateTaintNoArith: through conversions between 64-bit integer types and phis only
// (the result of an arithmetic operation is judged where it is computed).
func propagateTaintNoArith(fn *ssa.Function, taint map[ssa.Value]string) {
	for changed := true; changed; {
		changed = false
		eachInstr(fn, func(in ssa.Instruction) {
			v, ok := in.(ssa.Value)
			if !ok || taint[v] != "" {
				return
			}
			switch x := in.(type) {
			case *ssa.Convert:
				if s := taint[x.X]; s != "" {
					if bt, ok := x.Type().Underlying().(*types.Basic); ok && bt.Info()&types.IsInteger != 0 {
						switch bt.Kind() {
						case types.Int, types.Int64, types.Uint64, types.Uint:
							taint[v] = s
							changed = true
						}
					}
				}
			case *ssa.ChangeType:
				if s := taint[x.X]; s != "" {
					taint[v] = s
					changed = true
				}
			case *ssa.Phi:
				if isMinPhi(x, taint) {
					return
				}
				for _, e := range x.Edges {
					if s := taint[e]; s != "" {
						taint[v] = s
						changed = true
						break
					}
				}
			}
		})
	}
}

// boundedBothSides: v is bounded above and below by dominating comparisons
// (or is non-negative by a test and bounded above).
func boundedBothSides(b *ssa.BasicBlock, v ssa.Value) bool {
	upper, lower := false, false
	roots := backSlice(v)
	for k := range roots {
		if _, isK := k.(*ssa.Const); isK {
			delete(roots, k)
		}
	}
	derives := func(x ssa.Value) bool {
		for y := range backSlice(x) {
			if roots[y] {
				return true
			}
		}
		return false
	}
	for _, pf := range pathFacts(b) {
		cond, taken := pf.Cond, pf.Truth
		bo, ok := cond.(*ssa.BinOp)
		if !ok {
			continue
		}
		// only numeric comparisons bound a number (err == nil on the same call's other result does not)
		if bt, ok := bo.X.Type().Underlying().(*types.Basic); !ok || bt.Info()&types.IsNumeric == 0 {
			continue
		}
		xr, yr := derives(bo.X), derives(bo.Y)
		if xr == yr {
			continue
		}
		// normalise to: v REL other
		op := bo.Op
		if yr {
			switch op {
			case token.LSS:
				op = token.GTR
			case token.LEQ:
				op = token.GEQ
			case token.GTR:
				op = token.LSS
			case token.GEQ:
				op = token.LEQ
			}
		}
		if !taken {
			switch op {
			case token.LSS:
				op = token.GEQ
			case token.LEQ:
				op = token.GTR
			case token.GTR:
				op = token.LEQ
			case token.GEQ:
				op = token.LSS
			case token.EQL:
				op = token.NEQ
			case token.NEQ:
				op = token.EQL
			}
		}
		switch op {
		case token.LSS, token.LEQ:
			upper = true
		case token.GTR, token.GEQ:
			lower = true
		case token.EQL:
			upper, lower = true, true
		}
	}
	return upper && lower
}

// nonNegative: v is the result of len/cap/Len(), a non-negative constant, or
// known >= 0 by a dominating comparison at block b.
func nonNegative(b *ssa.BasicBlock, v ssa.Value) bool {
	switch x := v.(type) {
	case *ssa.Const:
		k, ok := constInt(x)
		return ok && k >= 0
	case *ssa.Call:
		if bi, ok := x.Call.Value.(*ssa.Builtin); ok && (bi.Name() == "len" || bi.Name() == "cap") {
			return true
		}
		if x.Call.IsInvoke() && x.Call.Method.Name() == "Len" {
			return true
		}
		if cal := x.Call.StaticCallee(); cal != nil && cal.Name() == "Len" {
			return true
		}
	case *ssa.Convert:
		return nonNegative(b, x.X)
	}
	for _, pf := range pathFacts(b) {
		cond, taken := pf.Cond, pf.Truth
		bo, ok := cond.(*ssa.BinOp)
		if !ok {
			continue
		}
		k, isK := constInt(bo.Y)
		if !isK || !sameValue(bo.X, v) && !sameLoad(bo.X, v) {
			continue
		}
		switch {
		case bo.Op == token.LSS && k <= 0 && !taken, bo.Op == token.GEQ && k >= 0 && taken, bo.Op == token.GTR && k >= -1 && taken, bo.Op == token.LEQ && k <= -1 && !taken:
			return true
		}
	}
	return false
}

// negative: v < 0 is known at block b.
func knownNegative(b *ssa.BasicBlock, v ssa.Value) bool {
	for _, pf := range pathFacts(b) {
		cond, taken := pf.Cond, pf.Truth
		bo, ok := cond.(*ssa.BinOp)
		if !ok {
			continue
		}
		k, isK := constInt(bo.Y)
		if !isK || !sameValue(bo.X, v) && !sameLoad(bo.X, v) {
			continue
		}
		if (bo.Op == token.LSS && k <= 0 && taken) || (bo.Op == token.GEQ && k <= 0 && !taken) {
			return true
		}
	}
	return false
}

// sameLoad: two loads of the same local variable cell.
func sameLoad(a, b ssa.Value) bool {
	la, ok1 := a.(*ssa.UnOp)
	lb, ok2 := b.(*ssa.UnOp)
	return ok1 && ok2 && la.Op == token.MUL && lb.Op == token.MUL && la.X == lb.X
}

// upperBoundedByLen: t < L (or t <= L) holds at block b with L derived from len/Len.
func upperBoundedByLen(b *ssa.BasicBlock, t ssa.Value) bool {
	roots := backSlice(t)
	for _, pf := range pathFacts(b) {
		cond, taken := pf.Cond, pf.Truth
		bo, ok := cond.(*ssa.BinOp)
		if !ok {
			continue
		}
		tx, other := bo.X, bo.Y
		op := bo.Op
		derives := func(x ssa.Value) bool {
			for y := range backSlice(x) {
				if _, isK := y.(*ssa.Const); !isK && roots[y] {
					return true
				}
			}
			return false
		}
		if !derives(tx) {
			if !derives(other) {
				continue
			}
			tx, other = other, tx
			switch op {
			case token.LSS:
				op = token.GTR
			case token.LEQ:
				op = token.GEQ
			case token.GTR:
				op = token.LSS
			case token.GEQ:
				op = token.LEQ
			}
		}
		lenLike := false
		for y := range backSlice(other) {
			if call, ok := y.(*ssa.Call); ok {
				if bi, ok := call.Call.Value.(*ssa.Builtin); ok && (bi.Name() == "len" || bi.Name() == "cap") {
					lenLike = true
				}
				if call.Call.IsInvoke() && call.Call.Method.Name() == "Len" {
					lenLike = true
				}
				if cal := call.Call.StaticCallee(); cal != nil && cal.Name() == "Len" {
					lenLike = true
				}
			}
		}
		if !lenLike {
			continue
		}
		if ((op == token.LSS || op == token.LEQ) && taken) || ((op == token.GEQ || op == token.GTR) && !taken) {
			return true
		}
	}
	return false
}

// i6Safe recognises arithmetic shapes that cannot overflow although an operand
// is a full-range script integer.
func i6Safe(b *ssa.BinOp, taint map[ssa.Value]string) string {
	blk := b.Block()
	switch b.Op {
	case token.ADD:
		for _, p := range [][2]ssa.Value{{b.X, b.Y}, {b.Y, b.X}} {
			t, o := p[0], p[1]
			if taint[t] == "" {
				continue
			}
			if knownNegative(blk, t) && nonNegative(blk, o) {
				return "negative operand plus a non-negative length: the sum lies between the operands"
			}
			if k, ok := constInt(o); ok && k >= 0 && k <= 1<<20 && upperBoundedByLen(blk, t) {
				return "operand is below a length, adding a small constant cannot overflow"
			}
			// x+1 under a dominating x < y (whatever y is): x is at most the maximum minus one
			if k, ok := constInt(o); ok && k == 1 {
				for _, f := range pathFacts(blk) {
					if bo, ok := f.Cond.(*ssa.BinOp); ok {
						lt := (bo.Op == token.LSS && f.Truth) || (bo.Op == token.GEQ && !f.Truth)
						gt := (bo.Op == token.GTR && f.Truth) || (bo.Op == token.LEQ && !f.Truth)
						if (lt && sameFieldLoad2(bo.X, t)) || (gt && sameFieldLoad2(bo.Y, t)) || (lt && bo.X == t) || (gt && bo.Y == t) {
							return "the operand is strictly below another value of its type, so adding one cannot overflow"
						}
					}
				}
			}
		}
	case token.SUB:
		if nonNegative(blk, b.X) && nonNegative(blk, b.Y) {
			return "difference of two non-negative values cannot overflow"
		}
	case token.MUL:
		// overflow-checked multiplication: the product is divided back and compared
		for _, r := range *b.Referrers() {
			q, ok := r.(*ssa.BinOp)
			if !ok || q.Op != token.QUO || q.X != ssa.Value(b) {
				continue
			}
			if !(sameValue(q.Y, b.X) || sameValue(q.Y, b.Y) || sameLoad(q.Y, b.X) || sameLoad(q.Y, b.Y)) {
				continue
			}
			for _, r2 := range *q.Referrers() {
				if cmp, ok := r2.(*ssa.BinOp); ok && (cmp.Op == token.NEQ || cmp.Op == token.EQL) {
					return "overflow-checked multiplication (the product is divided back and compared with the other factor)"
				}
			}
		}
	}
	return ""
}

// reachesNumberSink: the value flows (through arithmetic, conversions, phis) into
// MakeInt/MakeInt64/MakeUint*, a lib/time Duration/Time result, a field of
// rangeValue, or the result of rangeLen.
func reachesNumberSink(v ssa.Value, seen map[ssa.Value]bool, depth int) bool {
	if seen[v] || depth > 8 {
		return false
	}
	seen[v] = true
	refs := v.Referrers()
	if refs == nil {
		return false
	}
	for _, r := range *refs {
		switch x := r.(type) {
		case *ssa.Call:
			if cal := x.Call.StaticCallee(); cal != nil {
				switch cal.Name() {
				case "MakeInt", "MakeInt64", "MakeUint", "MakeUint64":
					return true
				case "rangeLen":
					return true
				}
			}
		case *ssa.Return:
			fn := x.Parent()
			if fn.Name() == "rangeLen" {
				return true
			}
			if _, n := namedOf(v.Type()); n == "Duration" || n == "Time" {
				return true
			}
		case *ssa.Store:
			if fa, ok := x.Addr.(*ssa.FieldAddr); ok && x.Val == v {
				if _, n := namedOf(fa.X.Type()); strings.HasPrefix(n, "range") {
					return true
				}
				// the value of an integer literal: a numeric field of a scanner/parser structure
				if pp, _ := namedOf(fa.X.Type()); strings.HasSuffix(pp, "/syntax") {
					if bt, ok := deref(fa.Type()).Underlying().(*types.Basic); ok && bt.Info()&types.IsInteger != 0 {
						return true
					}
				}
			}
		case *ssa.MakeInterface:
			if _, n := namedOf(x.X.Type()); n == "Duration" || n == "Time" {
				return true
			}
		case *ssa.BinOp, *ssa.Convert, *ssa.ChangeType, *ssa.Phi, *ssa.UnOp:
			if u, ok := r.(*ssa.UnOp); ok && u.Op != token.SUB && u.Op != token.XOR {
				continue
			}
			if reachesNumberSink(r.(ssa.Value), seen, depth+1) {
				return true
			}
		}
	}
	return false
}

// upperBounded: a dominating comparison bounds the (unsigned) value from above by a constant.
func upperBounded(b *ssa.BasicBlock, v ssa.Value) bool {
	for _, pf := range pathFacts(b) {
		cond, neg := pf.Cond, false
		bo, ok := cond.(*ssa.BinOp)
		if !ok {
			continue
		}
		taken := pf.Truth != neg
		op := bo.Op
		var k ssa.Value
		if bo.X == v || sameLoad(bo.X, v) {
			k = bo.Y
		} else if bo.Y == v || sameLoad(bo.Y, v) {
			k = bo.X
			op = i9Flip(op)
		} else {
			continue
		}
		if _, isK := k.(*ssa.Const); !isK {
			continue
		}
		if !taken {
			op = i9Neg(op)
		}
		if op == token.LEQ || op == token.LSS {
			return true
		}
	}
	return false
}

// sameFieldLoad2: two loads of the same field of the same object (each `x.f` is a FieldAddr of its own).
func sameFieldLoad2(a, b ssa.Value) bool {
	if sameLoad(a, b) {
		return true
	}
	la, ok1 := a.(*ssa.UnOp)
	lb, ok2 := b.(*ssa.UnOp)
	if !ok1 || !ok2 || la.Op != token.MUL || lb.Op != token.MUL {
		return false
	}
	fa, ok1 := la.X.(*ssa.FieldAddr)
	fb, ok2 := lb.X.(*ssa.FieldAddr)
	return ok1 && ok2 && fa.Field == fb.Field && sameValue2(fa.X, fb.X)
}
