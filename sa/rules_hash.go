package main

import (
	"fmt"
	"go/token"
	"go/types"
	"sort"
	"strings"

	"golang.org/x/tools/go/ssa"
)

func init() {
	register("H1", "hashtable encapsulation: fields of hashtable, bucket and entry are written only by methods of *hashtable (and iterators' own cursor), and read outside hashtable.go only through the insertion-order list (head/next/key/value) and len", 30, ruleH1)
	register("H2", "count and links move together: in insert the order-list append, the slot fill and len++ co-occur and none happens on the update-in-place path; in delete the unlink, the slot clear and len-- co-occur; clear and grow reset head, tailLink and len together and clear resets whole buckets (including their overflow chains)", 6, ruleH2)
	register("H3", "operand-order provenance: a derived set/dict that is filled while iterating the right operand starts as a copy of the left operand (clone/addAll); a fresh empty result is filled only in the left operand's order", 5, ruleH3)
	register("H4", "no pointer into the table survives a rehash: after hashtable.grow() returns, no *entry/*bucket value computed before the call is used again without being recomputed", 1, ruleH4)
	register("D2", "ordered readers never touch buckets: only insert, lookup, delete, grow, clear, init, count and dump read hashtable.table / bucket.next / bucket.entries / entry.hash, so iteration order is a function of the insertion history and never of hash values", 10, ruleD2)
}

const htFile = "hashtable.go"

func ownerField(fa *ssa.FieldAddr) (string, string) {
	st := deref(fa.X.Type()).Underlying().(*types.Struct)
	return qualType(fa.X.Type()), st.Field(fa.Field).Name()
}

var htTypes = map[string]bool{"starlark.hashtable": true, "starlark.bucket": true, "starlark.entry": true}

func ruleH1(c *Ctx) {
	// writers
	for _, s := range w1Census(c.P).sites {
		ot := qualType(ownerOfField(s.tr, s.field))
		if !htTypes[ot] {
			continue
		}
		key := fmt.Sprintf("%s: write %s", fnName(s.fn), s.fkey)
		pos := c.P.Pos(s.instr.Pos())
		top := outermost(s.fn)
		if top.Signature.Recv() != nil && qualType(top.Signature.Recv().Type()) == "starlark.hashtable" {
			c.ok(key, pos, "method of *hashtable")
		} else if htImplHelper(c.P, top, 0) {
			c.ok(key, pos, "private helper of the hashtable's methods (takes the table or an entry, called only from them)")
		} else if top.Signature.Recv() != nil && qualType(top.Signature.Recv().Type()) == "starlark.keyIterator" && s.field.Name() == "itercount" {
			c.ok(key, pos, "iterator releasing its own lock")
		} else {
			c.viol(key, pos, "hashtable storage is written outside the methods of *hashtable: the table's invariants (order list, count, buckets) are no longer maintained in one place")
		}
	}
	// readers outside hashtable methods
	allowedOutside := map[string]bool{"hashtable.head": true, "hashtable.len": true, "entry.next": true, "entry.key": true, "entry.value": true, "hashtable.frozen": true, "hashtable.itercount": true}
	for _, fn := range c.P.Funcs {
		if !isProdPkg(fnPkgPath(fn)) {
			continue
		}
		top := outermost(fn)
		if top.Signature.Recv() != nil {
			q := qualType(top.Signature.Recv().Type())
			if q == "starlark.hashtable" || q == "starlark.keyIterator" {
				continue
			}
		}
		if htImplHelper(c.P, top, 0) {
			continue
		}
		seen := map[string]bool{}
		eachInstr(fn, func(in ssa.Instruction) {
			fa, ok := in.(*ssa.FieldAddr)
			if !ok {
				return
			}
			o, f := ownerField(fa)
			if !htTypes[o] {
				return
			}
			short := o[strings.LastIndex(o, ".")+1:] + "." + f
			if seen[short] {
				return
			}
			seen[short] = true
			key := fmt.Sprintf("%s: access %s", fnName(fn), short)
			if allowedOutside[short] {
				c.ok(key, c.P.Pos(fa.Pos()), "insertion-order accessor")
			} else {
				c.viol(key, c.P.Pos(fa.Pos()), "code outside *hashtable's methods touches "+short+" (bucket-level state)")
			}
		})
	}
}

// ---------- D2 ----------

var bucketLevel = map[string]bool{"hashtable.table": true, "hashtable.bucket0": true, "bucket.next": true, "bucket.entries": true, "entry.hash": true}
var bucketReaders = map[string]bool{"insert": true, "lookup": true, "delete": true, "grow": true, "clear": true, "init": true, "count": true, "dump": true}

func ruleD2(c *Ctx) {
	n := 0
	for _, fn := range c.P.Funcs {
		if !isProdPkg(fnPkgPath(fn)) {
			continue
		}
		top := outermost(fn)
		uses := map[string]bool{}
		eachInstr(fn, func(in ssa.Instruction) {
			if fa, ok := in.(*ssa.FieldAddr); ok {
				o, f := ownerField(fa)
				if htTypes[o] {
					short := o[strings.LastIndex(o, ".")+1:] + "." + f
					if bucketLevel[short] && !onlyNilOrLen(fa) {
						uses[short] = true
					}
				}
			}
		})
		isHT := top.Signature.Recv() != nil && qualType(top.Signature.Recv().Type()) == "starlark.hashtable"
		if !isHT && len(uses) == 0 {
			continue
		}
		if !isHT {
			continue // reported by H1
		}
		n++
		key := fnName(fn) + ": bucket-level access"
		var l []string
		for u := range uses {
			l = append(l, u)
		}
		sort.Strings(l)
		switch {
		case len(uses) == 0:
			c.ok(key, c.P.Pos(fn.Pos()), "reads only the insertion-order list")
		case bucketReaders[top.Name()]:
			c.ok(key, c.P.Pos(fn.Pos()), "hash-indexed operation ("+strings.Join(l, ", ")+")")
		case onlyCalledByBucketReaders(c.P, top, 0):
			c.ok(key, c.P.Pos(fn.Pos()), "private helper used only by the hash-indexed operations ("+strings.Join(l, ", ")+")")
		default:
			c.viol(key, c.P.Pos(fn.Pos()), fmt.Sprintf("%s produces an ordered view or iterates but reads %v: its result would depend on hash values (which differ between processes) instead of insertion order", top.Name(), l))
		}
	}
	if n < 10 {
		c.anchorFail("only %d hashtable methods examined", n)
	}
}

// onlyNilOrLen: the field address is only loaded, and the loaded value is only
// compared with nil or measured with len/cap - uses that reveal whether the
// table exists and how big it is, never where a key hashed to.
func onlyNilOrLen(fa *ssa.FieldAddr) bool {
	refs := fa.Referrers()
	if refs == nil || len(*refs) == 0 {
		return false
	}
	for _, r := range *refs {
		ld, ok := r.(*ssa.UnOp)
		if !ok || ld.Op != token.MUL {
			return false
		}
		lr := ld.Referrers()
		if lr == nil {
			return false
		}
		for _, u := range *lr {
			switch x := u.(type) {
			case *ssa.BinOp:
				if _, _, ok := nilTest(x); !ok {
					return false
				}
			case *ssa.Call:
				b, ok := x.Call.Value.(*ssa.Builtin)
				if !ok || (b.Name() != "len" && b.Name() != "cap") {
					return false
				}
			case *ssa.DebugRef:
			default:
				return false
			}
		}
	}
	return true
}

// ---------- H2 ----------

type htStore struct {
	st    *ssa.Store
	what  string // "hashtable.len+1", "entry.key", "*tailLink", "whole entry", "whole bucket" ...
	block *ssa.BasicBlock
}

func htStores(fn *ssa.Function) []htStore {
	return htStores1(fn, nil, 0)
}

// htStores1 collects the stores of fn; stores of private *hashtable helper
// methods it calls (link, unlink, ...) are attributed to the calling block.
func htStores1(fn *ssa.Function, at *ssa.BasicBlock, depth int) []htStore {
	var out []htStore
	eachInstr(fn, func(in ssa.Instruction) {
		if call, ok := in.(*ssa.Call); ok && depth < 2 {
			if cal := call.Call.StaticCallee(); cal != nil && cal.Blocks != nil && cal.Signature.Recv() == nil && curProg != nil && htImplHelper(curProg, cal, 0) {
				// a private helper written as a function (appendToOrder(ht, e))
				blk := call.Block()
				if at != nil {
					blk = at
				}
				out = append(out, htStores1(cal, blk, depth+1)...)
			}
			if cal := call.Call.StaticCallee(); cal != nil && cal.Blocks != nil && cal.Signature.Recv() != nil && qualType(cal.Signature.Recv().Type()) == "starlark.hashtable" {
				switch cal.Name() {
				case "insert", "delete", "clear", "grow", "init", "lookup", "checkMutable", "count":
				default:
					blk := call.Block()
					if at != nil {
						blk = at
					}
					out = append(out, htStores1(cal, blk, depth+1)...)
				}
			}
		}
		// clear(ht.table): the builtin zeroes every bucket of the slice
		if call, ok := in.(*ssa.Call); ok {
			if bi, ok := call.Call.Value.(*ssa.Builtin); ok && bi.Name() == "clear" && len(call.Call.Args) == 1 {
				if sl, ok := call.Call.Args[0].Type().Underlying().(*types.Slice); ok {
					if q := qualType(sl.Elem()); htTypes[q] {
						blk := call.Block()
						if at != nil {
							blk = at
						}
						out = append(out, htStore{nil, "whole " + q[strings.LastIndex(q, ".")+1:], blk})
					}
				}
			}
		}
		st, ok := in.(*ssa.Store)
		if !ok {
			return
		}
		what := ""
		switch a := st.Addr.(type) {
		case *ssa.FieldAddr:
			o, f := ownerField(a)
			if !htTypes[o] {
				return
			}
			what = o[strings.LastIndex(o, ".")+1:] + "." + f
			if f == "len" {
				if b, ok := st.Val.(*ssa.BinOp); ok {
					if k, isK := constInt(b.Y); isK && k == 1 {
						if b.Op == token.ADD {
							what += "+1"
						} else if b.Op == token.SUB {
							what += "-1"
						}
					}
				}
				if k, isK := constInt(st.Val); isK && k == 0 {
					what += "=0"
				}
			}
			if (f == "head") && isNilConst(st.Val) {
				what += "=nil"
			}
			if f == "tailLink" {
				if fa2, ok := st.Val.(*ssa.FieldAddr); ok {
					_, f2 := ownerField(fa2)
					what += "=&" + f2
				}
			}
		case *ssa.UnOp:
			// store through a loaded pointer field: *ht.tailLink = e / *e.prevLink = e.next
			if a.Op == token.MUL {
				if fa, ok := a.X.(*ssa.FieldAddr); ok {
					o, f := ownerField(fa)
					if htTypes[o] {
						what = "*" + f
					}
				}
			}
		case *ssa.IndexAddr:
			// whole element store into table / entries / bucket0
			et := deref(a.Type())
			if q := qualType(et); htTypes[q] {
				what = "whole " + q[strings.LastIndex(q, ".")+1:]
			}
		default:
			// *e = entry{} where e is a phi/IndexAddr value of type *entry
		}
		if what == "" {
			if q := qualType(deref(st.Addr.Type())); htTypes[q] && qualType(st.Val.Type()) == q {
				what = "whole " + q[strings.LastIndex(q, ".")+1:]
			}
		}
		if what != "" {
			blk := st.Block()
			if at != nil {
				blk = at
			}
			out = append(out, htStore{st, what, blk})
		}
	})
	return out
}

func ruleH2(c *Ctx) {
	get := func(name string) *ssa.Function {
		f := c.P.Func("starlark", "hashtable."+name)
		if f == nil {
			c.anchorFail("(*hashtable).%s not found", name)
		}
		return f
	}
	ins, del, clr, grow := get("insert"), get("delete"), get("clear"), get("grow")
	if ins == nil || del == nil || clr == nil || grow == nil {
		return
	}
	has := func(stores []htStore, region func(*ssa.BasicBlock) bool, what string) bool {
		for _, s := range stores {
			if s.what == what && region(s.block) {
				return true
			}
		}
		return false
	}
	// --- insert ---
	{
		ss := htStores(ins)
		var incBlock *ssa.BasicBlock
		for _, s := range ss {
			if s.what == "hashtable.len+1" {
				incBlock = s.block
			}
		}
		key := "(*hashtable).insert: new-key path"
		if incBlock == nil {
			c.viol(key, c.P.Pos(ins.Pos()), "insert never increments len")
		} else {
			// region: blocks from which incBlock is reached without branching away: the straight-line suffix; approximate by "block dominates incBlock or == incBlock, and incBlock post-follows"
			region := func(b *ssa.BasicBlock) bool {
				return b == incBlock || (b.Dominates(incBlock) && singlePathTo(b, incBlock))
			}
			var missing []string
			for _, w := range []string{"entry.hash", "entry.key", "entry.value", "entry.prevLink", "*tailLink", "hashtable.tailLink=&next"} {
				if !has(ss, region, w) {
					missing = append(missing, w)
				}
			}
			if len(missing) == 0 {
				c.ok(key, c.P.Pos(incBlock.Instrs[0].Pos()), "slot fill (hash,key,value), order-list append (prevLink, *tailLink, tailLink) and len++ co-occur")
			} else {
				c.viol(key, c.P.Pos(incBlock.Instrs[0].Pos()), fmt.Sprintf("on the path that increments len, insert does not also perform %v: the count, the buckets and the insertion-order list disagree afterwards", missing))
			}
		}
		// update-in-place: a store to entry.value outside the region must be followed by return without len change
		key = "(*hashtable).insert: update-in-place path"
		okUpd := false
		for _, s := range ss {
			if s.what == "entry.value" && s.block != incBlock && incBlock != nil && !s.block.Dominates(incBlock) {
				// block ends in return and has no other ht store
				if _, isRet := s.block.Instrs[len(s.block.Instrs)-1].(*ssa.Return); isRet {
					only := true
					for _, s2 := range ss {
						if s2.block == s.block && s2.what != "entry.value" {
							only = false
						}
					}
					okUpd = only
				}
			}
		}
		if okUpd {
			c.ok(key, c.P.Pos(ins.Pos()), "existing key: only the value is replaced; order and count untouched")
		} else {
			c.viol(key, c.P.Pos(ins.Pos()), "no update-in-place path that replaces just the value and returns (updating a key must keep its place and the length)")
		}
	}
	// --- delete ---
	{
		ss := htStores(del)
		var decBlock *ssa.BasicBlock
		for _, s := range ss {
			if s.what == "hashtable.len-1" {
				decBlock = s.block
			}
		}
		key := "(*hashtable).delete: found path"
		if decBlock == nil {
			c.viol(key, c.P.Pos(del.Pos()), "delete never decrements len")
		} else {
			region := func(b *ssa.BasicBlock) bool { return b == decBlock || b.Dominates(decBlock) }
			var missing []string
			for _, w := range []string{"*prevLink", "whole entry"} {
				if !has(ss, region, w) {
					missing = append(missing, w)
				}
			}
			// tail fix-up exists somewhere dominated by the unlink
			if !has(ss, func(*ssa.BasicBlock) bool { return true }, "hashtable.tailLink") || !has(ss, func(*ssa.BasicBlock) bool { return true }, "entry.prevLink") {
				missing = append(missing, "tailLink/next.prevLink fix-up")
			}
			if len(missing) == 0 {
				c.ok(key, c.P.Pos(decBlock.Instrs[0].Pos()), "unlink (*prevLink, tail/next fix-up), slot clear and len-- co-occur")
			} else {
				c.viol(key, c.P.Pos(decBlock.Instrs[0].Pos()), fmt.Sprintf("on the path that decrements len, delete does not also perform %v", missing))
			}
		}
	}
	// --- clear ---
	{
		ss := htStores(clr)
		key := "(*hashtable).clear: full reset"
		var missing []string
		all := func(*ssa.BasicBlock) bool { return true }
		for _, w := range []string{"hashtable.head=nil", "hashtable.tailLink=&head", "hashtable.len=0", "whole bucket"} {
			if !has(ss, all, w) {
				missing = append(missing, w)
			}
		}
		// no field-level partial reset of buckets
		partial := false
		for _, s := range ss {
			if strings.HasPrefix(s.what, "bucket.") {
				partial = true
			}
		}
		switch {
		case len(missing) > 0:
			c.viol(key, c.P.Pos(clr.Pos()), fmt.Sprintf("clear does not perform %v: after clearing, the order list, the count or the buckets (including overflow chains) still hold old state", missing))
		case partial:
			c.viol(key, c.P.Pos(clr.Pos()), "clear resets buckets field by field instead of as a whole: overflow chains (bucket.next) keep stale entries that lookups still find")
		default:
			c.ok(key, c.P.Pos(clr.Pos()), "head=nil, tailLink=&head, len=0 and every bucket reset as a whole")
		}
		// unconditional: the resets must be executed on every path after checkMutable succeeded
		key = "(*hashtable).clear: reset on every path"
		var resets []*ssa.Store
		for _, s := range ss {
			if s.what == "hashtable.head=nil" || s.what == "hashtable.tailLink=&head" || s.what == "hashtable.len=0" {
				resets = append(resets, s.st)
			}
		}
		okAll := len(resets) >= 3
		eachInstr(clr, func(in ssa.Instruction) {
			r, ok := in.(*ssa.Return)
			if !ok || !isNilConst(r.Results[0]) {
				return
			}
			for _, st := range resets {
				if !instrDominates(st, r) {
					okAll = false
				}
			}
		})
		if okAll {
			c.ok(key, c.P.Pos(clr.Pos()), "every success return is dominated by the three resets")
		} else {
			c.viol(key, c.P.Pos(clr.Pos()), "a success return of clear is reachable without resetting head, tailLink and len")
		}
	}
	// --- grow ---
	{
		ss := htStores(grow)
		key := "(*hashtable).grow: reset before rehash"
		var reinsert ssa.Instruction
		eachInstr(grow, func(in ssa.Instruction) {
			if call, ok := in.(*ssa.Call); ok && call.Call.StaticCallee() == ins {
				reinsert = in
			}
		})
		var missing []string
		for _, w := range []string{"hashtable.table", "hashtable.head=nil", "hashtable.tailLink=&head", "hashtable.len=0"} {
			found := false
			for _, s := range ss {
				if s.what == w && reinsert != nil && instrDominates(s.st, reinsert) {
					found = true
				}
			}
			if !found {
				missing = append(missing, w)
			}
		}
		switch {
		case reinsert == nil:
			c.viol(key, c.P.Pos(grow.Pos()), "grow does not re-insert the old entries")
		case len(missing) > 0:
			c.viol(key, c.P.Pos(grow.Pos()), fmt.Sprintf("grow re-inserts before resetting %v", missing))
		default:
			c.ok(key, c.P.Pos(grow.Pos()), "new table, head=nil, tailLink=&head, len=0 all precede the re-insertion loop")
		}
	}
}

// singlePathTo: every path from b reaches target (b has target as the only way forward), approximated by: target post-dominates b within the straight-line chain.
func singlePathTo(b, target *ssa.BasicBlock) bool {
	seen := map[*ssa.BasicBlock]bool{}
	for b != target {
		if seen[b] || len(b.Succs) != 1 {
			return false
		}
		seen[b] = true
		b = b.Succs[0]
	}
	return true
}

// ---------- H3 ----------

func ruleH3(c *Ctx) {
	fc := computeReturnsFresh(c.P)
	names := map[string]bool{"Union": true, "Intersection": true, "Difference": true, "SymmetricDifference": true}
	n := 0
	for _, fn := range c.P.Funcs {
		if fn.Signature.Recv() == nil || !names[fn.Name()] || fnPkgPath(fn) != modPath+"/starlark" {
			continue
		}
		rq := qualType(fn.Signature.Recv().Type())
		if rq != "starlark.Set" && rq != "starlark.Dict" {
			continue
		}
		n++
		key := fnName(fn) + ": result order"
		// right-operand cursor: Allocs whose address is passed to Next on a parameter
		rightVars := map[*ssa.Alloc]bool{}
		eachInstr(fn, func(in ssa.Instruction) {
			if call, ok := in.(*ssa.Call); ok && call.Call.IsInvoke() && call.Call.Method.Name() == "Next" {
				if _, isParam := call.Call.Value.(*ssa.Parameter); isParam {
					if a, ok := call.Call.Args[0].(*ssa.Alloc); ok {
						rightVars[a] = true
					}
				}
			}
		})
		bad := ""
		good := ""
		eachInstr(fn, func(in ssa.Instruction) {
			call, ok := in.(*ssa.Call)
			if !ok {
				return
			}
			cal := call.Call.StaticCallee()
			if cal == nil {
				return
			}
			if cal.Name() == "clone" && fc.returnsFresh[cal] && len(call.Call.Args) > 0 && call.Call.Args[0] == fn.Params[0] && good == "" {
				good = "result starts as a clone of the left operand (elements are only removed, or appended after)"
			}
			switch cal.Name() {
			case "Insert", "insert", "SetKey":
			default:
				if cal.Name() == "addAll" {
					good = "addAll from the operands in left-to-right order"
				}
				return
			}
			if len(call.Call.Args) < 2 {
				return
			}
			// result object: only objects that are returned matter (temporaries may be filled in any order)
			rb := traceAddr(call.Call.Args[0]).bases
			returned := false
			for _, b := range rb {
				if isReturned(fn, b.v) {
					returned = true
				}
			}
			if !returned {
				return
			}
			fromClone, fromNew := false, false
			for _, b := range rb {
				if cl, ok := b.v.(*ssa.Call); ok && cl.Call.StaticCallee() != nil && cl.Call.StaticCallee().Name() == "clone" && fc.returnsFresh[cl.Call.StaticCallee()] {
					// clone of the receiver?
					if len(cl.Call.Args) > 0 && cl.Call.Args[0] == fn.Params[0] {
						fromClone = true
					}
				}
				if _, ok := b.v.(*ssa.Alloc); ok {
					fromNew = true
				}
			}
			// key provenance
			kRight := false
			kv := call.Call.Args[1]
			if ld, ok := kv.(*ssa.UnOp); ok && ld.Op == token.MUL {
				if a, ok := ld.X.(*ssa.Alloc); ok && rightVars[a] {
					kRight = true
				}
			}
			switch {
			case kRight && fromClone:
				good = "result starts as a clone of the left operand; right-operand elements are appended after"
			case kRight && fromNew:
				bad = fmt.Sprintf("inserts elements into a fresh empty result in the order of the RIGHT operand (%s)", c.P.Pos(call.Pos()))
			case !kRight && fromNew:
				// the key must come from a traversal of the receiver only
				foreign := ""
				for _, kb := range traceValue(kv).bases {
					if kb.v != ssa.Value(fn.Params[0]) {
						foreign = kb.v.Name()
						if kb.v.Pos().IsValid() {
							foreign = c.P.Pos(kb.v.Pos())
						}
					}
				}
				if foreign != "" {
					bad = fmt.Sprintf("fills a fresh result with keys that may be taken from a traversal of something other than the receiver (%s), i.e. not necessarily in the left operand's order (%s)", foreign, c.P.Pos(call.Pos()))
				} else if good == "" {
					good = "fresh result filled in the left operand's order"
				}
			}
		})
		// the result is a new object on every path: returning an operand itself (a fast path for an
		// empty other side) makes later updates of the result change the operand, and vice versa
		aliasRet := ""
		eachInstr(fn, func(in ssa.Instruction) {
			ret, ok := in.(*ssa.Return)
			if !ok || len(ret.Results) == 0 {
				return
			}
			for _, b := range traceValue(ret.Results[0]).bases {
				if _, isParam := b.v.(*ssa.Parameter); isParam && len(traceValue(ret.Results[0]).fields) == 0 {
					aliasRet = c.P.Pos(ret.Pos())
				}
			}
		})
		if aliasRet != "" && bad == "" {
			bad = fmt.Sprintf("returns one of its operands itself on some path (%s) instead of a new collection", aliasRet)
			c.viol(key, c.P.Pos(fn.Pos()), fn.Name()+" "+bad+": the derived collection and the operand are then one object, so an update of either shows in both and a frozen operand yields a frozen result")
			continue
		}
		switch {
		case bad != "":
			c.viol(key, c.P.Pos(fn.Pos()), fn.Name()+" "+bad+": the result does not preserve the left operand's element order as the specification requires")
		case good != "":
			c.ok(key, c.P.Pos(fn.Pos()), good)
		default:
			c.viol(key, c.P.Pos(fn.Pos()), "cannot establish how the result of "+fn.Name()+" is populated")
		}
	}
	if n < 5 {
		c.anchorFail("only %d set/dict algebra methods found", n)
	}
}

// ---------- H4 ----------

func ruleH4(c *Ctx) {
	grow := c.P.Func("starlark", "hashtable.grow")
	if grow == nil {
		c.anchorFail("(*hashtable).grow not found")
		return
	}
	n := 0
	for _, fn := range c.P.Funcs {
		if fnPkgPath(fn) != modPath+"/starlark" {
			continue
		}
		eachInstr(fn, func(in ssa.Instruction) {
			call, ok := in.(*ssa.Call)
			if !ok || call.Call.StaticCallee() != grow {
				return
			}
			n++
			key := fnName(fn) + ": pointers across grow()"
			gb := call.Block()
			// blocks reachable after the call
			after := map[*ssa.BasicBlock]bool{}
			var dfs func(b *ssa.BasicBlock)
			dfs = func(b *ssa.BasicBlock) {
				for _, s := range b.Succs {
					if !after[s] {
						after[s] = true
						dfs(s)
					}
				}
			}
			dfs(gb)
			bad := ""
			isTablePtr := func(t types.Type) bool {
				if _, ok := t.(*types.Pointer); !ok {
					return false
				}
				q := qualType(t)
				return q == "starlark.entry" || q == "starlark.bucket"
			}
			check := func(v ssa.Value, useBlock *ssa.BasicBlock, usePos token.Pos) {
				if !isTablePtr(v.Type()) {
					return
				}
				vi, ok := v.(ssa.Instruction)
				if !ok {
					return
				}
				db := vi.Block()
				if db == useBlock && db != gb {
					return // defined and used in the same block: the definition precedes the use
				}
				// is there a path from the grow call to the use that avoids v's defining block?
				if db == gb {
					// defined in the same block as the call: before or after it?
					definedBefore := false
					for _, x := range gb.Instrs {
						if x == vi {
							definedBefore = true
						}
						if x == ssa.Instruction(call) {
							break
						}
					}
					if !definedBefore {
						return
					}
				}
				seen := map[*ssa.BasicBlock]bool{}
				var reach func(b *ssa.BasicBlock) bool
				reach = func(b *ssa.BasicBlock) bool {
					if b == useBlock {
						return true
					}
					if seen[b] || (b == db && b != gb) {
						return false
					}
					seen[b] = true
					for _, s := range b.Succs {
						if s == db && s != useBlock {
							continue
						}
						if reach(s) {
							return true
						}
					}
					return false
				}
				stale := false
				if useBlock == gb {
					stale = true // phi edge from the grow block itself, or later use in the same block
				} else {
					for _, s := range gb.Succs {
						if s == db && s != useBlock {
							continue
						}
						if reach(s) {
							stale = true
						}
					}
				}
				if stale && bad == "" {
					bad = fmt.Sprintf("%s (type %s, computed at %s) is still used at %s", v.Name(), v.Type(), c.P.Pos(vi.Pos()), c.P.Pos(usePos))
				}
			}
			for _, b := range fn.Blocks {
				for _, ins := range b.Instrs {
					if phi, ok := ins.(*ssa.Phi); ok {
						for i, e := range phi.Edges {
							pred := b.Preds[i]
							if pred == gb || after[pred] {
								if pred == gb {
									check(e, gb, phi.Pos())
								} else {
									check(e, pred, phi.Pos())
								}
							}
						}
						continue
					}
					if !after[b] && b != gb {
						continue
					}
					if b == gb {
						// only instructions after the call
						pastCall := false
						for _, x := range gb.Instrs {
							if x == ssa.Instruction(call) {
								pastCall = true
								continue
							}
							if pastCall && x == ins {
								for _, op := range ins.Operands(nil) {
									if *op != nil {
										check(*op, gb, ins.Pos())
									}
								}
							}
						}
						continue
					}
					for _, op := range ins.Operands(nil) {
						if *op != nil {
							check(*op, b, ins.Pos())
						}
					}
				}
			}
			if bad == "" {
				c.ok(key, c.P.Pos(call.Pos()), "every bucket/entry pointer used after grow() is recomputed from the new table")
			} else {
				c.viol(key, c.P.Pos(call.Pos()), "a pointer into the old table survives the rehash: "+bad+"; an entry written through it lands in a discarded bucket (counted and listed but unreachable by lookup)")
			}
		})
	}
	if n == 0 {
		c.anchorFail("no call of hashtable.grow found")
	}
}

// isReturned: does value v (an allocation or call result) flow to a Return of fn?
func isReturned(fn *ssa.Function, v ssa.Value) bool {
	found := false
	eachInstr(fn, func(in ssa.Instruction) {
		r, ok := in.(*ssa.Return)
		if !ok {
			return
		}
		for _, res := range r.Results {
			for _, b := range traceAddr(res).bases {
				if b.v == v {
					found = true
				}
			}
		}
	})
	return found
}

func onlyCalledByBucketReaders(p *Prog, fn *ssa.Function, depth int) bool {
	if depth > 3 || fn.Object() == nil || fn.Object().Exported() {
		return false
	}
	cs := callersOf(p, fn)
	if len(cs) == 0 {
		return false
	}
	for _, g := range cs {
		top := outermost(g)
		if top == fn {
			continue
		}
		isHT := top.Signature.Recv() != nil && qualType(top.Signature.Recv().Type()) == "starlark.hashtable"
		if isHT && bucketReaders[top.Name()] {
			continue
		}
		if !onlyCalledByBucketReaders(p, top, depth+1) {
			return false
		}
	}
	return true
}

// ---------- H7 ----------

func init() {
	register("H7", "one hash per probe: in every hashtable operation the hash value that selects the bucket chain is the same value that is compared with the stored entry hashes (after the zero-is-reserved normalisation), so a key is looked up in the chain it was inserted into", 3, ruleH7)
	claim("C12", "H7")
	claim("C11", "H7")
}

func ruleH7(c *Ctx) {
	n := 0
	var fns []*ssa.Function
	for _, fn := range c.P.Funcs {
		if fnPkgPath(fn) == modPath+"/starlark" && fn.Blocks != nil {
			fns = append(fns, fn)
		}
	}
	// selections: index into hashtable.table computed as (x & mask)
	type sel struct {
		fn *ssa.Function
		in ssa.Instruction
		hv ssa.Value
	}
	var sels []sel
	hashOperand := func(idx ssa.Value) ssa.Value {
		for i := 0; i < 4; i++ {
			switch x := idx.(type) {
			case *ssa.Convert:
				idx = x.X
				continue
			case *ssa.BinOp:
				if x.Op == token.AND {
					// the operand that is not derived from len(table)-1
					if derivesFromLen(x.Y) {
						return x.X
					}
					if derivesFromLen(x.X) {
						return x.Y
					}
				}
			case *ssa.Call:
				// index computed by a helper: ht.bucketIndex(h) = h & (len(ht.table)-1)
				if cal := x.Call.StaticCallee(); cal != nil && cal.Blocks != nil && fnPkgPath(cal) == modPath+"/starlark" {
					var hp ssa.Value
					eachInstr(cal, func(in ssa.Instruction) {
						ret, ok := in.(*ssa.Return)
						if !ok || len(ret.Results) != 1 {
							return
						}
						r := ret.Results[0]
						if cv, ok := r.(*ssa.Convert); ok {
							r = cv.X
						}
						if bo, ok := r.(*ssa.BinOp); ok && bo.Op == token.AND {
							if derivesFromLen(bo.Y) {
								hp = bo.X
							} else if derivesFromLen(bo.X) {
								hp = bo.Y
							}
						}
					})
					if prm, ok := hp.(*ssa.Parameter); ok {
						for pi, q := range cal.Params {
							if q == prm && pi < len(x.Call.Args) {
								return x.Call.Args[pi]
							}
						}
					}
				}
			}
			break
		}
		return nil
	}
	for _, fn := range fns {
		fn := fn
		eachInstr(fn, func(in ssa.Instruction) {
			ia, ok := in.(*ssa.IndexAddr)
			if !ok {
				return
			}
			ld, ok := ia.X.(*ssa.UnOp)
			if !ok {
				return
			}
			fa, ok := ld.X.(*ssa.FieldAddr)
			if !ok {
				return
			}
			if o, f := ownerField(fa); o != "starlark.hashtable" || f != "table" {
				return
			}
			if hv := hashOperand(ia.Index); hv != nil {
				sels = append(sels, sel{fn, in, hv})
			}
		})
	}
	// map a selection in a helper (hash is a parameter) to its call sites
	type probe struct {
		fn *ssa.Function
		at ssa.Instruction
		hv ssa.Value
	}
	var probes []probe
	for _, s := range sels {
		if prm, ok := s.hv.(*ssa.Parameter); ok {
			idx := -1
			for i, q := range s.fn.Params {
				if q == prm {
					idx = i
				}
			}
			for _, g := range fns {
				g := g
				eachInstr(g, func(in ssa.Instruction) {
					if ci, ok := in.(ssa.CallInstruction); ok && ci.Common().StaticCallee() == s.fn && idx >= 0 && idx < len(ci.Common().Args) {
						probes = append(probes, probe{g, in, ci.Common().Args[idx]})
					}
				})
			}
			continue
		}
		probes = append(probes, probe{s.fn, s.in, s.hv})
	}
	for _, p := range probes {
		// comparisons with stored hashes in the same function
		var cmps []ssa.Value
		eachInstr(p.fn, func(in ssa.Instruction) {
			bo, ok := in.(*ssa.BinOp)
			if !ok || (bo.Op != token.EQL && bo.Op != token.NEQ) {
				return
			}
			isStored := func(v ssa.Value) bool {
				if u, ok := v.(*ssa.UnOp); ok {
					if fa, ok := u.X.(*ssa.FieldAddr); ok {
						o, f := ownerField(fa)
						return o == "starlark.entry" && f == "hash"
					}
				}
				return false
			}
			if isStored(bo.X) {
				if _, isK := bo.Y.(*ssa.Const); !isK {
					cmps = append(cmps, bo.Y)
				}
			} else if isStored(bo.Y) {
				if _, isK := bo.X.(*ssa.Const); !isK {
					cmps = append(cmps, bo.X)
				}
			}
		})
		if len(cmps) == 0 {
			continue // a function that only selects (grow re-inserts through insert)
		}
		n++
		key := fnName(p.fn) + ": bucket selection"
		pos := c.P.Pos(p.at.Pos())
		bad := false
		for _, cv := range cmps {
			if cv != p.hv && !sameValue(cv, p.hv) {
				bad = true
			}
		}
		if bad {
			c.viol(key, pos, "the chain is selected with a different hash value than the one compared with the stored hashes (for instance the raw hash before 0 is replaced by 1): a key whose hash is normalised is inserted into one chain and looked up in another")
		} else {
			c.ok(key, pos, "selection and comparison use the same value")
		}
	}
	if n < 3 {
		c.anchorFail("only %d hash probes found in the hashtable", n)
	}
}

func derivesFromLen(v ssa.Value) bool {
	for y := range backSlice(v) {
		if call, ok := y.(*ssa.Call); ok {
			if b, ok := call.Call.Value.(*ssa.Builtin); ok && b.Name() == "len" {
				return true
			}
		}
	}
	return false
}

// htImplHelper: fn is an unexported package-level function that is given the table or one of its entries
// or buckets and is called (statically, never used as a value) only from methods of *hashtable or from
// other such helpers - part of the hashtable's implementation that happens not to be written as a method.
func htImplHelper(p *Prog, fn *ssa.Function, depth int) bool {
	if depth > 2 || fn.Signature.Recv() != nil || fn.Object() == nil || fn.Object().Exported() || fn.Parent() != nil {
		return false
	}
	takes := false
	for _, prm := range fn.Params {
		if htTypes[qualType(prm.Type())] {
			takes = true
		}
	}
	if !takes {
		return false
	}
	callers := 0
	ok := true
	for _, g := range p.Funcs {
		eachInstr(g, func(in ssa.Instruction) {
			for _, op := range in.Operands(nil) {
				if *op == ssa.Value(fn) {
					ci, isCall := in.(ssa.CallInstruction)
					if !isCall || ci.Common().Value != ssa.Value(fn) {
						ok = false // used as a value
					}
				}
			}
			ci, isCall := in.(ssa.CallInstruction)
			if !isCall || ci.Common().StaticCallee() != fn {
				return
			}
			callers++
			top := outermost(g)
			if top == fn {
				return
			}
			if top.Signature.Recv() != nil && qualType(top.Signature.Recv().Type()) == "starlark.hashtable" {
				return
			}
			if !htImplHelper(p, top, depth+1) {
				ok = false
			}
		})
	}
	return ok && callers > 0
}
