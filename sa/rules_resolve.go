package main

import (
	"fmt"
	"go/ast"
	"go/token"
	"go/types"
	"sort"
	"strings"

	"golang.org/x/tools/go/packages"
	"golang.org/x/tools/go/ssa"
)

func init() {
	register("O1", "dispatcher exhaustiveness: the resolver's, compiler's and syntax.Walk's type switches have an arm for every concrete statement/expression/node type (minus a named exclusion table), and resolver.assign and fcomp.assign accept the same target forms", 80, ruleO1)
	register("O2", "nothing is compiled before it resolved: compile.File/compile.Expr are called only from the three known entry points and each call is dominated by the nil-error edge of a resolve call in the same function", 3, ruleO2)
	register("O3", "resolver errors accumulate and are returned: resolver.errors is written only by errorf (append), and REPLChunk/ExprOptions return the list on every path where it is non-empty", 3, ruleO3)
	register("O4", "static rules consult the nesting state: the resolver's loop depth, conditional depth, enclosing-function link and options each guard at least one static error (looking through bool-returning helpers)", 4, ruleO4)
	register("O5", "dialect options are consulted and never mutated: each FileOptions field is read where it decides a branch (or is copied to Program.Recursion, which decides one), and no FileOptions field is stored to outside construction", 6, ruleO5)
}

func implementers(p *Prog, ifaceName string) []string {
	n := p.Named("syntax", ifaceName)
	if n == nil {
		return nil
	}
	iface := n.Underlying().(*types.Interface)
	var out []string
	sc := p.Pkg("syntax").Types.Scope()
	for _, name := range sc.Names() {
		tn, ok := sc.Lookup(name).(*types.TypeName)
		if !ok {
			continue
		}
		if _, isStruct := tn.Type().Underlying().(*types.Struct); !isStruct {
			continue
		}
		if types.Implements(types.NewPointer(tn.Type()), iface) {
			out = append(out, name)
		}
	}
	sort.Strings(out)
	return out
}

// typeSwitchCases returns the syntax-package type names listed in the type
// switches of a function's body (top-level switch on a parameter, plus nested).
func typeSwitchCases(fd *ast.FuncDecl, pk *packages.Package, onlyFirst bool) map[string]bool {
	out := map[string]bool{}
	done := false
	ast.Inspect(fd.Body, func(n ast.Node) bool {
		ts, ok := n.(*ast.TypeSwitchStmt)
		if !ok || (done && onlyFirst) {
			return true
		}
		done = true
		for _, cl := range ts.Body.List {
			for _, e := range cl.(*ast.CaseClause).List {
				t := pk.TypesInfo.TypeOf(e)
				if t == nil {
					continue
				}
				if pp, n := namedOf(t); n != "" && strings.HasSuffix(pp, "/syntax") {
					out[n] = true
				}
			}
		}
		return !onlyFirst
	})
	return out
}

var o1Exclusions = map[string]map[string]string{
	"fcomp.expr": {"DictEntry": "consumed by the DictExpr and Comprehension arms, never dispatched on its own"},
}

func ruleO1(c *Ctx) {
	if c.P.Pkg("syntax") == nil {
		c.anchorFail("package syntax not loaded")
		return
	}
	stmts := implementers(c.P, "Stmt")
	exprs := implementers(c.P, "Expr")
	nodes := implementers(c.P, "Node")
	if len(stmts) < 8 || len(exprs) < 14 || len(nodes) < 24 {
		c.anchorFail("syntax node types not discovered (stmts %d, exprs %d, nodes %d)", len(stmts), len(exprs), len(nodes))
		return
	}
	type disp struct {
		pkg, fn string
		want    []string
		first   bool
	}
	ds := []disp{
		{"resolve", "resolver.stmt", stmts, true},
		{"resolve", "resolver.expr", exprs, true},
		{compilePkg, "fcomp.stmt", stmts, true},
		{compilePkg, "fcomp.expr", exprs, true},
		{"syntax", "Walk", nodes, true},
	}
	for _, d := range ds {
		fd, pk := c.P.FuncDecl(d.pkg, d.fn)
		if fd == nil {
			c.anchorFail("dispatcher %s.%s not found", d.pkg, d.fn)
			continue
		}
		cases := typeSwitchCases(fd, pk, d.first)
		// the dispatcher may delegate to a helper holding the type switch (Walk -> walkChildren)
		if root := c.P.Func(d.pkg, d.fn); root != nil {
			seenH := map[*ssa.Function]bool{root: true}
			work := []*ssa.Function{root}
			for i := 0; i < len(work) && i < 6; i++ {
				eachInstr(work[i], func(in ssa.Instruction) {
					ci, ok := in.(ssa.CallInstruction)
					if !ok {
						return
					}
					cal := ci.Common().StaticCallee()
					if cal == nil || seenH[cal] || fnPkgPath(cal) != fnPkgPath(root) || cal.Syntax() == nil {
						return
					}
					// only helpers that receive the dispatched node itself (same interface type)
					takesNode := false
					for _, a := range ci.Common().Args {
						for _, prm := range root.Params {
							if a == prm {
								takesNode = true
							}
						}
					}
					if !takesNode {
						return
					}
					seenH[cal] = true
					work = append(work, cal)
					if hd, ok := cal.Syntax().(*ast.FuncDecl); ok && hd.Body != nil {
						for k := range typeSwitchCases(hd, pk, true) {
							cases[k] = true
						}
					}
				})
			}
		}
		for _, w := range d.want {
			key := fmt.Sprintf("%s: arm for %s", d.fn, w)
			pos := c.P.Pos(fd.Pos())
			if cases[w] {
				c.ok(key, pos, "has an arm")
			} else if r, ok := o1Exclusions[d.fn][w]; ok {
				c.except(key, pos, r)
			} else {
				c.viol(key, pos, fmt.Sprintf("%s has no arm for *syntax.%s: a valid program containing this construct reaches the dispatcher's panic", d.fn, w))
			}
		}
	}
	// Span/End coverage is by interface satisfaction (compiler-checked). assign siblings:
	ra, rpk := c.P.FuncDecl("resolve", "resolver.assign")
	ca, cpk := c.P.FuncDecl(compilePkg, "fcomp.assign")
	if ra == nil || ca == nil {
		c.anchorFail("resolver.assign / fcomp.assign not found")
		return
	}
	rs, cs := typeSwitchCases(ra, rpk, true), typeSwitchCases(ca, cpk, true)
	// forms peeled off before the switch: `p, ok := lhs.(*syntax.ParenExpr)` in a loop, or unparen(lhs)
	for _, side := range []struct {
		fd  *ast.FuncDecl
		pk  *packages.Package
		out map[string]bool
	}{{ra, rpk, rs}, {ca, cpk, cs}} {
		ast.Inspect(side.fd.Body, func(n ast.Node) bool {
			switch x := n.(type) {
			case *ast.TypeAssertExpr:
				if x.Type != nil {
					if t := side.pk.TypesInfo.TypeOf(x.Type); t != nil {
						if pp, nm := namedOf(t); nm != "" && strings.HasSuffix(pp, "/syntax") {
							side.out[nm] = true
						}
					}
				}
			case *ast.CallExpr:
				if id, ok := x.Fun.(*ast.Ident); ok && id.Name == "unparen" {
					side.out["ParenExpr"] = true
				}
			}
			return true
		})
	}
	all := map[string]bool{}
	for k := range rs {
		all[k] = true
	}
	for k := range cs {
		all[k] = true
	}
	for k := range all {
		key := "assign target form " + k
		switch {
		case rs[k] && cs[k]:
			c.ok(key, c.P.Pos(ca.Pos()), "accepted by the resolver and compiled by fcomp.assign")
		case rs[k]:
			c.viol(key, c.P.Pos(ca.Pos()), "the resolver accepts *syntax."+k+" as an assignment target but fcomp.assign has no arm for it (compiler panic on a valid program)")
		default:
			c.viol(key, c.P.Pos(ra.Pos()), "fcomp.assign handles *syntax."+k+" but the resolver does not let it through (dead or unresolved code path)")
		}
	}
}

// ---------- O2 ----------

var o2Callers = map[string]bool{"starlark.FileProgram": true, "starlark.ExecREPLChunk": true, "starlark.makeExprFunc": true}

func ruleO2(c *Ctx) {
	cf, ce := c.P.Func(compilePkg, "File"), c.P.Func(compilePkg, "Expr")
	if cf == nil || ce == nil {
		c.anchorFail("compile.File / compile.Expr not found")
		return
	}
	n := 0
	for _, fn := range c.P.Funcs {
		if !isProdPkg(fnPkgPath(fn)) {
			continue
		}
		eachInstr(fn, func(in ssa.Instruction) {
			// any reference
			for _, op := range in.Operands(nil) {
				f, ok := (*op).(*ssa.Function)
				if !ok || (f != cf && f != ce) {
					continue
				}
				n++
				key := fmt.Sprintf("%s: call compile.%s", fnName(fn), f.Name())
				pos := c.P.Pos(in.Pos())
				call, isCall := in.(*ssa.Call)
				if !isCall || call.Call.Value != f {
					c.viol(key, pos, "compile."+f.Name()+" is used as a value; its callers cannot be enumerated")
					continue
				}
				if fn == ce && f == cf {
					c.trivial(key, pos, "compile.Expr wraps the expression in a return statement and delegates to compile.File; Expr's own callers are checked")
					continue
				}
				// dominated by the nil-error edge of a resolve.* call here, or - if this is a
				// private helper - at every one of its call sites (recursively)
				if ok, why := resolvedBefore(c.P, fn, in, 0); ok {
					c.ok(key, pos, why)
				} else {
					c.viol(key, pos, "the call is not dominated by a successful resolve.File/REPLChunk/ExprOptions ("+why+"): an unresolved or rejected tree can reach the compiler (which panics or miscompiles)")
				}
				continue
				okDom := false
				eachInstr(fn, func(in2 ssa.Instruction) {
					rc, ok := in2.(*ssa.Call)
					if !ok {
						return
					}
					cal := rc.Call.StaticCallee()
					if cal == nil || fnPkgPath(cal) != modPath+"/resolve" {
						return
					}
					var errv ssa.Value = rc
					if tup, ok := rc.Type().(*types.Tuple); ok {
						// error is the last result
						errv = nil
						for _, r := range *rc.Referrers() {
							if ex, ok := r.(*ssa.Extract); ok && ex.Index == tup.Len()-1 {
								errv = ex
							}
						}
					}
					if errv != nil && dominatedByNilErr(in.Block(), errv) {
						okDom = true
					}
				})
				if okDom {
					c.ok(key, pos, "dominated by the success edge of a resolve call")
				} else {
					c.viol(key, pos, "the call is not dominated by a successful resolve.File/REPLChunk/ExprOptions: an unresolved or rejected tree can reach the compiler (which panics or miscompiles)")
				}
			}
		})
	}
	if n == 0 {
		c.anchorFail("no call of compile.File/compile.Expr found")
	}
}

// ---------- O3 ----------

func ruleO3(c *Ctx) {
	errorf := c.P.Func("resolve", "resolver.errorf")
	if errorf == nil {
		c.anchorFail("resolver.errorf not found")
		return
	}
	for _, fn := range c.P.Funcs {
		if fnPkgPath(fn) != modPath+"/resolve" {
			continue
		}
		eachInstr(fn, func(in ssa.Instruction) {
			st, ok := storeToField(in, "resolve.resolver", "errors")
			if !ok {
				return
			}
			key := fmt.Sprintf("%s: store resolver.errors", fnName(fn))
			pos := c.P.Pos(st.Pos())
			isAppend := false
			if call, ok := st.Val.(*ssa.Call); ok {
				if b, ok := call.Call.Value.(*ssa.Builtin); ok && b.Name() == "append" && derivesFromField(call.Call.Args[0], "resolve.resolver", "errors") {
					isAppend = true
				}
			}
			switch {
			case fn == errorf && isAppend:
				c.ok(key, pos, "errorf appends")
			case isFreshResolverInit(st):
				c.trivial(key, pos, "initialisation of a new resolver")
			default:
				c.viol(key, pos, "resolver.errors is overwritten or truncated: an accumulated static error can be lost and the program accepted")
			}
		})
	}
	for _, name := range []string{"REPLChunk", "ExprOptions"} {
		fn := c.P.Func("resolve", name)
		key := "resolve." + name + ": returns the error list"
		if fn == nil {
			c.anchorFail("resolve.%s not found", name)
			continue
		}
		var lenIf *ssa.If
		okOnTrue := false // does the true edge of lenIf mean "no errors"?
		eachInstr(fn, func(in ssa.Instruction) {
			ifi, ok := in.(*ssa.If)
			if !ok {
				return
			}
			if b, ok := ifi.Cond.(*ssa.BinOp); ok && (b.Op == token.GTR || b.Op == token.NEQ || b.Op == token.EQL) {
				if call, ok := b.X.(*ssa.Call); ok {
					if bi, ok := call.Call.Value.(*ssa.Builtin); ok && bi.Name() == "len" && derivesFromField(call.Call.Args[0], "resolve.resolver", "errors") {
						if k, isK := constInt(b.Y); isK && k == 0 {
							lenIf = ifi
							okOnTrue = b.Op == token.EQL
						}
					}
				}
			}
		})
		if lenIf == nil {
			c.viol(key, c.P.Pos(fn.Pos()), "no test of len(r.errors) > 0: accumulated static errors are not reported")
			continue
		}
		bad := false
		eachInstr(fn, func(in ssa.Instruction) {
			r, ok := in.(*ssa.Return)
			if !ok {
				return
			}
			errRes := r.Results[len(r.Results)-1]
			if isNilConst(errRes) {
				// success return must be on the false edge
				okEdge := false
				for _, pc := range pathConds(r.Block()) {
					if pc.If == lenIf && pc.Branch == okOnTrue {
						okEdge = true
					}
				}
				if !okEdge {
					bad = true
				}
			}
		})
		if bad {
			c.viol(key, c.P.Pos(lenIf.Pos()), "a success return is reachable without passing the len(r.errors) == 0 edge")
		} else {
			c.ok(key, c.P.Pos(lenIf.Pos()), "success only on the len(r.errors) == 0 edge")
		}
	}
}

func isFreshResolverInit(st *ssa.Store) bool {
	fa := st.Addr.(*ssa.FieldAddr)
	_, ok := fa.X.(*ssa.Alloc)
	return ok
}

// ---------- O4 ----------

// O4 used to count errorf call sites per resolver function. Behaviour-preserving
// refactorings (moving a check into a helper, merging two parameterised
// messages) changed the counts, so the rule was reformulated: the resolver's
// nesting state (loop depth, conditional depth, enclosing function) must each
// guard at least one static error. The facts are gathered from conditions that
// dominate errorf calls, looking through bool-returning helpers of the package.
var o4Required = map[string]string{
	"resolver.loops":   "break/continue outside a loop, load inside a loop",
	"resolver.ifstmts": "load inside a conditional",
	"block.function":   "return / if / for / while / load placement relative to functions",
	"resolver.options": "dialect options (detailed per option by O5)",
}

func fieldsRead(v ssa.Value, depth int, seen map[ssa.Value]bool, out map[string]bool) {
	if v == nil || seen[v] || depth > 10 {
		return
	}
	seen[v] = true
	switch x := v.(type) {
	case *ssa.UnOp:
		fieldsRead(x.X, depth+1, seen, out)
	case *ssa.FieldAddr:
		o, f := ownerField(x)
		out[o[strings.LastIndex(o, ".")+1:]+"."+f] = true
		fieldsRead(x.X, depth+1, seen, out)
	case *ssa.Field:
		st := x.X.Type().Underlying().(*types.Struct)
		_, n := namedOf(x.X.Type())
		out[n+"."+st.Field(x.Field).Name()] = true
		fieldsRead(x.X, depth+1, seen, out)
	case *ssa.BinOp:
		fieldsRead(x.X, depth+1, seen, out)
		fieldsRead(x.Y, depth+1, seen, out)
	case *ssa.Phi:
		for _, e := range x.Edges {
			fieldsRead(e, depth+1, seen, out)
		}
		// short-circuit conditions: the conditions that select the phi's edges
		for _, p := range x.Block().Preds {
			if len(p.Instrs) > 0 {
				if ifi, ok := p.Instrs[len(p.Instrs)-1].(*ssa.If); ok {
					fieldsRead(ifi.Cond, depth+1, seen, out)
				}
			}
		}
	case *ssa.Convert:
		fieldsRead(x.X, depth+1, seen, out)
	case *ssa.Call:
		for _, a := range x.Call.Args {
			fieldsRead(a, depth+1, seen, out)
		}
		if cal := x.Call.StaticCallee(); cal != nil && cal.Blocks != nil && fnPkgPath(cal) == modPath+"/resolve" {
			eachInstr(cal, func(in ssa.Instruction) {
				if r, ok := in.(*ssa.Return); ok {
					for _, res := range r.Results {
						fieldsRead(res, depth+2, seen, out)
					}
				}
				if ifi, ok := in.(*ssa.If); ok {
					fieldsRead(ifi.Cond, depth+2, seen, out)
				}
			})
		}
	}
}

func ruleO4(c *Ctx) {
	errorf := c.P.Func("resolve", "resolver.errorf")
	if errorf == nil {
		c.anchorFail("resolver.errorf not found")
		return
	}
	guards := map[string]string{}
	total := 0
	for _, fn := range c.P.Funcs {
		if fnPkgPath(fn) != modPath+"/resolve" {
			continue
		}
		eachInstr(fn, func(in ssa.Instruction) {
			ci, ok := in.(ssa.CallInstruction)
			if !ok || ci.Common().StaticCallee() != errorf {
				return
			}
			total++
			for _, pf := range pathFacts(in.Block()) {
				fs := map[string]bool{}
				fieldsRead(pf.Cond, 0, map[ssa.Value]bool{}, fs)
				for f := range fs {
					if _, ok := guards[f]; !ok {
						guards[f] = c.P.Pos(in.Pos())
					}
				}
			}
		})
	}
	if total == 0 {
		c.anchorFail("no errorf call sites in package resolve")
		return
	}
	var req []string
	for f := range o4Required {
		req = append(req, f)
	}
	sort.Strings(req)
	for _, f := range req {
		key := "static rules consult " + f
		if pos, ok := guards[f]; ok {
			c.ok(key, pos, "guards a static error ("+o4Required[f]+")")
		} else {
			c.viol(key, "-", "no static error of the resolver depends on "+f+" any more: the rules about "+o4Required[f]+" are no longer enforced")
		}
	}
	c.trivial("package resolve: static-rule sites", "-", fmt.Sprintf("%d errorf call sites examined", total))
}

func callersOf(p *Prog, fn *ssa.Function) []*ssa.Function {
	var out []*ssa.Function
	for _, g := range p.Funcs {
		eachInstr(g, func(in ssa.Instruction) {
			if ci, ok := in.(ssa.CallInstruction); ok && ci.Common().StaticCallee() == fn {
				out = append(out, g)
			}
		})
	}
	return out
}

// ---------- O5 ----------

func ruleO5(c *Ctx) {
	ot := c.P.Named("syntax", "FileOptions")
	if ot == nil {
		c.anchorFail("syntax.FileOptions not found")
		return
	}
	st := ot.Underlying().(*types.Struct)
	decides := map[string]int{}
	for _, fn := range c.P.Funcs {
		if !isProdPkg(fnPkgPath(fn)) {
			continue
		}
		eachInstr(fn, func(in ssa.Instruction) {
			var fname string
			var v ssa.Value
			switch x := in.(type) {
			case *ssa.FieldAddr:
				if !isNamed(x.X.Type(), "syntax", "FileOptions") {
					return
				}
				fname = st.Field(x.Field).Name()
				// stores?
				for _, r := range *x.Referrers() {
					if s, ok := r.(*ssa.Store); ok && s.Addr == x {
						if _, fresh := x.X.(*ssa.Alloc); fresh {
							continue
						}
						c.viol(fmt.Sprintf("%s: store FileOptions.%s", fnName(fn), fname), c.P.Pos(s.Pos()), "a dialect option is modified after construction: files sharing the options value change meaning")
					}
					if ld, ok := r.(*ssa.UnOp); ok && ld.Op == token.MUL {
						v = ld
						if feedsBranch(v, map[ssa.Value]bool{}, 0) {
							decides[fname]++
						}
					}
				}
			case *ssa.Field:
				if !isNamed(x.X.Type(), "syntax", "FileOptions") {
					return
				}
				fname = st.Field(x.Field).Name()
				if feedsBranch(x, map[ssa.Value]bool{}, 0) {
					decides[fname]++
				}
			}
		})
	}
	for i := 0; i < st.NumFields(); i++ {
		f := st.Field(i).Name()
		key := "option " + f
		if decides[f] > 0 {
			c.ok(key, c.P.Pos(st.Field(i).Pos()), fmt.Sprintf("read at %d site(s) where it decides a branch", decides[f]))
		} else {
			c.viol(key, c.P.Pos(st.Field(i).Pos()), "option FileOptions."+f+" is never consulted in a branch: the feature is always on or always off regardless of the option")
		}
	}
}

// feedsBranch: does v (a bool) reach an If condition, through !, &&/|| phis,
// or through Program.Recursion (which CallInternal branches on)?
func feedsBranch(v ssa.Value, seen map[ssa.Value]bool, depth int) bool {
	if seen[v] || depth > 6 {
		return false
	}
	seen[v] = true
	refs := v.Referrers()
	if refs == nil {
		return false
	}
	for _, r := range *refs {
		switch x := r.(type) {
		case *ssa.If:
			return true
		case *ssa.UnOp:
			if feedsBranch(x, seen, depth+1) {
				return true
			}
		case *ssa.BinOp:
			if feedsBranch(x, seen, depth+1) {
				return true
			}
		case *ssa.Phi:
			if feedsBranch(x, seen, depth+1) {
				return true
			}
		case *ssa.Store:
			if fa, ok := x.Addr.(*ssa.FieldAddr); ok && x.Val == v {
				stt := deref(fa.X.Type()).Underlying().(*types.Struct)
				if stt.Field(fa.Field).Name() == "Recursion" && isNamed(fa.X.Type(), compilePkg, "Program") {
					return true
				}
			}
		}
	}
	return false
}

var _ = ast.Inspect

func init() {
	register("O7", "uses before bindings: in the resolver, whenever one syntax node's operand is resolved (resolver.expr) and another field of the same node is bound (resolver.assign), the operand is resolved first - so `x = x + 1`, `for x in x` and comprehension clauses see the environment before the binding", 3, ruleO7)
}

func ruleO7(c *Ctx) {
	expr := c.P.Func("resolve", "resolver.expr")
	assign := c.P.Func("resolve", "resolver.assign")
	if expr == nil || assign == nil {
		c.anchorFail("resolver.expr / resolver.assign not found")
		return
	}
	for _, fn := range c.P.Funcs {
		if fnPkgPath(fn) != modPath+"/resolve" {
			continue
		}
		type site struct {
			call  *ssa.Call
			base  ssa.Value
			field string
		}
		var exprs, assigns []site
		eachInstr(fn, func(in ssa.Instruction) {
			call, ok := in.(*ssa.Call)
			if !ok {
				return
			}
			cal := call.Call.StaticCallee()
			if cal != expr && cal != assign {
				return
			}
			// argument must be a direct load of a field of a (type-asserted) node value
			ld, ok := call.Call.Args[1].(*ssa.UnOp)
			if !ok || ld.Op != token.MUL {
				return
			}
			fa, ok := ld.X.(*ssa.FieldAddr)
			if !ok {
				return
			}
			s := site{call, fa.X, deref(fa.X.Type()).Underlying().(*types.Struct).Field(fa.Field).Name()}
			if cal == expr {
				exprs = append(exprs, s)
			} else {
				assigns = append(assigns, s)
			}
		})
		// Inside a comprehension's own block, and inside function bodies, uses are
		// resolved lazily when the block is complete, so order is immaterial there.
		// Order matters (a) at statement level, where the block may be the file
		// block whose uses are resolved eagerly, and (b) for the first clause of a
		// comprehension, whose operand belongs to the enclosing block: it must be
		// resolved before the comprehension block is pushed.
		var pushes []*ssa.Call
		eachInstr(fn, func(in ssa.Instruction) {
			if call, ok := in.(*ssa.Call); ok {
				if cal := call.Call.StaticCallee(); cal != nil && cal.Name() == "push" && cal.Signature.Recv() != nil {
					pushes = append(pushes, call)
				}
			}
		})
		for _, a := range assigns {
			for _, e := range exprs {
				if e.base != a.base {
					continue
				}
				pushDominates := false
				for _, p := range pushes {
					if instrDominates(p, a.call) {
						pushDominates = true
					}
				}
				if pushDominates {
					// comprehension: only the clause whose binding follows a push in straight line
					relevant := false
					for _, p := range pushes {
						if instrDominates(p, a.call) && !reachable(a.call.Block(), p.Block()) && a.call.Block() == p.Block() {
							relevant = true
							_, node := namedOf(a.base.Type())
							key := fmt.Sprintf("%s: %s.%s resolved before the comprehension block is pushed", fnName(fn), node, e.field)
							if instrDominates(e.call, p) {
								c.ok(key, c.P.Pos(p.Pos()), "first clause operand resolved in the enclosing block")
							} else {
								c.viol(key, c.P.Pos(p.Pos()), "the first clause's operand is resolved inside the comprehension's own block: [x for x in x] would refer to the comprehension variable instead of the outer x")
							}
						}
					}
					if !relevant {
						continue
					}
					continue
				}
				_, node := namedOf(a.base.Type())
				key := fmt.Sprintf("%s: %s.%s resolved before %s.%s is bound", fnName(fn), node, e.field, node, a.field)
				pos := c.P.Pos(a.call.Pos())
				if instrDominates(e.call, a.call) {
					c.ok(key, pos, "the operand's uses are resolved before the binding is created")
				} else {
					c.viol(key, pos, fmt.Sprintf("the target %s.%s is bound before %s.%s is resolved: a name used in its own defining expression is no longer reported as undefined (and the first binding becomes visible to its own right-hand side)", node, a.field, node, e.field))
				}
			}
		}
	}
}

// resolvedBefore: is instruction `at` of fn dominated by the success edge of a
// resolve call, directly or (for an unexported helper) at all of its call sites?
func resolvedBefore(p *Prog, fn *ssa.Function, at ssa.Instruction, depth int) (bool, string) {
	okDom := false
	eachInstr(fn, func(in2 ssa.Instruction) {
		rc, ok := in2.(*ssa.Call)
		if !ok {
			return
		}
		cal := rc.Call.StaticCallee()
		if cal == nil || fnPkgPath(cal) != modPath+"/resolve" {
			return
		}
		var errv ssa.Value = rc
		if tup, ok := rc.Type().(*types.Tuple); ok {
			errv = nil
			for _, r := range *rc.Referrers() {
				if ex, ok := r.(*ssa.Extract); ok && ex.Index == tup.Len()-1 {
					errv = ex
				}
			}
		}
		if errv != nil && dominatedByNilErr(at.Block(), errv) {
			okDom = true
		}
	})
	if okDom {
		return true, "dominated by the success edge of a resolve call in " + fnName(fn)
	}
	top := outermost(fn)
	if depth > 3 || top.Object() == nil || top.Object().Exported() {
		return false, "no dominating successful resolve call in " + fnName(fn)
	}
	n := 0
	for _, g := range p.Funcs {
		var bad string
		eachInstr(g, func(in ssa.Instruction) {
			ci, ok := in.(ssa.CallInstruction)
			if !ok || ci.Common().StaticCallee() != top || bad != "" {
				return
			}
			n++
			if ok2, why := resolvedBefore(p, g, in, depth+1); !ok2 {
				bad = why
			}
		})
		if bad != "" {
			return false, bad
		}
	}
	if n == 0 {
		return false, "helper " + fnName(top) + " has no static callers"
	}
	return true, fmt.Sprintf("private helper %s: all %d call sites follow a successful resolve call", fnName(top), n)
}

// ---------- O9, O10 ----------

func init() {
	register("O9", "parameter bindings are checked for duplicates: in the resolver's function() (and the helpers it calls outside the statement/expression dispatchers) the result of every bind call - whether the name was already bound - is tested, never discarded; all parameter forms (plain, with default, *args, **kwargs) are sibling sites of the same rule", 1, ruleO9)
	register("O10", "a nesting counter covers the whole construct: every statement list resolved after the increment of a resolver nesting counter (loops, ifstmts) in that function is resolved before the matching decrement, so the else branch of an if and the body of a loop are judged as nested", 2, ruleO10)
	claim("C09", "O9", "O10")
}

func ruleO9(c *Ctx) {
	root := c.P.Func("resolve", "resolver.function")
	bind := c.P.Func("resolve", "resolver.bind")
	bindLocal := c.P.Func("resolve", "resolver.bindLocal")
	if root == nil || bind == nil {
		c.anchorFail("resolve.(*resolver).function / bind not found")
		return
	}
	isBind := func(f *ssa.Function) bool { return f != nil && (f == bind || f == bindLocal) }
	// helpers reached from function() without entering a node dispatcher
	fns := []*ssa.Function{root}
	seen := map[*ssa.Function]bool{root: true}
	for i := 0; i < len(fns); i++ {
		eachInstr(fns[i], func(in ssa.Instruction) {
			ci, ok := in.(ssa.CallInstruction)
			if !ok {
				return
			}
			cal := ci.Common().StaticCallee()
			if cal == nil || cal.Blocks == nil || seen[cal] || isBind(cal) || fnPkgPath(cal) != modPath+"/resolve" || isNodeDispatcher(cal) {
				return
			}
			// statement lists lead into the dispatchers
			for _, p := range cal.Params {
				if s, ok := p.Type().(*types.Slice); ok && isSyntaxIface(s.Elem(), "Stmt") {
					return
				}
			}
			seen[cal] = true
			fns = append(fns, cal)
		})
	}
	n := 0
	for _, fn := range fns {
		fn := fn
		eachInstr(fn, func(in ssa.Instruction) {
			call, ok := in.(*ssa.Call)
			if !ok || !isBind(call.Call.StaticCallee()) {
				return
			}
			n++
			key := fmt.Sprintf("%s: bind result", fnName(fn))
			pos := c.P.Pos(call.Pos())
			used := false
			if call.Referrers() != nil {
				for _, r := range *call.Referrers() {
					switch r.(type) {
					case *ssa.If, *ssa.Return, *ssa.BinOp, *ssa.UnOp, *ssa.Phi:
						used = true
					}
				}
			}
			if used {
				c.ok(key, pos, "the already-bound result decides a branch (or is returned to the caller)")
			} else {
				c.viol(key, pos, "the result of bind (was the name already bound?) is discarded while binding a parameter: a repeated parameter name of this form is silently accepted although the sibling forms reject it")
			}
		})
	}
	if n < 1 {
		c.anchorFail("only %d parameter bind sites found under resolver.function", n)
	}
}

func ruleO10(c *Ctx) {
	counters := map[string]bool{"loops": true, "ifstmts": true}
	n := 0
	for _, fn := range c.P.Funcs {
		if fnPkgPath(fn) != modPath+"/resolve" {
			continue
		}
		fn := fn
		var incs, decs []*ssa.Store
		fields := map[*ssa.Store]string{}
		eachInstr(fn, func(in ssa.Instruction) {
			st, ok := in.(*ssa.Store)
			if !ok {
				return
			}
			fa, ok := st.Addr.(*ssa.FieldAddr)
			if !ok {
				return
			}
			o, f := ownerField(fa)
			if o != "resolve.resolver" || !counters[f] {
				return
			}
			if v, ok := st.Val.(*ssa.BinOp); ok {
				if k, ok := constInt(v.Y); ok && k == 1 && derivesFromField(v.X, "resolve.resolver", f) {
					fields[st] = f
					if v.Op == token.ADD {
						incs = append(incs, st)
					} else if v.Op == token.SUB {
						decs = append(decs, st)
					}
				}
			}
		})
		for _, inc := range incs {
			// the matching decrement: the nearest one dominated by the increment
			var dec *ssa.Store
			for _, d := range decs {
				if fields[d] == fields[inc] && instrDominates(inc, d) && (dec == nil || instrDominates(d, dec)) {
					dec = d
				}
			}
			if dec == nil {
				continue // O8 reports unbalanced counters
			}
			n++
			key := fmt.Sprintf("%s: window of %s", fnName(fn), fields[inc])
			pos := c.P.Pos(inc.Pos())
			bad := ""
			cnt := 0
			eachInstr(fn, func(in ssa.Instruction) {
				ci, ok := in.(ssa.CallInstruction)
				if !ok {
					return
				}
				cal := ci.Common().StaticCallee()
				if cal == nil || fnPkgPath(cal) != modPath+"/resolve" {
					return
				}
				takesStmts := false
				for _, p := range cal.Params {
					if s, ok := p.Type().(*types.Slice); ok && isSyntaxIface(s.Elem(), "Stmt") {
						takesStmts = true
					}
					if isSyntaxIface(p.Type(), "Stmt") {
						takesStmts = true
					}
				}
				if !takesStmts || !instrDominates(inc, in) {
					return
				}
				// another increment of the same counter in between starts a new window
				for _, other := range incs {
					if other != inc && fields[other] == fields[inc] && instrDominates(inc, other) && instrDominates(other, in) {
						return
					}
				}
				cnt++
				if !instrDominates(in, dec) {
					bad = fmt.Sprintf("the statements resolved at %s come after the decrement at %s", c.P.Pos(in.Pos()), c.P.Pos(dec.Pos()))
				}
			})
			if bad != "" {
				c.viol(key, pos, "part of the construct is resolved outside the counter's window ("+bad+"): statements there are not judged as nested, so a static rule that depends on the nesting (load inside a conditional, break outside a loop) is not applied to them")
			} else {
				c.ok(key, pos, fmt.Sprintf("%d statement list(s) resolved inside the window", cnt))
			}
		}
	}
	if n < 2 {
		c.anchorFail("only %d counter windows found in the resolver", n)
	}
}
