package main

import (
	"fmt"
	"go/ast"
	"go/token"
	"go/types"
	"os"
	"path/filepath"
	"sort"
	"strings"

	"golang.org/x/tools/go/callgraph"
	"golang.org/x/tools/go/callgraph/cha"
	"golang.org/x/tools/go/callgraph/vta"
	"golang.org/x/tools/go/packages"
	"golang.org/x/tools/go/ssa"
	"golang.org/x/tools/go/ssa/ssautil"
)

const modPath = "go.starlark.net"

// Prog is the resolved program under analysis: type-checked syntax, SSA and
// (lazily) a VTA call graph of /repo's current working tree.
type Prog struct {
	InitFuncs []*ssa.Function // synthetic package initialisers (var x = f()) of the module's packages
	Repo      string
	Arch      string
	Fset      *token.FileSet
	Pkgs      []*packages.Package          // packages of module go.starlark.net
	ByPath    map[string]*packages.Package // import path -> package
	SSA       *ssa.Program
	SSAPkg    map[string]*ssa.Package
	Funcs     []*ssa.Function // all source functions of the module (incl. closures), deterministic order
	cg        *callgraph.Graph
	nAllFns   int
}

// Load type-checks ./... in repo for the given GOARCH with optional file
// overlays (used by the seeded-mutant self-test; nothing is written to disk).
func Load(repo, arch string, overlay map[string][]byte) (*Prog, error) {
	env := os.Environ()
	var kept []string
	for _, e := range env {
		if strings.HasPrefix(e, "GOWORK=") || strings.HasPrefix(e, "GOARCH=") || strings.HasPrefix(e, "GOOS=") || strings.HasPrefix(e, "GOFLAGS=") || strings.HasPrefix(e, "GOPROXY=") {
			continue
		}
		kept = append(kept, e)
	}
	kept = append(kept, "GOWORK=off", "GOOS=linux", "GOARCH="+arch, "GOFLAGS=-mod=mod", "GOPROXY=off", "CGO_ENABLED=0")
	cfg := &packages.Config{
		Mode:    packages.LoadAllSyntax,
		Dir:     repo,
		Env:     kept,
		Overlay: overlay,
		Tests:   false,
	}
	initial, err := packages.Load(cfg, "./...")
	if err != nil {
		return nil, fmt.Errorf("load: %v", err)
	}
	if len(initial) == 0 {
		return nil, fmt.Errorf("load: no packages matched ./... in %s", repo)
	}
	var errs []string
	packages.Visit(initial, nil, func(p *packages.Package) {
		for _, e := range p.Errors {
			errs = append(errs, e.Error())
		}
	})
	if len(errs) > 0 {
		sort.Strings(errs)
		if len(errs) > 10 {
			errs = errs[:10]
		}
		return nil, fmt.Errorf("type-check errors (the tree does not compile): %s", strings.Join(errs, "; "))
	}
	p := &Prog{Repo: repo, Arch: arch, ByPath: map[string]*packages.Package{}, SSAPkg: map[string]*ssa.Package{}}
	sort.Slice(initial, func(i, j int) bool { return initial[i].PkgPath < initial[j].PkgPath })
	for _, pk := range initial {
		if pk.PkgPath == modPath || strings.HasPrefix(pk.PkgPath, modPath+"/") {
			p.Pkgs = append(p.Pkgs, pk)
			p.ByPath[pk.PkgPath] = pk
		}
	}
	if len(p.Pkgs) == 0 {
		return nil, fmt.Errorf("load: no package of module %s found", modPath)
	}
	p.Fset = initial[0].Fset
	prog, ssapkgs := ssautil.AllPackages(initial, ssa.InstantiateGenerics)
	prog.Build()
	p.SSA = prog
	for i, sp := range ssapkgs {
		if sp != nil {
			p.SSAPkg[initial[i].PkgPath] = sp
		}
	}
	all := ssautil.AllFunctions(prog)
	p.nAllFns = len(all)
	for fn := range all {
		if fn.Synthetic != "" && fn.Parent() == nil && fn.Syntax() == nil {
			if fn.Synthetic == "package initializer" && fn.Blocks != nil {
				if pk := fnPkgPath(fn); pk == modPath || strings.HasPrefix(pk, modPath+"/") {
					p.InitFuncs = append(p.InitFuncs, fn)
				}
			}
			continue
		}
		if pk := fnPkgPath(fn); pk == modPath || strings.HasPrefix(pk, modPath+"/") {
			if fn.Blocks != nil {
				p.Funcs = append(p.Funcs, fn)
			}
		}
	}
	sort.Slice(p.Funcs, func(i, j int) bool {
		a, b := p.Funcs[i], p.Funcs[j]
		if a.Pos() != b.Pos() {
			return a.Pos() < b.Pos()
		}
		return a.String() < b.String()
	})
	return p, nil
}

func fnPkgPath(fn *ssa.Function) string {
	for fn.Parent() != nil {
		fn = fn.Parent()
	}
	if fn.Pkg != nil {
		return fn.Pkg.Pkg.Path()
	}
	if o := fn.Object(); o != nil && o.Pkg() != nil {
		return o.Pkg().Path()
	}
	if fn.Origin() != nil {
		return fnPkgPath(fn.Origin())
	}
	return ""
}

// CG returns the VTA call graph seeded with CHA (built on first use).
func (p *Prog) CG() *callgraph.Graph {
	if p.cg == nil {
		all := ssautil.AllFunctions(p.SSA)
		p.cg = vta.CallGraph(all, cha.CallGraph(p.SSA))
	}
	return p.cg
}

// Pos renders a position relative to the repository root.
func (p *Prog) Pos(pos token.Pos) string {
	if !pos.IsValid() {
		return "-"
	}
	ps := p.Fset.Position(pos)
	rel, err := filepath.Rel(p.Repo, ps.Filename)
	if err != nil || strings.HasPrefix(rel, "..") {
		rel = ps.Filename
	}
	return fmt.Sprintf("%s:%d", rel, ps.Line)
}

// Pkg returns the package with path modPath/rel ("" for the root), or nil.
func (p *Prog) Pkg(rel string) *packages.Package {
	if rel == "" {
		return p.ByPath[modPath]
	}
	return p.ByPath[modPath+"/"+rel]
}

// Named looks up a package-level named type.
func (p *Prog) Named(pkgRel, name string) *types.Named {
	pk := p.Pkg(pkgRel)
	if pk == nil {
		return nil
	}
	o := pk.Types.Scope().Lookup(name)
	if o == nil {
		return nil
	}
	n, _ := o.Type().(*types.Named)
	return n
}

// Func resolves "Name" or "T.Name"/"(*T).Name" in a package to its SSA function.
func (p *Prog) Func(pkgRel, name string) *ssa.Function {
	pk := p.Pkg(pkgRel)
	if pk == nil {
		return nil
	}
	name = strings.TrimPrefix(name, "(*")
	name = strings.Replace(name, ").", ".", 1)
	if i := strings.Index(name, "."); i >= 0 {
		tn, mn := name[:i], name[i+1:]
		o := pk.Types.Scope().Lookup(tn)
		if o == nil {
			return nil
		}
		obj, _, _ := types.LookupFieldOrMethod(types.NewPointer(o.Type()), true, pk.Types, mn)
		f, _ := obj.(*types.Func)
		if f == nil {
			return nil
		}
		return p.SSA.FuncValue(f)
	}
	o := pk.Types.Scope().Lookup(name)
	f, _ := o.(*types.Func)
	if f == nil {
		return nil
	}
	return p.SSA.FuncValue(f)
}

// FuncDecl finds the syntax of a function or method ("Name", "T.Name").
func (p *Prog) FuncDecl(pkgRel, name string) (*ast.FuncDecl, *packages.Package) {
	pk := p.Pkg(pkgRel)
	if pk == nil {
		return nil, nil
	}
	name = strings.TrimPrefix(name, "(*")
	name = strings.Replace(name, ").", ".", 1)
	tn, mn := "", name
	if i := strings.Index(name, "."); i >= 0 {
		tn, mn = name[:i], name[i+1:]
	}
	for _, f := range pk.Syntax {
		for _, d := range f.Decls {
			fd, ok := d.(*ast.FuncDecl)
			if !ok || fd.Name.Name != mn {
				continue
			}
			if tn == "" {
				if fd.Recv == nil {
					return fd, pk
				}
				continue
			}
			if fd.Recv == nil || len(fd.Recv.List) == 0 {
				continue
			}
			t := fd.Recv.List[0].Type
			if s, ok := t.(*ast.StarExpr); ok {
				t = s.X
			}
			if id, ok := t.(*ast.Ident); ok && id.Name == tn {
				return fd, pk
			}
		}
	}
	return nil, nil
}

// fnName is a stable, line-independent name for an SSA function:
// pkg.Func, pkg.(*T).M, pkg.Func$1 (closures numbered in source order).
func fnName(fn *ssa.Function) string {
	if fn == nil {
		return "<nil>"
	}
	s := fn.String()
	s = strings.ReplaceAll(s, modPath+"/", "")
	s = strings.ReplaceAll(s, modPath+".", "")
	return s
}

// isProd reports whether the function belongs to a production (library)
// package, as opposed to cmd/, repl, starlarktest or internal/chunkedfile.
func isProdPkg(path string) bool {
	rel := strings.TrimPrefix(strings.TrimPrefix(path, modPath), "/")
	switch {
	case strings.HasPrefix(rel, "cmd"), rel == "repl", rel == "starlarktest", rel == "internal/chunkedfile", strings.HasPrefix(rel, "docs"):
		return false
	}
	return true
}

// sizes returns the type sizes of the loaded configuration.
func (p *Prog) sizes() types.Sizes {
	for _, pk := range p.Pkgs {
		if pk.TypesSizes != nil {
			return pk.TypesSizes
		}
	}
	return types.SizesFor("gc", p.Arch)
}

// NamedQ resolves a qualified type name as produced by qualType ("starlark.cell",
// "lib/proto.Message") to the named type.
func (p *Prog) NamedQ(q string) *types.Named {
	i := strings.LastIndex(q, ".")
	if i < 0 {
		return nil
	}
	return p.Named(q[:i], q[i+1:])
}
