package main

import (
	"fmt"
	"go/ast"
	"go/token"
	"go/types"
	"sort"
	"strings"

	"golang.org/x/tools/go/packages"
	"golang.org/x/tools/go/ssa"
)

func init() {
	register("Z1", "serialisation field coverage: every field of compile.Program and compile.Funcode except the declared transients (Prog, lntOnce, lnt) is written by the encoder and assigned by the decoder", 15, ruleZ1)
	register("Z2", "wire lock-step: for each encoder/decoder helper pair (Encode/DecodeProgram, function, binding, bindings) the sequences of wire operations (varint, uvarint, string, helper call, counted loop, tagged switch) are identical and each slot is bound to the same field on both sides", 25, ruleZ2)
	register("Z3", "constant kinds agree: the encoder's type switch, the decoder's tag switch, the compiler's constant producers and the VM's constant loader handle the same set of Go types with the same tags", 5, ruleZ3)
	register("Z4", "decoder guards: the magic and version checks dominate all other decoding, the decoder's filename is set before any position is decoded, and the trailing-data check dominates the success return", 4, ruleZ4)
	register("Z5", "re-encoding is deterministic: Encode's call tree contains no map iteration and no time/random source", 1, ruleZ5)
}

const compilePkg = "internal/compile"

var serialTransients = map[string]string{
	"Funcode.Prog":    "back pointer, re-established by DecodeProgram",
	"Funcode.lntOnce": "lazy-decoding guard",
	"Funcode.lnt":     "decoded form of pclinetab",
}

// ---- wire abstraction ----

type wop struct {
	kind  string // V U S H:<helper> LOOP SWITCH
	label string
	body  []wop            // LOOP
	arms  map[string][]wop // SWITCH: tag -> body
	pos   token.Pos
}

func (o wop) String() string {
	switch o.kind {
	case "LOOP":
		return "LOOP(" + o.label + ")[" + wopsString(o.body) + "]"
	case "SWITCH":
		var ks []string
		for k := range o.arms {
			ks = append(ks, k)
		}
		sort.Strings(ks)
		var parts []string
		for _, k := range ks {
			parts = append(parts, k+":["+wopsString(o.arms[k])+"]")
		}
		return "SWITCH{" + strings.Join(parts, " ") + "}"
	}
	return o.kind + ":" + o.label
}

func wopsString(os []wop) string {
	var s []string
	for _, o := range os {
		s = append(s, o.String())
	}
	return strings.Join(s, ", ")
}

var wireKind = map[string]string{"int": "V", "int64": "V", "uint64": "U", "string": "S", "bytes": "S"}

// methodCallOn: is e a call recv.m(args) with recv an identifier of the given name?
func methodCallOn(e ast.Expr, recv string) (m string, args []ast.Expr, ok bool) {
	call, isCall := e.(*ast.CallExpr)
	if !isCall {
		return "", nil, false
	}
	sel, isSel := call.Fun.(*ast.SelectorExpr)
	if !isSel {
		return "", nil, false
	}
	id, isId := sel.X.(*ast.Ident)
	if !isId || id.Name != recv {
		return "", nil, false
	}
	return sel.Sel.Name, call.Args, true
}

// encLabel canonicalises the expression an encoder writes: the field path
// relative to the function's subject, with wrappers (len kept, b2i/int
// conversions dropped).
func encLabel(e ast.Expr, env map[string]string) string {
	switch x := e.(type) {
	case *ast.ParenExpr:
		return encLabel(x.X, env)
	case *ast.Ident:
		if l, ok := env[x.Name]; ok {
			return l
		}
		return x.Name
	case *ast.SelectorExpr:
		base := encLabel(x.X, env)
		if base == "" {
			return x.Sel.Name
		}
		return base + "." + x.Sel.Name
	case *ast.CallExpr:
		if id, ok := x.Fun.(*ast.Ident); ok {
			switch id.Name {
			case "len":
				return "len(" + encLabel(x.Args[0], env) + ")"
			case "b2i", "int", "int64", "uint64", "string", "int32", "uint32":
				return encLabel(x.Args[0], env)
			}
		}
		if sel, ok := x.Fun.(*ast.SelectorExpr); ok {
			if pk, ok := sel.X.(*ast.Ident); ok && pk.Name == "math" {
				return encLabel(x.Args[0], env)
			}
			// method call on a value: keep as path()
			return encLabel(sel.X, env) + "." + sel.Sel.Name + "()"
		}
	case *ast.BasicLit:
		return x.Value
	case *ast.IndexExpr:
		// X[i] inside a loop over X: the element
		return "elem(" + encLabel(x.X, env) + ")"
	case *ast.CompositeLit:
		var parts []string
		for _, el := range x.Elts {
			if kv, ok := el.(*ast.KeyValueExpr); ok {
				parts = append(parts, encLabel(kv.Value, env))
			} else {
				parts = append(parts, encLabel(el, env))
			}
		}
		return "{" + strings.Join(parts, ",") + "}"
	}
	return "?" + types.ExprString(e)
}

func encodeOps(stmts []ast.Stmt, recv string, env map[string]string, c *Ctx) []wop {
	var out []wop
	for _, s := range stmts {
		switch st := s.(type) {
		case *ast.ExprStmt:
			m, args, ok := methodCallOn(st.X, recv)
			if !ok {
				continue
			}
			k, prim := wireKind[m]
			if !prim {
				k = "H:" + m
			}
			lab := ""
			if len(args) > 0 {
				lab = encLabel(args[0], env)
			}
			out = append(out, wop{kind: k, label: lab, pos: st.Pos()})
		case *ast.AssignStmt:
			// local alias of a field: pclinetab := fn.pclinetab
			if len(st.Lhs) == 1 && len(st.Rhs) == 1 && st.Tok == token.DEFINE {
				if id, ok := st.Lhs[0].(*ast.Ident); ok {
					if l := encLabel(st.Rhs[0], env); !strings.HasPrefix(l, "?") {
						env[id.Name] = l
					}
				}
			}
		case *ast.ForStmt:
			// for i := 0; i < len(X); i++ { ... X[i] ... }
			over := "?"
			if be, ok := st.Cond.(*ast.BinaryExpr); ok && be.Op == token.LSS {
				if call, ok := be.Y.(*ast.CallExpr); ok && len(call.Args) == 1 {
					if id, ok := call.Fun.(*ast.Ident); ok && id.Name == "len" {
						over = encLabel(call.Args[0], env)
					}
				}
			}
			out = append(out, wop{kind: "LOOP", label: over, body: encodeOps(st.Body.List, recv, env, c), pos: st.Pos()})
		case *ast.RangeStmt:
			over := encLabel(st.X, env)
			env2 := map[string]string{}
			for k, v := range env {
				env2[k] = v
			}
			if id, ok := st.Key.(*ast.Ident); ok && id.Name != "_" {
				env2[id.Name] = "index(" + over + ")"
			}
			if id, ok := st.Value.(*ast.Ident); ok && id.Name != "_" {
				env2[id.Name] = "elem(" + over + ")"
			}
			out = append(out, wop{kind: "LOOP", label: over, body: encodeOps(st.Body.List, recv, env2, c), pos: st.Pos()})
		case *ast.TypeSwitchStmt:
			sw := wop{kind: "SWITCH", arms: map[string][]wop{}, pos: st.Pos()}
			for _, cl := range st.Body.List {
				cc := cl.(*ast.CaseClause)
				ops := encodeOps(cc.Body, recv, env, c)
				tag := "?"
				if len(ops) > 0 && ops[0].kind == "V" {
					tag = ops[0].label
					ops = ops[1:]
				}
				// a named constant tag: use its value
				for _, st0 := range cc.Body {
					if es, ok := st0.(*ast.ExprStmt); ok {
						if call, ok := es.X.(*ast.CallExpr); ok && len(call.Args) == 1 {
							if k, isK := constOfAny(c, call.Args[0]); isK {
								tag = fmt.Sprint(k)
							}
						}
					}
					break
				}
				// relabel arm payload as the switch subject
				for i := range ops {
					ops[i].label = "arm"
				}
				sw.arms[tag] = ops
			}
			out = append(out, sw)
		case *ast.BlockStmt:
			out = append(out, encodeOps(st.List, recv, env, c)...)
		}
	}
	// normalise: V:len(X) followed by LOOP(X) stays as is (compared structurally)
	return out
}

// decoder side: find the innermost d.m() call in an expression.
func innerDecodeCall(e ast.Expr, recv string) (string, bool) {
	var found string
	ast.Inspect(e, func(n ast.Node) bool {
		if found != "" {
			return false
		}
		if ex, ok := n.(ast.Expr); ok {
			if m, _, ok := methodCallOn(ex, recv); ok {
				found = m
				return false
			}
		}
		return true
	})
	return found, found != ""
}

func isMakeWithCount(e ast.Expr, recv string) bool {
	call, ok := e.(*ast.CallExpr)
	if !ok {
		return false
	}
	id, ok := call.Fun.(*ast.Ident)
	if !ok || id.Name != "make" || len(call.Args) < 2 {
		return false
	}
	m, ok := innerDecodeCall(call.Args[1], recv)
	return ok && m == "int"
}

func decodeOps(stmts []ast.Stmt, recv string, fieldOf map[string]string, inlineHelper func(name string) []ast.Stmt, c *Ctx) []wop {
	stmts = normStmts(stmts)
	lab := func(v string) string {
		if f, ok := fieldOf[v]; ok {
			return f
		}
		return v
	}
	var out []wop
	emitCall := func(m, target string, pos token.Pos) {
		if k, prim := wireKind[m]; prim {
			out = append(out, wop{kind: k, label: target, pos: pos})
			return
		}
		if body := inlineHelper(m); body != nil {
			// helper without an encoder namesake (ints, bool): inline, labelling by the target
			sub := decodeOps(body, recv, map[string]string{}, inlineHelper, c)
			relabel(sub, target)
			out = append(out, sub...)
			return
		}
		out = append(out, wop{kind: "H:" + m, label: target, pos: pos})
	}
	for _, s := range stmts {
		switch st := s.(type) {
		case *ast.AssignStmt:
			if len(st.Rhs) != 1 {
				continue
			}
			target := ""
			switch l := st.Lhs[0].(type) {
			case *ast.Ident:
				target = lab(l.Name)
			case *ast.IndexExpr:
				if id, ok := l.X.(*ast.Ident); ok {
					target = "elem(" + lab(id.Name) + ")"
				}
			case *ast.SelectorExpr:
				target = "." + l.Sel.Name
			}
			if isMakeWithCount(st.Rhs[0], recv) {
				out = append(out, wop{kind: "V", label: "len(" + target + ")", pos: st.Pos()})
				continue
			}
			if m, ok := innerDecodeCall(st.Rhs[0], recv); ok {
				emitCall(m, target, st.Pos())
			}
		case *ast.DeclStmt:
			continue
		case *ast.IfStmt:
			// if v := d.int(); v != Version { ... }
			if st.Init != nil {
				if as, ok := st.Init.(*ast.AssignStmt); ok && len(as.Rhs) == 1 {
					if m, ok := innerDecodeCall(as.Rhs[0], recv); ok {
						target := "?"
						if be, ok := st.Cond.(*ast.BinaryExpr); ok {
							target = types.ExprString(be.Y)
						}
						emitCall(m, target, st.Pos())
					}
				}
			}
		case *ast.RangeStmt:
			over := ""
			if id, ok := st.X.(*ast.Ident); ok {
				over = lab(id.Name)
			}
			body := decodeOps(st.Body.List, recv, fieldOf, inlineHelper, c)
			if len(body) > 0 {
				out = append(out, wop{kind: "LOOP", label: over, body: body, pos: st.Pos()})
			}
		case *ast.ForStmt:
			// for i := 0; i < len(x); i++ { x[i] = d.int() }
			over := ""
			if be, ok := st.Cond.(*ast.BinaryExpr); ok && be.Op == token.LSS {
				if call, ok := be.Y.(*ast.CallExpr); ok && len(call.Args) == 1 {
					if id, ok := call.Fun.(*ast.Ident); ok && id.Name == "len" {
						if x, ok := call.Args[0].(*ast.Ident); ok {
							over = lab(x.Name)
						}
					}
				}
			}
			body := decodeOps(st.Body.List, recv, fieldOf, inlineHelper, c)
			if len(body) > 0 {
				out = append(out, wop{kind: "LOOP", label: over, body: body, pos: st.Pos()})
			}
		case *ast.SwitchStmt:
			if st.Tag == nil {
				continue
			}
			tagExpr := st.Tag
			// switch tag := d.int(); tag { ... }
			if as, ok := st.Init.(*ast.AssignStmt); ok && len(as.Lhs) == 1 && len(as.Rhs) == 1 {
				if l, ok := as.Lhs[0].(*ast.Ident); ok {
					if t, ok := st.Tag.(*ast.Ident); ok && t.Name == l.Name {
						tagExpr = as.Rhs[0]
					}
				}
			}
			if m, ok := innerDecodeCall(tagExpr, recv); !ok || m != "int" {
				continue
			}
			sw := wop{kind: "SWITCH", arms: map[string][]wop{}, pos: st.Pos()}
			for _, cl := range st.Body.List {
				cc := cl.(*ast.CaseClause)
				tag := "default"
				if len(cc.List) == 1 {
					tag = types.ExprString(cc.List[0])
					if k, isK := constOfAny(c, cc.List[0]); isK {
						tag = fmt.Sprint(k)
					}
				}
				ops := decodeOps(cc.Body, recv, fieldOf, inlineHelper, c)
				for i := range ops {
					ops[i].label = "arm"
				}
				sw.arms[tag] = ops
			}
			out = append(out, sw)
		case *ast.ReturnStmt:
			// return Binding{Name: name, ...} handled through fieldOf; return d.int() != 0 etc.
			for _, r := range st.Results {
				if _, isLit := r.(*ast.CompositeLit); isLit {
					continue
				}
				if u, ok := r.(*ast.UnaryExpr); ok {
					if _, isLit := u.X.(*ast.CompositeLit); isLit {
						continue
					}
				}
				if m, ok := innerDecodeCall(r, recv); ok {
					emitCall(m, "result", st.Pos())
				}
			}
		}
	}
	return out
}

func relabel(ops []wop, target string) {
	for i := range ops {
		l := ops[i].label
		switch {
		case strings.HasPrefix(l, "len("):
			ops[i].label = "len(" + target + ")"
		case strings.HasPrefix(l, "elem("):
			ops[i].label = "elem(" + target + ")"
		case ops[i].kind == "LOOP":
			ops[i].label = target
		default:
			ops[i].label = target
		}
		relabelBody(ops[i].body, target)
	}
}
func relabelBody(ops []wop, target string) {
	for i := range ops {
		if strings.HasPrefix(ops[i].label, "elem(") {
			ops[i].label = "elem(" + target + ")"
		}
	}
}

// compositeFieldMap finds the struct literal the decoder function builds and
// maps local variable names to the field they initialise ("id.Pos" -> var id
// maps to "{Name,Pos}" style when several selectors of the same var are used).
func compositeFieldMap(body *ast.BlockStmt, typeName string) (map[string]string, map[string]bool, token.Pos) {
	m := map[string]string{}
	keys := map[string]bool{}
	var pos token.Pos
	multi := map[string][]string{}
	ast.Inspect(body, func(n ast.Node) bool {
		cl, ok := n.(*ast.CompositeLit)
		if !ok {
			return true
		}
		id, ok := cl.Type.(*ast.Ident)
		if !ok || id.Name != typeName {
			return true
		}
		pos = cl.Pos()
		for _, el := range cl.Elts {
			kv, ok := el.(*ast.KeyValueExpr)
			if !ok {
				continue
			}
			k := kv.Key.(*ast.Ident).Name
			keys[k] = true
			switch v := kv.Value.(type) {
			case *ast.Ident:
				m[v.Name] = k
			case *ast.SelectorExpr:
				if b, ok := v.X.(*ast.Ident); ok {
					multi[b.Name] = append(multi[b.Name], k)
				}
			case *ast.CallExpr:
				// syntax.MakePosition(d.filename, line, col)
				var names []string
				for _, a := range v.Args {
					if id, ok := a.(*ast.Ident); ok {
						names = append(names, id.Name)
					}
				}
				if sel, ok := v.Fun.(*ast.SelectorExpr); ok && sel.Sel.Name == "MakePosition" && len(names) == 2 {
					m[names[0]] = k + ".Line"
					m[names[1]] = k + ".Col"
				}
			}
		}
		return false
	})
	// the same object built field by field: x := new(T) (or &T{}, or var x T) followed by x.F = v
	objs := map[string]bool{}
	isT := func(e ast.Expr) bool {
		switch v := e.(type) {
		case *ast.CallExpr:
			if f, ok := v.Fun.(*ast.Ident); ok && f.Name == "new" && len(v.Args) == 1 {
				if id, ok := v.Args[0].(*ast.Ident); ok && id.Name == typeName {
					return true
				}
			}
		case *ast.UnaryExpr:
			if cl, ok := v.X.(*ast.CompositeLit); ok {
				if id, ok := cl.Type.(*ast.Ident); ok && id.Name == typeName && len(cl.Elts) == 0 {
					return true
				}
			}
		case *ast.CompositeLit:
			if id, ok := v.Type.(*ast.Ident); ok && id.Name == typeName && len(v.Elts) == 0 {
				return true
			}
		}
		return false
	}
	ast.Inspect(body, func(n ast.Node) bool {
		switch x := n.(type) {
		case *ast.AssignStmt:
			if x.Tok == token.DEFINE && len(x.Lhs) == 1 && len(x.Rhs) == 1 && isT(x.Rhs[0]) {
				if id, ok := x.Lhs[0].(*ast.Ident); ok {
					objs[id.Name] = true
					if !pos.IsValid() {
						pos = x.Pos()
					}
				}
			}
		case *ast.ValueSpec:
			if id, ok := x.Type.(*ast.Ident); ok && id.Name == typeName && len(x.Values) == 0 {
				for _, nm := range x.Names {
					objs[nm.Name] = true
				}
			}
		}
		return true
	})
	if len(objs) > 0 {
		ast.Inspect(body, func(n ast.Node) bool {
			as, ok := n.(*ast.AssignStmt)
			if !ok || as.Tok != token.ASSIGN || len(as.Lhs) != 1 || len(as.Rhs) != 1 {
				return true
			}
			sel, ok := as.Lhs[0].(*ast.SelectorExpr)
			if !ok {
				return true
			}
			base, ok := sel.X.(*ast.Ident)
			if !ok || !objs[base.Name] {
				return true
			}
			k := sel.Sel.Name
			keys[k] = true
			switch v := as.Rhs[0].(type) {
			case *ast.Ident:
				m[v.Name] = k
			case *ast.SelectorExpr:
				if b, ok := v.X.(*ast.Ident); ok {
					multi[b.Name] = append(multi[b.Name], k)
				}
			}
			return true
		})
	}
	for v, ks := range multi {
		sort.Strings(ks)
		m[v] = "{" + strings.Join(ks, ",") + "}"
	}
	return m, keys, pos
}

func normBraces(s string) string {
	// "{Name,Pos}" from encoder order -> sorted
	if strings.HasPrefix(s, "{") && strings.HasSuffix(s, "}") {
		parts := strings.Split(s[1:len(s)-1], ",")
		sort.Strings(parts)
		return "{" + strings.Join(parts, ",") + "}"
	}
	return s
}

type serialSides struct {
	pk                                           *packages.Package
	encode, encFunction, encBinding, encBindings *ast.FuncDecl
	decode, decFunction, decBinding, decBindings *ast.FuncDecl
}

func serialDecls(c *Ctx) *serialSides {
	s := &serialSides{}
	get := func(name string) *ast.FuncDecl {
		fd, pk := c.P.FuncDecl(compilePkg, name)
		if fd == nil {
			c.anchorFail("function %s not found in %s", name, compilePkg)
		}
		if pk != nil {
			s.pk = pk
		}
		return fd
	}
	s.encode = get("Program.Encode")
	s.encFunction = get("encoder.function")
	s.encBinding = get("encoder.binding")
	s.encBindings = get("encoder.bindings")
	s.decode = get("DecodeProgram")
	s.decFunction = get("decoder.function")
	s.decBinding = get("decoder.binding")
	s.decBindings = get("decoder.bindings")
	for _, d := range []*ast.FuncDecl{s.encode, s.encFunction, s.encBinding, s.encBindings, s.decode, s.decFunction, s.decBinding, s.decBindings} {
		if d == nil {
			return nil
		}
	}
	return s
}

func recvName(fd *ast.FuncDecl) string {
	if fd.Recv != nil && len(fd.Recv.List) > 0 && len(fd.Recv.List[0].Names) > 0 {
		return fd.Recv.List[0].Names[0].Name
	}
	return ""
}

func paramName(fd *ast.FuncDecl, i int) string {
	n := 0
	for _, f := range fd.Type.Params.List {
		for _, nm := range f.Names {
			if n == i {
				return nm.Name
			}
			n++
		}
	}
	return ""
}

// localVarNamed finds `var e encoder` / `d := decoder{...}` style locals of a type.
func localOfType(fd *ast.FuncDecl, info *types.Info, typeName string) string {
	name := ""
	ast.Inspect(fd.Body, func(n ast.Node) bool {
		id, ok := n.(*ast.Ident)
		if !ok || name != "" {
			return true
		}
		if obj := info.Defs[id]; obj != nil {
			if _, tn := namedOf(obj.Type()); tn == typeName {
				name = id.Name
			}
		}
		return true
	})
	return name
}

// serialMethods lists the methods declared on the named (unexported) type.
func serialMethods(c *Ctx, typeName string) map[string]*ast.FuncDecl {
	out := map[string]*ast.FuncDecl{}
	pk := c.P.Pkg(compilePkg)
	if pk == nil {
		return out
	}
	for _, f := range pk.Syntax {
		for _, d := range f.Decls {
			fd, ok := d.(*ast.FuncDecl)
			if !ok || fd.Recv == nil || len(fd.Recv.List) == 0 || fd.Body == nil {
				continue
			}
			t := fd.Recv.List[0].Type
			if st, ok := t.(*ast.StarExpr); ok {
				t = st.X
			}
			if id, ok := t.(*ast.Ident); ok && id.Name == typeName {
				out[fd.Name.Name] = fd
			}
		}
	}
	return out
}

// structLiteralType finds the named struct type of the composite literal a decoder helper builds.
func structLiteralType(fd *ast.FuncDecl) string {
	name := ""
	ast.Inspect(fd.Body, func(n ast.Node) bool {
		if cl, ok := n.(*ast.CompositeLit); ok && name == "" {
			if id, ok := cl.Type.(*ast.Ident); ok && ast.IsExported(id.Name) {
				name = id.Name
			}
		}
		return true
	})
	return name
}

func ruleZ2(c *Ctx) {
	s := serialDecls(c)
	if s == nil {
		return
	}
	info := s.pk.TypesInfo
	encM, decM := serialMethods(c, "encoder"), serialMethods(c, "decoder")
	paired := map[string]bool{}
	for name := range encM {
		if _, prim := wireKind[name]; prim {
			continue
		}
		if _, ok := decM[name]; ok {
			paired[name] = true
		}
	}
	inline := func(name string) []ast.Stmt {
		if _, prim := wireKind[name]; prim || paired[name] {
			return nil
		}
		if fd, ok := decM[name]; ok {
			return fd.Body.List
		}
		return nil
	}
	type pair struct {
		name     string
		enc, dec *ast.FuncDecl
		encRecv  string
		decRecv  string
		subject  string // encoder parameter denoting the subject
		litType  string
	}
	pairs := []pair{
		{"Encode/DecodeProgram", s.encode, s.decode, localOfType(s.encode, info, "encoder"), localOfType(s.decode, info, "decoder"), recvName(s.encode), "Program"},
	}
	var names []string
	for n := range paired {
		names = append(names, n)
	}
	sort.Strings(names)
	for _, n := range names {
		pairs = append(pairs, pair{n, encM[n], decM[n], recvName(encM[n]), recvName(decM[n]), paramName(encM[n], 0), structLiteralType(decM[n])})
	}
	if len(pairs) < 4 {
		c.anchorFail("only %d encoder/decoder helper pairs found", len(pairs))
	}
	for _, p := range pairs {
		if p.encRecv == "" || p.decRecv == "" {
			c.anchorFail("cannot find encoder/decoder variable in pair %s", p.name)
			continue
		}
		env := map[string]string{p.subject: ""}
		eops := encodeOps(p.enc.Body.List, p.encRecv, env, c)
		fieldOf := map[string]string{}
		if p.litType != "" {
			fieldOf, _, _ = compositeFieldMap(p.dec.Body, p.litType)
		}
		dops := decodeOps(p.dec.Body.List, p.decRecv, fieldOf, inline, c)
		var norm func(ops []wop)
		norm = func(ops []wop) {
			for i := range ops {
				ops[i].label = normBraces(strings.TrimPrefix(ops[i].label, "."))
				ops[i].label = strings.ReplaceAll(ops[i].label, "(.", "(")
				norm(ops[i].body)
				for _, a := range ops[i].arms {
					norm(a)
				}
			}
		}
		norm(eops)
		norm(dops)
		if p.litType == "" {
			// the decoder's result value is the encoder's parameter: compare shapes, with
			// every label reduced to its role (len/elem/whole) relative to the subject
			var role func(ops []wop)
			role = func(ops []wop) {
				for i := range ops {
					l := ops[i].label
					switch {
					case ops[i].kind == "SWITCH":
					case strings.HasPrefix(l, "len("):
						ops[i].label = "len(subject)"
					case strings.HasPrefix(l, "elem("):
						ops[i].label = "elem(subject)"
					default:
						ops[i].label = "subject"
					}
					role(ops[i].body)
				}
			}
			role(eops)
			role(dops)
		}
		compareWire(c, p.name, eops, dops, p.enc.Pos(), p.dec.Pos())
	}
}

// known label correspondences that are not plain field names.
var z2LabelEquiv = map[string]string{
	"Toplevel.Pos.Filename()": "filename", // the file name is written once and shared by all positions through decoder.filename
	"Version":                 "Version",
	"Pos.Line":                "Pos.Line",
}

func labelsAgree(e, d string) bool {
	if e == d {
		return true
	}
	if z2LabelEquiv[e] == d {
		return true
	}
	return false
}

func compareWire(c *Ctx, pair string, e, d []wop, epos, dpos token.Pos) {
	n := len(e)
	if len(d) > n {
		n = len(d)
	}
	for i := 0; i < n; i++ {
		key := fmt.Sprintf("%s: slot %d", pair, i)
		if i >= len(e) {
			c.viol(key, c.P.Pos(d[i].pos), fmt.Sprintf("decoder reads %s but the encoder writes nothing more", d[i]))
			continue
		}
		if i >= len(d) {
			c.viol(key, c.P.Pos(e[i].pos), fmt.Sprintf("encoder writes %s but the decoder reads nothing more", e[i]))
			continue
		}
		eo, do := e[i], d[i]
		key = fmt.Sprintf("%s: slot %d (%s)", pair, i, eo.kind)
		pos := c.P.Pos(eo.pos)
		if eo.kind != do.kind {
			c.viol(key, pos, fmt.Sprintf("wire kinds differ: encoder writes %s at %s, decoder reads %s at %s", eo, c.P.Pos(eo.pos), do, c.P.Pos(do.pos)))
			continue
		}
		switch eo.kind {
		case "LOOP":
			if !labelsAgree(eo.label, do.label) {
				c.viol(key, pos, fmt.Sprintf("loops range over different fields: encoder %s, decoder %s (%s)", eo.label, do.label, c.P.Pos(do.pos)))
				continue
			}
			c.ok(key, pos, "counted loop over "+eo.label+" on both sides")
			compareWire(c, pair+"/"+eo.label, eo.body, do.body, eo.pos, do.pos)
		case "SWITCH":
			var tags []string
			for t := range eo.arms {
				tags = append(tags, t)
			}
			for t := range do.arms {
				if _, ok := eo.arms[t]; !ok {
					tags = append(tags, t)
				}
			}
			sort.Strings(tags)
			okAll := true
			for _, t := range tags {
				ea, eok := eo.arms[t]
				da, dok := do.arms[t]
				if !eok || !dok {
					c.viol(key+" tag "+t, pos, fmt.Sprintf("tag %s handled on one side only (encoder: %v, decoder: %v)", t, eok, dok))
					okAll = false
					continue
				}
				if wopsString(ea) != wopsString(da) {
					c.viol(key+" tag "+t, pos, fmt.Sprintf("payload of tag %s differs: encoder [%s], decoder [%s]", t, wopsString(ea), wopsString(da)))
					okAll = false
				}
			}
			if okAll {
				c.ok(key, pos, fmt.Sprintf("tagged union with %d tags, payload kinds agree", len(tags)))
			}
		default:
			if !labelsAgree(eo.label, do.label) {
				c.viol(key, pos, fmt.Sprintf("slot bound to different fields: encoder writes %q (%s), decoder stores it into %q (%s)", eo.label, c.P.Pos(eo.pos), do.label, c.P.Pos(do.pos)))
				continue
			}
			c.ok(key, pos, fmt.Sprintf("%s %s", eo.kind, eo.label))
		}
	}
}

// ---------- Z1 ----------

func ruleZ1(c *Ctx) {
	s := serialDecls(c)
	if s == nil {
		return
	}
	for _, tn := range []string{"Program", "Funcode"} {
		named := c.P.Named(compilePkg, tn)
		if named == nil {
			c.anchorFail("type compile.%s not found", tn)
			continue
		}
		st := named.Underlying().(*types.Struct)
		encFd, decFd := s.encode, s.decode
		subj := recvName(s.encode)
		if tn == "Funcode" {
			encFd, decFd = s.encFunction, s.decFunction
			subj = paramName(s.encFunction, 0)
		}
		// encoder: selector expressions subj.Field
		encSeen := map[string]bool{}
		ast.Inspect(encFd.Body, func(n ast.Node) bool {
			if sel, ok := n.(*ast.SelectorExpr); ok {
				if id, ok := sel.X.(*ast.Ident); ok && id.Name == subj {
					encSeen[sel.Sel.Name] = true
				}
			}
			return true
		})
		_, decKeys, _ := compositeFieldMap(decFd.Body, tn)
		for i := 0; i < st.NumFields(); i++ {
			f := st.Field(i)
			key := tn + "." + f.Name()
			pos := c.P.Pos(f.Pos())
			if r, ok := serialTransients[key]; ok {
				c.except(key, pos, "transient: "+r)
				continue
			}
			switch {
			case !encSeen[f.Name()] && !decKeys[f.Name()]:
				c.viol(key, pos, "field is neither encoded nor decoded: it is lost when a compiled program is saved and reloaded")
			case !encSeen[f.Name()]:
				c.viol(key, pos, "field is not written by the encoder")
			case !decKeys[f.Name()]:
				c.viol(key, pos, "field is not assigned by the decoder")
			default:
				c.ok(key, pos, "encoded and decoded")
			}
		}
	}
}

// ---------- Z3 ----------

func ruleZ3(c *Ctx) {
	s := serialDecls(c)
	if s == nil {
		return
	}
	info := s.pk.TypesInfo
	// encoder: type switch arms -> tag
	encTags := map[string]string{} // type -> tag
	encBodies := &ast.BlockStmt{List: append([]ast.Stmt{}, s.encode.Body.List...)}
	for _, fd := range serialMethods(c, "encoder") {
		encBodies.List = append(encBodies.List, fd.Body)
	}
	decBodies := &ast.BlockStmt{List: append([]ast.Stmt{}, s.decode.Body.List...)}
	for _, fd := range serialMethods(c, "decoder") {
		decBodies.List = append(decBodies.List, fd.Body)
	}
	decBodies = normDeep(decBodies)
	ast.Inspect(encBodies, func(n ast.Node) bool {
		ts, ok := n.(*ast.TypeSwitchStmt)
		if !ok {
			return true
		}
		for _, cl := range ts.Body.List {
			cc := cl.(*ast.CaseClause)
			if len(cc.List) != 1 {
				continue
			}
			tname := types.TypeString(info.TypeOf(cc.List[0]), func(p *types.Package) string { return p.Name() })
			tag := "?"
			for _, st := range cc.Body {
				if es, ok := st.(*ast.ExprStmt); ok {
					if call, ok := es.X.(*ast.CallExpr); ok && len(call.Args) == 1 && tag == "?" {
						// the tag may be a literal or a named constant
						if k, isK := constOf(info, call.Args[0]); isK {
							tag = fmt.Sprint(k)
						}
					}
				}
			}
			encTags[tname] = tag
		}
		return false
	})
	// decoder: tag -> type of value assigned to c
	decTags := map[string]string{}
	ast.Inspect(decBodies, func(n ast.Node) bool {
		sw, ok := n.(*ast.SwitchStmt)
		if !ok || sw.Tag == nil {
			return true
		}
		tagExpr := sw.Tag
		// switch tag := d.int(); tag { ... }
		if as, ok := sw.Init.(*ast.AssignStmt); ok && len(as.Lhs) == 1 && len(as.Rhs) == 1 {
			if l, ok := as.Lhs[0].(*ast.Ident); ok {
				if t, ok := sw.Tag.(*ast.Ident); ok && t.Name == l.Name {
					tagExpr = as.Rhs[0]
				}
			}
		}
		if _, isDec := innerDecodeCall(tagExpr, "d"); !isDec {
			if m, ok := innerDecodeCall(tagExpr, localOfType(s.decode, info, "decoder")); !ok || m == "" {
				return true
			}
		}
		for _, cl := range sw.Body.List {
			cc := cl.(*ast.CaseClause)
			if len(cc.List) != 1 {
				continue
			}
			tag := types.ExprString(cc.List[0])
			if k, isK := constOf(info, cc.List[0]); isK {
				tag = fmt.Sprint(k)
			}
			for _, st := range cc.Body {
				if rs, ok := st.(*ast.ReturnStmt); ok && len(rs.Results) >= 1 {
					// helper form: `case k: return d.string()`
					t := info.TypeOf(rs.Results[0])
					if tup, ok := t.(*types.Tuple); ok {
						t = tup.At(0).Type()
					}
					if t != nil {
						// `var c any; c, _ = new(big.Int).SetString(...); return c`: the assignment above has
						// already told the concrete type; a variable of interface type adds nothing
						if _, have := decTags[tag]; !(have && types.IsInterface(t)) {
							decTags[tag] = types.TypeString(t, func(p *types.Package) string { return p.Name() })
						}
					}
				}
				if as, ok := st.(*ast.AssignStmt); ok && len(as.Rhs) == 1 {
					t := info.TypeOf(as.Rhs[0])
					if tup, ok := t.(*types.Tuple); ok {
						t = tup.At(0).Type()
					}
					decTags[tag] = types.TypeString(t, func(p *types.Package) string { return p.Name() })
				}
			}
		}
		return false
	})
	if len(encTags) == 0 || len(decTags) == 0 {
		c.anchorFail("constant switch not found in Encode/DecodeProgram (enc %d, dec %d arms)", len(encTags), len(decTags))
		return
	}
	seenTag := map[string]bool{}
	for t, tag := range encTags {
		key := "constant kind " + t
		pos := c.P.Pos(s.encode.Pos())
		if seenTag[tag] {
			c.viol(key, pos, "tag "+tag+" is used for two constant types")
		}
		seenTag[tag] = true
		if dt, ok := decTags[tag]; !ok {
			c.viol(key, pos, "encoder tag "+tag+" has no decoder arm")
		} else if dt != t {
			c.viol(key, pos, fmt.Sprintf("tag %s encodes %s but decodes to %s", tag, t, dt))
		} else {
			c.ok(key, pos, "tag "+tag+" on both sides")
		}
	}
	for tag := range decTags {
		if !seenTag[tag] {
			c.viol("constant tag "+tag, c.P.Pos(s.decode.Pos()), "decoder arm for a tag the encoder never writes")
		}
	}
	// producers: dynamic types passed to pcomp.constantIndex
	ci := c.P.Func(compilePkg, "pcomp.constantIndex")
	if ci == nil {
		c.anchorFail("pcomp.constantIndex not found")
		return
	}
	prod := map[string]bool{}
	for _, fn := range c.P.Funcs {
		eachInstr(fn, func(in ssa.Instruction) {
			call, ok := in.(ssa.CallInstruction)
			if !ok || call.Common().StaticCallee() != ci {
				return
			}
			collectDynTypes(c.P, call.Common().Args[1], prod, map[ssa.Value]bool{})
		})
	}
	for t := range prod {
		key := "constant producer " + t
		if _, ok := encTags[t]; ok {
			c.ok(key, c.P.Pos(ci.Pos()), "compiler-produced constant type has an encoder arm")
		} else {
			c.viol(key, c.P.Pos(ci.Pos()), "the compiler can put a constant of type "+t+" into Program.Constants but the encoder has no arm for it (it would be silently dropped)")
		}
	}
	// VM loader arms (makeToplevelFunction)
	if fd, pk := c.P.FuncDecl("starlark", "makeToplevelFunction"); fd != nil {
		vm := map[string]bool{}
		// the loader's type switch may live in a helper called from makeToplevelFunction
		scan := &ast.BlockStmt{List: []ast.Stmt{fd.Body}}
		if root := c.P.Func("starlark", "makeToplevelFunction"); root != nil {
			eachInstr(root, func(in ssa.Instruction) {
				if ci, ok := in.(ssa.CallInstruction); ok {
					if cal := ci.Common().StaticCallee(); cal != nil && fnPkgPath(cal) == modPath+"/starlark" && cal.Syntax() != nil {
						if hd, ok := cal.Syntax().(*ast.FuncDecl); ok && hd.Body != nil {
							scan.List = append(scan.List, hd.Body)
						}
					}
				}
			})
		}
		ast.Inspect(scan, func(n ast.Node) bool {
			ts, ok := n.(*ast.TypeSwitchStmt)
			if !ok {
				return true
			}
			for _, cl := range ts.Body.List {
				cc := cl.(*ast.CaseClause)
				for _, e := range cc.List {
					vm[types.TypeString(pk.TypesInfo.TypeOf(e), func(p *types.Package) string { return p.Name() })] = true
				}
			}
			return false
		})
		for t := range encTags {
			key := "constant loader " + t
			if vm[t] {
				c.ok(key, c.P.Pos(fd.Pos()), "the VM converts this constant type")
			} else {
				c.viol(key, c.P.Pos(fd.Pos()), "serialised constant type "+t+" has no arm in makeToplevelFunction")
			}
		}
	} else {
		c.anchorFail("starlark.makeToplevelFunction not found")
	}
}

func collectDynTypes(p *Prog, v ssa.Value, out map[string]bool, seen map[ssa.Value]bool) {
	if seen[v] {
		return
	}
	seen[v] = true
	q := func(t types.Type) string {
		return types.TypeString(t, func(p *types.Package) string { return p.Name() })
	}
	switch x := v.(type) {
	case *ssa.MakeInterface:
		out[q(x.X.Type())] = true
	case *ssa.Phi:
		for _, e := range x.Edges {
			collectDynTypes(p, e, out, seen)
		}
	case *ssa.UnOp:
		// load of an interface-typed field (Literal.Value): union over every store to that field
		if fa, ok := x.X.(*ssa.FieldAddr); ok && x.Op == token.MUL {
			fv := deref(fa.X.Type()).Underlying().(*types.Struct).Field(fa.Field)
			n := 0
			for _, fn := range p.Funcs {
				eachInstr(fn, func(in ssa.Instruction) {
					st, ok := in.(*ssa.Store)
					if !ok {
						return
					}
					fa2, ok := st.Addr.(*ssa.FieldAddr)
					if !ok {
						return
					}
					if deref(fa2.X.Type()).Underlying().(*types.Struct).Field(fa2.Field) == fv {
						n++
						collectDynTypes(p, st.Val, out, seen)
					}
				})
			}
			if n > 0 {
				return
			}
		}
		if a, ok := x.X.(*ssa.Alloc); ok && x.Op == token.MUL {
			for _, r := range *a.Referrers() {
				if st, ok := r.(*ssa.Store); ok && st.Addr == a {
					collectDynTypes(p, st.Val, out, seen)
				}
			}
			return
		}
		out["<unknown load "+x.Name()+">"] = true
	case *ssa.Const:
		if x.Value == nil {
			return // nil interface: no value
		}
		out[q(x.Type())] = true
	case *ssa.Call:
		// result of a module function returning `any` (e.g. a literalValue helper): union over its returns
		if cal := x.Call.StaticCallee(); cal != nil && cal.Blocks != nil && strings.HasPrefix(fnPkgPath(cal), modPath) {
			n := 0
			eachInstr(cal, func(in ssa.Instruction) {
				if r, ok := in.(*ssa.Return); ok && len(r.Results) >= 1 {
					n++
					collectDynTypes(p, r.Results[0], out, seen)
				}
			})
			if n > 0 {
				return
			}
		}
		out[fmt.Sprintf("<result of %s>", calleeName(x))] = true
	case *ssa.Extract:
		// comma-ok / multi-value: e.g. result of a scanner helper
		out["<"+q(x.Type())+" from "+x.Tuple.Name()+">"] = true
	default:
		out[fmt.Sprintf("<%T of type %s>", v, q(v.Type()))] = true
	}
}

// ---------- Z4 ----------

func ruleZ4(c *Ctx) {
	fn := c.P.Func(compilePkg, "DecodeProgram")
	if fn == nil {
		c.anchorFail("compile.DecodeProgram not found")
		return
	}
	// decoder method calls
	var decCalls []*ssa.Call
	var versionIf, magicIf, trailIf *ssa.If
	var filenameStore *ssa.Store
	eachInstr(fn, func(in ssa.Instruction) {
		switch x := in.(type) {
		case *ssa.Call:
			if cal := x.Call.StaticCallee(); cal != nil && cal.Signature.Recv() != nil {
				if _, n := namedOf(cal.Signature.Recv().Type()); n == "decoder" {
					decCalls = append(decCalls, x)
				}
			}
		case *ssa.Store:
			if fa, ok := x.Addr.(*ssa.FieldAddr); ok {
				if _, n := namedOf(fa.X.Type()); n == "decoder" {
					st := deref(fa.X.Type()).Underlying().(*types.Struct)
					if st.Field(fa.Field).Name() == "filename" {
						if k, ok := x.Val.(*ssa.Const); !ok || k.Value != nil {
							filenameStore = x
						}
					}
				}
			}
		case *ssa.If:
			b, ok := x.Cond.(*ssa.BinOp)
			if !ok {
				return
			}
			// version: comparison with constant Version of a decoder.int result
			if k, isK := b.Y.(*ssa.Const); isK && k.Value != nil {
				if call, ok := b.X.(*ssa.Call); ok && versionIf == nil {
					if cal := call.Call.StaticCallee(); cal != nil && cal.Name() == "int" {
						versionIf = x
					}
				}
				if k.Value.String() == `"!sky"` || strings.Contains(k.Value.String(), "sky") {
					magicIf = x
				}
			}
			// trailing: len(d.p)+len(d.s) > 0
			if b.Op == token.GTR {
				if add, ok := b.X.(*ssa.BinOp); ok && add.Op == token.ADD {
					trailIf = x
				}
			}
		}
	})
	pos := c.P.Pos(fn.Pos())
	if len(decCalls) < 5 {
		c.anchorFail("DecodeProgram: only %d decoder calls found", len(decCalls))
		return
	}
	// magic dominates first decoder call (the comparison may live in a helper such as checkMagic,
	// whose error result must then be tested before decoding)
	key := "DecodeProgram: magic check"
	isMagicCmp := func(in ssa.Instruction) bool {
		ifi, ok := in.(*ssa.If)
		if !ok {
			return false
		}
		b, ok := ifi.Cond.(*ssa.BinOp)
		if !ok {
			return false
		}
		for _, v := range []ssa.Value{b.X, b.Y} {
			if k, ok := v.(*ssa.Const); ok && k.Value != nil && strings.Contains(k.Value.String(), "sky") {
				return true
			}
		}
		return false
	}
	var magicAt ssa.Instruction
	if magicIf != nil {
		magicAt = magicIf
	} else if at := findInCallees(fn, 1, isMagicCmp); at != nil {
		// helper call: its error must be nil on the way to decoding
		if call, ok := at.(*ssa.Call); ok && dominatedByNilErr(decCalls[0].Block(), call) {
			magicAt = at
		}
	}
	if magicAt != nil && instrDominates(magicAt, decCalls[0]) {
		c.ok(key, c.P.Pos(magicAt.Pos()), "dominates all decoding")
	} else {
		c.viol(key, pos, "no magic-number comparison dominating the decoding")
	}
	key = "DecodeProgram: version check"
	if versionIf == nil {
		c.viol(key, pos, "no comparison of the decoded version with compile.Version")
	} else {
		okAll := true
		for _, dc := range decCalls[1:] {
			if !instrDominates(versionIf, dc) {
				okAll = false
			}
		}
		if okAll {
			c.ok(key, c.P.Pos(versionIf.Pos()), "dominates every later read")
		} else {
			c.viol(key, c.P.Pos(versionIf.Pos()), "some data is decoded before the version is checked")
		}
	}
	key = "DecodeProgram: filename before positions"
	if filenameStore == nil {
		c.viol(key, pos, "decoder.filename is never set: every decoded position has no file")
	} else {
		bad := ""
		for _, dc := range decCalls {
			n := dc.Call.StaticCallee().Name()
			if (n == "binding" || n == "bindings" || n == "function") && !instrDominates(filenameStore, dc) {
				bad = n + " at " + c.P.Pos(dc.Pos())
				break
			}
		}
		if bad == "" {
			c.ok(key, c.P.Pos(filenameStore.Pos()), "decoder.filename is stored before every binding/function is decoded")
		} else {
			c.viol(key, c.P.Pos(filenameStore.Pos()), "positions are decoded ("+bad+") before decoder.filename is set: they carry no file name")
		}
	}
	key = "DecodeProgram: trailing data check"
	// every []byte field of the decoder (the input still to be read) must be tested for emptiness on
	// the way to the success return, whatever the shape of the test: len(a)+len(b) > 0, len(a) > 0 ||
	// len(b) > 0, len(a) == 0 && len(b) == 0, ...
	_ = trailIf
	var byteFields []string
	if dn := c.P.Named(compilePkg, "decoder"); dn != nil {
		if st, ok := dn.Underlying().(*types.Struct); ok {
			for i := 0; i < st.NumFields(); i++ {
				if sl, ok := st.Field(i).Type().Underlying().(*types.Slice); ok {
					if b, ok := sl.Elem().Underlying().(*types.Basic); ok && b.Kind() == types.Uint8 {
						byteFields = append(byteFields, st.Field(i).Name())
					}
				}
			}
		}
	}
	lenFieldsOf := func(v ssa.Value) map[string]bool {
		out := map[string]bool{}
		for x := range backSlice(v) {
			call, ok := x.(*ssa.Call)
			if !ok {
				continue
			}
			if bi, ok := call.Call.Value.(*ssa.Builtin); !ok || bi.Name() != "len" {
				continue
			}
			if ld, ok := call.Call.Args[0].(*ssa.UnOp); ok && ld.Op == token.MUL {
				if fa, ok := ld.X.(*ssa.FieldAddr); ok {
					if _, n := namedOf(fa.X.Type()); n == "decoder" {
						out[deref(fa.X.Type()).Underlying().(*types.Struct).Field(fa.Field).Name()] = true
					}
				}
			}
		}
		return out
	}
	if len(byteFields) == 0 {
		c.anchorFail("DecodeProgram: the decoder has no []byte field")
		return
	}
	var succ []*ssa.Return
	eachInstr(fn, func(in ssa.Instruction) {
		r, ok := in.(*ssa.Return)
		if !ok || len(r.Results) != 2 {
			return
		}
		// with a deferred recover the results are named: `return x, nil` stores x into the result
		// variable and the Return loads it back
		v := r.Results[0]
		if ld, ok := v.(*ssa.UnOp); ok && ld.Op == token.MUL {
			if al, ok := ld.X.(*ssa.Alloc); ok {
				v = nil
				for _, bi := range r.Block().Instrs {
					if st, ok := bi.(*ssa.Store); ok && st.Addr == ssa.Value(al) {
						v = st.Val
					}
				}
			}
		}
		if v != nil && !isNilConst(v) {
			succ = append(succ, r)
		}
	})
	missing := ""
	var at token.Pos
	for _, r := range succ {
		tested := map[string]bool{}
		for _, pc := range pathConds(r.Block()) {
			cv, neg := stripNot(pc.If.Cond)
			b, ok := cv.(*ssa.BinOp)
			if !ok {
				continue
			}
			k, isK := constInt(b.Y)
			if !isK || k != 0 {
				continue
			}
			emptyOnTrue := b.Op == token.EQL || b.Op == token.LEQ
			if !emptyOnTrue && b.Op != token.GTR && b.Op != token.NEQ {
				continue
			}
			if (pc.Branch != neg) != emptyOnTrue {
				continue
			}
			for f := range lenFieldsOf(b.X) {
				tested[f] = true
				at = pc.If.Pos()
			}
		}
		for _, f := range byteFields {
			if !tested[f] {
				missing = f
			}
		}
	}
	switch {
	case len(succ) == 0:
		c.viol(key, pos, "no success return found")
	case missing != "":
		c.viol(key, pos, "no check that all input was consumed: the success return is not dominated by a test that decoder."+missing+" is empty")
	default:
		c.ok(key, c.P.Pos(at), "every []byte field of the decoder is tested empty on the way to the success return")
	}
}

// ---------- Z5 ----------

func ruleZ5(c *Ctx) {
	fn := c.P.Func(compilePkg, "Program.Encode")
	if fn == nil {
		c.anchorFail("(*compile.Program).Encode not found")
		return
	}
	seen := map[*ssa.Function]bool{fn: true}
	work := []*ssa.Function{fn}
	bad := ""
	for i := 0; i < len(work); i++ {
		f := work[i]
		eachInstr(f, func(in ssa.Instruction) {
			switch x := in.(type) {
			case *ssa.Range:
				if _, ok := x.X.Type().Underlying().(*types.Map); ok && strings.HasPrefix(fnPkgPath(f), modPath) {
					bad = "map iteration in " + fnName(f) + " at " + c.P.Pos(x.Pos())
				}
			case ssa.CallInstruction:
				cal := x.Common().StaticCallee()
				if cal == nil {
					return
				}
				switch cal.String() {
				case "time.Now", "math/rand.Int", "math/rand.Intn", "hash/maphash.MakeSeed":
					bad = cal.String() + " called in " + fnName(f)
				}
				if strings.HasPrefix(fnPkgPath(cal), modPath) && !seen[cal] && cal.Blocks != nil {
					seen[cal] = true
					work = append(work, cal)
				}
			}
		})
	}
	key := "(*compile.Program).Encode: determinism"
	if bad != "" {
		c.viol(key, c.P.Pos(fn.Pos()), "encoding depends on "+bad+": writing the same program twice may produce different bytes")
	} else {
		c.ok(key, c.P.Pos(fn.Pos()), fmt.Sprintf("%d functions in Encode's module-local call tree: no map range, clock or random source", len(seen)))
	}
}

// constOfAny evaluates a constant expression of package compile.
func constOfAny(c *Ctx, e ast.Expr) (int64, bool) {
	pk := c.P.Pkg(compilePkg)
	if pk == nil {
		return 0, false
	}
	return constOf(pk.TypesInfo, e)
}

// ---- AST normalisation: if/else-if chains on one variable are switches ----

// ifChainArms decodes `if x == K1 {..} else if x == K2 {..} else {..}` (x an identifier compared
// with constant-like expressions); ok is false for any other shape.
func ifChainArms(st *ast.IfStmt) (subject string, clauses []ast.Stmt, ok bool) {
	cur := st
	for {
		if cur.Init != nil {
			return "", nil, false
		}
		be, isBE := cur.Cond.(*ast.BinaryExpr)
		if !isBE || be.Op != token.EQL {
			return "", nil, false
		}
		var id *ast.Ident
		var k ast.Expr
		if x, isID := be.X.(*ast.Ident); isID {
			id, k = x, be.Y
		}
		if id == nil {
			return "", nil, false
		}
		if subject == "" {
			subject = id.Name
		} else if subject != id.Name {
			return "", nil, false
		}
		clauses = append(clauses, &ast.CaseClause{Case: cur.Pos(), List: []ast.Expr{k}, Body: cur.Body.List})
		switch e := cur.Else.(type) {
		case nil:
			return subject, clauses, len(clauses) >= 2
		case *ast.IfStmt:
			cur = e
		case *ast.BlockStmt:
			clauses = append(clauses, &ast.CaseClause{Case: e.Pos(), Body: e.List})
			return subject, clauses, len(clauses) >= 2
		default:
			return "", nil, false
		}
	}
}

// normStmts rewrites, in a copy of the list,
//
//	tag := X; if tag == K1 {...} else if tag == K2 {...}      and      tag := X; switch tag {...}
//
// into `switch tag := X; tag {...}` - the one form the codec rules understand.
func normStmts(list []ast.Stmt) []ast.Stmt {
	var out []ast.Stmt
	for i := 0; i < len(list); i++ {
		s := list[i]
		var sw *ast.SwitchStmt
		switch st := s.(type) {
		case *ast.IfStmt:
			if subj, clauses, ok := ifChainArms(st); ok {
				sw = &ast.SwitchStmt{Switch: st.Pos(), Tag: ast.NewIdent(subj), Body: &ast.BlockStmt{List: clauses}}
			}
		case *ast.SwitchStmt:
			if id, ok := st.Tag.(*ast.Ident); ok && st.Init == nil {
				cp := *st
				cp.Tag = ast.NewIdent(id.Name)
				sw = &cp
			}
		}
		if sw != nil && len(out) > 0 {
			if as, ok := out[len(out)-1].(*ast.AssignStmt); ok && as.Tok == token.DEFINE && len(as.Lhs) == 1 && len(as.Rhs) == 1 {
				if l, ok := as.Lhs[0].(*ast.Ident); ok && l.Name == sw.Tag.(*ast.Ident).Name {
					sw.Init = as
					out[len(out)-1] = sw
					continue
				}
			}
		}
		if sw != nil {
			if _, wasIf := s.(*ast.IfStmt); wasIf {
				out = append(out, sw)
				continue
			}
		}
		out = append(out, s)
	}
	return out
}

// normDeep applies normStmts to a block and, recursively, to every nested statement list.
func normDeep(b *ast.BlockStmt) *ast.BlockStmt {
	if b == nil {
		return nil
	}
	nb := &ast.BlockStmt{Lbrace: b.Lbrace, Rbrace: b.Rbrace, List: normStmts(b.List)}
	for i, s := range nb.List {
		switch st := s.(type) {
		case *ast.BlockStmt:
			nb.List[i] = normDeep(st)
		case *ast.IfStmt:
			cp := *st
			cp.Body = normDeep(st.Body)
			if eb, ok := st.Else.(*ast.BlockStmt); ok {
				cp.Else = normDeep(eb)
			}
			nb.List[i] = &cp
		case *ast.ForStmt:
			cp := *st
			cp.Body = normDeep(st.Body)
			nb.List[i] = &cp
		case *ast.RangeStmt:
			cp := *st
			cp.Body = normDeep(st.Body)
			nb.List[i] = &cp
		case *ast.SwitchStmt:
			cp := *st
			body := &ast.BlockStmt{}
			for _, cl := range st.Body.List {
				cc := *(cl.(*ast.CaseClause))
				cc.Body = normDeep(&ast.BlockStmt{List: cc.Body}).List
				body.List = append(body.List, &cc)
			}
			cp.Body = body
			nb.List[i] = &cp
		}
	}
	return nb
}
