package main

import (
	"fmt"
	"go/token"
	"go/types"
	"os"
	"sort"
	"strings"

	"golang.org/x/tools/go/ssa"
)

// Rules about WHICH instructions the compiler emits for a construct, as far
// as that has a shape: V8 (construct-specific opcodes are emitted only while
// compiling their construct) and V9 (no child expression of a construct is
// skipped on any compile path).

func init() {
	register("V8", "instruction selection by construct: opcodes that implement exactly one language construct (SETDICTUNIQ for dict displays, SETDICT never for them, INPLACE_ADD/INPLACE_PIPE for augmented assignment, APPEND for list comprehensions, ITERPUSH/ITERPOP for for-loops and for-clauses, UNPACK for sequence targets, LOAD, MAKEFUNC, SLICE, INDEX/SETINDEX, ATTR/SETFIELD, unary operators) are emitted only on compiler paths on which the node being compiled is known, by a dominating type test or the helper's parameter type, to be that construct; helpers are followed to their call sites", 15, ruleV8)
	register("V9", "no operand is skipped: in every compiler arm selected by a type test on the node being compiled, each child of type syntax.Expr, []syntax.Expr or []syntax.Stmt is handed to a compiling call (or ranged over) on every path to the function's return, except paths on which the child is known to be nil or a *syntax.Literal (doc-string elision) and paths that panic", 25, ruleV9)
}

// selection table: opcode -> node types one of which must be in the context (need),
// or none of which may be (forbid).
type selRule struct {
	need   []string
	forbid []string
	why    string
}

var v8Table = map[string]selRule{
	"SETDICTUNIQ":  {need: []string{"DictExpr"}, why: "only a dict display rejects duplicate keys; anywhere else (comprehension, d[k]=v) a repeated key overwrites"},
	"SETDICT":      {forbid: []string{"DictExpr"}, why: "a dict display must reject duplicate keys (SETDICTUNIQ)"},
	"INPLACE_ADD":  {need: []string{"AssignStmt"}, why: "only x += y may mutate a list operand in place; x + y must build a new value"},
	"INPLACE_PIPE": {need: []string{"AssignStmt"}, why: "only x |= y may update a dict operand in place"},
	"APPEND":       {need: []string{"Comprehension"}, why: "APPEND adds to the accumulator of a list comprehension"},
	"ITERPUSH":     {need: []string{"ForStmt", "ForClause", "Comprehension"}, why: "iterators are pushed by for statements and for clauses only"},
	"ITERPOP":      {need: []string{"ForStmt", "ForClause", "Comprehension"}, why: "iterators are popped by for statements and for clauses only"},
	"UNPACK":       {need: []string{"TupleExpr", "ListExpr"}, why: "only a tuple or list target unpacks its right-hand side"},
	"LOAD":         {need: []string{"LoadStmt"}, why: "LOAD implements the load statement"},
	"MAKEFUNC":     {need: []string{"DefStmt", "LambdaExpr"}, why: "functions are created by def and lambda only"},
	"SLICE":        {need: []string{"SliceExpr"}, why: "SLICE implements x[lo:hi:step]"},
	"INDEX":        {need: []string{"IndexExpr"}, why: "INDEX implements x[y] (also the read half of x[y] op= z)"},
	"SETINDEX":     {need: []string{"IndexExpr"}, why: "SETINDEX implements x[y] = z"},
	"ATTR":         {need: []string{"DotExpr"}, why: "ATTR implements x.f (also the read half of x.f op= z)"},
	"SETFIELD":     {need: []string{"DotExpr"}, why: "SETFIELD implements x.f = z"},
	"UMINUS":       {need: []string{"UnaryExpr"}, why: "unary operator"},
	"UPLUS":        {need: []string{"UnaryExpr"}, why: "unary operator"},
	"TILDE":        {need: []string{"UnaryExpr"}, why: "unary operator"},
}

// syntaxNodeName returns T if t is *syntax.T (a struct).
func syntaxNodeName(t types.Type) string {
	p, ok := t.(*types.Pointer)
	if !ok {
		return ""
	}
	n, ok := p.Elem().(*types.Named)
	if !ok || n.Obj().Pkg() == nil || n.Obj().Pkg().Path() != modPath+"/syntax" {
		return ""
	}
	if _, ok := n.Underlying().(*types.Struct); !ok {
		return ""
	}
	return n.Obj().Name()
}

// localNodeFacts: node types known at instruction `at` inside its function:
// successful type tests dominating it (x, ok := v.(*syntax.T); switch v.(type))
// and unconditional assertions v.(*syntax.T) executed before it.
func localNodeFacts(at ssa.Instruction) map[string]bool {
	out := map[string]bool{}
	b := at.Block()
	if b == nil {
		return out
	}
	for _, pf := range pathFacts(b) {
		if !pf.Truth {
			continue
		}
		ex, ok := pf.Cond.(*ssa.Extract)
		if !ok || ex.Index != 1 {
			continue
		}
		ta, ok := ex.Tuple.(*ssa.TypeAssert)
		if !ok {
			continue
		}
		if n := syntaxNodeName(ta.AssertedType); n != "" {
			out[n] = true
		}
	}
	fn := b.Parent()
	eachInstr(fn, func(in ssa.Instruction) {
		ta, ok := in.(*ssa.TypeAssert)
		if !ok || ta.CommaOk {
			return
		}
		if n := syntaxNodeName(ta.AssertedType); n != "" && instrDominates(ta, at) {
			out[n] = true
		}
	})
	for _, p := range fn.Params {
		if n := syntaxNodeName(p.Type()); n != "" {
			out[n] = true
		}
	}
	return out
}

// isNodeDispatcher: the function type-switches one of its parameters over at
// least 6 syntax node types (fcomp.stmt, fcomp.expr and their like).
func isNodeDispatcher(fn *ssa.Function) bool {
	seen := map[string]bool{}
	eachInstr(fn, func(in ssa.Instruction) {
		ta, ok := in.(*ssa.TypeAssert)
		if !ok || !ta.CommaOk {
			return
		}
		if _, ok := ta.X.(*ssa.Parameter); !ok {
			return
		}
		if n := syntaxNodeName(ta.AssertedType); n != "" {
			seen[n] = true
		}
	})
	return len(seen) >= 6
}

type callSite struct {
	fn *ssa.Function
	in ssa.Instruction
}

// compileCallers indexes, for package compile, the static call sites and
// closure creation sites of every function.
func compileCallers(c *Ctx) map[*ssa.Function][]callSite {
	idx := map[*ssa.Function][]callSite{}
	for _, g := range c.P.Funcs {
		if fnPkgPath(g) != modPath+"/"+compilePkg {
			continue
		}
		g := g
		eachInstr(g, func(in ssa.Instruction) {
			switch in := in.(type) {
			case ssa.CallInstruction:
				if cal := in.Common().StaticCallee(); cal != nil {
					idx[cal] = append(idx[cal], callSite{g, in})
				}
			case *ssa.MakeClosure:
				if f, ok := in.Fn.(*ssa.Function); ok {
					idx[f] = append(idx[f], callSite{g, in})
				}
			}
		})
	}
	return idx
}

// nodeContexts enumerates the context chains of an instruction: for each way
// of reaching it from a dispatcher arm through helper calls, the set of node
// types known along the chain. A chain that ends in a function without call
// sites, or deeper than the bound, is reported as open (nil set).
func nodeContexts(idx map[*ssa.Function][]callSite, at ssa.Instruction, acc map[string]bool, onChain map[*ssa.Function]bool, depth int, out *[]map[string]bool) {
	fn := at.Parent()
	cur := map[string]bool{}
	for k := range acc {
		cur[k] = true
	}
	for k := range localNodeFacts(at) {
		cur[k] = true
	}
	if isNodeDispatcher(fn) {
		*out = append(*out, cur)
		return
	}
	sites := idx[fn]
	if len(sites) == 0 || depth == 0 {
		cur["<open>"] = true
		*out = append(*out, cur)
		return
	}
	onChain[fn] = true
	n := 0
	for _, s := range sites {
		if onChain[s.fn] {
			continue // recursion: the context of the outer activation is found through its other callers
		}
		n++
		nodeContexts(idx, s.in, cur, onChain, depth-1, out)
	}
	delete(onChain, fn)
	if n == 0 {
		cur["<open>"] = true
		*out = append(*out, cur)
	}
}

func ctxString(m map[string]bool) string {
	var ks []string
	for k := range m {
		ks = append(ks, k)
	}
	sort.Strings(ks)
	if len(ks) == 0 {
		return "{}"
	}
	return "{" + strings.Join(ks, ",") + "}"
}

func ruleV8(c *Ctx) {
	oi := opcodes(c)
	if oi == nil {
		return
	}
	for name := range v8Table {
		if _, ok := oi.byName[name]; !ok {
			c.anchorFail("opcode %s of the selection table no longer exists", name)
		}
	}
	idx := compileCallers(c)
	found := map[string]int{}
	for _, fn := range c.P.Funcs {
		if fnPkgPath(fn) != modPath+"/"+compilePkg {
			continue
		}
		fn := fn
		eachInstr(fn, func(in ssa.Instruction) {
			call, ok := in.(*ssa.Call)
			if !ok || len(call.Call.Args) < 2 {
				return
			}
			cal := call.Call.StaticCallee()
			if cal == nil || fnPkgPath(cal) != modPath+"/"+compilePkg {
				return
			}
			// any package-local call that is handed constant opcodes (emit, emit1, emitSeq, condjump ...)
			var ks []int64
			opT := c.P.Named(compilePkg, "Opcode")
			for _, a := range call.Call.Args[1:] {
				if opT != nil && types.Identical(a.Type(), opT) {
					// a constant, a phi of constants (op chosen by a switch) or a forwarded parameter
					if _, isParam := a.(*ssa.Parameter); !isParam {
						ops, _ := possibleOpcodes(fn, a)
						ks = append(ks, ops...)
					}
				}
				for _, v := range variadicElems(a) {
					if k, ok := v.(*ssa.Const); ok && opT != nil && types.Identical(k.Type(), opT) {
						x, _ := constInt(k)
						ks = append(ks, x)
					}
				}
			}
			for _, k := range ks {
				name := oi.names[k]
				sr, ok := v8Table[name]
				if !ok {
					continue
				}
				found[name]++
				var chains []map[string]bool
				nodeContexts(idx, in, nil, map[*ssa.Function]bool{}, 5, &chains)
				key := fmt.Sprintf("%s: %s", fnName(fn), name)
				pos := c.P.Pos(call.Pos())
				bad := ""
				for _, ch := range chains {
					if len(sr.need) > 0 {
						has := false
						for _, n := range sr.need {
							if ch[n] {
								has = true
							}
						}
						if !has {
							bad = fmt.Sprintf("reachable in context %s, which does not establish %s", ctxString(ch), strings.Join(sr.need, "|"))
						}
					}
					for _, n := range sr.forbid {
						if ch[n] {
							bad = fmt.Sprintf("reachable in context %s, which includes %s", ctxString(ch), n)
						}
					}
				}
				if bad != "" {
					c.viol(key, pos, fmt.Sprintf("%s is emitted for the wrong construct: %s (%s)", name, bad, sr.why))
				} else {
					c.ok(key, pos, fmt.Sprintf("%d context chain(s), all consistent with the selection table", len(chains)))
				}
			}
		})
	}
	for name := range v8Table {
		if found[name] == 0 {
			c.anchorFail("no emission site of %s found (constant opcode arguments expected)", name)
		}
	}
}

// ---------- V9 ----------

var v9Exceptions = map[string]string{
	"DefStmt.Params":    "compiled through the resolver's Function object (fcomp.function), which holds the same parameters",
	"DefStmt.Body":      "compiled through the resolver's Function object (fcomp.function), which holds the same body",
	"LambdaExpr.Params": "compiled through the resolver's Function object (fcomp.function)",
	"LambdaExpr.Body":   "compiled through the resolver's Function object (fcomp.function)",
}

func isSyntaxIface(t types.Type, name string) bool {
	n, ok := t.(*types.Named)
	return ok && n.Obj().Pkg() != nil && n.Obj().Pkg().Path() == modPath+"/syntax" && n.Obj().Name() == name
}

func isChildField(t types.Type) bool {
	if isSyntaxIface(t, "Expr") {
		return true
	}
	if s, ok := t.(*types.Slice); ok {
		return isSyntaxIface(s.Elem(), "Expr") || isSyntaxIface(s.Elem(), "Stmt")
	}
	return false
}

func ruleV9(c *Ctx) {
	emit := c.P.Func(compilePkg, "fcomp.emit")
	if emit == nil {
		c.anchorFail("fcomp.emit not found")
		return
	}
	// functions that (transitively) emit code
	mayEmit := map[*ssa.Function]bool{emit: true}
	if e1 := c.P.Func(compilePkg, "fcomp.emit1"); e1 != nil {
		mayEmit[e1] = true
	}
	var cfuncs []*ssa.Function
	for _, fn := range c.P.Funcs {
		if fnPkgPath(fn) == modPath+"/"+compilePkg {
			cfuncs = append(cfuncs, fn)
		}
	}
	for changed := true; changed; {
		changed = false
		for _, fn := range cfuncs {
			if mayEmit[fn] {
				continue
			}
			eachInstr(fn, func(in ssa.Instruction) {
				if ci, ok := in.(ssa.CallInstruction); ok {
					if cal := ci.Common().StaticCallee(); cal != nil && mayEmit[cal] && !mayEmit[fn] {
						mayEmit[fn] = true
						changed = true
					}
				}
			})
		}
	}
	for _, fn := range cfuncs {
		if !mayEmit[fn] || fn.Parent() != nil {
			continue
		}
		for _, arm := range compArms(fn) {
			if arm.prm == nil {
				continue // helpers with a typed node parameter are judged through their callers (summaries)
			}
			for i := 0; i < arm.st.NumFields(); i++ {
				f := arm.st.Field(i)
				if !isChildField(f.Type()) {
					continue
				}
				key := fmt.Sprintf("%s: arm %s, child %s", fnName(fn), arm.node, f.Name())
				pos := c.P.Pos(arm.pos)
				if r, ok := v9Exceptions[arm.node+"."+f.Name()]; ok {
					c.except(key, pos, r)
					continue
				}
				if why := skippedChild(fn, arm.entry, arm.v, arm.prm, i, mayEmit, closedFor(c, arm.node, arm.st), "all", 3); why != "" {
					c.viol(key, pos, fmt.Sprintf("the compiler can finish this arm without compiling %s.%s (%s): the operand's evaluation, with its side effects and failures, would be dropped from the program", arm.node, f.Name(), why))
				} else {
					c.ok(key, pos, "every non-panicking path hands the child to a compiling call, or knows it to be nil or a literal")
				}
			}
		}
	}
}

// skippedChild searches for a path from the arm's entry to a return that
// neither compiles field #fi of node v nor knows it to be nil / a Literal.
// mode selects which returns count as exits: "all", or for bool-returning helpers
// "true" / "false" (the caller branches on the result). depth bounds the descent
// into helpers that are handed the node itself.
var v9Stack = map[*ssa.Function]bool{}

func skippedChild(fn *ssa.Function, entry *ssa.BasicBlock, v ssa.Value, prm *ssa.Parameter, fi int, mayEmit map[*ssa.Function]bool, closed func(failed []string) bool, mode string, depth int) string {
	// helperCovers: the call hands the node itself to a helper whose parameter has the
	// node's type; the helper is judged by its own paths (summary), for the given result
	helperCovers := func(com *ssa.CallCommon, isNode func(ssa.Value) bool, m string) (known, covers bool) {
		cal := com.StaticCallee()
		if cal == nil || cal.Blocks == nil || !mayEmit[cal] {
			return false, false
		}
		for i, a := range com.Args {
			if i < len(cal.Params) && isNode(a) && types.Identical(cal.Params[i].Type(), v.Type()) {
				if cal == fn || v9Stack[cal] {
					// (mutual) recursion on the same node: assumed to cover - if every exit that does not
					// recurse covers the child, every terminating execution does, by induction on depth
					return true, true
				}
				if depth <= 0 {
					return true, false
				}
				v9Stack[fn] = true
				why := skippedChild(cal, cal.Blocks[0], cal.Params[i], nil, fi, mayEmit, closed, m, depth-1)
				delete(v9Stack, fn)
				if why != "" && os.Getenv("VERIF_DEBUG_PATH") != "" {
					fmt.Fprintf(os.Stderr, "summary %s field %d mode %s: %s\n", cal.Name(), fi, m, why)
				}
				return true, why == ""
			}
		}
		return false, false
	}
	// values that stand for the child: loads of &v.f, and type assertions / unparen-like calls of them
	child := map[ssa.Value]bool{}
	// isNode: x is the arm's node v, or a reload of v from the cell it was spilled to
	// (a closure capturing the switch variable makes it address-taken)
	var isNode func(x ssa.Value) bool
	isNode = func(x ssa.Value) bool {
		if x == v {
			return true
		}
		// a cursor that starts at the node and walks down one of its children (for plus := e; ; plus = x)
		if phi, ok := x.(*ssa.Phi); ok {
			for _, e := range phi.Edges {
				if e == v {
					return true
				}
			}
		}
		u, ok := x.(*ssa.UnOp)
		if !ok || u.Op != token.MUL {
			return false
		}
		al, ok := u.X.(*ssa.Alloc)
		if !ok || al.Referrers() == nil {
			return false
		}
		n, hit := 0, false
		for _, r := range *al.Referrers() {
			if st, ok := r.(*ssa.Store); ok && st.Addr == al {
				n++
				hit = st.Val == v
			}
		}
		return n == 1 && hit
	}
	isChildLoad := func(x ssa.Value) bool {
		u, ok := x.(*ssa.UnOp)
		if !ok {
			return false
		}
		fa, ok := u.X.(*ssa.FieldAddr)
		return ok && isNode(fa.X) && fa.Field == fi
	}
	eachInstr(fn, func(in ssa.Instruction) {
		if val, ok := in.(ssa.Value); ok && isChildLoad(val) {
			child[val] = true
		}
	})
	// derived forms of the child: unparen-like results of non-emitting helpers, type
	// assertions, and fields of those (the parts of an assignment target)
	for changed := true; changed; {
		changed = false
		eachInstr(fn, func(in ssa.Instruction) {
			val, ok := in.(ssa.Value)
			if !ok || child[val] {
				return
			}
			switch x := in.(type) {
			case *ssa.Call:
				cal := x.Call.StaticCallee()
				if cal == nil || mayEmit[cal] || fnPkgPath(cal) != modPath+"/"+compilePkg {
					return
				}
				for _, a := range x.Call.Args {
					if child[a] {
						child[val] = true
						changed = true
					}
				}
			case *ssa.TypeAssert:
				if child[x.X] && !x.CommaOk {
					child[val] = true
					changed = true
				}
			case *ssa.Extract:
				if ta, ok := x.Tuple.(*ssa.TypeAssert); ok && x.Index == 0 && child[ta.X] {
					child[val] = true
					changed = true
				}
			case *ssa.UnOp:
				if fa, ok := x.X.(*ssa.FieldAddr); ok && child[fa.X] && x.Op == token.MUL {
					child[val] = true
					changed = true
				}
				// a local spilled to memory because a closure captures it
				if al, ok := x.X.(*ssa.Alloc); ok && x.Op == token.MUL && al.Referrers() != nil {
					for _, r := range *al.Referrers() {
						if st, ok := r.(*ssa.Store); ok && st.Addr == al && child[st.Val] {
							child[val] = true
							changed = true
						}
					}
				}
			case *ssa.MakeInterface:
				if child[x.X] {
					child[val] = true
					changed = true
				}
			case *ssa.ChangeInterface:
				if child[x.X] {
					child[val] = true
					changed = true
				}
			case *ssa.Phi:
				for _, e := range x.Edges {
					if child[e] {
						child[val] = true
						changed = true
					}
				}
			}
		})
	}
	covers := func(in ssa.Instruction) bool {
		switch in := in.(type) {
		case ssa.CallInstruction:
			com := in.Common()
			cal := com.StaticCallee()
			if known, cov := helperCovers(com, isNode, "all"); known {
				return cov
			}
			for _, a := range com.Args {
				if cal == nil || !mayEmit[cal] {
					break
				}
				if child[a] || isNode(a) || (prm != nil && a == ssa.Value(prm)) {
					return true
				}
				// the node converted to an interface (passing e as syntax.Expr/Node)
				if mi, ok := a.(*ssa.MakeInterface); ok && isNode(mi.X) {
					return true
				}
				if ct, ok := a.(*ssa.ChangeInterface); ok && (child[ct.X] || (prm != nil && ct.X == ssa.Value(prm))) {
					return true
				}
				// a modified copy of the node (copy := *e; copy.Op = ...; compile(&copy))
				if isCopyOf(a, v, isNode) {
					return true
				}
			}
			// the node or child handed to a non-emitting helper that returns a collection (a worklist
			// of operands, as in the flattening of a+b+c): its elements are compiled from there
			if cal != nil && !mayEmit[cal] && fnPkgPath(cal) == modPath+"/"+compilePkg && cal.Signature.Results().Len() == 1 {
				switch cal.Signature.Results().At(0).Type().Underlying().(type) {
				case *types.Slice, *types.Map:
					for _, a := range com.Args {
						if child[a] || isNode(a) {
							return true
						}
					}
				}
			}
			// range over a slice child: len(child) feeding the loop test
			if bi, ok := com.Value.(*ssa.Builtin); ok && bi.Name() == "len" && len(com.Args) == 1 && child[com.Args[0]] {
				if val, ok := in.(ssa.Value); ok && val.Referrers() != nil {
					for _, r := range *val.Referrers() {
						if bo, ok := r.(*ssa.BinOp); ok && bo.Op == token.LSS {
							return true
						}
					}
				}
			}
		case *ssa.IndexAddr:
			return child[in.X]
		case *ssa.Index:
			return child[in.X]
		case *ssa.Range:
			return child[in.X]
		case *ssa.Store:
			// the child put into a local data structure (a field of a worklist element): compiled from there
			if child[in.Val] {
				switch a := in.Addr.(type) {
				case *ssa.FieldAddr, *ssa.IndexAddr:
					return true
				case *ssa.Alloc:
					return !isVarCellOfNodeType(a)
				}
			}
		}
		return false
	}
	blockCovers := func(b *ssa.BasicBlock) bool {
		for _, in := range b.Instrs {
			if covers(in) {
				return true
			}
		}
		return false
	}
	// edge pruning: the child is nil, or is a *syntax.Literal
	pruned := func(b *ssa.BasicBlock, succIdx int) bool {
		ifi, ok := b.Instrs[len(b.Instrs)-1].(*ssa.If)
		if !ok {
			return false
		}
		cond, neg := stripNot(ifi.Cond)
		taken := succIdx == 0
		if neg {
			taken = !taken
		}
		if x, neq, ok := nilTest(cond); ok && child[x] {
			// x == nil taken, or x != nil not taken
			return taken != neq
		}
		// the result of a helper that was handed the node: "handled" idiom
		if hc, ok := cond.(*ssa.Call); ok {
			m := "false"
			if taken {
				m = "true"
			}
			if known, cov := helperCovers(hc.Common(), isNode, m); known && cov {
				return true
			}
		}
		if ex, ok := cond.(*ssa.Extract); ok && ex.Index == 1 {
			if ta, ok := ex.Tuple.(*ssa.TypeAssert); ok && child[ta.X] && syntaxNodeName(ta.AssertedType) == "Literal" {
				return taken
			}
		}
		// len(child) == 0 for slice children
		if bo, ok := cond.(*ssa.BinOp); ok {
			if call, ok := bo.X.(*ssa.Call); ok {
				if bi, ok := call.Call.Value.(*ssa.Builtin); ok && bi.Name() == "len" && len(call.Call.Args) == 1 && child[call.Call.Args[0]] {
					if k, ok := constInt(bo.Y); ok && k == 0 && bo.Op.String() == "==" {
						return taken
					}
				}
			}
		}
		return false
	}
	// scalarCmp decodes `v.g == const` for a non-child field g of the node
	scalarCmp := func(cond ssa.Value) (string, bool) {
		bo, ok := cond.(*ssa.BinOp)
		if !ok || bo.Op != token.EQL {
			return "", false
		}
		u, ok := bo.X.(*ssa.UnOp)
		if !ok {
			return "", false
		}
		fa, ok := u.X.(*ssa.FieldAddr)
		if !ok || !isNode(fa.X) {
			return "", false
		}
		k, ok := constInt(bo.Y)
		if !ok {
			return "", false
		}
		return fmt.Sprintf("%d:%d", fa.Field, k), true
	}
	seen := map[string]bool{}
	var walk func(b, from *ssa.BasicBlock, failed []string) string
	walk = func(b, from *ssa.BasicBlock, failed []string) string {
		fromIdx := -1
		if from != nil {
			fromIdx = from.Index
		}
		sk := fmt.Sprintf("%d|%d|%s", b.Index, fromIdx, strings.Join(failed, ","))
		if seen[sk] {
			return ""
		}
		seen[sk] = true
		if blockCovers(b) {
			return ""
		}
		if len(b.Instrs) == 0 {
			return ""
		}
		// a call to log.Panicf (does not return) ends the path
		for _, in := range b.Instrs {
			if ci, ok := in.(ssa.CallInstruction); ok {
				if cal := ci.Common().StaticCallee(); cal != nil && cal.Pkg != nil && cal.Pkg.Pkg.Path() == "log" && strings.HasPrefix(cal.Name(), "Panic") {
					return ""
				}
			}
		}
		switch last := b.Instrs[len(b.Instrs)-1].(type) {
		case *ssa.Panic:
			return ""
		case *ssa.Return:
			if closed != nil && closed(failed) {
				return "" // implicit default of a switch whose cases list every value the parser can produce
			}
			if mode != "all" && len(last.Results) == 1 {
				res := last.Results[0]
				if phi, ok := res.(*ssa.Phi); ok && phi.Block() == b && from != nil {
					for i, p := range b.Preds {
						if p == from {
							res = phi.Edges[i]
						}
					}
				}
				if k, ok := res.(*ssa.Const); ok && k.Value != nil && k.Value.String() != mode {
					return "" // this exit reports the other result
				}
			}
			return fmt.Sprintf("path reaching the return at %s via block %d", fn.Prog.Fset.Position(last.Pos()), b.Index)
		}
		for i, s := range b.Succs {
			if pruned(b, i) {
				continue
			}
			f2 := failed
			if ifi, ok := b.Instrs[len(b.Instrs)-1].(*ssa.If); ok && i == 1 {
				if k, ok := scalarCmp(ifi.Cond); ok {
					f2 = append(append([]string{}, failed...), k)
				}
				// a predicate helper on the operator field (isAugmentedAssignOp(stmt.Op)) that answered false
				condv := ifi.Cond
				if ex, ok := condv.(*ssa.Extract); ok {
					condv = ex.Tuple // binary, ok := augmentedBinop(stmt.Op)
				}
				if pc, ok := condv.(*ssa.Call); ok && len(pc.Call.Args) == 1 {
					if u, ok := pc.Call.Args[0].(*ssa.UnOp); ok {
						if fa, ok := u.X.(*ssa.FieldAddr); ok && isNode(fa.X) {
							if cal := pc.Call.StaticCallee(); cal != nil {
								for _, k := range predicateTrueSet(cal) {
									f2 = append(append([]string{}, f2...), fmt.Sprintf("%d:%d", fa.Field, k))
								}
							}
						}
					}
				}
			}
			if why := walk(s, b, f2); why != "" {
				if os.Getenv("VERIF_DEBUG_PATH") != "" {
					why += fmt.Sprintf(" <- %d", b.Index)
				}
				return why
			}
		}
		return ""
	}
	return walk(entry, nil, nil)
}

// isCopyOf: a is (the address of, or an interface holding the address of) a
// local copy of node *v.
func isCopyOf(a, v ssa.Value, isNode func(ssa.Value) bool) bool {
	if mi, ok := a.(*ssa.MakeInterface); ok {
		a = mi.X
	}
	al, ok := a.(*ssa.Alloc)
	if !ok || al.Referrers() == nil {
		return false
	}
	for _, r := range *al.Referrers() {
		if st, ok := r.(*ssa.Store); ok && st.Addr == al {
			if u, ok := st.Val.(*ssa.UnOp); ok && u.Op == token.MUL && isNode(u.X) {
				return true
			}
		}
	}
	return false
}

// closedFor returns, for node types with an operator field whose values the
// parser draws from a closed set, a predicate telling that a path has already
// excluded every one of them (so it is the unreachable implicit default of a
// switch without default). AssignStmt.Op: '=' and the augmented-assignment
// tokens (the parser's side of this set is checked by T3).
func closedFor(c *Ctx, node string, st *types.Struct) func([]string) bool {
	if node != "AssignStmt" {
		return nil
	}
	fi := -1
	for i := 0; i < st.NumFields(); i++ {
		if st.Field(i).Name() == "Op" {
			fi = i
		}
	}
	pk := c.P.Pkg("syntax")
	if fi < 0 || pk == nil {
		return nil
	}
	byName, _ := enumConsts(pk, "Token")
	var want []string
	for n, v := range byName {
		if n == "EQ" || strings.HasSuffix(n, "_EQ") {
			want = append(want, fmt.Sprintf("%d:%d", fi, v))
		}
	}
	if len(want) < 5 {
		return nil
	}
	return func(failed []string) bool {
		have := map[string]bool{}
		for _, f := range failed {
			have[f] = true
		}
		for _, w := range want {
			if !have[w] {
				return false
			}
		}
		return true
	}
}

// ---------- V10 ----------

func init() {
	register("V10", "no operand is compiled twice: within one compiler arm (including the closures it creates) no child expression is handed to two evaluating compile calls that can both run for the same node - neither the same child twice nor a child and a part of it - so an operand with side effects is evaluated once (x.f += y evaluates x once)", 20, ruleV10)
	claim("C01", "V10")
}

// accessPath names a value derived from the arm's node v: field selections,
// type assertions, unparen-like helper results, spilled locals and captured
// variables are followed. ok=false: not derived from v.
func accessPath(x ssa.Value, v ssa.Value, mayEmit map[*ssa.Function]bool, mc *ssa.MakeClosure, depth int) (string, bool) {
	if depth > 12 {
		return "", false
	}
	if x == v {
		return "", true
	}
	switch x := x.(type) {
	case *ssa.UnOp:
		if x.Op != token.MUL {
			return "", false
		}
		switch a := x.X.(type) {
		case *ssa.FieldAddr:
			p, ok := accessPath(a.X, v, mayEmit, mc, depth+1)
			if !ok {
				return "", false
			}
			st, _ := deref(a.X.Type()).Underlying().(*types.Struct)
			if st == nil {
				return "", false
			}
			return p + "." + st.Field(a.Field).Name(), true
		case *ssa.Alloc:
			var val ssa.Value
			n := 0
			if a.Referrers() != nil {
				for _, r := range *a.Referrers() {
					if st, ok := r.(*ssa.Store); ok && st.Addr == a {
						val = st.Val
						n++
					}
				}
			}
			if n == 1 {
				return accessPath(val, v, mayEmit, mc, depth+1)
			}
		case *ssa.FreeVar:
			if mc != nil {
				if b := freeVarBinding(mc, a); b != nil {
					if al, ok := b.(*ssa.Alloc); ok {
						var val ssa.Value
						n := 0
						if al.Referrers() != nil {
							for _, r := range *al.Referrers() {
								if st, ok := r.(*ssa.Store); ok && st.Addr == al {
									val = st.Val
									n++
								}
							}
						}
						if n == 1 {
							return accessPath(val, v, mayEmit, nil, depth+1)
						}
					}
				}
			}
		}
	case *ssa.Extract:
		if ta, ok := x.Tuple.(*ssa.TypeAssert); ok && x.Index == 0 {
			p, ok := accessPath(ta.X, v, mayEmit, mc, depth+1)
			if ok {
				return p + "(" + syntaxNodeName(ta.AssertedType) + ")", true
			}
		}
	case *ssa.TypeAssert:
		if !x.CommaOk {
			p, ok := accessPath(x.X, v, mayEmit, mc, depth+1)
			if ok {
				return p + "(" + syntaxNodeName(x.AssertedType) + ")", true
			}
		}
	case *ssa.MakeInterface:
		return accessPath(x.X, v, mayEmit, mc, depth+1)
	case *ssa.ChangeInterface:
		return accessPath(x.X, v, mayEmit, mc, depth+1)
	case *ssa.Call:
		cal := x.Call.StaticCallee()
		if cal != nil && !mayEmit[cal] && fnPkgPath(cal) == modPath+"/"+compilePkg && len(x.Call.Args) == 1 {
			return accessPath(x.Call.Args[0], v, mayEmit, mc, depth+1)
		}
	}
	return "", false
}

func blockReaches(a, b *ssa.BasicBlock) bool {
	seen := map[*ssa.BasicBlock]bool{}
	var dfs func(x *ssa.BasicBlock) bool
	dfs = func(x *ssa.BasicBlock) bool {
		if x == b {
			return true
		}
		if seen[x] {
			return false
		}
		seen[x] = true
		for _, s := range x.Succs {
			if dfs(s) {
				return true
			}
		}
		return false
	}
	for _, s := range a.Succs {
		if dfs(s) {
			return true
		}
	}
	return false
}

func ruleV10(c *Ctx) {
	emit := c.P.Func(compilePkg, "fcomp.emit")
	if emit == nil {
		c.anchorFail("fcomp.emit not found")
		return
	}
	mayEmit := map[*ssa.Function]bool{emit: true}
	if e1 := c.P.Func(compilePkg, "fcomp.emit1"); e1 != nil {
		mayEmit[e1] = true
	}
	var cfuncs []*ssa.Function
	for _, fn := range c.P.Funcs {
		if fnPkgPath(fn) == modPath+"/"+compilePkg {
			cfuncs = append(cfuncs, fn)
		}
	}
	// evaluators: functions from which a dispatcher over expressions is reachable
	evaluates := map[*ssa.Function]bool{}
	for _, fn := range cfuncs {
		if isNodeDispatcher(fn) {
			for _, p := range fn.Params {
				if isSyntaxIface(p.Type(), "Expr") {
					evaluates[fn] = true
				}
			}
		}
	}
	if len(evaluates) == 0 {
		c.anchorFail("no expression dispatcher found in package compile")
		return
	}
	for changed := true; changed; {
		changed = false
		for _, fn := range cfuncs {
			eachInstr(fn, func(in ssa.Instruction) {
				if ci, ok := in.(ssa.CallInstruction); ok {
					cal := ci.Common().StaticCallee()
					if cal != nil && (mayEmit[cal] && !mayEmit[fn]) {
						mayEmit[fn] = true
						changed = true
					}
					if cal != nil && evaluates[cal] && !evaluates[fn] && fn.Parent() == nil {
						evaluates[fn] = true
						changed = true
					}
				}
			})
		}
	}
	type site struct {
		path   string
		call   ssa.CallInstruction
		anchor *ssa.BasicBlock // block in the arm's function that stands for the site
		inClo  bool
	}
	for _, fn := range cfuncs {
		if fn.Parent() != nil {
			continue
		}
		fn := fn
		for _, arm := range compArms(fn) {
			v, entry, node := arm.v, arm.entry, arm.node
			armPos := arm.pos
			var sites []site
			collect := func(g *ssa.Function, mc *ssa.MakeClosure, anchor *ssa.BasicBlock) {
				eachInstr(g, func(in2 ssa.Instruction) {
					ci, ok := in2.(ssa.CallInstruction)
					if !ok {
						return
					}
					cal := ci.Common().StaticCallee()
					if cal == nil || !evaluates[cal] {
						return
					}
					if mc == nil && !(entry == in2.Block() || entry.Dominates(in2.Block())) {
						return
					}
					for ai, a := range ci.Common().Args {
						if !isNodeish(a.Type()) {
							continue // positions, flags, blocks: not operands
						}
						p, ok := accessPath(a, v, mayEmit, mc, 0)
						if !ok {
							continue
						}
						an := anchor
						if mc == nil {
							an = in2.Block()
						}
						// the node itself handed to a helper typed for it: the helper compiles some of
						// its children (its summary), not necessarily all of them
						if p == "" && ai < len(cal.Params) && syntaxNodeName(cal.Params[ai].Type()) != "" {
							for _, sp := range compiledPaths(cal, cal.Params[ai], mayEmit, evaluates, map[*ssa.Function]bool{g: true}, 3) {
								sites = append(sites, site{sp, ci, an, mc != nil})
							}
							continue
						}
						sites = append(sites, site{p, ci, an, mc != nil})
					}
				})
			}
			collect(fn, nil, nil)
			eachInstr(fn, func(in2 ssa.Instruction) {
				if mc, ok := in2.(*ssa.MakeClosure); ok && (entry == mc.Block() || entry.Dominates(mc.Block())) {
					collect(mc.Fn.(*ssa.Function), mc, mc.Block())
				}
			})
			key := fmt.Sprintf("%s: arm %s", fnName(fn), node)
			pos := c.P.Pos(armPos)
			if len(sites) < 2 {
				c.trivial(key, pos, fmt.Sprintf("%d evaluating call(s) on parts of the node", len(sites)))
				continue
			}
			bad := ""
			for i := 0; i < len(sites) && bad == ""; i++ {
				for j := i + 1; j < len(sites); j++ {
					a, b := sites[i], sites[j]
					if a.call == b.call {
						continue // two parts compiled by one helper call: judged inside the helper, where its branches are visible
					}
					if !(strings.HasPrefix(a.path, b.path) || strings.HasPrefix(b.path, a.path)) {
						continue
					}
					// a proper prefix must end at a component boundary
					long, short := a.path, b.path
					if len(short) > len(long) {
						long, short = short, long
					}
					if len(long) > len(short) && long[len(short)] != '.' && long[len(short)] != '(' {
						continue
					}
					together := a.anchor == b.anchor || blockReaches(a.anchor, b.anchor) || blockReaches(b.anchor, a.anchor)
					if !together {
						continue
					}
					name := func(p string) string {
						if p == "" {
							return node
						}
						return node + p
					}
					bad = fmt.Sprintf("%s is compiled at %s and %s is compiled again at %s", name(a.path), c.P.Pos(a.call.Pos()), name(b.path), c.P.Pos(b.call.Pos()))
					break
				}
			}
			if bad != "" {
				c.viol(key, pos, "an operand can be evaluated twice by the compiled code: "+bad)
			} else {
				c.ok(key, pos, fmt.Sprintf("%d evaluating calls, pairwise on different operands or on exclusive paths", len(sites)))
			}
		}
	}
}

// A compArm is a piece of the compiler that handles one kind of syntax node:
// an arm of a type switch on a parameter, or a whole helper whose parameter
// already has the node's type (the form arms take after being extracted).
type compArm struct {
	fn    *ssa.Function
	node  string
	st    *types.Struct
	v     ssa.Value       // the node
	prm   *ssa.Parameter  // the interface-typed operand the arm was selected from (nil for helpers)
	entry *ssa.BasicBlock // first block of the arm
	pos   token.Pos
}

func compArms(fn *ssa.Function) []compArm {
	var out []compArm
	if fn.Blocks == nil {
		return nil
	}
	for _, p := range fn.Params {
		if node := syntaxNodeName(p.Type()); node != "" {
			st := p.Type().(*types.Pointer).Elem().Underlying().(*types.Struct)
			out = append(out, compArm{fn, node, st, p, nil, fn.Blocks[0], fn.Pos()})
		}
	}
	eachInstr(fn, func(in ssa.Instruction) {
		ta, ok := in.(*ssa.TypeAssert)
		if !ok || !ta.CommaOk {
			return
		}
		prm, ok := ta.X.(*ssa.Parameter)
		if !ok {
			return
		}
		node := syntaxNodeName(ta.AssertedType)
		if node == "" {
			return
		}
		st := ta.AssertedType.(*types.Pointer).Elem().Underlying().(*types.Struct)
		var v ssa.Value
		var entry *ssa.BasicBlock
		for _, r := range *ta.Referrers() {
			ex, ok := r.(*ssa.Extract)
			if !ok {
				continue
			}
			if ex.Index == 0 {
				v = ex
			}
			if ex.Index == 1 && ex.Referrers() != nil {
				for _, r2 := range *ex.Referrers() {
					if ifi, ok := r2.(*ssa.If); ok {
						entry = ifi.Block().Succs[0]
					}
				}
			}
		}
		if entry == nil || v == nil {
			return
		}
		out = append(out, compArm{fn, node, st, v, prm, entry, ta.Pos()})
	})
	return out
}

// isVarCellOfNodeType: the alloc is a spilled local variable holding an
// expression or node (not an aggregate being built).
func isVarCellOfNodeType(a *ssa.Alloc) bool {
	t := deref(a.Type())
	if syntaxNodeName(t) != "" || isSyntaxIface(t, "Expr") || isSyntaxIface(t, "Node") || isSyntaxIface(t, "Stmt") {
		return true
	}
	if s, ok := t.(*types.Slice); ok {
		return isSyntaxIface(s.Elem(), "Expr") || isSyntaxIface(s.Elem(), "Stmt")
	}
	return false
}

// predicateTrueSet: for a one-parameter bool function, the constants c such
// that `param == c` leads straight to `return true`.
func predicateTrueSet(fn *ssa.Function) []int64 {
	if fn.Blocks == nil || len(fn.Params) != 1 || fn.Signature.Results().Len() < 1 {
		return nil
	}
	returnsTrue := func(b, from *ssa.BasicBlock) bool {
		for hops := 0; hops < 4; hops++ {
			if len(b.Instrs) == 0 {
				return false
			}
			switch last := b.Instrs[len(b.Instrs)-1].(type) {
			case *ssa.Return:
				res := last.Results[len(last.Results)-1]
				if phi, ok := res.(*ssa.Phi); ok && phi.Block() == b {
					for i, p := range b.Preds {
						if p == from {
							res = phi.Edges[i]
						}
					}
				}
				k, ok := res.(*ssa.Const)
				return ok && k.Value != nil && k.Value.String() == "true"
			case *ssa.Jump:
				from, b = b, b.Succs[0]
			default:
				return false
			}
		}
		return false
	}
	var out []int64
	eachInstr(fn, func(in ssa.Instruction) {
		ifi, ok := in.(*ssa.If)
		if !ok {
			return
		}
		bo, ok := ifi.Cond.(*ssa.BinOp)
		if !ok || bo.Op != token.EQL || bo.X != ssa.Value(fn.Params[0]) {
			return
		}
		if k, ok := constInt(bo.Y); ok && returnsTrue(ifi.Block().Succs[0], ifi.Block()) {
			out = append(out, k)
		}
	})
	return out
}

// isNodeish: the static type can hold (part of) a syntax tree.
func isNodeish(t types.Type) bool {
	if syntaxNodeName(t) != "" || isSyntaxIface(t, "Expr") || isSyntaxIface(t, "Node") || isSyntaxIface(t, "Stmt") {
		return true
	}
	if s, ok := t.(*types.Slice); ok {
		return isNodeish(s.Elem())
	}
	return false
}

// compiledPaths: the access paths (relative to node parameter prm) that
// function fn hands to evaluating calls, helpers typed for the node included.
func compiledPaths(fn *ssa.Function, prm *ssa.Parameter, mayEmit, evaluates map[*ssa.Function]bool, onStack map[*ssa.Function]bool, depth int) []string {
	if fn.Blocks == nil || depth == 0 || onStack[fn] {
		return nil
	}
	onStack[fn] = true
	defer delete(onStack, fn)
	seen := map[string]bool{}
	var out []string
	add := func(p string) {
		if !seen[p] {
			seen[p] = true
			out = append(out, p)
		}
	}
	scan := func(g *ssa.Function, mc *ssa.MakeClosure) {
		eachInstr(g, func(in ssa.Instruction) {
			ci, ok := in.(ssa.CallInstruction)
			if !ok {
				return
			}
			cal := ci.Common().StaticCallee()
			if cal == nil || !evaluates[cal] {
				return
			}
			for ai, a := range ci.Common().Args {
				if !isNodeish(a.Type()) {
					continue
				}
				p, ok := accessPath(a, prm, mayEmit, mc, 0)
				if !ok {
					continue
				}
				if p == "" && ai < len(cal.Params) && syntaxNodeName(cal.Params[ai].Type()) != "" {
					for _, sp := range compiledPaths(cal, cal.Params[ai], mayEmit, evaluates, onStack, depth-1) {
						add(sp)
					}
					continue
				}
				add(p)
			}
		})
	}
	scan(fn, nil)
	eachInstr(fn, func(in ssa.Instruction) {
		if mc, ok := in.(*ssa.MakeClosure); ok {
			scan(mc.Fn.(*ssa.Function), mc)
		}
	})
	return out
}
