package main

import (
	"fmt"
	"go/ast"
	"go/constant"
	"go/token"
	"go/types"
	"sort"
	"strings"

	"golang.org/x/tools/go/ssa"
)

func init() {
	register("L1", "fallible instructions are positioned: for every compiler emission site of an opcode whose interpreter arm can fail, every feasible path to the emit call passes fcomp.setPos after the last instruction emission (emit/emit1 clear the pending position), so the error is attributed to this operation and not to an earlier operand", 40, ruleL1)
	register("L2", "line-table codec agreement: the bit fields packed by fcomp.generate (pc, line, col, continuation bit) have the same positions, widths and signedness as those unpacked by Funcode.decodeLNT, are contiguous, and each clip range equals the range of its field width", 8, ruleL2)
	register("L3", "errors are wrapped once with the live stack: Thread.evalError is called only from Call (guarded by the not-already-an-EvalError test, in the function body, i.e. before the deferred pop) and from CallInternal's argument-binding failure", 2, ruleL3)
	register("L5", "recycled frames are clean: the deferred pop in Call resets the whole frame (so a reused frame never reports the previous call's pc), and CallInternal stores fr.pc before each fetch", 1, ruleL5)
}

// ---------- opcode tables from the interpreter ----------

type opcodeInfo struct {
	names    map[int64]string
	byName   map[string]int64
	fallible map[int64]bool
	argMin   int64
	max      int64
	arms     int
}

var opcodeCache = map[*Prog]*opcodeInfo{}

func opcodes(c *Ctx) *opcodeInfo {
	if oi, ok := opcodeCache[c.P]; ok {
		return oi
	}
	pk := c.P.Pkg(compilePkg)
	if pk == nil {
		c.anchorFail("package internal/compile not loaded")
		return nil
	}
	opT := c.P.Named(compilePkg, "Opcode")
	if opT == nil {
		c.anchorFail("compile.Opcode not found")
		return nil
	}
	oi := &opcodeInfo{names: map[int64]string{}, byName: map[string]int64{}, fallible: map[int64]bool{}}
	sc := pk.Types.Scope()
	for _, n := range sc.Names() {
		k, ok := sc.Lookup(n).(*types.Const)
		if !ok || !types.Identical(k.Type(), opT) {
			continue
		}
		v, _ := constant.Int64Val(k.Val())
		switch n {
		case "OpcodeArgMin":
			oi.argMin = v
			continue
		case "OpcodeMax":
			oi.max = v
			continue
		}
		oi.names[v] = n
		oi.byName[n] = v
	}
	// interpreter arms
	fd, spk := c.P.FuncDecl("starlark", "Function.CallInternal")
	if fd == nil {
		c.anchorFail("(*starlark.Function).CallInternal syntax not found")
		return nil
	}
	var sw *ast.SwitchStmt
	ast.Inspect(fd.Body, func(n ast.Node) bool {
		if s, ok := n.(*ast.SwitchStmt); ok && sw == nil {
			if id, ok := s.Tag.(*ast.Ident); ok && id.Name == "op" {
				sw = s
				return false
			}
		}
		return true
	})
	if sw == nil {
		c.anchorFail("switch op not found in CallInternal")
		return nil
	}
	for _, cl := range sw.Body.List {
		cc := cl.(*ast.CaseClause)
		if cc.List == nil {
			continue
		}
		oi.arms++
		fall := false
		ast.Inspect(&ast.BlockStmt{List: cc.Body}, func(n ast.Node) bool {
			as, ok := n.(*ast.AssignStmt)
			if !ok {
				return true
			}
			for _, l := range as.Lhs {
				if id, ok := l.(*ast.Ident); ok && id.Name == "err" {
					fall = true
				}
			}
			return true
		})
		for _, e := range cc.List {
			tv := spk.TypesInfo.Types[e]
			if tv.Value == nil {
				continue
			}
			v, _ := constant.Int64Val(tv.Value)
			if fall {
				oi.fallible[v] = true
			}
		}
	}
	opcodeCache[c.P] = oi
	return oi
}

// ---------- L1 ----------

// exceptions: emission sites of fallible opcodes that are deliberately unpositioned.
var l1Exceptions = map[string]string{
	"(*internal/compile.fcomp).function: emit LOCAL": "pushes the enclosing function's cell for a free variable; the slot always holds a cell, so the 'referenced before assignment' failure of LOCAL cannot occur here",
}

type factSet map[string]struct {
	eq  *int64
	neq map[int64]bool
}

func condKey(v ssa.Value) string {
	if u, ok := v.(*ssa.UnOp); ok && u.Op == token.MUL {
		if fa, ok := u.X.(*ssa.FieldAddr); ok {
			return fmt.Sprintf("%p.%d", fa.X, fa.Field)
		}
	}
	return fmt.Sprintf("%p", v)
}

func (f factSet) clone() factSet {
	g := factSet{}
	for k, v := range f {
		nv := v
		nv.neq = map[int64]bool{}
		for a := range v.neq {
			nv.neq[a] = true
		}
		g[k] = nv
	}
	return g
}

// add records cond==taken; returns false on contradiction.
func (f factSet) add(cond ssa.Value, taken bool) bool {
	cond, neg := stripNot(cond)
	if neg {
		taken = !taken
	}
	b, ok := cond.(*ssa.BinOp)
	if !ok || (b.Op != token.EQL && b.Op != token.NEQ) {
		return true
	}
	k, isK := constInt(b.Y)
	x := b.X
	if !isK {
		k, isK = constInt(b.X)
		x = b.Y
		if !isK {
			return true
		}
	}
	equal := (b.Op == token.EQL) == taken
	key := condKey(x)
	e := f[key]
	if e.neq == nil {
		e.neq = map[int64]bool{}
	}
	if equal {
		if e.eq != nil && *e.eq != k {
			return false
		}
		if e.neq[k] {
			return false
		}
		kk := k
		e.eq = &kk
	} else {
		if e.eq != nil && *e.eq == k {
			return false
		}
		e.neq[k] = true
	}
	f[key] = e
	return true
}

func (f factSet) key() string {
	var ks []string
	for k, v := range f {
		s := k + "="
		if v.eq != nil {
			s += fmt.Sprint(*v.eq)
		}
		var ns []string
		for n := range v.neq {
			ns = append(ns, fmt.Sprint(n))
		}
		sort.Strings(ns)
		s += "!" + strings.Join(ns, ",")
		ks = append(ks, s)
	}
	sort.Strings(ks)
	return strings.Join(ks, ";")
}

func ruleL1(c *Ctx) {
	oi := opcodes(c)
	if oi == nil {
		return
	}
	emit := c.P.Func(compilePkg, "fcomp.emit")
	emit1 := c.P.Func(compilePkg, "fcomp.emit1")
	setPos := c.P.Func(compilePkg, "fcomp.setPos")
	if emit == nil || emit1 == nil || setPos == nil {
		c.anchorFail("fcomp.emit/emit1/setPos not found")
		return
	}
	// mayEmit: functions of package compile that transitively reach emit/emit1 by static calls
	mayEmit := map[*ssa.Function]bool{emit: true, emit1: true}
	var cfuncs []*ssa.Function
	for _, fn := range c.P.Funcs {
		if fnPkgPath(fn) == modPath+"/"+compilePkg {
			cfuncs = append(cfuncs, fn)
		}
	}
	for changed := true; changed; {
		changed = false
		for _, fn := range cfuncs {
			if mayEmit[fn] {
				continue
			}
			eachInstr(fn, func(in ssa.Instruction) {
				if ci, ok := in.(ssa.CallInstruction); ok {
					if cal := ci.Common().StaticCallee(); cal != nil && mayEmit[cal] && !mayEmit[fn] {
						mayEmit[fn] = true
						changed = true
					}
					if mc, ok := ci.Common().Value.(*ssa.MakeClosure); ok && mayEmit[mc.Fn.(*ssa.Function)] && !mayEmit[fn] {
						mayEmit[fn] = true
						changed = true
					}
				}
			})
		}
	}
	event := func(in ssa.Instruction) evKind {
		ci, ok := in.(ssa.CallInstruction)
		if !ok {
			return evNone
		}
		if _, isDefer := in.(*ssa.Defer); isDefer {
			return evNone
		}
		cal := ci.Common().StaticCallee()
		if cal == nil {
			// dynamic call inside the compiler: conservatively clears if it could be a closure that emits
			if _, ok := ci.Common().Value.(*ssa.Builtin); ok {
				return evNone
			}
			if ci.Common().IsInvoke() {
				return evNone
			}
			return evClear
		}
		if cal == setPos {
			return evSet
		}
		if mayEmit[cal] {
			return evClear
		}
		return evNone
	}

	sites := 0
	for _, fn := range cfuncs {
		if fn == emit || fn == emit1 {
			continue
		}
		eachInstr(fn, func(in ssa.Instruction) {
			call, ok := in.(*ssa.Call)
			if !ok {
				return
			}
			cal := call.Call.StaticCallee()
			if cal != emit && cal != emit1 {
				return
			}
			sites++
			opv := call.Call.Args[1]
			// opcode-forwarding helper: the opcode is (an element of) a parameter; the obligation
			// is checked at the helper's call sites, where the opcodes are constants
			if prm, variadic := forwardedParam(fn, opv); prm != nil {
				idx := -1
				for i, q := range fn.Params {
					if q == prm {
						idx = i
					}
				}
				ncs := 0
				for _, g := range cfuncs {
					eachInstr(g, func(in2 ssa.Instruction) {
						cs, ok := in2.(*ssa.Call)
						if !ok || cs.Call.StaticCallee() != fn || idx < 0 {
							return
						}
						ncs++
						var seq []int64
						resolved := true
						if variadic {
							elems := variadicElems(cs.Call.Args[idx])
							for i := int64(0); i < int64(len(elems)); i++ {
								if k, ok := constInt(elems[i]); ok {
									seq = append(seq, k)
								} else {
									resolved = false
								}
							}
						} else if k, ok := constInt(cs.Call.Args[idx]); ok {
							seq = []int64{k}
						} else {
							resolved = false
						}
						var names []string
						for _, o := range seq {
							names = append(names, oi.names[o])
						}
						key := fmt.Sprintf("%s: %s(%s)", fnName(g), fn.Name(), strings.Join(names, ", "))
						pos := c.P.Pos(cs.Pos())
						if !resolved || len(seq) == 0 {
							c.viol(key, pos, "opcodes passed to the emitting helper "+fn.Name()+" are not constants: fallibility cannot be established")
							return
						}
						for i, o := range seq[1:] {
							if oi.fallible[o] {
								c.viol(key, pos, fmt.Sprintf("fallible opcode %s is emitted by %s after another instruction (#%d) consumed the position", oi.names[o], fn.Name(), i+2))
								return
							}
						}
						if !oi.fallible[seq[0]] {
							c.trivial(key, pos, "only the first forwarded opcode could need a position and it cannot fail")
							return
						}
						if why := unpositionedPath(c, cs, event); why == "" {
							c.ok(key, pos, "the first forwarded opcode is positioned at the call; the rest cannot fail")
						} else {
							c.viol(key, pos, fmt.Sprintf("fallible instruction %s may be emitted without a source position (%s)", oi.names[seq[0]], why))
						}
					})
				}
				if ncs == 0 {
					c.viol(fmt.Sprintf("%s: emit <forwarded>", fnName(fn)), c.P.Pos(call.Pos()), "emitting helper has no call sites with constant opcodes")
				}
				return
			}
			ops, computed := possibleOpcodes(fn, opv)
			var names []string
			fall := computed && len(ops) == 0
			for _, o := range ops {
				names = append(names, oi.names[o])
				if oi.fallible[o] {
					fall = true
				}
			}
			sort.Strings(names)
			label := strings.Join(names, "|")
			if label == "" {
				label = "<computed>"
			}
			key := fmt.Sprintf("%s: emit %s", fnName(fn), label)
			pos := c.P.Pos(call.Pos())
			if !fall {
				c.trivial(key, pos, "opcode cannot fail at run time (its interpreter arm never sets err)")
				return
			}
			// backward search for an unpositioned feasible path
			bad := unpositionedPath(c, call, event)
			if bad == "" {
				c.ok(key, pos, "every feasible path sets the position after the previous emission")
				return
			}
			if r, ok := l1Exceptions[key]; ok {
				c.except(key, pos, r)
				return
			}
			if capturesCell(call) {
				c.except(key, pos, l1Exceptions["(*internal/compile.fcomp).function: emit LOCAL"])
				return
			}
			c.viol(key, pos, fmt.Sprintf("fallible instruction %s may be emitted without a source position (%s): a failure of this operation would be reported at the position of an earlier instruction", label, bad))
		})
	}
	if sites < 60 {
		c.anchorFail("only %d emission sites found in the compiler", sites)
	}
}

// possibleOpcodes returns the constant opcodes an operand can take. computed
// reports that the operand is not a plain constant; an empty set with
// computed=true means unknown.
func possibleOpcodes(fn *ssa.Function, v ssa.Value) (ops []int64, computed bool) {
	if k, ok := constInt(v); ok {
		return []int64{k}, false
	}
	if phi, ok := v.(*ssa.Phi); ok {
		all := true
		for _, e := range phi.Edges {
			if k, ok := constInt(e); ok {
				ops = append(ops, k)
			} else {
				all = false
			}
		}
		if all {
			return ops, true
		}
		return nil, true
	}
	// parameter whose every call site passes a constant opcode
	if prm, ok := v.(*ssa.Parameter); ok && fn.Prog != nil {
		idx := -1
		for i, q := range fn.Params {
			if q == prm {
				idx = i
			}
		}
		all, n := true, 0
		var fromCalls []int64
		for _, g := range pkgFuncs(fn) {
			eachInstr(g, func(in ssa.Instruction) {
				ci, ok := in.(ssa.CallInstruction)
				if !ok || ci.Common().StaticCallee() != fn || idx < 0 || idx >= len(ci.Common().Args) {
					return
				}
				n++
				if k, ok := constInt(ci.Common().Args[idx]); ok {
					fromCalls = append(fromCalls, k)
				} else {
					all = false
				}
			})
		}
		if all && n > 0 {
			return fromCalls, true
		}
	}
	// parameter guarded by comparisons with constants and a panic otherwise
	if _, ok := v.(*ssa.Parameter); ok {
		hasPanic := false
		eachInstr(fn, func(in ssa.Instruction) {
			if _, ok := in.(*ssa.Panic); ok {
				hasPanic = true
			}
			if ifi, ok := in.(*ssa.If); ok {
				if b, ok := ifi.Cond.(*ssa.BinOp); ok && b.Op == token.EQL && b.X == v {
					if k, ok := constInt(b.Y); ok {
						ops = append(ops, k)
					}
				}
			}
		})
		if hasPanic && len(ops) > 0 {
			return ops, true
		}
	}
	return nil, true
}

// ---------- L2 ----------

type bitField struct {
	name    string
	shift   int64
	width   int64 // -1 unknown
	signed  bool
	lo, hi  int64 // clip bounds (encoder)
	hasClip bool
	pos     token.Pos
}

func constOf(info *types.Info, e ast.Expr) (int64, bool) {
	tv, ok := info.Types[e]
	if !ok || tv.Value == nil {
		return 0, false
	}
	v, exact := constant.Int64Val(constant.ToInt(tv.Value))
	return v, exact
}

func isConv(info *types.Info, call *ast.CallExpr) bool {
	tv, ok := info.Types[call.Fun]
	return ok && tv.IsType()
}

func ruleL2(c *Ctx) {
	gen, pk := c.P.FuncDecl(compilePkg, "fcomp.generate")
	dec, _ := c.P.FuncDecl(compilePkg, "Funcode.decodeLNT")
	if gen == nil || dec == nil {
		c.anchorFail("fcomp.generate or Funcode.decodeLNT not found")
		return
	}
	// the delta-encoding loop may have been extracted from generate into a helper:
	// use whichever function of the package contains the `a<<k | b<<j | ...` packing of uint16 entries
	hasPacking := func(fd *ast.FuncDecl) bool {
		found := false
		ast.Inspect(fd.Body, func(n ast.Node) bool {
			if as, ok := n.(*ast.AssignStmt); ok && len(as.Lhs) == 1 && len(as.Rhs) == 1 {
				if b, ok := as.Rhs[0].(*ast.BinaryExpr); ok && b.Op == token.OR {
					if t := pk.TypesInfo.TypeOf(as.Rhs[0]); t != nil && t.String() == "uint16" {
						found = true
					}
				}
			}
			return true
		})
		return found
	}
	if !hasPacking(gen) {
		for _, f := range pk.Syntax {
			for _, d := range f.Decls {
				if fd, ok := d.(*ast.FuncDecl); ok && fd.Body != nil && hasPacking(fd) {
					gen = fd
				}
			}
		}
	}
	info := pk.TypesInfo
	// --- encoder ---
	enc := map[string]*bitField{}
	var parseTerm func(e ast.Expr) (name string, mask int64, shift int64, ok bool)
	parseTerm = func(e ast.Expr) (string, int64, int64, bool) {
		switch x := e.(type) {
		case *ast.ParenExpr:
			return parseTerm(x.X)
		case *ast.Ident:
			return x.Name, -1, 0, true
		case *ast.CallExpr:
			if isConv(info, x) && len(x.Args) == 1 {
				return parseTerm(x.Args[0])
			}
		case *ast.BinaryExpr:
			switch x.Op {
			case token.SHL:
				n, m, s, ok := parseTerm(x.X)
				k, isK := constOf(info, x.Y)
				if ok && isK {
					return n, m, s + k, true
				}
			case token.AND:
				n, _, s, ok := parseTerm(x.X)
				k, isK := constOf(info, x.Y)
				if ok && isK {
					return n, k, s, true
				}
			}
		}
		return "", 0, 0, false
	}
	var collectOr func(e ast.Expr, out *[]ast.Expr)
	collectOr = func(e ast.Expr, out *[]ast.Expr) {
		if b, ok := e.(*ast.BinaryExpr); ok && b.Op == token.OR {
			collectOr(b.X, out)
			collectOr(b.Y, out)
			return
		}
		*out = append(*out, e)
	}
	found := false
	ast.Inspect(gen.Body, func(n ast.Node) bool {
		as, ok := n.(*ast.AssignStmt)
		if !ok || len(as.Lhs) != 1 || len(as.Rhs) != 1 {
			return true
		}
		lhs, ok := as.Lhs[0].(*ast.Ident)
		if !ok {
			return true
		}
		// packing expression
		if b, ok := as.Rhs[0].(*ast.BinaryExpr); ok && b.Op == token.OR && info.TypeOf(as.Rhs[0]) != nil && info.TypeOf(as.Rhs[0]).String() == "uint16" {
			_ = lhs
			var terms []ast.Expr
			collectOr(b, &terms)
			for _, t := range terms {
				n, m, s, ok := parseTerm(t)
				if !ok {
					c.viol("generate: packing term "+types.ExprString(t), c.P.Pos(t.Pos()), "unrecognised term in the line-table packing expression")
					continue
				}
				w := int64(-1)
				if m >= 0 {
					w = bitsOfMask(m)
				}
				enc[n] = &bitField{name: n, shift: s, width: w, pos: t.Pos()}
			}
			found = true
		}
		return true
	})
	if !found {
		c.anchorFail("no uint16 packing expression `a<<k | b<<j | ...` found in package compile")
		return
	}
	// a flag bit added separately: entry |= 1
	ast.Inspect(gen.Body, func(n ast.Node) bool {
		as, ok := n.(*ast.AssignStmt)
		if !ok || as.Tok != token.OR_ASSIGN || len(as.Rhs) != 1 {
			return true
		}
		if t := info.TypeOf(as.Lhs[0]); t == nil || t.String() != "uint16" {
			return true
		}
		if k, isK := constOf(info, as.Rhs[0]); isK && k > 0 && k&(k-1) == 0 {
			sh := int64(0)
			for (k >> sh) != 1 {
				sh++
			}
			enc[fmt.Sprintf("flag bit %d", sh)] = &bitField{name: fmt.Sprintf("flag bit %d", sh), shift: sh, width: 1, pos: as.Pos()}
		}
		return true
	})
	// clip bounds and pc saturation
	ast.Inspect(gen.Body, func(n ast.Node) bool {
		switch x := n.(type) {
		case *ast.AssignStmt:
			if len(x.Rhs) == 1 && len(x.Lhs) >= 1 {
				if call, ok := x.Rhs[0].(*ast.CallExpr); ok {
					if id, ok := call.Fun.(*ast.Ident); ok && id.Name == "clip" && len(call.Args) == 3 {
						if l, ok := x.Lhs[0].(*ast.Ident); ok {
							lo, ok1 := constOf(info, call.Args[1])
							hi, ok2 := constOf(info, call.Args[2])
							if f := enc[l.Name]; f != nil && ok1 && ok2 {
								f.lo, f.hi, f.hasClip, f.signed = lo, hi, true, true
							}
						}
					}
				}
			}
		case *ast.IfStmt:
			if b, ok := x.Cond.(*ast.BinaryExpr); ok && b.Op == token.GTR {
				if id, ok := b.X.(*ast.Ident); ok {
					if k, isK := constOf(info, b.Y); isK {
						if f := enc[id.Name]; f != nil && !f.hasClip {
							f.lo, f.hi, f.hasClip = 0, k, true
						}
					}
				}
			}
		}
		return true
	})
	// infer widths of unmasked fields from the next field's shift
	var fs []*bitField
	for _, f := range enc {
		fs = append(fs, f)
	}
	sort.Slice(fs, func(i, j int) bool { return fs[i].shift < fs[j].shift })
	for i, f := range fs {
		next := int64(16)
		if i+1 < len(fs) {
			next = fs[i+1].shift
		}
		if f.width < 0 {
			f.width = next - f.shift
		}
		key := "generate: field " + f.name
		pos := c.P.Pos(f.pos)
		if f.shift+f.width != next {
			c.viol(key, pos, fmt.Sprintf("bit field %s occupies bits [%d,%d) but the next field starts at bit %d: fields overlap or leave a gap", f.name, f.shift, f.shift+f.width, next))
			continue
		}
		if f.hasClip {
			wantLo, wantHi := int64(0), int64(1)<<f.width-1
			if f.signed {
				wantLo, wantHi = -(int64(1) << (f.width - 1)), int64(1)<<(f.width-1)-1
			}
			if f.lo != wantLo || f.hi != wantHi {
				c.viol(key, pos, fmt.Sprintf("field %s is %d bits wide (range [%d,%d]) but deltas are clipped to [%d,%d]: out-of-range deltas are truncated when packed and every later position in the function drifts", f.name, f.width, wantLo, wantHi, f.lo, f.hi))
				continue
			}
		} else if f.width > 1 {
			c.viol(key, pos, "no saturation/clip found for multi-bit field "+f.name)
			continue
		}
		c.ok(key, pos, fmt.Sprintf("bits [%d,%d), clip range matches width", f.shift, f.shift+f.width))
	}
	// --- decoder ---
	type decField struct {
		lo, hi int64
		signed bool
		pos    token.Pos
	}
	decf := map[string]*decField{}
	var parseDec func(e ast.Expr) (left, right int64, signed, ok bool)
	parseDec = func(e ast.Expr) (int64, int64, bool, bool) {
		switch x := e.(type) {
		case *ast.ParenExpr:
			return parseDec(x.X)
		case *ast.Ident:
			return 0, 0, false, true
		case *ast.CallExpr:
			if isConv(info, x) && len(x.Args) == 1 {
				l, r, s, ok := parseDec(x.Args[0])
				if id, isId := x.Fun.(*ast.Ident); isId && id.Name == "int16" {
					s = true
				}
				return l, r, s, ok
			}
		case *ast.BinaryExpr:
			k, isK := constOf(info, x.Y)
			if !isK {
				return 0, 0, false, false
			}
			l, r, s, ok := parseDec(x.X)
			switch x.Op {
			case token.SHL:
				return l + k, r, s, ok
			case token.SHR:
				return l, r + k, s, ok
			case token.AND:
				// x & 1
				if k == 1 {
					return 15, 15, false, ok
				}
			}
		}
		return 0, 0, false, false
	}
	ast.Inspect(dec.Body, func(n ast.Node) bool {
		switch x := n.(type) {
		case *ast.AssignStmt:
			if x.Tok == token.ADD_ASSIGN && len(x.Lhs) == 1 {
				if sel, ok := x.Lhs[0].(*ast.SelectorExpr); ok {
					l, r, s, ok := parseDec(x.Rhs[0])
					if ok {
						decf[sel.Sel.Name] = &decField{lo: r - l, hi: 16 - l, signed: s, pos: x.Pos()}
					}
				}
			}
		case *ast.BinaryExpr:
			// a flag test: x & 1 (in whatever statement form)
			if x.Op == token.AND {
				if k, isK := constOf(info, x.Y); isK && k > 0 && k&(k-1) == 0 && k < 1<<15 {
					if t := info.TypeOf(x.X); t != nil && (t.String() == "uint16" || t.String() == "int16") {
						sh := int64(0)
						for (k >> sh) != 1 {
							sh++
						}
						if _, dup := decf[fmt.Sprintf("flag bit %d", sh)]; !dup {
							decf[fmt.Sprintf("flag bit %d", sh)] = &decField{lo: sh, hi: sh + 1, pos: x.Pos()}
						}
					}
				}
			}
		}
		return true
	})
	// the extraction may live in a helper that returns the deltas (`dpc, dline, dcol, done :=
	// unpackLNTEntry(x)`): the syntax then shows bare identifiers, every field looks like bits [0,16).
	// Read the shifts from the SSA instead, across the call.
	degenerate := len(decf) > 0
	for _, x := range decf {
		if !(x.lo == 0 && x.hi == 16) {
			degenerate = false
		}
	}
	if degenerate || len(decf) == 0 {
		if fn := c.P.Func(compilePkg, "Funcode.decodeLNT"); fn != nil {
			decf = map[string]*decField{}
			var shifts func(v ssa.Value, depth int) (l, r int64, signed, ok bool)
			shifts = func(v ssa.Value, depth int) (int64, int64, bool, bool) {
				if depth > 12 {
					return 0, 0, false, false
				}
				switch x := v.(type) {
				case *ssa.Convert:
					l, r, s, ok := shifts(x.X, depth+1)
					if bt, isB := x.Type().Underlying().(*types.Basic); isB && bt.Kind() == types.Int16 {
						s = true
					}
					return l, r, s, ok
				case *ssa.ChangeType:
					return shifts(x.X, depth+1)
				case *ssa.BinOp:
					k, isK := constInt(x.Y)
					if !isK {
						return 0, 0, false, false
					}
					l, r, s, ok := shifts(x.X, depth+1)
					switch x.Op {
					case token.SHL:
						return l + k, r, s, ok
					case token.SHR:
						return l, r + k, s, ok
					}
					return 0, 0, false, false
				case *ssa.Extract:
					call, isCall := x.Tuple.(*ssa.Call)
					if !isCall {
						return 0, 0, false, false
					}
					h := call.Call.StaticCallee()
					if h == nil || len(h.Blocks) == 0 {
						return 0, 0, false, false
					}
					var ret *ssa.Return
					cnt := 0
					eachInstr(h, func(in ssa.Instruction) {
						if rr, isR := in.(*ssa.Return); isR {
							ret = rr
							cnt++
						}
					})
					if cnt != 1 || x.Index >= len(ret.Results) {
						return 0, 0, false, false
					}
					return shifts(ret.Results[x.Index], depth+1)
				case *ssa.Parameter, *ssa.UnOp, *ssa.Index:
					// the raw table element
					if bt, isB := v.Type().Underlying().(*types.Basic); isB && (bt.Kind() == types.Uint16 || bt.Kind() == types.Int16) {
						return 0, 0, false, true
					}
				}
				return 0, 0, false, false
			}
			eachInstr(fn, func(in ssa.Instruction) {
				st, isSt := in.(*ssa.Store)
				if !isSt {
					return
				}
				fa, isFa := st.Addr.(*ssa.FieldAddr)
				if !isFa {
					return
				}
				add, isAdd := st.Val.(*ssa.BinOp)
				if !isAdd || add.Op != token.ADD {
					return
				}
				name := deref(fa.X.Type()).Underlying().(*types.Struct).Field(fa.Field).Name()
				for _, o := range []ssa.Value{add.Y, add.X} {
					if l, r, sg, ok := shifts(o, 0); ok && (l != 0 || r != 0) {
						decf[name] = &decField{lo: r - l, hi: 16 - l, signed: sg, pos: st.Pos()}
						break
					}
				}
			})
			// the continuation flag, in decodeLNT or the helpers it calls
			flagIn := func(g *ssa.Function) {
				eachInstr(g, func(in ssa.Instruction) {
					b, isB := in.(*ssa.BinOp)
					if !isB || b.Op != token.AND {
						return
					}
					k, isK := constInt(b.Y)
					if !isK || k <= 0 || k&(k-1) != 0 || k >= 1<<15 {
						return
					}
					if bt, ok := b.X.Type().Underlying().(*types.Basic); !ok || (bt.Kind() != types.Uint16 && bt.Kind() != types.Int16) {
						return
					}
					sh := int64(0)
					for (k >> sh) != 1 {
						sh++
					}
					decf[fmt.Sprintf("flag bit %d", sh)] = &decField{lo: sh, hi: sh + 1, pos: b.Pos()}
				})
			}
			flagIn(fn)
			eachInstr(fn, func(in ssa.Instruction) {
				if call, ok := in.(*ssa.Call); ok {
					if h := call.Call.StaticCallee(); h != nil && fnPkgPath(h) == fnPkgPath(fn) && len(h.Blocks) > 0 {
						flagIn(h)
					}
				}
			})
		}
	}
	// match encoder and decoder fields by the bits they occupy (names are for messages only)
	usedDec := map[string]bool{}
	for _, f := range fs {
		key := "decodeLNT: field " + f.name
		var dn string
		var d *decField
		for n, x := range decf {
			if x.lo == f.shift && x.hi == f.shift+f.width {
				dn, d = n, x
			}
		}
		if d == nil {
			// is some decoder field overlapping these bits?
			for n, x := range decf {
				if x.lo < f.shift+f.width && f.shift < x.hi && !usedDec[n] {
					dn, d = n, x
				}
			}
			if d == nil {
				c.viol(key, c.P.Pos(dec.Pos()), fmt.Sprintf("decodeLNT extracts nothing from bits [%d,%d), which the encoder fills with %s", f.shift, f.shift+f.width, f.name))
			} else {
				c.viol(key, c.P.Pos(d.pos), fmt.Sprintf("decoder reads %s from bits [%d,%d) but the encoder packs %s into bits [%d,%d)", dn, d.lo, d.hi, f.name, f.shift, f.shift+f.width))
			}
			continue
		}
		usedDec[dn] = true
		if f.width > 1 && d.signed != f.signed {
			c.viol(key, c.P.Pos(d.pos), fmt.Sprintf("signedness differs for %s (encoder signed=%v, decoder sign-extends=%v)", dn, f.signed, d.signed))
			continue
		}
		c.ok(key, c.P.Pos(d.pos), fmt.Sprintf("bits [%d,%d) signed=%v on both sides", d.lo, d.hi, d.signed))
	}
	for n, x := range decf {
		if !usedDec[n] {
			c.viol("decodeLNT: field "+n, c.P.Pos(x.pos), fmt.Sprintf("decoder reads %s from bits [%d,%d), which no encoder field occupies exactly", n, x.lo, x.hi))
		}
	}
}

func bitsOfMask(m int64) int64 {
	n := int64(0)
	for m&1 == 1 {
		n++
		m >>= 1
	}
	if m != 0 {
		return -1
	}
	return n
}

// ---------- L3 ----------

func ruleL3(c *Ctx) {
	ee := c.P.Func("starlark", "Thread.evalError")
	if ee == nil {
		c.anchorFail("(*starlark.Thread).evalError not found")
		return
	}
	n := 0
	for _, fn := range c.P.Funcs {
		eachInstr(fn, func(in ssa.Instruction) {
			ci, ok := in.(ssa.CallInstruction)
			if !ok || ci.Common().StaticCallee() != ee {
				return
			}
			n++
			key := fmt.Sprintf("%s: call evalError", fnName(fn))
			pos := c.P.Pos(in.Pos())
			switch {
			case fn.Name() == "Call" && fn.Parent() == nil && fnPkgPath(fn) == modPath+"/starlark":
				// guarded by !is[*EvalError](err): some dominating If whose condition derives from a call to is[...]
				guarded := false
				for _, pf := range pathFacts(in.Block()) {
					cond, neg := pf.Cond, false
					if call, ok := cond.(*ssa.Call); ok {
						if cal := call.Call.StaticCallee(); cal != nil && baseName(cal) == "is" && (pf.Truth == neg) {
							guarded = true
						}
					}
					// the same test written as a comma-ok assertion: if _, ok := err.(*EvalError); !ok { ... }
					if ex, ok := cond.(*ssa.Extract); ok && ex.Index == 1 && pf.Truth == neg {
						if ta, ok := ex.Tuple.(*ssa.TypeAssert); ok && ta.CommaOk {
							if pt, ok := ta.AssertedType.(*types.Pointer); ok && isNamed(pt.Elem(), "starlark", "EvalError") {
								guarded = true
							}
						}
					}
				}
				if guarded {
					c.ok(key, pos, "in Call's body (the frame is still on the stack), guarded by !is[*EvalError](err)")
				} else {
					c.viol(key, pos, "evalError in Call is not guarded by the not-already-an-EvalError test: inner errors would be re-wrapped with an outer, shorter stack")
				}
			case methodIs(fn, "starlark", "Function", "CallInternal"):
				c.ok(key, pos, "argument-binding failure inside the callee's own frame")
			case fn.Parent() != nil:
				c.viol(key, pos, "evalError called from a closure (possibly deferred, after the frame was popped)")
			default:
				c.viol(key, pos, "evalError called from an unexpected function: the backtrace would be captured at the wrong depth")
			}
		})
	}
	if n == 0 {
		c.viol("evalError callers", c.P.Pos(ee.Pos()), "evalError is never called: errors carry no call stack")
	}
}

// ---------- L5 ----------

func ruleL5(c *Ctx) {
	call := c.P.Func("starlark", "Call")
	if call == nil {
		c.anchorFail("starlark.Call not found")
		return
	}
	frameT := c.P.Named("starlark", "frame")
	if frameT == nil {
		c.anchorFail("starlark.frame not found")
		return
	}
	st := frameT.Underlying().(*types.Struct)
	key := "starlark.Call: deferred frame reset"
	var whole bool
	fields := map[string]bool{}
	var where token.Pos
	eachInstr(call, func(in ssa.Instruction) {
		d, ok := in.(*ssa.Defer)
		if !ok {
			return
		}
		cl := deferredBody(d)
		if cl == nil {
			return
		}
		eachInstr(cl, func(in2 ssa.Instruction) {
			s, ok := in2.(*ssa.Store)
			if !ok {
				return
			}
			if isNamed(s.Addr.Type(), "starlark", "frame") {
				if _, isFA := s.Addr.(*ssa.FieldAddr); !isFA {
					if _, isIA := s.Addr.(*ssa.IndexAddr); !isIA {
						// *fr = frame{} : store of a zero aggregate through the frame pointer
						if k, ok := s.Val.(*ssa.Const); ok && k.Value == nil {
							whole = true
							where = s.Pos()
						} else if ld, ok := s.Val.(*ssa.UnOp); ok {
							if a, ok := ld.X.(*ssa.Alloc); ok {
								// zero-valued temporary (complit with no fields)
								hasStore := false
								for _, r := range *a.Referrers() {
									if _, ok := r.(*ssa.Store); ok {
										hasStore = true
									}
								}
								if !hasStore {
									whole = true
									where = s.Pos()
								}
							}
						}
					}
				}
			}
			if fa, ok := s.Addr.(*ssa.FieldAddr); ok && isNamed(fa.X.Type(), "starlark", "frame") {
				fields[st.Field(fa.Field).Name()] = true
				where = s.Pos()
			}
		})
	})
	if whole {
		c.ok(key, c.P.Pos(where), "*fr = frame{} in the deferred pop")
		return
	}
	var missing []string
	for i := 0; i < st.NumFields(); i++ {
		if !fields[st.Field(i).Name()] {
			missing = append(missing, st.Field(i).Name())
		}
	}
	if len(missing) == 0 {
		c.ok(key, c.P.Pos(where), "every field of the frame is reset in the deferred pop")
		return
	}
	c.viol(key, c.P.Pos(call.Pos()), "frames are recycled through thread.stack's spare capacity, but the deferred pop does not reset field(s) "+strings.Join(missing, ", ")+": a later call that fails before executing an instruction reports the previous call's state (e.g. a stale pc, hence a wrong position)")
}

// pkgFuncs returns the functions (with bodies, including closures) of fn's package.
func pkgFuncs(fn *ssa.Function) []*ssa.Function {
	var out []*ssa.Function
	if fn.Pkg == nil {
		return out
	}
	var add func(f *ssa.Function)
	add = func(f *ssa.Function) {
		if f == nil || f.Blocks == nil {
			return
		}
		out = append(out, f)
		for _, a := range f.AnonFuncs {
			add(a)
		}
	}
	for _, mem := range fn.Pkg.Members {
		switch m := mem.(type) {
		case *ssa.Function:
			add(m)
		case *ssa.Type:
			for _, t := range []types.Type{m.Type(), types.NewPointer(m.Type())} {
				ms := fn.Prog.MethodSets.MethodSet(t)
				for i := 0; i < ms.Len(); i++ {
					add(fn.Prog.MethodValue(ms.At(i)))
				}
			}
		}
	}
	return out
}

func init() {
	register("L6", "callee errors keep their backtrace: the error returned by starlark.Call (an *EvalError carrying the inner frames) is only tested, stored or returned as is - it is never passed to a formatting/wrapping function that would replace it by a plain error and drop the inner call stack", 5, ruleL6)
}

func ruleL6(c *Ctx) {
	callFn := c.P.Func("starlark", "Call")
	if callFn == nil {
		c.anchorFail("starlark.Call not found")
		return
	}
	n := 0
	for _, fn := range c.P.Funcs {
		if !isProdPkg(fnPkgPath(fn)) || fn == callFn {
			continue
		}
		eachInstr(fn, func(in ssa.Instruction) {
			call, ok := in.(*ssa.Call)
			if !ok || call.Call.StaticCallee() != callFn {
				return
			}
			n++
			key := fmt.Sprintf("%s: error of starlark.Call", fnName(fn))
			pos := c.P.Pos(call.Pos())
			var errv ssa.Value
			for _, r := range *call.Referrers() {
				if ex, ok := r.(*ssa.Extract); ok && ex.Index == 1 {
					errv = ex
				}
			}
			if errv == nil {
				// `return Call(...)`: the tuple is returned whole
				c.ok(key, pos, "returned together with the result")
				return
			}
			bad := ""
			seen := map[ssa.Value]bool{}
			var follow func(v ssa.Value)
			follow = func(v ssa.Value) {
				if seen[v] {
					return
				}
				seen[v] = true
				for _, r := range *v.Referrers() {
					switch x := r.(type) {
					case *ssa.Return, *ssa.If, *ssa.BinOp, *ssa.DebugRef:
					case *ssa.Phi:
						follow(x)
					case *ssa.Store:
						// err = err2 (local/named result): follow loads of that variable
						if a, ok := x.Addr.(*ssa.Alloc); ok {
							for _, r2 := range *a.Referrers() {
								if ld, ok := r2.(*ssa.UnOp); ok && ld.Op == token.MUL {
									follow(ld)
								}
							}
						}
					case *ssa.MakeInterface:
						follow(x)
					case *ssa.TypeAssert, *ssa.ChangeInterface:
						follow(r.(ssa.Value))
					case ssa.CallInstruction:
						cal := x.Common().StaticCallee()
						name := calleeName(x)
						if cal != nil && (cal.Name() == "Error" || cal.Name() == "Unwrap" || cal.String() == "errors.As" || cal.String() == "errors.Is") {
							continue
						}
						if x.Common().IsInvoke() && x.Common().Value == v {
							continue // err.Error() etc.
						}
						if bad == "" {
							bad = name + " at " + c.P.Pos(x.Pos())
						}
					}
				}
			}
			follow(errv)
			if bad == "" {
				c.ok(key, pos, "only tested, stored or returned unchanged")
			} else {
				c.viol(key, pos, "the callee's error is passed to "+bad+": wrapping it in a new error discards the *EvalError and with it the frames of the failing callee, so the reported stack ends at the built-in")
			}
		})
	}
	if n < 5 {
		c.anchorFail("only %d calls of starlark.Call found", n)
	}
}

type evKind int

const (
	evNone evKind = iota
	evSet
	evClear
)

// unpositionedPath searches backwards from the emitting call for a feasible
// path on which no setPos follows the last position-clearing event; it
// returns a description of such a path, or "".
func unpositionedPath(c *Ctx, call *ssa.Call, event func(ssa.Instruction) evKind) string {
	bad := ""
	type st struct {
		b *ssa.BasicBlock
		k string
	}
	seen := map[st]bool{}
	var search func(b *ssa.BasicBlock, idx int, facts factSet)
	search = func(b *ssa.BasicBlock, idx int, facts factSet) {
		if bad != "" {
			return
		}
		for i := idx - 1; i >= 0; i-- {
			switch event(b.Instrs[i]) {
			case evSet:
				return
			case evClear:
				bad = fmt.Sprintf("after %s at %s no setPos precedes this emission", calleeName(b.Instrs[i].(ssa.CallInstruction)), c.P.Pos(b.Instrs[i].Pos()))
				return
			}
		}
		if len(b.Preds) == 0 {
			bad = "reachable from the function entry without any setPos"
			return
		}
		for _, p := range b.Preds {
			f2 := facts
			if ifi, ok := p.Instrs[len(p.Instrs)-1].(*ssa.If); ok && p.Succs[0] != p.Succs[1] {
				f2 = facts.clone()
				if !f2.add(ifi.Cond, p.Succs[0] == b) {
					continue // infeasible
				}
			}
			s := st{p, f2.key()}
			if seen[s] {
				continue
			}
			seen[s] = true
			search(p, len(p.Instrs), f2)
		}
	}
	idx := 0
	for i, x := range call.Block().Instrs {
		if x == ssa.Instruction(call) {
			idx = i
		}
	}
	search(call.Block(), idx, factSet{})
	return bad
}

// forwardedParam: is the opcode operand a parameter of fn, or an element of a
// variadic []Opcode parameter?
func forwardedParam(fn *ssa.Function, opv ssa.Value) (*ssa.Parameter, bool) {
	if !fn.Signature.Variadic() {
		return nil, false
	}
	if ld, ok := opv.(*ssa.UnOp); ok && ld.Op == token.MUL {
		if ia, ok := ld.X.(*ssa.IndexAddr); ok {
			if p, ok := ia.X.(*ssa.Parameter); ok && p == fn.Params[len(fn.Params)-1] {
				return p, true
			}
		}
	}
	return nil, false
}

// capturesCell recognises the one deliberate unpositioned LOCAL: pushing the
// enclosing function's cell for a free variable of a nested function - the
// operand is the Index of a *resolve.Binding whose Scope was just tested.
func capturesCell(call *ssa.Call) bool {
	if len(call.Call.Args) < 3 {
		return false
	}
	fromBinding := func(v ssa.Value, field string) bool {
		for i := 0; i < 4; i++ {
			switch x := v.(type) {
			case *ssa.Convert:
				v = x.X
				continue
			case *ssa.ChangeType:
				v = x.X
				continue
			case *ssa.UnOp:
				if fa, ok := x.X.(*ssa.FieldAddr); ok {
					o, f := ownerField(fa)
					return o == "resolve.Binding" && f == field
				}
			}
			return false
		}
		return false
	}
	if !fromBinding(call.Call.Args[2], "Index") {
		return false
	}
	for _, pf := range pathFacts(call.Block()) {
		cond, _ := pf.Cond, false
		if bo, ok := cond.(*ssa.BinOp); ok && bo.Op == token.EQL && fromBinding(bo.X, "Scope") {
			return true
		}
	}
	return false
}

// ---------- L7 ----------

func init() {
	register("L7", "reporting an error does not change it: no method of *EvalError writes the error's fields, directly or by handing the address of a field to a function that stores through it (CallStack.Pop), so the call stack an error carries is the same however often it is rendered", 3, ruleL7)
	claim("C16", "L7")
}

// writesThroughParam: fn (or a callee it forwards the parameter to) stores through parameter idx.
func writesThroughParam(fn *ssa.Function, idx int, depth int) bool {
	if fn == nil || fn.Blocks == nil || idx >= len(fn.Params) || depth == 0 {
		return false
	}
	prm := fn.Params[idx]
	found := false
	eachInstr(fn, func(in ssa.Instruction) {
		switch x := in.(type) {
		case *ssa.Store:
			for _, b := range traceAddr(x.Addr).bases {
				if b.v == ssa.Value(prm) {
					found = true
				}
			}
		case ssa.CallInstruction:
			cal := x.Common().StaticCallee()
			if cal == nil {
				return
			}
			for i, a := range x.Common().Args {
				for _, b := range traceAddr(a).bases {
					if b.v == ssa.Value(prm) && !b.throughPtr {
						if _, isPtr := a.Type().Underlying().(*types.Pointer); isPtr && writesThroughParam(cal, i, depth-1) {
							found = true
						}
					}
				}
			}
		}
	})
	return found
}

func ruleL7(c *Ctx) {
	n := 0
	for _, fn := range c.P.Funcs {
		if fnPkgPath(fn) != modPath+"/starlark" || fn.Signature.Recv() == nil || fn.Blocks == nil {
			continue
		}
		if qualType(fn.Signature.Recv().Type()) != "starlark.EvalError" {
			continue
		}
		n++
		key := fnName(fn) + ": read-only"
		pos := c.P.Pos(fn.Pos())
		if writesThroughParam(fn, 0, 3) {
			c.viol(key, pos, "the method changes the error it reports on (a field of the receiver is stored, or its address is given to a function that stores through it): the second rendering, or an inspection of CallStack after the first, sees a different stack")
		} else {
			c.ok(key, pos, "no store through the receiver")
		}
	}
	if n < 3 {
		c.anchorFail("only %d methods of *EvalError found", n)
	}
}
