package main

import (
	"go/constant"
	"go/token"
	"go/types"
	"strings"

	"golang.org/x/tools/go/ssa"
)

// ---- type helpers ----

func deref(t types.Type) types.Type {
	if p, ok := t.Underlying().(*types.Pointer); ok {
		return p.Elem()
	}
	return t
}

// namedOf returns the package path and name of the (pointer to) named type t.
func namedOf(t types.Type) (pkg, name string) {
	t = deref(t)
	if a, ok := t.(*types.Alias); ok {
		t = types.Unalias(a)
	}
	n, ok := t.(*types.Named)
	if !ok {
		return "", ""
	}
	if n.Obj().Pkg() == nil {
		return "", n.Obj().Name()
	}
	return n.Obj().Pkg().Path(), n.Obj().Name()
}

func isNamed(t types.Type, pkgRel, name string) bool {
	p, n := namedOf(t)
	want := modPath
	if pkgRel != "" {
		want += "/" + pkgRel
	}
	return n == name && p == want
}

func relPkg(path string) string {
	return strings.TrimPrefix(strings.TrimPrefix(path, modPath), "/")
}

// qual returns "pkgRel.Name" for a named type of the module.
func qualType(t types.Type) string {
	p, n := namedOf(t)
	if n == "" {
		return ""
	}
	if p == modPath || strings.HasPrefix(p, modPath+"/") {
		r := relPkg(p)
		if r == "" {
			return n
		}
		return r + "." + n
	}
	return p + "." + n
}

// ---- SSA address tracing ----

// A base is a terminal of an address/value chain.
type base struct {
	v          ssa.Value
	throughPtr bool // the chain crossed a load of a pointer/slice/map held in a field or element
}

type trace struct {
	bases  []base
	fields []*types.Var // fields traversed, innermost (nearest the store) first
	owners []types.Type // struct types owning those fields
}

// traceAddr walks an address or value back to its bases through field and
// element selection, loads, slices, conversions and phis. Local variables
// spilled to an Alloc (captured parameters, address-taken locals) are followed
// through their stores.
func traceAddr(v ssa.Value) *trace { return traceAddr1(v, false) }

// traceValue is traceAddr for values being read: it also follows whole-object
// copies into local aggregates (`e := slice[i]`), which must not be done for
// store destinations (a local copy is private memory).
func traceValue(v ssa.Value) *trace { return traceAddr1(v, true) }

func traceAddr1(v ssa.Value, followCopies bool) *trace {
	t := &trace{}
	seen := map[ssa.Value]bool{}
	var walk func(v ssa.Value, thr bool)
	walk = func(v ssa.Value, thr bool) {
		for {
			if seen[v] {
				return
			}
			seen[v] = true
			switch x := v.(type) {
			case *ssa.FieldAddr:
				st := deref(x.X.Type()).Underlying().(*types.Struct)
				t.fields = append(t.fields, st.Field(x.Field))
				t.owners = append(t.owners, deref(x.X.Type()))
				v = x.X
			case *ssa.Field:
				st := x.X.Type().Underlying().(*types.Struct)
				t.fields = append(t.fields, st.Field(x.Field))
				t.owners = append(t.owners, x.X.Type())
				v = x.X
			case *ssa.IndexAddr:
				v = x.X
			case *ssa.Index:
				v = x.X
			case *ssa.Lookup:
				v = x.X
				thr = true
			case *ssa.Slice:
				v = x.X
			case *ssa.ChangeType:
				v = x.X
			case *ssa.Convert:
				v = x.X
			case *ssa.MakeInterface:
				v = x.X
			case *ssa.ChangeInterface:
				v = x.X
			case *ssa.TypeAssert:
				v = x.X
			case *ssa.Extract:
				// result of a multi-value call / comma-ok
				if ta, ok := x.Tuple.(*ssa.TypeAssert); ok && x.Index == 0 {
					v = ta.X
					continue
				}
				if call, ok := x.Tuple.(*ssa.Call); ok {
					// one result of a multi-value accessor: match, slot, last, err := ht.probe(k, h)
					if sum := accessorSummaryN(call.Call.StaticCallee(), x.Index); sum != nil {
						t.fields = append(t.fields, sum.fields...)
						t.owners = append(t.owners, sum.owners...)
						for _, i := range sum.params {
							if i < len(call.Call.Args) {
								walk(call.Call.Args[i], thr || sum.thr)
							}
						}
						return
					}
				}
				if nx, ok := x.Tuple.(*ssa.Next); ok && x.Index >= 1 {
					// key/value of a map or string range: element of the ranged collection
					if rg, ok := nx.Iter.(*ssa.Range); ok {
						v = rg.X
						thr = true
						continue
					}
				}
				t.bases = append(t.bases, base{v, thr})
				return
			case *ssa.UnOp:
				if x.Op != token.MUL {
					t.bases = append(t.bases, base{v, thr})
					return
				}
				// load
				if a, ok := x.X.(*ssa.Alloc); ok && isVarCell(a) {
					// a spilled local variable: follow what is stored in it
					n := 0
					for _, ref := range *a.Referrers() {
						if st, ok := ref.(*ssa.Store); ok && st.Addr == a {
							n++
							walk(st.Val, thr)
						}
					}
					if n == 0 {
						// written only through its address (e.g. by Unpack*): all loads denote the same variable
						t.bases = append(t.bases, base{a, thr})
					}
					return
				}
				if fv, ok := x.X.(*ssa.FreeVar); ok {
					// captured variable: the cell itself is the base
					t.bases = append(t.bases, base{fv, thr})
					return
				}
				switch x.X.(type) {
				case *ssa.FieldAddr, *ssa.IndexAddr:
					thr = true
				}
				v = x.X
			case *ssa.Phi:
				for _, e := range x.Edges {
					walk(e, thr)
				}
				return
			case *ssa.Alloc:
				if followCopies && !isVarCell(x) {
					n := 0
					for _, ref := range *x.Referrers() {
						if st, ok := ref.(*ssa.Store); ok && st.Addr == x {
							n++
							walk(st.Val, thr)
						}
					}
					if n > 0 {
						return
					}
				}
				t.bases = append(t.bases, base{v, thr})
				return
			case *ssa.Call:
				// an accessor that returns (a pointer into) storage of one of its parameters,
				// e.g. ht.chain(h) = &ht.table[h&mask]: continue at the corresponding arguments
				if sum := accessorSummary(x.Call.StaticCallee()); sum != nil {
					t.fields = append(t.fields, sum.fields...)
					t.owners = append(t.owners, sum.owners...)
					for _, i := range sum.params {
						if i < len(x.Call.Args) {
							walk(x.Call.Args[i], thr || sum.thr)
						}
					}
					return
				}
				t.bases = append(t.bases, base{v, thr})
				return
			default:
				t.bases = append(t.bases, base{v, thr})
				return
			}
		}
	}
	walk(v, false)
	return t
}

type accessorSum struct {
	params []int
	fields []*types.Var
	owners []types.Type
	thr    bool
}

type accKey struct {
	fn  *ssa.Function
	idx int
}

var accessorCache = map[accKey]*accessorSum{}
var accessorBusy = map[accKey]bool{}

// accessorSummary is accessorSummaryN for single-result functions.
func accessorSummary(fn *ssa.Function) *accessorSum {
	if fn == nil || fn.Signature.Results().Len() != 1 {
		return nil
	}
	return accessorSummaryN(fn, 0)
}

// accessorSummary: fn is a function of the module with a single address-like
// result, every return of which denotes storage reached from fn's parameters
// by field/element selection only (no allocation, no call results, no globals).
func accessorSummaryN(fn *ssa.Function, idx int) *accessorSum {
	if fn == nil || fn.Blocks == nil || idx >= fn.Signature.Results().Len() {
		return nil
	}
	if p := fnPkgPath(fn); p != modPath && !strings.HasPrefix(p, modPath+"/") {
		return nil
	}
	switch fn.Signature.Results().At(idx).Type().Underlying().(type) {
	case *types.Pointer:
	default:
		return nil
	}
	key := accKey{fn, idx}
	if s, ok := accessorCache[key]; ok {
		return s
	}
	if accessorBusy[key] {
		return nil
	}
	accessorBusy[key] = true
	defer delete(accessorBusy, key)
	sum := &accessorSum{}
	ok := true
	nret := 0
	seenP := map[int]bool{}
	eachInstr(fn, func(in ssa.Instruction) {
		ret, isRet := in.(*ssa.Return)
		if !isRet || len(ret.Results) <= idx || in.Parent() != fn {
			return
		}
		nret++
		if k, isK := ret.Results[idx].(*ssa.Const); isK && k.IsNil() {
			return
		}
		tr := traceAddr(ret.Results[idx])
		if len(tr.fields) == 0 {
			ok = false // returns a parameter itself or something opaque: not an interior accessor
		}
		for _, b := range tr.bases {
			if k, isK := b.v.(*ssa.Const); isK && k.IsNil() {
				continue // "not found" on some path
			}
			prm, isP := b.v.(*ssa.Parameter)
			if !isP {
				ok = false
				continue
			}
			for i, q := range fn.Params {
				if q == prm && !seenP[i] {
					seenP[i] = true
					sum.params = append(sum.params, i)
				}
			}
			if b.throughPtr {
				sum.thr = true
			}
		}
		sum.fields = append(sum.fields, tr.fields...)
		sum.owners = append(sum.owners, tr.owners...)
	})
	if !ok || nret == 0 || len(sum.params) == 0 {
		sum = nil
	}
	accessorCache[key] = sum
	return sum
}

// isVarCell reports whether the Alloc is storage for a local variable whose
// value is a reference (pointer, slice, map, interface, func) or scalar - as
// opposed to an aggregate (struct/array) object created by new/composite literal.
func isVarCell(a *ssa.Alloc) bool {
	switch deref(a.Type()).Underlying().(type) {
	case *types.Struct, *types.Array:
		return false
	}
	return true
}

// hasOwner reports whether the chain passes through a field of one of the
// tracked struct types; it returns the outermost such owner's qualified name
// and the innermost tracked field.
func (t *trace) trackedOwner(tracked map[string]bool) (owner string, field *types.Var) {
	for i := range t.owners {
		if q := qualType(t.owners[i]); tracked[q] {
			if field == nil {
				field = t.fields[i]
			}
			owner = q
		}
	}
	return
}

// ---- control-flow helpers ----

// A pathCond says: every path to the block went through `If` on its true
// (Branch) or false edge.
type pathCond struct {
	If     *ssa.If
	Branch bool
}

// pathConds returns the branch conditions that dominate block b.
func pathConds(b *ssa.BasicBlock) []pathCond {
	var out []pathCond
	for d := b; d != nil; d = d.Idom() {
		id := d.Idom()
		if id == nil {
			break
		}
		// d is immediately dominated by id; if id ends in If and d is one
		// of its successors with a single predecessor, the edge is known.
		// More generally look at every dominator ending in If.
		_ = id
	}
	for d := b.Idom(); d != nil; d = d.Idom() {
		if len(d.Instrs) == 0 {
			continue
		}
		ifi, ok := d.Instrs[len(d.Instrs)-1].(*ssa.If)
		if !ok {
			continue
		}
		t, f := d.Succs[0], d.Succs[1]
		td := edgeDominates(d, t, b)
		fd := edgeDominates(d, f, b)
		if td && !fd {
			out = append(out, pathCond{ifi, true})
		} else if fd && !td {
			out = append(out, pathCond{ifi, false})
		}
	}
	return out
}

// A pathFact is a boolean SSA value (never a negation, never a short-circuit phi) known to be
// true or false on every path to a block.
type pathFact struct {
	Cond  ssa.Value
	Truth bool
}

// pathFacts is pathConds with the conditions taken apart: negations are peeled, and a condition that
// is the value form of `a && b` / `a || b` (ok := lo <= f && f < hi; if !ok {...}) - a phi of
// booleans all of whose edges but one carry the constant that contradicts the known truth - yields the
// facts of that one edge: its value, and the conditions under which its predecessor block runs.
func pathFacts(b *ssa.BasicBlock) []pathFact {
	var out []pathFact
	for _, pc := range pathConds(b) {
		out = append(out, expandFact(pc.If.Cond, pc.Branch)...)
	}
	return out
}

// helperFacts: when a fact is the result of a call to a bool-returning function of the module with a
// single return (func inRange(f Float) bool { return lo <= f && f < hi }), the facts about the callee's
// parameters that follow from it; params[i] is the parameter that stands for argument i.
func helperFacts(f pathFact) (facts []pathFact, callee *ssa.Function, args []ssa.Value) {
	call, ok := f.Cond.(*ssa.Call)
	resIdx := 0
	if !ok {
		// one of several results: `pos, ok := normalizeIndex(i, n)`
		ex, isEx := f.Cond.(*ssa.Extract)
		if !isEx {
			return nil, nil, nil
		}
		call, ok = ex.Tuple.(*ssa.Call)
		if !ok {
			return nil, nil, nil
		}
		resIdx = ex.Index
	}
	h := call.Call.StaticCallee()
	if h == nil || len(h.Blocks) == 0 || !strings.HasPrefix(fnPkgPath(h), modPath) || resIdx >= h.Signature.Results().Len() {
		return nil, nil, nil
	}
	if bt, isB := h.Signature.Results().At(resIdx).Type().Underlying().(*types.Basic); !isB || bt.Kind() != types.Bool {
		return nil, nil, nil
	}
	var ret *ssa.Return
	n := 0
	eachInstr(h, func(in ssa.Instruction) {
		if r, ok := in.(*ssa.Return); ok {
			ret = r
			n++
		}
	})
	if n != 1 || resIdx >= len(ret.Results) {
		return nil, nil, nil
	}
	return expandFact(ret.Results[resIdx], f.Truth), h, call.Call.Args
}

// expandFact takes a boolean value known to be true (or false) apart, see pathFacts.
func expandFact(v0 ssa.Value, truth0 bool) []pathFact {
	var out []pathFact
	seen := map[ssa.Value]bool{}
	var expand func(v ssa.Value, truth bool, depth int)
	expand = func(v ssa.Value, truth bool, depth int) {
		v, neg := stripNot(v)
		if neg {
			truth = !truth
		}
		phi, ok := v.(*ssa.Phi)
		if !ok || depth > 4 || seen[v] {
			out = append(out, pathFact{v, truth})
			return
		}
		seen[v] = true
		live := -1
		for i, e := range phi.Edges {
			if k, ok := e.(*ssa.Const); ok && k.Value != nil && k.Value.Kind() == constant.Bool && constant.BoolVal(k.Value) != truth {
				continue
			}
			if live >= 0 {
				out = append(out, pathFact{v, truth})
				return
			}
			live = i
		}
		if live < 0 {
			return
		}
		expand(phi.Edges[live], truth, depth+1)
		pred := phi.Block().Preds[live]
		for _, pc := range pathConds(pred) {
			expand(pc.If.Cond, pc.Branch, depth+1)
		}
		if len(pred.Instrs) > 0 {
			if ifi, ok := pred.Instrs[len(pred.Instrs)-1].(*ssa.If); ok && pred.Succs[0] != pred.Succs[1] {
				expand(ifi.Cond, pred.Succs[0] == phi.Block(), depth+1)
			}
		}
	}
	expand(v0, truth0, 0)
	return out
}

// edgeDominates: does taking edge from->succ dominate block b?
// True if succ dominates b and succ's only predecessor is from.
func edgeDominates(from, succ, b *ssa.BasicBlock) bool {
	if len(succ.Preds) != 1 || succ.Preds[0] != from {
		return false
	}
	return succ == b || succ.Dominates(b)
}

// instrDominates reports whether instruction a is executed before b on every
// path reaching b (same function).
func instrDominates(a, b ssa.Instruction) bool {
	ba, bb := a.Block(), b.Block()
	if ba == bb {
		for _, in := range ba.Instrs {
			if in == a {
				return true
			}
			if in == b {
				return false
			}
		}
		return false
	}
	return ba.Dominates(bb)
}

// nilTest decodes `x == nil` / `x != nil`; neq reports the operator.
func nilTest(v ssa.Value) (x ssa.Value, neq, ok bool) {
	b, isb := v.(*ssa.BinOp)
	if !isb || (b.Op != token.EQL && b.Op != token.NEQ) {
		return nil, false, false
	}
	if isNilConst(b.Y) {
		return b.X, b.Op == token.NEQ, true
	}
	if isNilConst(b.X) {
		return b.Y, b.Op == token.NEQ, true
	}
	return nil, false, false
}

func isNilConst(v ssa.Value) bool {
	c, ok := v.(*ssa.Const)
	return ok && c.Value == nil
}

// knownNil reports whether, at block b, value v is known to be nil (want=true)
// or non-nil (want=false) by a dominating test.
func knownNilness(b *ssa.BasicBlock, same func(ssa.Value) bool) (isNil, isNonNil bool) {
	// conditions are taken apart first: `onSpace := x == nil || x == None; if onSpace {..} else {..}`
	// makes x non-nil in the else branch
	for _, pf := range pathFacts(b) {
		x, neq, ok := nilTest(pf.Cond)
		if !ok || !same(x) {
			continue
		}
		if neq == pf.Truth {
			isNonNil = true
		} else {
			isNil = true
		}
	}
	return
}

// dominatedByNilResult: is instruction at block b dominated by the edge on
// which call result `res` (an error) is nil?
func dominatedByNilErr(b *ssa.BasicBlock, res ssa.Value) bool {
	isNil, _ := knownNilness(b, func(x ssa.Value) bool { return x == res })
	return isNil
}

// stripNot peels boolean negations, returning the inner value and whether an
// odd number of negations was removed.
func stripNot(v ssa.Value) (ssa.Value, bool) {
	neg := false
	for {
		u, ok := v.(*ssa.UnOp)
		if !ok || u.Op != token.NOT {
			return v, neg
		}
		v = u.X
		neg = !neg
	}
}

// constInt returns the integer value of a constant SSA value.
func constInt(v ssa.Value) (int64, bool) {
	c, ok := v.(*ssa.Const)
	if !ok || c.Value == nil || c.Value.Kind() != constant.Int {
		return 0, false
	}
	return c.Int64(), true
}

// callee returns the statically known callee of a call instruction, or nil.
func calleeOf(c ssa.CallInstruction) *ssa.Function {
	return c.Common().StaticCallee()
}

// calleeName returns a stable name for the call target: static callee's
// fnName, "invoke T.M" for interface calls, "builtin X" for builtins.
func calleeName(c ssa.CallInstruction) string {
	cc := c.Common()
	if cc.IsInvoke() {
		return "invoke " + qualType(cc.Value.Type()) + "." + cc.Method.Name()
	}
	if f := cc.StaticCallee(); f != nil {
		return fnName(f)
	}
	if b, ok := cc.Value.(*ssa.Builtin); ok {
		return "builtin " + b.Name()
	}
	return "dynamic"
}

// methodIs reports whether fn is the method recv.name of the module
// (recv without '*').
func methodIs(fn *ssa.Function, pkgRel, recv, name string) bool {
	if fn == nil || fn.Signature.Recv() == nil || fn.Name() != name {
		return false
	}
	return isNamed(fn.Signature.Recv().Type(), pkgRel, recv)
}

// eachInstr calls f for every instruction of fn.
func eachInstr(fn *ssa.Function, f func(ssa.Instruction)) {
	for _, b := range fn.Blocks {
		for _, in := range b.Instrs {
			f(in)
		}
	}
}

// outermost returns the top-level function enclosing a closure.
func outermost(fn *ssa.Function) *ssa.Function {
	for fn.Parent() != nil {
		fn = fn.Parent()
	}
	return fn
}

// closureSites returns the MakeClosure instructions creating fn in its parent.
func closureSites(fn *ssa.Function) []*ssa.MakeClosure {
	var out []*ssa.MakeClosure
	if fn.Parent() == nil {
		return nil
	}
	eachInstr(fn.Parent(), func(in ssa.Instruction) {
		if mc, ok := in.(*ssa.MakeClosure); ok && mc.Fn == fn {
			out = append(out, mc)
		}
	})
	return out
}

// freeVarBinding returns the value bound to free variable fv at a closure site.
func freeVarBinding(mc *ssa.MakeClosure, fv *ssa.FreeVar) ssa.Value {
	fn := mc.Fn.(*ssa.Function)
	for i, f := range fn.FreeVars {
		if f == fv {
			return mc.Bindings[i]
		}
	}
	return nil
}

// deferredBody returns the function whose body runs for a defer: the closure
// itself, or the statically known deferred callee.
func deferredBody(d *ssa.Defer) *ssa.Function {
	if mc, ok := d.Call.Value.(*ssa.MakeClosure); ok {
		return mc.Fn.(*ssa.Function)
	}
	if cal := d.Call.StaticCallee(); cal != nil && cal.Blocks != nil {
		return cal
	}
	return nil
}

// findInCallees looks for an instruction satisfying pred in fn itself or in
// module-local static callees (depth levels deep); it returns the instruction
// of fn that is, or leads to, the match.
func findInCallees(fn *ssa.Function, depth int, pred func(ssa.Instruction) bool) ssa.Instruction {
	var out ssa.Instruction
	seen := map[*ssa.Function]bool{}
	var has func(f *ssa.Function, d int) bool
	has = func(f *ssa.Function, d int) bool {
		if seen[f] {
			return false
		}
		seen[f] = true
		found := false
		eachInstr(f, func(in ssa.Instruction) {
			if found {
				return
			}
			if pred(in) {
				found = true
				return
			}
			if d > 0 {
				if ci, ok := in.(*ssa.Call); ok {
					if cal := ci.Call.StaticCallee(); cal != nil && cal.Blocks != nil && strings.HasPrefix(fnPkgPath(cal), modPath) && has(cal, d-1) {
						found = true
					}
				}
			}
		})
		return found
	}
	eachInstr(fn, func(in ssa.Instruction) {
		if out != nil {
			return
		}
		if pred(in) {
			out = in
			return
		}
		if ci, ok := in.(*ssa.Call); ok && depth > 0 {
			if cal := ci.Call.StaticCallee(); cal != nil && cal.Blocks != nil && strings.HasPrefix(fnPkgPath(cal), modPath) {
				seen = map[*ssa.Function]bool{}
				if has(cal, depth-1) {
					out = in
				}
			}
		}
	})
	return out
}
