package main

import (
	"fmt"
	"go/ast"
	"go/constant"
	"go/token"
	"go/types"
	"sort"
	"strings"

	"golang.org/x/tools/go/ssa"
)

func init() {
	register("T1", "precedence table: preclevels, constant-evaluated, equals the specification's operator levels as sets (or < and < not < comparisons/in/not in < | < ^ < & < shifts < + - < * / // %), every binary operator the compiler's binop accepts is in exactly one level, and parseBinopExpr rejects chained comparisons", 10, ruleT1)
	register("T2", "keyword tables: keywordToken[s] == T implies tokenNames[T] == s, and every keyword token constant has a map entry", 30, ruleT2)
	register("T3", "token coverage: every punctuation token constant is produced somewhere in the scanner, and the parser's assignment-operator case lists exactly '=' and the augmented '*_EQ' tokens", 30, ruleT3)
	register("T5", "associativity shape: the else-operand of a conditional expression is parsed by a recursive parseTest call (right associative); in parseBinopExpr the left operand is parsed at prec+1 and the right operand at opprec+1 (left associative)", 3, ruleT5)
}

// specification levels, lowest binding first (doc/spec.md, section Expressions).
var specLevels = [][]string{
	{"OR"}, {"AND"}, {"NOT"},
	{"EQL", "NEQ", "LT", "GT", "LE", "GE", "IN", "NOT_IN"},
	{"PIPE"}, {"CIRCUMFLEX"}, {"AMP"}, {"LTLT", "GTGT"}, {"MINUS", "PLUS"},
	{"STAR", "PERCENT", "SLASH", "SLASHSLASH"},
}

func ruleT1(c *Ctx) {
	pk := c.P.Pkg("syntax")
	if pk == nil {
		c.anchorFail("package syntax not loaded")
		return
	}
	var lit *ast.CompositeLit
	for _, f := range pk.Syntax {
		for _, d := range f.Decls {
			gd, ok := d.(*ast.GenDecl)
			if !ok {
				continue
			}
			for _, sp := range gd.Specs {
				if vs, ok := sp.(*ast.ValueSpec); ok {
					for i, n := range vs.Names {
						if n.Name == "preclevels" && i < len(vs.Values) {
							lit, _ = vs.Values[i].(*ast.CompositeLit)
						}
					}
				}
			}
		}
	}
	var got [][]string
	var litPos token.Pos
	var elemPos []token.Pos
	if lit != nil && len(lit.Elts) > 0 {
		litPos = lit.Pos()
		for _, el := range lit.Elts {
			inner, ok := el.(*ast.CompositeLit)
			if !ok {
				continue
			}
			var names []string
			for _, t := range inner.Elts {
				if id, ok := t.(*ast.Ident); ok {
					names = append(names, id.Name)
				}
			}
			sort.Strings(names)
			got = append(got, names)
			elemPos = append(elemPos, el.Pos())
		}
	} else if tbl, tpos := initTable(pk, "preclevels"); tbl != nil {
		// filled in init(): preclevels[row.level] = append(preclevels[row.level], row.tok)
		litPos = tpos
		for lvl := 0; lvl < len(tbl)+2; lvl++ {
			vs, ok := tbl[fmt.Sprint(lvl)]
			if !ok {
				continue
			}
			for len(got) <= lvl {
				got = append(got, nil)
				elemPos = append(elemPos, tpos)
			}
			for _, v := range vs {
				if id, ok := v.(*ast.Ident); ok {
					got[lvl] = append(got[lvl], id.Name)
				}
			}
			sort.Strings(got[lvl])
		}
	}
	if len(got) == 0 {
		c.anchorFail("syntax.preclevels is neither a composite literal nor filled from a literal table in init()")
		return
	}
	n := len(specLevels)
	if len(got) > n {
		n = len(got)
	}
	seen := map[string]int{}
	for i := 0; i < n; i++ {
		key := fmt.Sprintf("precedence level %d", i)
		if i >= len(got) {
			c.viol(key, c.P.Pos(litPos), fmt.Sprintf("level %v of the specification is missing from preclevels", specLevels[i]))
			continue
		}
		if i >= len(specLevels) {
			c.viol(key, c.P.Pos(litPos), fmt.Sprintf("preclevels has an extra level %v", got[i]))
			continue
		}
		want := append([]string{}, specLevels[i]...)
		sort.Strings(want)
		for _, t := range got[i] {
			seen[t]++
		}
		if strings.Join(want, ",") == strings.Join(got[i], ",") {
			c.ok(key, c.P.Pos(elemPos[i]), strings.Join(got[i], " "))
		} else {
			c.viol(key, c.P.Pos(elemPos[i]), fmt.Sprintf("preclevels[%d] = %v but the specification's level %d is %v: expressions mixing these operators parse to a different tree", i, got[i], i, want))
		}
	}
	// every operator accepted by the compiler's binop is in exactly one level
	if fd, _ := c.P.FuncDecl(compilePkg, "fcomp.binop"); fd != nil {
		ast.Inspect(fd.Body, func(nd ast.Node) bool {
			cc, ok := nd.(*ast.CaseClause)
			if !ok {
				return true
			}
			for _, e := range cc.List {
				if sel, ok := e.(*ast.SelectorExpr); ok {
					key := "binary operator " + sel.Sel.Name + " has a level"
					if seen[sel.Sel.Name] == 1 {
						c.ok(key, c.P.Pos(e.Pos()), "in exactly one precedence level")
					} else {
						c.viol(key, c.P.Pos(e.Pos()), fmt.Sprintf("operator %s, which the compiler accepts, appears in %d precedence levels", sel.Sel.Name, seen[sel.Sel.Name]))
					}
				}
			}
			return true
		})
	} else {
		c.anchorFail("fcomp.binop not found")
	}
	// non-associativity test in parseBinopExpr: an errorf guarded by `!first && opprec == precedence[EQL]`
	pb := c.P.Func("syntax", "parser.parseBinopExpr")
	key := "parseBinopExpr: comparisons are non-associative"
	if pb == nil {
		c.anchorFail("parser.parseBinopExpr not found")
		return
	}
	found := false
	eachInstr(pb, func(in ssa.Instruction) {
		call, ok := in.(*ssa.Call)
		if !ok || call.Call.StaticCallee() == nil || call.Call.StaticCallee().Name() != "errorf" {
			return
		}
		for _, pf := range pathFacts(call.Block()) {
			if b, ok := pf.Cond.(*ssa.BinOp); ok && b.Op == token.EQL && pf.Truth {
				// opprec == int(precedence[EQL])
				if strings.Contains(b.Y.String(), "") {
					tr := traceAddr(b.Y)
					for _, bs := range tr.bases {
						if g, ok := bs.v.(*ssa.Global); ok && g.Name() == "precedence" {
							found = true
						}
					}
					if cv, ok := b.Y.(*ssa.Convert); ok {
						for _, bs := range traceAddr(cv.X).bases {
							if g, ok := bs.v.(*ssa.Global); ok && g.Name() == "precedence" {
								found = true
							}
						}
					}
				}
			}
		}
	})
	if found {
		c.ok(key, c.P.Pos(pb.Pos()), "a second comparison at the comparison level is rejected")
	} else {
		c.viol(key, c.P.Pos(pb.Pos()), "parseBinopExpr no longer rejects chained comparisons (a < b < c would silently parse as (a < b) < c)")
	}
}

func ruleT2(c *Ctx) {
	pk := c.P.Pkg("syntax")
	if pk == nil {
		c.anchorFail("package syntax not loaded")
		return
	}
	names, _, npos := arrayLitEntries(pk, "tokenNames")
	if len(names) == 0 {
		c.anchorFail("syntax.tokenNames not found")
		return
	}
	tokByName, tokByVal := enumConsts(pk, "Token")
	// keyword map literal
	var mlit *ast.CompositeLit
	for _, f := range pk.Syntax {
		for _, d := range f.Decls {
			if gd, ok := d.(*ast.GenDecl); ok {
				for _, sp := range gd.Specs {
					if vs, ok := sp.(*ast.ValueSpec); ok {
						for i, n := range vs.Names {
							if n.Name == "keywordToken" && i < len(vs.Values) {
								mlit, _ = vs.Values[i].(*ast.CompositeLit)
							}
						}
					}
				}
			}
		}
	}
	type kwEntry struct {
		key string
		val ast.Expr
		pos token.Pos
	}
	var entries []kwEntry
	if mlit != nil && len(mlit.Elts) > 0 {
		for _, el := range mlit.Elts {
			if kv, ok := el.(*ast.KeyValueExpr); ok {
				entries = append(entries, kwEntry{constant.StringVal(pk.TypesInfo.Types[kv.Key].Value), kv.Value, kv.Pos()})
			}
		}
	} else if tbl, tpos := initTable(pk, "keywordToken"); tbl != nil {
		for k, vs := range tbl {
			for _, v := range vs {
				entries = append(entries, kwEntry{k, v, tpos})
			}
		}
		sort.Slice(entries, func(i, j int) bool { return entries[i].key < entries[j].key })
	}
	if len(entries) == 0 {
		c.anchorFail("syntax.keywordToken is neither a composite literal nor filled from a literal table in init()")
		return
	}
	inMap := map[int64]bool{}
	for _, en := range entries {
		kv := struct {
			Value ast.Expr
			pos   token.Pos
		}{en.val, en.pos}
		ks := en.key
		tv, _ := constant.Int64Val(pk.TypesInfo.Types[kv.Value].Value)
		inMap[tv] = true
		key := fmt.Sprintf("keyword %q", ks)
		ne, has := names[tv]
		got := ""
		if has {
			got = constant.StringVal(pk.TypesInfo.Types[ne].Value)
		}
		if got == ks {
			c.ok(key, c.P.Pos(kv.pos), "tokenNames agrees")
		} else {
			c.viol(key, c.P.Pos(kv.pos), fmt.Sprintf("keywordToken[%q] = %v but tokenNames of that token is %q: the word is scanned as a different keyword than it prints as", ks, tokByVal[tv], got))
		}
	}
	// every keyword token (AND .. last, except NOT_IN which is synthesised by the parser) has an entry
	lo, okLo := tokByName["AND"]
	if !okLo {
		c.anchorFail("token AND not found")
		return
	}
	for nme, v := range tokByName {
		if v < lo || nme == "NOT_IN" || nme == "maxToken" {
			continue
		}
		if _, named := names[v]; !named {
			continue
		}
		key := "keyword token " + nme
		if inMap[v] {
			c.trivial(key, c.P.Pos(npos), "has a keywordToken entry")
		} else {
			c.viol(key, c.P.Pos(npos), "keyword token "+nme+" has no keywordToken entry: the word is scanned as an identifier")
		}
	}
}

func ruleT3(c *Ctx) {
	pk := c.P.Pkg("syntax")
	if pk == nil {
		c.anchorFail("package syntax not loaded")
		return
	}
	tokByName, _ := enumConsts(pk, "Token")
	lo, hi := tokByName["PLUS"], tokByName["STARSTAR"]
	if hi <= lo {
		c.anchorFail("punctuation token range PLUS..STARSTAR not found")
		return
	}
	// identifiers referenced inside function bodies of scan.go
	used := map[string]bool{}
	for _, f := range pk.Syntax {
		if !strings.HasSuffix(c.P.Fset.Position(f.Pos()).Filename, "scan.go") {
			continue
		}
		for _, d := range f.Decls {
			fd, ok := d.(*ast.FuncDecl)
			if !ok || fd.Body == nil {
				continue
			}
			ast.Inspect(fd.Body, func(n ast.Node) bool {
				if id, ok := n.(*ast.Ident); ok {
					if _, isTok := tokByName[id.Name]; isTok {
						used[id.Name] = true
					}
				}
				return true
			})
		}
	}
	var eqToks []string
	for n, v := range tokByName {
		if v < lo || v > hi {
			continue
		}
		key := "scanner produces " + n
		if used[n] {
			c.ok(key, "-", "referenced in the scanner's code")
		} else {
			c.viol(key, "-", "punctuation token "+n+" is never produced by the scanner: source text using it cannot be parsed")
		}
		if strings.HasSuffix(n, "_EQ") || n == "EQ" {
			eqToks = append(eqToks, n)
		}
	}
	sort.Strings(eqToks)
	// assignment operator case
	var got []string
	for _, f := range pk.Syntax {
		ast.Inspect(f, func(n ast.Node) bool {
			cc, ok := n.(*ast.CaseClause)
			if !ok || len(cc.List) < 5 {
				return true
			}
			var l []string
			all := true
			for _, e := range cc.List {
				id, ok := e.(*ast.Ident)
				if !ok || !(strings.HasSuffix(id.Name, "_EQ") || id.Name == "EQ") {
					all = false
					break
				}
				l = append(l, id.Name)
			}
			if all && len(l) > len(got) {
				got = l
			}
			return true
		})
	}
	sort.Strings(got)
	key := "parser: assignment operators"
	if strings.Join(got, ",") == strings.Join(eqToks, ",") {
		c.ok(key, "-", "case lists exactly "+strings.Join(got, " "))
	} else {
		c.viol(key, "-", fmt.Sprintf("the parser's assignment-operator case lists %v but the token set has %v: some augmented assignment is not parsed as a statement", got, eqToks))
	}
}

func ruleT5(c *Ctx) {
	pt := c.P.Func("syntax", "parser.parseTest")
	pb := c.P.Func("syntax", "parser.parseBinopExpr")
	ptp := c.P.Func("syntax", "parser.parseTestPrec")
	if pt == nil || pb == nil || ptp == nil {
		c.anchorFail("parser.parseTest / parseBinopExpr / parseTestPrec not found")
		return
	}
	// CondExpr.False comes from a recursive parseTest call
	key := "parseTest: conditional's else-operand"
	found, okRec := false, false
	var builders []*ssa.Function // the parser function(s) that build a CondExpr: parseTest itself or a helper of it
	for _, f := range c.P.Funcs {
		if relPkg(fnPkgPath(f)) == "syntax" {
			builders = append(builders, f)
		}
	}
	for _, bf := range builders {
		eachInstr(bf, func(in ssa.Instruction) {
			st, ok := in.(*ssa.Store)
			if !ok {
				return
			}
			fa, ok := st.Addr.(*ssa.FieldAddr)
			if !ok {
				return
			}
			o, f := ownerField(fa)
			if o != "syntax.CondExpr" || f != "False" {
				return
			}
			rec := false
			for _, b := range traceAddr(st.Val).bases {
				if call, ok := b.v.(*ssa.Call); ok && call.Call.StaticCallee() == pt {
					rec = true
				}
			}
			if !found {
				okRec = rec
			} else {
				okRec = okRec && rec
			}
			found = true
		})
	}
	switch {
	case !found:
		c.viol(key, c.P.Pos(pt.Pos()), "parseTest no longer builds a CondExpr")
	case okRec:
		c.ok(key, c.P.Pos(pt.Pos()), "parsed by a recursive parseTest call: 'a if b else c if d else e' nests to the right")
	default:
		c.viol(key, c.P.Pos(pt.Pos()), "the else-operand of a conditional expression is not parsed by parseTest itself: chained conditionals (and lambdas in the else branch) associate to the left, giving a different tree and value")
	}
	// parseBinopExpr: calls to parseTestPrec
	var precP *ssa.Parameter
	for _, p := range pb.Params {
		if bt, ok := p.Type().Underlying().(*types.Basic); ok && bt.Kind() == types.Int {
			precP = p
		}
	}
	leftOK, rightOK := false, false
	eachInstr(pb, func(in ssa.Instruction) {
		call, ok := in.(*ssa.Call)
		if !ok || call.Call.StaticCallee() != ptp {
			return
		}
		b, ok := call.Call.Args[1].(*ssa.BinOp)
		if !ok || b.Op != token.ADD {
			return
		}
		if k, isK := constInt(b.Y); !isK || k != 1 {
			return
		}
		if b.X == precP {
			leftOK = true
		} else {
			rightOK = true // opprec + 1
		}
	})
	key = "parseBinopExpr: left associativity"
	if leftOK && rightOK {
		c.ok(key, c.P.Pos(pb.Pos()), "left operand parsed at prec+1, right operand at opprec+1, combined in a loop")
	} else {
		c.viol(key, c.P.Pos(pb.Pos()), "parseBinopExpr does not parse its operands one level tighter (prec+1 / opprec+1): binary operators of equal precedence no longer associate to the left")
	}
	c.trivial("associativity anchors", "-", "parseTest, parseBinopExpr, parseTestPrec resolved")
}

// ---------- T6 ----------

func init() {
	register("T6", "token values are assigned afresh: the scanner reuses one tokenValue for every token, so on every path on which a scanning function returns INT it has stored both val.int and val.bigInt (the parser prefers bigInt when it is non-nil), FLOAT: val.float, STRING/BYTES: val.string - otherwise a literal silently takes the value of an earlier token", 3, ruleT6)
	claim("C14", "T6")
	claim("C10", "T6")
}

func ruleT6(c *Ctx) {
	pk := c.P.Pkg("syntax")
	if pk == nil {
		c.anchorFail("package syntax not loaded")
		return
	}
	tokens, _ := enumConsts(pk, "Token")
	need := map[string][]string{"INT": {"int", "bigInt"}, "FLOAT": {"float"}, "STRING": {"string"}, "BYTES": {"string"}}
	n := 0
	for _, fn := range c.P.Funcs {
		if fnPkgPath(fn) != modPath+"/syntax" || fn.Blocks == nil {
			continue
		}
		var val *ssa.Parameter
		for _, p := range fn.Params {
			if qualType(p.Type()) == "syntax.tokenValue" {
				if _, isPtr := p.Type().(*types.Pointer); isPtr {
					val = p
				}
			}
		}
		if val == nil || fn.Signature.Results().Len() != 1 || qualType(fn.Signature.Results().At(0).Type()) != "syntax.Token" {
			continue
		}
		fn := fn
		// blocks that store a given field of *val
		stores := map[string]map[*ssa.BasicBlock]bool{}
		mark := func(f string, b *ssa.BasicBlock) {
			if stores[f] == nil {
				stores[f] = map[*ssa.BasicBlock]bool{}
			}
			stores[f][b] = true
		}
		eachInstr(fn, func(in ssa.Instruction) {
			switch x := in.(type) {
			case *ssa.Store:
				if fa, ok := x.Addr.(*ssa.FieldAddr); ok && fa.X == ssa.Value(val) {
					_, f := ownerField(fa)
					mark(f, x.Block())
				}
			case ssa.CallInstruction:
				// a helper that is handed val and assigns the field on all of its paths
				cal := x.Common().StaticCallee()
				if cal == nil || cal.Blocks == nil {
					return
				}
				for i, a := range x.Common().Args {
					if a == ssa.Value(val) && i < len(cal.Params) {
						for _, fs := range need {
							for _, f := range fs {
								if mustAssignField(cal, cal.Params[i], f, 3) {
									mark(f, in.Block())
								}
							}
						}
					}
				}
			}
		})
		eachInstr(fn, func(in ssa.Instruction) {
			ret, ok := in.(*ssa.Return)
			if !ok || len(ret.Results) != 1 {
				return
			}
			// constant token returned here (directly, or per phi edge)
			type exit struct {
				tok  string
				from *ssa.BasicBlock
			}
			var exits []exit
			switch r := ret.Results[0].(type) {
			case *ssa.Const:
				if k, ok := constInt(r); ok {
					for name, v := range tokens {
						if v == k {
							exits = append(exits, exit{name, ret.Block()})
						}
					}
				}
			case *ssa.Phi:
				for i, e := range r.Edges {
					if k, ok := constInt(e); ok {
						for name, v := range tokens {
							if v == k {
								exits = append(exits, exit{name, r.Block().Preds[i]})
							}
						}
					}
				}
			}
			for _, ex := range exits {
				for _, f := range need[ex.tok] {
					n++
					key := fmt.Sprintf("%s: return %s sets val.%s", fnName(fn), ex.tok, f)
					pos := c.P.Pos(ret.Pos())
					// backward search from the exit to the entry avoiding blocks that store the field
					seen := map[*ssa.BasicBlock]bool{}
					var back func(b *ssa.BasicBlock) bool
					back = func(b *ssa.BasicBlock) bool {
						if seen[b] {
							return false
						}
						seen[b] = true
						if stores[f][b] {
							return false
						}
						if len(b.Preds) == 0 {
							return true
						}
						for _, p := range b.Preds {
							if back(p) {
								return true
							}
						}
						return false
					}
					if back(ex.from) {
						c.viol(key, pos, fmt.Sprintf("a path returns %s without assigning val.%s: the shared tokenValue keeps the value of an earlier token, which the parser then uses for this literal", ex.tok, f))
					} else {
						c.ok(key, pos, "assigned on every path to this return")
					}
				}
			}
		})
	}
	if n < 3 {
		c.anchorFail("only %d token-value obligations found in the scanner", n)
	}
}

// mustAssignField: every path from fn's entry to a return stores prm.<field>
// (directly or through a callee that does).
func mustAssignField(fn *ssa.Function, prm *ssa.Parameter, field string, depth int) bool {
	if depth == 0 || fn.Blocks == nil {
		return false
	}
	assigns := map[*ssa.BasicBlock]bool{}
	eachInstr(fn, func(in ssa.Instruction) {
		switch x := in.(type) {
		case *ssa.Store:
			if fa, ok := x.Addr.(*ssa.FieldAddr); ok && fa.X == ssa.Value(prm) {
				if _, f := ownerField(fa); f == field {
					assigns[x.Block()] = true
				}
			}
		case ssa.CallInstruction:
			cal := x.Common().StaticCallee()
			if cal == nil || cal == fn {
				return
			}
			for i, a := range x.Common().Args {
				if a == ssa.Value(prm) && i < len(cal.Params) && mustAssignField(cal, cal.Params[i], field, depth-1) {
					assigns[in.Block()] = true
				}
			}
		}
	})
	seen := map[*ssa.BasicBlock]bool{}
	var escapes func(b *ssa.BasicBlock) bool
	escapes = func(b *ssa.BasicBlock) bool {
		if seen[b] || assigns[b] {
			return false
		}
		seen[b] = true
		if len(b.Instrs) > 0 {
			if _, ok := b.Instrs[len(b.Instrs)-1].(*ssa.Return); ok {
				return true
			}
		}
		for _, s := range b.Succs {
			if escapes(s) {
				return true
			}
		}
		return false
	}
	return !escapes(fn.Blocks[0])
}
