package main

import (
	"fmt"
	"go/token"

	"golang.org/x/tools/go/ssa"
)

func init() {
	register("W5", "no storage aliasing: the slice stored into a list's element field (directly or through NewList) is freshly allocated, or derived from the same list's own storage; it is never a (sub)slice of another list's storage, so mutating one list cannot change another (possibly frozen) one", 25, ruleW5)
}

type prov struct {
	kind string // fresh | field | param | call | other
	v    ssa.Value
	tr   *trace
}

// provenance follows the backing array of slice value v.
func provenance(fc *freshCtx, v ssa.Value) []prov {
	var out []prov
	seen := map[ssa.Value]bool{}
	var walk func(v ssa.Value)
	walk = func(v ssa.Value) {
		if seen[v] {
			return
		}
		seen[v] = true
		switch x := v.(type) {
		case *ssa.Slice:
			walk(x.X)
		case *ssa.ChangeType:
			walk(x.X)
		case *ssa.Convert:
			walk(x.X)
		case *ssa.Phi:
			for _, e := range x.Edges {
				walk(e)
			}
		case *ssa.MakeSlice:
			out = append(out, prov{"fresh", v, nil})
		case *ssa.Alloc:
			out = append(out, prov{"fresh", v, nil})
		case *ssa.Const:
			out = append(out, prov{"fresh", v, nil})
		case *ssa.Parameter:
			out = append(out, prov{"param", v, nil})
		case *ssa.Call:
			if b, ok := x.Call.Value.(*ssa.Builtin); ok && b.Name() == "append" {
				walk(x.Call.Args[0])
				return
			}
			if f := x.Call.StaticCallee(); f != nil && fc.returnsFresh[f] {
				out = append(out, prov{"fresh", v, nil})
				return
			}
			out = append(out, prov{"call", v, nil})
		case *ssa.Extract:
			if call, ok := x.Tuple.(*ssa.Call); ok {
				if f := call.Call.StaticCallee(); f != nil && fc.returnsFresh[f] && x.Index == 0 {
					out = append(out, prov{"fresh", v, nil})
					return
				}
			}
			out = append(out, prov{"call", v, nil})
		case *ssa.UnOp:
			if x.Op == token.MUL {
				if a, ok := x.X.(*ssa.Alloc); ok && isVarCell(a) {
					n := 0
					for _, ref := range *a.Referrers() {
						if st, ok := ref.(*ssa.Store); ok && st.Addr == a {
							n++
							walk(st.Val)
						}
					}
					if n > 0 {
						return
					}
				}
				tr := traceAddr(x.X)
				if len(tr.fields) > 0 {
					out = append(out, prov{"field", v, tr})
					return
				}
			}
			out = append(out, prov{"other", v, nil})
		default:
			out = append(out, prov{"other", v, nil})
		}
	}
	walk(v)
	return out
}

func ruleW5(c *Ctx) {
	fc := computeReturnsFresh(c.P)
	newList := c.P.Func("starlark", "NewList")
	if newList == nil {
		c.anchorFail("starlark.NewList not found")
		return
	}
	listT := c.P.Named("starlark", "List")
	if listT == nil {
		c.anchorFail("starlark.List not found")
		return
	}
	check := func(fn *ssa.Function, in ssa.Instruction, val ssa.Value, dest []base, what string) {
		key := fmt.Sprintf("%s: %s", fnName(fn), what)
		pos := c.P.Pos(in.Pos())
		ps := provenance(fc, val)
		var reasons []string
		trivial := true
		for _, p := range ps {
			switch p.kind {
			case "fresh":
				reasons = append(reasons, "fresh allocation")
			case "field":
				trivial = false
				f := p.tr.fields[0]
				src := resolveBases(fn, p.tr.bases)
				if dest != nil && sameBases(src, dest) && qualType(p.tr.owners[0]) == "starlark.List" {
					reasons = append(reasons, "the list's own storage")
					continue
				}
				// a field of a local (fresh) helper struct, e.g. sortSlice.values
				allFresh := len(src) > 0
				for _, b := range src {
					if b.throughPtr || !isFreshValue(fc, b.v) {
						allFresh = false
					}
				}
				if allFresh {
					reasons = append(reasons, "field "+f.Name()+" of an object created in this function")
					continue
				}
				c.viol(key, pos, fmt.Sprintf("the new list's element storage is (a slice of) field %s.%s of another object: the two values share a backing array, so writing one changes the other even if it is frozen", qualType(p.tr.owners[0]), f.Name()))
				return
			case "param":
				trivial = false
				if fn == newList {
					reasons = append(reasons, "NewList's parameter (checked at every call site)")
					continue
				}
				c.viol(key, pos, "the list's element storage comes from parameter "+p.v.Name()+" of a function other than NewList; its provenance cannot be established")
				return
			default:
				c.viol(key, pos, fmt.Sprintf("cannot establish that the list's element storage is fresh: derived from %s (%T)", p.v.Name(), p.v))
				return
			}
		}
		if trivial {
			c.trivial(key, pos, "storage: "+joinUniq(reasons))
		} else {
			c.ok(key, pos, "storage: "+joinUniq(reasons))
		}
	}
	for _, fn := range c.P.Funcs {
		if !isProdPkg(fnPkgPath(fn)) {
			continue
		}
		eachInstr(fn, func(in ssa.Instruction) {
			switch x := in.(type) {
			case *ssa.Store:
				fa, ok := x.Addr.(*ssa.FieldAddr)
				if !ok || !isNamed(fa.X.Type(), "starlark", "List") {
					return
				}
				tr := traceAddr(x.Addr)
				if tr.fields[0].Name() != "elems" {
					return
				}
				check(fn, in, x.Val, resolveBases(fn, traceAddr(fa.X).bases), "store List.elems")
			case ssa.CallInstruction:
				if x.Common().StaticCallee() == newList {
					check(fn, in, x.Common().Args[0], nil, "NewList argument")
				}
			}
		})
	}
}

func joinUniq(ss []string) string {
	seen := map[string]bool{}
	out := ""
	for _, s := range ss {
		if seen[s] {
			continue
		}
		seen[s] = true
		if out != "" {
			out += ", "
		}
		out += s
	}
	return out
}
