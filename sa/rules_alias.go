package main

import (
	"fmt"
	"go/token"
	"go/types"
	"os"
	"strings"

	"golang.org/x/tools/go/ssa"
)

func init() {
	register("W5", "no storage aliasing: the slice stored into a list's element field (directly or through NewList) is freshly allocated, or derived from the same list's own storage; it is never a (sub)slice of another list's storage, so mutating one list cannot change another (possibly frozen) one", 25, ruleW5)
}

type prov struct {
	kind string // fresh | field | param | call | other
	v    ssa.Value
	tr   *trace
}

// provenance follows the backing array of slice value v.
func provenance(fc *freshCtx, v ssa.Value) []prov {
	var out []prov
	seen := map[ssa.Value]bool{}
	var walk func(v ssa.Value)
	walk = func(v ssa.Value) {
		if seen[v] {
			return
		}
		seen[v] = true
		switch x := v.(type) {
		case *ssa.Slice:
			walk(x.X)
		case *ssa.ChangeType:
			walk(x.X)
		case *ssa.Convert:
			walk(x.X)
		case *ssa.Phi:
			for _, e := range x.Edges {
				walk(e)
			}
		case *ssa.MakeSlice:
			out = append(out, prov{"fresh", v, nil})
		case *ssa.Alloc:
			out = append(out, prov{"fresh", v, nil})
		case *ssa.Const:
			out = append(out, prov{"fresh", v, nil})
		case *ssa.Parameter:
			out = append(out, prov{"param", v, nil})
		case *ssa.Call:
			if b, ok := x.Call.Value.(*ssa.Builtin); ok && b.Name() == "append" {
				walk(x.Call.Args[0])
				return
			}
			if isFreshValue(fc, x) { // a returns-fresh callee, or a pass-through helper given fresh arguments
				out = append(out, prov{"fresh", v, nil})
				return
			}
			// a helper that returns (a re-slicing of / an append to) its argument: the result comes from
			// wherever that argument comes from
			if f := x.Call.StaticCallee(); f != nil {
				if f.Origin() != nil {
					f = f.Origin()
				}
				if ps, ok := fc.passThrough[f]; ok {
					for i := range ps {
						if i < len(x.Call.Args) {
							walk(x.Call.Args[i])
						}
					}
					return
				}
			}
			out = append(out, prov{"call", v, nil})
		case *ssa.Extract:
			if call, ok := x.Tuple.(*ssa.Call); ok {
				if f := call.Call.StaticCallee(); f != nil && fc.returnsFresh[f] && x.Index == 0 {
					out = append(out, prov{"fresh", v, nil})
					return
				}
			}
			out = append(out, prov{"call", v, nil})
		case *ssa.UnOp:
			if x.Op == token.MUL {
				if a, ok := x.X.(*ssa.Alloc); ok && isVarCell(a) {
					n := 0
					for _, ref := range *a.Referrers() {
						if st, ok := ref.(*ssa.Store); ok && st.Addr == a {
							n++
							walk(st.Val)
						}
					}
					if n > 0 {
						return
					}
				}
				tr := traceAddr(x.X)
				if len(tr.fields) > 0 {
					out = append(out, prov{"field", v, tr})
					return
				}
			}
			out = append(out, prov{"other", v, nil})
		default:
			out = append(out, prov{"other", v, nil})
		}
	}
	walk(v)
	return out
}

func ruleW5(c *Ctx) {
	fc := computeReturnsFresh(c.P)
	newList := c.P.Func("starlark", "NewList")
	if newList == nil {
		c.anchorFail("starlark.NewList not found")
		return
	}
	listT := c.P.Named("starlark", "List")
	if listT == nil {
		c.anchorFail("starlark.List not found")
		return
	}
	check := func(fn *ssa.Function, in ssa.Instruction, val ssa.Value, dest []base, what string) {
		key := fmt.Sprintf("%s: %s", fnName(fn), what)
		pos := c.P.Pos(in.Pos())
		ps := provenance(fc, val)
		var reasons []string
		trivial := true
		for _, p := range ps {
			switch p.kind {
			case "fresh":
				reasons = append(reasons, "fresh allocation")
			case "field":
				trivial = false
				f := p.tr.fields[0]
				src := resolveBases(fn, p.tr.bases)
				if dest != nil && sameBases(src, dest) && qualType(p.tr.owners[0]) == "starlark.List" {
					reasons = append(reasons, "the list's own storage")
					continue
				}
				// a field of a local (fresh) helper struct, e.g. sortSlice.values
				allFresh := len(src) > 0
				for _, b := range src {
					if b.throughPtr || !isFreshValue(fc, b.v) {
						allFresh = false
					}
				}
				if allFresh {
					reasons = append(reasons, "field "+f.Name()+" of an object created in this function")
					continue
				}
				c.viol(key, pos, fmt.Sprintf("the new list's element storage is (a slice of) field %s.%s of another object: the two values share a backing array, so writing one changes the other even if it is frozen", qualType(p.tr.owners[0]), f.Name()))
				return
			case "param":
				trivial = false
				if fn == newList {
					reasons = append(reasons, "NewList's parameter (checked at every call site)")
					continue
				}
				c.viol(key, pos, "the list's element storage comes from parameter "+p.v.Name()+" of a function other than NewList; its provenance cannot be established")
				return
			default:
				c.viol(key, pos, fmt.Sprintf("cannot establish that the list's element storage is fresh: derived from %s (%T)", p.v.Name(), p.v))
				return
			}
		}
		if trivial {
			c.trivial(key, pos, "storage: "+joinUniq(reasons))
		} else {
			c.ok(key, pos, "storage: "+joinUniq(reasons))
		}
	}
	for _, fn := range c.P.Funcs {
		if !isProdPkg(fnPkgPath(fn)) {
			continue
		}
		eachInstr(fn, func(in ssa.Instruction) {
			switch x := in.(type) {
			case *ssa.Store:
				fa, ok := x.Addr.(*ssa.FieldAddr)
				if !ok || !isNamed(fa.X.Type(), "starlark", "List") {
					return
				}
				tr := traceAddr(x.Addr)
				if tr.fields[0].Name() != "elems" {
					return
				}
				check(fn, in, x.Val, resolveBases(fn, traceAddr(fa.X).bases), "store List.elems")
			case ssa.CallInstruction:
				if x.Common().StaticCallee() == newList {
					check(fn, in, x.Common().Args[0], nil, "NewList argument")
				}
			}
		})
	}
}

func joinUniq(ss []string) string {
	seen := map[string]bool{}
	out := ""
	for _, s := range ss {
		if seen[s] {
			continue
		}
		seen[s] = true
		if out != "" {
			out += ", "
		}
		out += s
	}
	return out
}

func init() {
	register("W6", "append never writes into shared element storage: every append whose first operand holds Starlark values (Tuple, []Value, []Tuple) appends to storage allocated in the same function, to a capacity-clamped slice (s[:n:n]), or to an object's own field that is stored back under the mutation guard; appending to a tuple/slice received from elsewhere could overwrite elements that other (frozen, hashed) values share", 30, ruleW6)
}

func ruleW6(c *Ctx) {
	fc := computeReturnsFresh(c.P)
	w6Prog = c.P
	n := 0
	for _, fn := range c.P.Funcs {
		if !isProdPkg(fnPkgPath(fn)) {
			continue
		}
		if p := fnPkgPath(fn); p != modPath+"/starlark" && p != modPath+"/starlarkstruct" {
			continue
		}
		eachInstr(fn, func(in ssa.Instruction) {
			call, ok := in.(*ssa.Call)
			if !ok {
				return
			}
			b, ok := call.Call.Value.(*ssa.Builtin)
			if !ok || b.Name() != "append" {
				return
			}
			st := call.Call.Args[0].Type()
			if !valueLike(st) {
				return
			}
			n++
			key := fmt.Sprintf("%s: append to %s", fnName(fn), typeShort(st))
			pos := c.P.Pos(call.Pos())
			verdict, why := w6Operand(fc, fn, call, call.Call.Args[0], map[ssa.Value]bool{})
			switch verdict {
			case "fresh":
				c.trivial(key, pos, why)
			case "ok":
				c.ok(key, pos, why)
			default:
				if r, ok := w6Exceptions[strings.TrimSuffix(strings.Split(key, " #")[0], "")]; ok {
					c.except(key, pos, r)
					return
				}
				c.viol(key, pos, "append to a slice of Starlark values that was not allocated here and is not capacity-clamped ("+why+"): if it has spare capacity the append overwrites elements of a backing array shared with other values (e.g. a frozen tuple it was sliced from), silently changing them and racing with readers")
			}
		})
	}
	if n < 30 {
		c.anchorFail("only %d appends to value slices found", n)
	}
}

func w6Operand(fc *freshCtx, fn *ssa.Function, app *ssa.Call, v ssa.Value, seen map[ssa.Value]bool) (string, string) {
	if seen[v] {
		return "fresh", "loop-carried"
	}
	seen[v] = true
	switch x := v.(type) {
	case *ssa.Const:
		return "fresh", "nil slice"
	case *ssa.MakeSlice:
		return "fresh", "made in this function"
	case *ssa.Alloc:
		return "fresh", "array literal"
	case *ssa.Slice:
		if x.Max != nil {
			return "ok", "capacity-clamped three-index slice"
		}
		// reslice of ...
		if r, why := w6Operand(fc, fn, app, x.X, seen); r == "fresh" {
			return "fresh", why
		} else if r == "ok" && strings.HasPrefix(why, "the object's own") {
			return r, why
		}
		return "bad", "two-index reslice of a slice from elsewhere"
	case *ssa.Call:
		if b, ok := x.Call.Value.(*ssa.Builtin); ok && b.Name() == "append" {
			return w6Operand(fc, fn, app, x.Call.Args[0], seen)
		}
		if cal := x.Call.StaticCallee(); cal != nil && fc.returnsFresh[cal] {
			return "fresh", "result of " + fnName(cal)
		}
		if cal := x.Call.StaticCallee(); cal != nil && (strings.HasPrefix(cal.String(), "slices.Clone") || strings.HasPrefix(cal.String(), "slices.Concat")) {
			return "fresh", "copy made by " + cal.Name()
		}
		return "bad", "result of " + calleeName(x)
	case *ssa.Phi:
		worst, why := "fresh", "all incoming values fresh"
		for _, e := range x.Edges {
			r, w := w6Operand(fc, fn, app, e, seen)
			if r == "bad" {
				return r, w
			}
			if r == "ok" {
				worst, why = r, w
			}
		}
		return worst, why
	case *ssa.ChangeType:
		return w6Operand(fc, fn, app, x.X, seen)
	case *ssa.Convert:
		return w6Operand(fc, fn, app, x.X, seen)
	case *ssa.UnOp:
		if x.Op == token.MUL {
			if a, ok := x.X.(*ssa.Alloc); ok && isVarCell(a) {
				// local variable: every stored value
				worst, why := "fresh", "local variable holding fresh storage"
				n := 0
				for _, r := range *a.Referrers() {
					if st, ok := r.(*ssa.Store); ok && st.Addr == a {
						n++
						rr, w := w6Operand(fc, fn, app, st.Val, seen)
						if rr == "bad" {
							return rr, w
						}
						if rr == "ok" {
							worst, why = rr, w
						}
					}
				}
				if n > 0 {
					return worst, why
				}
			}
			if fa, ok := x.X.(*ssa.FieldAddr); ok {
				// x.f = append(x.f, ...): result stored back into the same field
				for _, r := range *app.Referrers() {
					if st, ok := r.(*ssa.Store); ok {
						if fb, ok := st.Addr.(*ssa.FieldAddr); ok && fb.Field == fa.Field && sameValue2(fb.X, fa.X) {
							return "ok", "the object's own field, stored back (mutation guarded by W1)"
						}
					}
				}
				return "bad", "field " + deref(fa.X.Type()).Underlying().(*types.Struct).Field(fa.Field).Name() + " of another object, result not stored back"
			}
			if fv, ok := x.X.(*ssa.FreeVar); ok {
				// captured local of the enclosing function (e.g. an accumulator)
				_ = fv
				return "ok", "captured accumulator variable of the enclosing function"
			}
		}
		return "bad", "loaded from elsewhere"
	case *ssa.Parameter:
		// scratch stack passed down the call chain only (the printer's cycle path): the
		// appended slice is never stored or returned, so overwriting a sibling's slot is harmless
		if stackOnlyValue(app, map[*ssa.Parameter]bool{}) && stackOnlyParam(x, map[*ssa.Parameter]bool{}) {
			return "ok", "scratch stack: the slice and the append result are only passed down to callees, never stored or returned"
		}
		// a private helper that appends to its parameter and returns it: judged at its call sites
		top := x.Parent()
		if top.Object() != nil && !top.Object().Exported() && w6Depth < 3 {
			idx := -1
			for i, q := range top.Params {
				if q == x {
					idx = i
				}
			}
			n, bad := 0, ""
			allOwn := true
			w6Depth++
			for _, g := range w6Prog.Funcs {
				eachInstr(g, func(in ssa.Instruction) {
					ci, ok := in.(*ssa.Call)
					if !ok || ci.Call.StaticCallee() != top || bad != "" || idx < 0 {
						return
					}
					n++
					r, why := w6Operand(fc, g, ci, ci.Call.Args[idx], map[ssa.Value]bool{})
					if r == "bad" {
						bad = why
					}
					if !(r == "ok" && strings.HasPrefix(why, "the object's own")) {
						allOwn = false
					}
				})
			}
			w6Depth--
			if n > 0 && bad == "" && allOwn {
				return "ok", fmt.Sprintf("the object's own field at all %d call sites of private helper %s, whose result is stored back", n, fnName(top))
			}
			if n > 0 && bad == "" {
				return "ok", fmt.Sprintf("parameter of private helper %s: all %d call sites pass fresh or clamped storage", fnName(top), n)
			}
		}
		return "bad", "parameter " + x.Name()
	}
	return "bad", fmt.Sprintf("%T", v)
}

func sameValue2(a, b ssa.Value) bool {
	if a == b {
		return true
	}
	ta, tb := traceAddr(a), traceAddr(b)
	return len(ta.bases) == 1 && len(tb.bases) == 1 && ta.bases[0].v == tb.bases[0].v && len(ta.fields) == len(tb.fields)
}

var w6Exceptions = map[string]string{}

var w6Prog *Prog
var w6Depth int

// stackOnlyParam: the slice parameter is only read, or passed (possibly
// appended to) as an argument to module functions whose parameter is again
// stack-only; it is never stored into memory or returned.
func stackOnlyParam(p *ssa.Parameter, inProgress map[*ssa.Parameter]bool) bool {
	if inProgress[p] {
		return true
	}
	inProgress[p] = true
	return stackOnlyValue(p, inProgress)
}

var stackOnlySeen = map[ssa.Value]bool{}

func stackOnlyValue(v ssa.Value, inProgress map[*ssa.Parameter]bool) bool {
	if stackOnlySeen[v] {
		return true
	}
	stackOnlySeen[v] = true
	defer delete(stackOnlySeen, v)
	refs := v.Referrers()
	if refs == nil {
		return true
	}
	for _, r := range *refs {
		switch x := r.(type) {
		case *ssa.Return, *ssa.MapUpdate, *ssa.MakeClosure, *ssa.Send:
			if os.Getenv("VERIF_DEBUG_W6") != "" {
				fmt.Fprintf(os.Stderr, "stackOnly false: %s used by %T in %s\n", v.Name(), r, r.Parent())
			}
			return false
		case *ssa.Store:
			if x.Val == v {
				// spilled into the variadic array of an append? that array is a temp
				if os.Getenv("VERIF_DEBUG_W6") != "" {
					fmt.Fprintf(os.Stderr, "stackOnly false: %s used by %T in %s\n", v.Name(), r, r.Parent())
				}
				return false
			}
		case *ssa.Call:
			if b, ok := x.Call.Value.(*ssa.Builtin); ok {
				switch b.Name() {
				case "len", "cap":
					continue
				case "append":
					if x.Call.Args[0] == v {
						if !stackOnlyValue(x, inProgress) {
							if os.Getenv("VERIF_DEBUG_W6") != "" {
								fmt.Fprintf(os.Stderr, "stackOnly false: %s used by %T in %s\n", v.Name(), r, r.Parent())
							}
							return false
						}
						continue
					}
					if os.Getenv("VERIF_DEBUG_W6") != "" {
						fmt.Fprintf(os.Stderr, "stackOnly false: %s used by %T in %s\n", v.Name(), r, r.Parent())
					}
					return false
				default:
					if os.Getenv("VERIF_DEBUG_W6") != "" {
						fmt.Fprintf(os.Stderr, "stackOnly false: %s used by %T in %s\n", v.Name(), r, r.Parent())
					}
					return false
				}
			}
			cal := x.Call.StaticCallee()
			if cal != nil && fnPkgPath(cal) == "slices" {
				switch baseName(cal) {
				case "Contains", "ContainsFunc", "Index", "IndexFunc", "Equal":
					continue // read-only library functions
				}
			}
			if cal == nil || cal.Blocks == nil || !strings.HasPrefix(fnPkgPath(cal), modPath) {
				if os.Getenv("VERIF_DEBUG_W6") != "" {
					fmt.Fprintf(os.Stderr, "stackOnly false: %s used by %T in %s\n", v.Name(), r, r.Parent())
				}
				return false
			}
			for i, a := range x.Call.Args {
				if a == v {
					if i >= len(cal.Params) || !stackOnlyParam(cal.Params[i], inProgress) {
						if os.Getenv("VERIF_DEBUG_W6") != "" {
							fmt.Fprintf(os.Stderr, "stackOnly false: %s used by %T in %s\n", v.Name(), r, r.Parent())
						}
						return false
					}
				}
			}
		case *ssa.Range, *ssa.Index, *ssa.IndexAddr, *ssa.Lookup, *ssa.DebugRef:
			// reads (IndexAddr may be written through, but only by the owner of the backing array)
			if ia, ok := r.(*ssa.IndexAddr); ok {
				for _, r2 := range *ia.Referrers() {
					if st, ok := r2.(*ssa.Store); ok && st.Addr == ia {
						if os.Getenv("VERIF_DEBUG_W6") != "" {
							fmt.Fprintf(os.Stderr, "stackOnly false: %s used by %T in %s\n", v.Name(), r, r.Parent())
						}
						return false
					}
				}
			}
		case *ssa.Slice, *ssa.Phi, *ssa.ChangeType:
			if !stackOnlyValue(r.(ssa.Value), inProgress) {
				if os.Getenv("VERIF_DEBUG_W6") != "" {
					fmt.Fprintf(os.Stderr, "stackOnly false: %s used by %T in %s\n", v.Name(), r, r.Parent())
				}
				return false
			}
		case *ssa.BinOp, *ssa.If:
		default:
			if os.Getenv("VERIF_DEBUG_W6") != "" {
				fmt.Fprintf(os.Stderr, "stackOnly: %s used by %T %v in %s\n", v.Name(), r, r, r.Parent())
			}
			if os.Getenv("VERIF_DEBUG_W6") != "" {
				fmt.Fprintf(os.Stderr, "stackOnly false: %s used by %T in %s\n", v.Name(), r, r.Parent())
			}
			return false
		}
	}
	return true
}

// ---------- W7 ----------

func init() {
	register("W7", "no append to a window onto live storage: an append whose first operand may be a two-index sub-slice s[i:j] of a longer array (its spare capacity is the array's following elements) would overwrite those elements; every such append is either the delete idiom on the same base (append(x[:i], x[j:]...)), or the window reaches it only on paths that contradict the append's own guard", 1, ruleW7)
	claim("C01", "W7")
	claim("C05", "W7")
}

// nilFacts: the nil tests known on entry to block b (value -> isNil), plus
// those implied by taking the edge from pred to its successor succ.
func nilFacts(b *ssa.BasicBlock) map[ssa.Value]bool {
	out := map[ssa.Value]bool{}
	for _, pf := range pathFacts(b) {
		cond, neg := pf.Cond, false
		if v, neq, ok := nilTest(cond); ok {
			isNil := pf.Truth != neq
			if neg {
				isNil = !isNil
			}
			out[v] = isNil
		}
	}
	return out
}

func edgeNilFacts(pred, succ *ssa.BasicBlock) map[ssa.Value]bool {
	out := nilFacts(pred)
	if len(pred.Instrs) > 0 {
		if ifi, ok := pred.Instrs[len(pred.Instrs)-1].(*ssa.If); ok && len(pred.Succs) == 2 && pred.Succs[0] != pred.Succs[1] {
			cond, neg := stripNot(ifi.Cond)
			if v, neq, ok := nilTest(cond); ok {
				taken := pred.Succs[0] == succ
				isNil := taken != neq
				if neg {
					isNil = !isNil
				}
				out[v] = isNil
			}
		}
	}
	return out
}

func ruleW7(c *Ctx) {
	n, sites := 0, 0
	for _, fn := range c.P.Funcs {
		if !isProdPkg(fnPkgPath(fn)) {
			continue
		}
		fn := fn
		eachInstr(fn, func(in ssa.Instruction) {
			call, ok := in.(*ssa.Call)
			if !ok {
				return
			}
			bi, ok := call.Call.Value.(*ssa.Builtin)
			if !ok || bi.Name() != "append" || len(call.Call.Args) < 2 {
				return
			}
			sites++
			// origins of the first operand through phis, with the edge facts that select them
			type origin struct {
				sl    *ssa.Slice
				facts map[ssa.Value]bool
			}
			var origins []origin
			seen := map[ssa.Value]bool{}
			var walk func(v ssa.Value, facts map[ssa.Value]bool, d int)
			walk = func(v ssa.Value, facts map[ssa.Value]bool, d int) {
				if d > 6 || seen[v] {
					return
				}
				seen[v] = true
				switch x := v.(type) {
				case *ssa.Slice:
					if x.Max == nil && x.High != nil {
						if _, isStr := x.X.Type().Underlying().(*types.Basic); isStr {
							return
						}
						if _, fresh := x.X.(*ssa.Alloc); fresh {
							return // make([]T, n, cap): the spare capacity belongs to nobody else
						}
						if k, ok := constInt(x.High); ok && k == 0 {
							return // s[:0]: storage deliberately reused from the start (in-situ filter)
						}
						origins = append(origins, origin{x, facts})
					}
				case *ssa.Phi:
					for i, e := range x.Edges {
						f2 := map[ssa.Value]bool{}
						for k, vv := range facts {
							f2[k] = vv
						}
						for k, vv := range edgeNilFacts(x.Block().Preds[i], x.Block()) {
							f2[k] = vv
						}
						walk(e, f2, d+1)
					}
				case *ssa.ChangeType:
					walk(x.X, facts, d+1)
				}
			}
			walk(call.Call.Args[0], map[ssa.Value]bool{}, 0)
			if len(origins) == 0 {
				return
			}
			at := nilFacts(call.Block())
			for _, o := range origins {
				n++
				key := fmt.Sprintf("%s: append to window of %s", fnName(fn), describeBase(o.sl.X))
				pos := c.P.Pos(call.Pos())
				// delete idiom: the appended elements are a later window of the same base
				sameBase := false
				if s2, ok := call.Call.Args[1].(*ssa.Slice); ok {
					if sameValue(s2.X, o.sl.X) || sameFieldLoad(s2.X, o.sl.X) {
						sameBase = true
					}
				}
				contradiction := false
				for v, isNil := range o.facts {
					if w, ok := at[v]; ok && w != isNil {
						contradiction = true
					}
				}
				switch {
				case sameBase:
					c.ok(key, pos, "delete idiom: elements of the same array are moved down over the removed ones")
				case contradiction:
					c.ok(key, pos, "the window reaches this append only on paths that contradict the append's guard (it is cloned first on all others)")
				default:
					c.viol(key, pos, fmt.Sprintf("the first operand may be the sub-slice taken at %s, whose spare capacity is the following elements of the same array: the append overwrites them in place, and the result aliases storage that is still in use (e.g. a *args tuple that later pushes on the operand stack rewrite)", c.P.Pos(o.sl.Pos())))
				}
			}
		})
	}
	if sites == 0 {
		c.anchorFail("no append calls found")
	}
	if n == 0 {
		c.trivial("append census", "-", fmt.Sprintf("%d append sites, none takes a two-index window as first operand", sites))
	}
}

func describeBase(v ssa.Value) string {
	if u, ok := v.(*ssa.UnOp); ok {
		if fa, ok := u.X.(*ssa.FieldAddr); ok {
			_, f := ownerField(fa)
			return "." + f
		}
		if a, ok := u.X.(*ssa.Alloc); ok && a.Comment != "" {
			return a.Comment
		}
	}
	if v.Name() != "" {
		return v.Name()
	}
	return "?"
}

// sameFieldLoad: two loads of the same field of the same object / same cell.
func sameFieldLoad(a, b ssa.Value) bool {
	ua, ok1 := a.(*ssa.UnOp)
	ub, ok2 := b.(*ssa.UnOp)
	if !ok1 || !ok2 {
		return false
	}
	if ua.X == ub.X {
		return true
	}
	fa, ok1 := ua.X.(*ssa.FieldAddr)
	fb, ok2 := ub.X.(*ssa.FieldAddr)
	if ok1 && ok2 && fa.Field == fb.Field && (fa.X == fb.X || sameFieldLoad(fa.X, fb.X)) {
		return true
	}
	return false
}
