package main

import (
	"fmt"
	"go/ast"
	"go/token"
	"go/types"
	"sort"
	"strings"

	"golang.org/x/tools/go/ssa"
)

func init() {
	register("E1", "threeway table: each of the six comparison tokens has an arm in threeway and the arm's Go relation on cmp is the token's relation", 6, ruleE1)
	register("E2", "!= is the negation of ==: in every CompareSameType with separate EQL and NEQ arms both call the same equality helper and the NEQ arm returns its negation", 4, ruleE2)
	register("E3", "hash purity: no Hash method reads a field that is written after construction (so a value's hash never changes; mutable types are unhashable)", 20, ruleE3)
	register("E4", "cross-type hash delegation: Float.Hash reaches Int.Hash and Bytes.Hash reaches String.Hash, the two places where == crosses Go types", 2, ruleE4)
	register("E5", "sorting discipline: sorted uses sort.Stable only; sortSlice.Less returns Compare(LT, ...) unmodified (a strict order); CompareSameType/Cmp are invoked only by CompareDepth", 4, ruleE5)
	register("E6", "mirror symmetry of mixed int/float comparison: the Int-vs-Float and Float-vs-Int arms of CompareDepth use the same comparison machinery (same callees), so x==y agrees with y==x", 1, ruleE6)
}

func ruleE1(c *Ctx) {
	fd, pk := c.P.FuncDecl("starlark", "threeway")
	if fd == nil {
		c.anchorFail("starlark.threeway not found")
		return
	}
	want := map[string]token.Token{"EQL": token.EQL, "NEQ": token.NEQ, "LT": token.LSS, "LE": token.LEQ, "GT": token.GTR, "GE": token.GEQ}
	seen := map[string]bool{}
	ast.Inspect(fd.Body, func(n ast.Node) bool {
		cc, ok := n.(*ast.CaseClause)
		if !ok {
			return true
		}
		for _, e := range cc.List {
			name := ""
			if sel, ok := e.(*ast.SelectorExpr); ok {
				name = sel.Sel.Name
			}
			w, known := want[name]
			if !known {
				continue
			}
			seen[name] = true
			key := "threeway arm " + name
			okArm := false
			if len(cc.Body) == 1 {
				if rs, ok := cc.Body[0].(*ast.ReturnStmt); ok && len(rs.Results) == 1 {
					if be, ok := rs.Results[0].(*ast.BinaryExpr); ok {
						if k, isK := constOf(pk.TypesInfo, be.Y); isK && k == 0 && be.Op == w {
							if id, ok := be.X.(*ast.Ident); ok && id.Name == paramName(fd, 1) {
								okArm = true
							}
						}
					}
				}
			}
			if okArm {
				c.ok(key, c.P.Pos(cc.Pos()), "returns cmp "+w.String()+" 0")
			} else {
				c.viol(key, c.P.Pos(cc.Pos()), "the arm for "+name+" does not return cmp "+w.String()+" 0: every ordered comparison built on threeway gives the wrong answer for this operator")
			}
		}
		return true
	})
	for name := range want {
		if !seen[name] {
			c.viol("threeway arm "+name, c.P.Pos(fd.Pos()), "threeway has no arm for "+name+" (panics)")
		}
	}
}

func ruleE2(c *Ctx) {
	n := 0
	for _, pk := range c.P.Pkgs {
		if !isProdPkg(pk.PkgPath) {
			continue
		}
		for _, f := range pk.Syntax {
			for _, d := range f.Decls {
				fd, ok := d.(*ast.FuncDecl)
				if !ok || fd.Name.Name != "CompareSameType" || fd.Body == nil {
					continue
				}
				n++
				var eqClause, neClause *ast.CaseClause
				ast.Inspect(fd.Body, func(nd ast.Node) bool {
					cc, ok := nd.(*ast.CaseClause)
					if !ok {
						return true
					}
					for _, e := range cc.List {
						if sel, ok := e.(*ast.SelectorExpr); ok {
							switch sel.Sel.Name {
							case "EQL":
								if len(cc.List) == 1 {
									eqClause = cc
								}
							case "NEQ":
								if len(cc.List) == 1 {
									neClause = cc
								}
							}
						}
					}
					return true
				})
				recv := ""
				if fd.Recv != nil && len(fd.Recv.List) > 0 {
					recv = types.ExprString(fd.Recv.List[0].Type)
				}
				key := fmt.Sprintf("%s.(%s).CompareSameType: == / != arms", relPkg(pk.PkgPath), recv)
				if eqClause == nil && neClause == nil {
					c.trivial(key, c.P.Pos(fd.Pos()), "no separate EQL/NEQ arms (delegates to threeway or a helper taking op)")
					continue
				}
				if eqClause == nil || neClause == nil {
					c.viol(key, c.P.Pos(fd.Pos()), "only one of the EQL/NEQ arms exists")
					continue
				}
				calls := func(cc *ast.CaseClause) []string {
					var out []string
					ast.Inspect(&ast.BlockStmt{List: cc.Body}, func(nd ast.Node) bool {
						if call, ok := nd.(*ast.CallExpr); ok {
							out = append(out, types.ExprString(call.Fun))
						}
						return true
					})
					sort.Strings(out)
					return out
				}
				negated := func(cc *ast.CaseClause) (bool, bool) {
					// returns (found a return, first result is a negation)
					for _, s := range cc.Body {
						if rs, ok := s.(*ast.ReturnStmt); ok && len(rs.Results) >= 1 {
							if u, ok := rs.Results[0].(*ast.UnaryExpr); ok && u.Op == token.NOT {
								return true, true
							}
							return true, false
						}
					}
					return false, false
				}
				// direct form: return a == b / return a != b on the same operands
				direct := func(cc *ast.CaseClause) (string, token.Token, bool) {
					for _, st := range cc.Body {
						if rs, ok := st.(*ast.ReturnStmt); ok && len(rs.Results) >= 1 {
							if be, ok := rs.Results[0].(*ast.BinaryExpr); ok && (be.Op == token.EQL || be.Op == token.NEQ) {
								return types.ExprString(be.X) + "|" + types.ExprString(be.Y), be.Op, true
							}
						}
					}
					return "", 0, false
				}
				if eo, eop, ok1 := direct(eqClause); ok1 {
					if no, nop, ok2 := direct(neClause); ok2 {
						if eo == no && eop == token.EQL && nop == token.NEQ {
							c.ok(key, c.P.Pos(neClause.Pos()), "== arm returns a == b, != arm returns a != b on the same operands")
						} else {
							c.viol(key, c.P.Pos(neClause.Pos()), "the == and != arms compare different operands or use the wrong Go operator")
						}
						continue
					}
				}
				ec, nc := calls(eqClause), calls(neClause)
				_, eneg := negated(eqClause)
				nfound, nneg := negated(neClause)
				switch {
				case strings.Join(ec, ",") != strings.Join(nc, ","):
					c.viol(key, c.P.Pos(neClause.Pos()), fmt.Sprintf("the == arm calls %v but the != arm calls %v: != is not the negation of ==", ec, nc))
				case eneg || !nfound || !nneg:
					c.viol(key, c.P.Pos(neClause.Pos()), "the != arm does not return the negation of the equality helper's result (or the == arm negates it)")
				default:
					c.ok(key, c.P.Pos(neClause.Pos()), fmt.Sprintf("both arms call %v; != negates", ec))
				}
			}
		}
	}
	if n < 8 {
		c.anchorFail("only %d CompareSameType declarations found", n)
	}
}

func ruleE3(c *Ctx) {
	// fields with non-fresh stores
	mutField := map[*types.Var]string{}
	for _, s := range w1Census(c.P).sites {
		if s.class == "G0" || s.class == "G5" || s.field == nil {
			continue
		}
		if s.field.Name() == "frozen" || s.field.Name() == "itercount" {
			continue
		}
		// every tracked field on the chain
		for i, f := range s.tr.fields {
			if trackedTypes[qualType(s.tr.owners[i])] {
				mutField[f] = fnName(s.fn)
			}
		}
	}
	n := 0
	for _, t := range valueTypes(c.P) {
		ms := types.NewMethodSet(t)
		var hm *types.Func
		for i := 0; i < ms.Len(); i++ {
			if ms.At(i).Obj().Name() == "Hash" {
				hm, _ = ms.At(i).Obj().(*types.Func)
			}
		}
		if hm == nil {
			continue
		}
		fn := c.P.SSA.FuncValue(hm)
		if fn == nil || fn.Blocks == nil {
			continue
		}
		n++
		key := fnName(fn)
		bad := ""
		// module-local call tree (depth-limited)
		seen := map[*ssa.Function]bool{fn: true}
		work := []*ssa.Function{fn}
		for i := 0; i < len(work) && len(work) < 30; i++ {
			eachInstr(work[i], func(in ssa.Instruction) {
				switch x := in.(type) {
				case *ssa.FieldAddr:
					st := deref(x.X.Type()).Underlying().(*types.Struct)
					if w, ok := mutField[st.Field(x.Field)]; ok {
						bad = fmt.Sprintf("reads field %s.%s, which %s writes after construction", qualType(x.X.Type()), st.Field(x.Field).Name(), w)
					}
				case ssa.CallInstruction:
					if cal := x.Common().StaticCallee(); cal != nil && cal.Blocks != nil && !seen[cal] && strings.HasPrefix(fnPkgPath(cal), modPath) && cal.Name() != "Hash" {
						seen[cal] = true
						work = append(work, cal)
					}
				}
			})
		}
		if bad == "" {
			c.ok(key, c.P.Pos(fn.Pos()), "reads no field that is written after construction")
		} else {
			c.viol(key, c.P.Pos(fn.Pos()), "Hash "+bad+": the hash of a value used as a dict key or set element could change, corrupting the table")
		}
	}
	if n < 20 {
		c.anchorFail("only %d Hash methods found", n)
	}
}

func reachesStatic(from, to *ssa.Function, limit int) bool {
	seen := map[*ssa.Function]bool{from: true}
	work := []*ssa.Function{from}
	for i := 0; i < len(work) && i < limit; i++ {
		found := false
		eachInstr(work[i], func(in ssa.Instruction) {
			if ci, ok := in.(ssa.CallInstruction); ok {
				if cal := ci.Common().StaticCallee(); cal != nil {
					if cal == to {
						found = true
					}
					if cal.Blocks != nil && !seen[cal] && strings.HasPrefix(fnPkgPath(cal), modPath) {
						seen[cal] = true
						work = append(work, cal)
					}
				}
			}
		})
		if found {
			return true
		}
	}
	return false
}

func ruleE4(c *Ctx) {
	pairs := [][2]string{{"Float.Hash", "Int.Hash"}, {"Bytes.Hash", "String.Hash"}}
	for _, p := range pairs {
		a, b := c.P.Func("starlark", p[0]), c.P.Func("starlark", p[1])
		key := p[0] + " delegates to " + p[1]
		if a == nil || b == nil {
			c.anchorFail("%s or %s not found", p[0], p[1])
			continue
		}
		if reachesStatic(a, b, 10) {
			c.ok(key, c.P.Pos(a.Pos()), "static call path exists")
		} else {
			c.viol(key, c.P.Pos(a.Pos()), p[0]+" no longer reaches "+p[1]+": values of the two types that compare equal would hash differently and not be interchangeable as dict keys")
		}
	}
}

func ruleE5(c *Ctx) {
	sorted := c.P.Func("starlark", "sorted")
	less := c.P.Func("starlark", "sortSlice.Less")
	cmp := c.P.Func("starlark", "Compare")
	if sorted == nil || less == nil || cmp == nil {
		c.anchorFail("sorted / sortSlice.Less / Compare not found")
		return
	}
	var stable, unstable []string
	eachInstr(sorted, func(in ssa.Instruction) {
		if ci, ok := in.(ssa.CallInstruction); ok {
			if cal := ci.Common().StaticCallee(); cal != nil && fnPkgPath(cal) == "sort" || cal != nil && fnPkgPath(cal) == "slices" {
				switch cal.Name() {
				case "Stable", "SliceStable", "SortStableFunc":
					stable = append(stable, cal.String())
				case "Sort", "Slice", "SortFunc", "Strings", "Ints":
					unstable = append(unstable, cal.String())
				}
			}
		}
	})
	key := "starlark.sorted: stable sort"
	switch {
	case len(unstable) > 0:
		c.viol(key, c.P.Pos(sorted.Pos()), fmt.Sprintf("sorted calls an unstable sort (%v): equal elements may be reordered", unstable))
	case len(stable) == 0:
		c.viol(key, c.P.Pos(sorted.Pos()), "sorted does not call sort.Stable")
	default:
		c.ok(key, c.P.Pos(sorted.Pos()), fmt.Sprintf("uses %v only", stable))
	}
	// Less: returns Compare(LT, ...) unmodified
	key = "(*starlark.sortSlice).Less: strict order"
	tok := tokenNames(c.P)
	var cmpCall *ssa.Call
	eachInstr(less, func(in ssa.Instruction) {
		if call, ok := in.(*ssa.Call); ok && call.Call.StaticCallee() == cmp {
			cmpCall = call
		}
	})
	if cmpCall == nil {
		c.viol(key, c.P.Pos(less.Pos()), "Less does not compare through starlark.Compare (the single entry point that handles mixed types and depth)")
	} else {
		k, isK := constInt(cmpCall.Call.Args[0])
		direct := true
		eachInstr(less, func(in ssa.Instruction) {
			if r, ok := in.(*ssa.Return); ok && len(r.Results) == 1 {
				v := r.Results[0]
				ok2 := false
				if ex, ok := v.(*ssa.Extract); ok && ex.Tuple == cmpCall && ex.Index == 0 {
					ok2 = true
				}
				if !ok2 {
					direct = false
				}
			}
		})
		switch {
		case !isK || tok[k] != "LT":
			c.viol(key, c.P.Pos(cmpCall.Pos()), "Less does not compare with syntax.LT")
		case !direct:
			c.viol(key, c.P.Pos(cmpCall.Pos()), "Less does not return Compare(LT, a, b) as is (it is negated, xor-ed or otherwise post-processed): a non-strict 'less' makes sort.Stable reorder equal elements")
		default:
			c.ok(key, c.P.Pos(cmpCall.Pos()), "returns Compare(LT, keys[i], keys[j]) unmodified")
		}
	}
	// who may invoke CompareSameType / Cmp
	for _, fn := range c.P.Funcs {
		if !isProdPkg(fnPkgPath(fn)) {
			continue
		}
		eachInstr(fn, func(in ssa.Instruction) {
			call, ok := in.(ssa.CallInstruction)
			if !ok || !call.Common().IsInvoke() {
				return
			}
			m := call.Common().Method.Name()
			if m != "CompareSameType" && !(m == "Cmp" && qualType(call.Common().Value.Type()) == "starlark.TotallyOrdered") {
				return
			}
			key := fmt.Sprintf("%s: invoke %s", fnName(fn), m)
			if fn.Name() == "CompareDepth" || onlyCalledFrom(c.P, fn, "CompareDepth", 0) {
				c.ok(key, c.P.Pos(in.Pos()), "dispatched by CompareDepth (or its private helper) after the depth and same-type tests")
			} else {
				c.viol(key, c.P.Pos(in.Pos()), m+" is invoked outside CompareDepth: the same-type precondition and the recursion budget are bypassed")
			}
		})
	}
}

func ruleE6(c *Ctx) {
	cd := c.P.Func("starlark", "CompareDepth")
	if cd == nil {
		c.anchorFail("starlark.CompareDepth not found")
		return
	}
	// arms: blocks dominated by ok-edge of y.(Float) under x.(Int), and of y.(Int) under x.(Float)
	type arm struct {
		xT, yT string
		root   *ssa.BasicBlock
	}
	var arms []arm
	// the arms may live in CompareDepth or in a private helper it calls with both operands
	host := cd
	cands := []*ssa.Function{cd}
	seenC := map[*ssa.Function]bool{cd: true}
	for i := 0; i < len(cands) && i < 12; i++ {
		eachInstr(cands[i], func(in ssa.Instruction) {
			if call, ok := in.(*ssa.Call); ok {
				if cal := call.Call.StaticCallee(); cal != nil && cal.Blocks != nil && fnPkgPath(cal) == modPath+"/starlark" && cal.Signature.Recv() == nil && !seenC[cal] && cal.Object() != nil && !cal.Object().Exported() {
					seenC[cal] = true
					cands = append(cands, cal)
				}
			}
		})
	}
	var xP, yP ssa.Value
	for _, f := range cands {
		var vps []*ssa.Parameter
		for _, p := range f.Params {
			if isNamed(p.Type(), "starlark", "Value") {
				vps = append(vps, p)
			}
		}
		if len(vps) < 2 {
			continue
		}
		mixed := 0
		eachInstr(f, func(in ssa.Instruction) {
			if ta, ok := in.(*ssa.TypeAssert); ok && ta.CommaOk && (ta.X == ssa.Value(vps[0]) || ta.X == ssa.Value(vps[1])) {
				if q := qualType(ta.AssertedType); q == "starlark.Int" || q == "starlark.Float" {
					mixed++
				}
			}
		})
		if mixed >= 3 {
			host = f
			xP, yP = vps[0], vps[1]
			break
		}
	}
	if xP == nil {
		xP, yP = cd.Params[1], cd.Params[2]
	}
	cd = host
	eachInstr(cd, func(in ssa.Instruction) {
		ifi, ok := in.(*ssa.If)
		if !ok {
			return
		}
		ex, ok := ifi.Cond.(*ssa.Extract)
		if !ok || ex.Index != 1 {
			return
		}
		ta, ok := ex.Tuple.(*ssa.TypeAssert)
		if !ok || ta.X != yP {
			return
		}
		yT := qualType(ta.AssertedType)
		if yT != "starlark.Int" && yT != "starlark.Float" {
			return
		}
		// enclosing x type
		xT := ""
		for _, pf := range pathFacts(ifi.Block()) {
			if ex2, ok := pf.Cond.(*ssa.Extract); ok && pf.Truth {
				if ta2, ok := ex2.Tuple.(*ssa.TypeAssert); ok && ta2.X == xP {
					xT = qualType(ta2.AssertedType)
				}
			}
		}
		if xT == "" {
			return
		}
		arms = append(arms, arm{xT, yT, ifi.Block().Succs[0]})
	})
	callees := func(root *ssa.BasicBlock) string {
		set := map[string]bool{}
		seenF := map[*ssa.Function]bool{}
		var visit func(in ssa.Instruction, depth int)
		visit = func(in ssa.Instruction, depth int) {
			if ci, ok := in.(ssa.CallInstruction); ok {
				cal := ci.Common().StaticCallee()
				// package-local helpers are expanded to what they call (so that splitting an
				// arm into intFloatCmp/floatIntCmp helpers compares like with like)
				if cal != nil && cal.Blocks != nil && fnPkgPath(cal) == modPath+"/starlark" && cal.Signature.Recv() == nil && cal.Name() != "threeway" && depth < 3 {
					if !seenF[cal] {
						seenF[cal] = true
						eachInstr(cal, func(in2 ssa.Instruction) { visit(in2, depth+1) })
					}
					return
				}
				set[calleeName(ci)] = true
			}
			if cv, ok := in.(*ssa.Convert); ok {
				set["convert->"+cv.Type().String()] = true
			}
		}
		for _, b := range cd.Blocks {
			if b != root && !root.Dominates(b) {
				continue
			}
			for _, in := range b.Instrs {
				visit(in, 0)
			}
		}
		var l []string
		for k := range set {
			l = append(l, k)
		}
		sort.Strings(l)
		return strings.Join(l, ", ")
	}
	var a, b *arm
	for i := range arms {
		if arms[i].xT == "starlark.Int" && arms[i].yT == "starlark.Float" {
			a = &arms[i]
		}
		if arms[i].xT == "starlark.Float" && arms[i].yT == "starlark.Int" {
			b = &arms[i]
		}
	}
	key := "starlark.CompareDepth: Int/Float arms mirror each other"
	if a == nil || b == nil {
		c.viol(key, c.P.Pos(cd.Pos()), "CompareDepth lacks one of the mixed Int/Float comparison arms: comparisons between ints and floats are no longer symmetric")
		return
	}
	ca, cb := callees(a.root), callees(b.root)
	if ca == cb {
		c.ok(key, c.P.Pos(cd.Pos()), "both arms use: "+ca)
	} else {
		c.viol(key, c.P.Pos(cd.Pos()), fmt.Sprintf("the Int-vs-Float arm uses {%s} but the Float-vs-Int arm uses {%s}: x == y and y == x can disagree (symmetry and transitivity of == break for large ints)", ca, cb))
	}
}

// onlyCalledFrom: fn is an unexported function all of whose call sites are in the
// function named root (or in such helpers of it).
func onlyCalledFrom(p *Prog, fn *ssa.Function, root string, depth int) bool {
	if depth > 2 || fn.Object() == nil || fn.Object().Exported() {
		return false
	}
	callers := callersInPkg(p.Funcs, fn)
	if len(callers) == 0 {
		return false
	}
	for _, g := range callers {
		g = outermost(g)
		if g.Name() == root || g == fn {
			continue
		}
		if !onlyCalledFrom(p, g, root, depth+1) {
			return false
		}
	}
	return true
}
