package main

import (
	"fmt"
	"go/constant"
	"go/token"
	"go/types"
	"sort"
	"strings"

	"golang.org/x/tools/go/ssa"
)

func init() {
	register("N1", "optional unpack targets are nil-checked: every variable handed to UnpackPositionalArgs beyond min (or to UnpackArgs under an optional 'name?') whose type can be nil and that is not pre-set is never dereferenced (method call, type assertion, index, call) unless a dominating test excludes nil or excludes the argument being absent", 60, ruleN1)
	register("N6", "Type() strings are unique per Go type: CompareDepth dispatches to x.CompareSameType(y) when x.Type() == y.Type() and implementations assert y's Go type unchecked, so equal names must imply equal types", 25, ruleN6)
	register("N4", "comparison depth discipline: inside CompareSameType implementations and their helpers, element values are compared through CompareDepth/EqualDepth with a decremented depth, never through Compare/Equal (which restart the budget) or with an unchanged depth; CompareDepth itself fails when depth < 1", 6, ruleN4)
	register("N7", "panic-channel discipline: the parser entry points that can reach scanner.error install the deferred recover before parsing; json.decode's deferred function re-panics everything but its private failure type; DecodeProgram recovers", 4, ruleN7)
}

// ---------- N1 ----------

func nilable(t types.Type) bool {
	switch t.Underlying().(type) {
	case *types.Interface, *types.Pointer, *types.Map, *types.Slice, *types.Signature, *types.Chan:
		return true
	}
	return false
}

// variadicElems returns the values stored into the backing array of a
// variadic argument slice, by index.
func variadicElems(v ssa.Value) map[int64]ssa.Value {
	out := map[int64]ssa.Value{}
	sl, ok := v.(*ssa.Slice)
	if !ok {
		return out
	}
	arr, ok := sl.X.(*ssa.Alloc)
	if !ok {
		return out
	}
	for _, r := range *arr.Referrers() {
		ia, ok := r.(*ssa.IndexAddr)
		if !ok {
			continue
		}
		idx, isK := constInt(ia.Index)
		if !isK {
			continue
		}
		for _, r2 := range *ia.Referrers() {
			if st, ok := r2.(*ssa.Store); ok && st.Addr == ia {
				out[idx] = st.Val
			}
		}
	}
	return out
}

func ruleN1(c *Ctx) {
	upa := c.P.Func("starlark", "UnpackPositionalArgs")
	upn := c.P.Func("starlark", "unpackPositionalArgsNoEscape")
	ua := c.P.Func("starlark", "UnpackArgs")
	if upa == nil || upn == nil || ua == nil {
		c.anchorFail("unpack helpers not found")
		return
	}
	calls := 0
	for _, fn := range c.P.Funcs {
		if !isProdPkg(fnPkgPath(fn)) || fn == upa || fn == upn {
			continue
		}
		eachInstr(fn, func(in ssa.Instruction) {
			call, ok := in.(*ssa.Call)
			if !ok {
				return
			}
			cal := call.Call.StaticCallee()
			if cal != upa && cal != upn && cal != ua {
				return
			}
			calls++
			args := call.Call.Args
			var argsTuple ssa.Value = args[1]
			type target struct {
				idx   int
				alloc *ssa.Alloc
				name  string
			}
			var optional []target
			if cal == ua {
				elems := variadicElems(args[3])
				firstOpt := int64(-1)
				var idxs []int64
				for i := range elems {
					idxs = append(idxs, i)
				}
				sort.Slice(idxs, func(a, b int) bool { return idxs[a] < idxs[b] })
				for _, i := range idxs {
					if i%2 != 0 {
						continue
					}
					nm := ""
					if mi, ok := elems[i].(*ssa.MakeInterface); ok {
						if k, ok := mi.X.(*ssa.Const); ok && k.Value != nil && k.Value.Kind() == constant.String {
							nm = constant.StringVal(k.Value)
						}
					}
					if strings.Contains(nm, "?") && firstOpt < 0 {
						firstOpt = i
					}
					if firstOpt >= 0 && i >= firstOpt {
						if mi, ok := elems[i+1].(*ssa.MakeInterface); ok {
							if a, ok := mi.X.(*ssa.Alloc); ok {
								optional = append(optional, target{int(i / 2), a, nm})
							}
						}
					}
				}
			} else {
				min, isK := constInt(args[3])
				if !isK {
					c.viol(fmt.Sprintf("%s: %s min", fnName(fn), cal.Name()), c.P.Pos(call.Pos()), "non-constant min: optional targets cannot be determined")
					return
				}
				elems := variadicElems(args[4])
				for i, v := range elems {
					if i < min {
						continue
					}
					if mi, ok := v.(*ssa.MakeInterface); ok {
						if a, ok := mi.X.(*ssa.Alloc); ok {
							optional = append(optional, target{int(i), a, a.Comment})
						}
					}
				}
			}
			sort.Slice(optional, func(i, j int) bool { return optional[i].idx < optional[j].idx })
			if len(optional) == 0 {
				c.trivial(fmt.Sprintf("%s: %s", fnName(fn), cal.Name()), c.P.Pos(call.Pos()), "no optional targets")
				return
			}
			for _, t := range optional {
				key := fmt.Sprintf("%s: optional target #%d %s", fnName(fn), t.idx, t.alloc.Comment)
				pos := c.P.Pos(call.Pos())
				et := deref(t.alloc.Type())
				if !nilable(et) {
					c.trivial(key, pos, "type "+et.String()+" cannot be nil")
					continue
				}
				// pre-set to non-nil before the call?
				preset := false
				for _, r := range *t.alloc.Referrers() {
					if st, ok := r.(*ssa.Store); ok && st.Addr == t.alloc && !isNilConst(st.Val) && instrDominates(st, call) {
						preset = true
					}
				}
				if preset {
					c.trivial(key, pos, "pre-set to a non-nil default before unpacking")
					continue
				}
				// uses after the call
				bad := n1Uses(c, fn, t.alloc, call, argsTuple, t.idx)
				if bad == "" {
					c.ok(key, pos, "may be nil after unpacking; never dereferenced without a nil/arity test")
				} else {
					c.viol(key, pos, fmt.Sprintf("optional argument (absent => %s stays nil) is %s: calling the built-in without this argument panics the host", et.String(), bad))
				}
			}
		})
	}
	if calls < 80 {
		c.anchorFail("only %d unpack calls found", calls)
	}
}

// n1Uses returns a description of the first unguarded dereference of the
// variable held in alloc, or "".
func n1Uses(c *Ctx, fn *ssa.Function, a *ssa.Alloc, after *ssa.Call, argsTuple ssa.Value, idx int) string {
	for _, r := range *a.Referrers() {
		ld, ok := r.(*ssa.UnOp)
		if !ok || ld.Op != token.MUL {
			continue
		}
		// aliases through interface conversions
		vals := []ssa.Value{ld}
		for i := 0; i < len(vals); i++ {
			for _, u := range *vals[i].Referrers() {
				switch x := u.(type) {
				case *ssa.ChangeInterface:
					vals = append(vals, x)
				case *ssa.MakeInterface:
					vals = append(vals, x)
				case *ssa.Phi:
					// merged with other values: keep following conservatively
					found := false
					for _, y := range vals {
						if y == x {
							found = true
						}
					}
					if !found {
						vals = append(vals, x)
					}
				}
			}
		}
		isAlias := func(v ssa.Value) bool {
			for _, y := range vals {
				if y == v {
					return true
				}
			}
			return false
		}
		for _, v := range vals {
			for _, u := range *v.Referrers() {
				desc := ""
				switch x := u.(type) {
				case *ssa.Call:
					if x.Call.IsInvoke() && x.Call.Value == v {
						desc = "used as the receiver of " + x.Call.Method.Name() + "()"
					} else if x.Call.Value == v {
						desc = "called as a function"
					} else if cal := x.Call.StaticCallee(); cal != nil && strings.HasPrefix(fnPkgPath(cal), modPath) && cal.Blocks != nil {
						// passed to a module function: the callee must test the parameter before using it
						for i, av := range x.Call.Args {
							if av == v && i < len(cal.Params) {
								if d := paramDerefUnchecked(cal, cal.Params[i]); d != "" {
									desc = "passed to " + fnName(cal) + " which " + d
								}
							}
						}
					}
				case *ssa.Defer:
					if x.Call.IsInvoke() && x.Call.Value == v {
						desc = "used as the receiver of deferred " + x.Call.Method.Name() + "()"
					}
				case *ssa.TypeAssert:
					if x.X == v && !x.CommaOk {
						if _, isIface := x.AssertedType.Underlying().(*types.Interface); !isIface {
							desc = "type-asserted to " + x.AssertedType.String() + " without comma-ok"
						} else {
							desc = "type-asserted to interface " + x.AssertedType.String() + " without comma-ok"
						}
					}
				case *ssa.FieldAddr:
					if x.X == v {
						desc = "dereferenced for a field"
					}
				case *ssa.IndexAddr:
					if x.X == v {
						desc = "indexed"
					}
				case *ssa.UnOp:
					if x.Op == token.MUL && x.X == v {
						desc = "dereferenced"
					}
				}
				if desc == "" {
					continue
				}
				ui := u.(ssa.Instruction)
				if n1Guarded(ui.Block(), isAlias, a, argsTuple, idx) {
					continue
				}
				return desc + " at " + c.P.Pos(ui.Pos())
			}
		}
	}
	return ""
}

// n1Guarded: at block b the value is known non-nil, or the argument is known present.
func n1Guarded(b *ssa.BasicBlock, isAlias func(ssa.Value) bool, a *ssa.Alloc, argsTuple ssa.Value, idx int) bool {
	for _, pf := range pathFacts(b) {
		cond, taken := pf.Cond, pf.Truth
		if x, neq, ok := nilTest(cond); ok {
			// x may be a fresh load of the same variable
			same := isAlias(x)
			if ld, ok := x.(*ssa.UnOp); ok && ld.Op == token.MUL && ld.X == a {
				same = true
			}
			if same && neq == taken {
				return true
			}
		}
		// len(args) tests: len(args) == 0 false / len(args) > idx true / len(args) >= idx+1
		if bo, ok := cond.(*ssa.BinOp); ok {
			if call, ok := bo.X.(*ssa.Call); ok {
				if bi, ok := call.Call.Value.(*ssa.Builtin); ok && bi.Name() == "len" && call.Call.Args[0] == argsTuple {
					if k, isK := constInt(bo.Y); isK {
						n := int64(idx)
						switch bo.Op {
						case token.EQL:
							if !taken && k == n && n == 0 {
								return true // len != 0 and idx == 0
							}
							if taken && k > n {
								return true
							}
						case token.NEQ:
							if taken && k == 0 && n == 0 {
								return true
							}
						case token.GTR:
							if taken && k >= n {
								return true
							}
						case token.GEQ:
							if taken && k > n {
								return true
							}
						case token.LSS:
							if !taken && k > n {
								return true
							}
						case token.LEQ:
							if !taken && k >= n {
								return true
							}
						}
					}
				}
			}
		}
	}
	return false
}

// paramDerefUnchecked: does the callee dereference the parameter without a
// dominating nil test? Returns a description or "".
func paramDerefUnchecked(fn *ssa.Function, p *ssa.Parameter) string {
	refs := p.Referrers()
	if refs == nil {
		return ""
	}
	for _, u := range *refs {
		desc := ""
		switch x := u.(type) {
		case *ssa.Call:
			if x.Call.IsInvoke() && x.Call.Value == p {
				desc = "calls " + x.Call.Method.Name() + "() on it"
			}
		case *ssa.TypeAssert:
			if x.X == p && !x.CommaOk {
				desc = "type-asserts it without comma-ok"
			}
		}
		if desc == "" {
			continue
		}
		_, nonNil := knownNilness(u.(ssa.Instruction).Block(), func(v ssa.Value) bool { return v == p })
		if !nonNil {
			return desc + " without a nil test"
		}
	}
	return ""
}

// ---------- N6 ----------

func ruleN6(c *Ctx) {
	vts := valueTypes(c.P)
	names := map[string][]string{}
	for _, t := range vts {
		ms := types.NewMethodSet(t)
		var tm *types.Func
		for i := 0; i < ms.Len(); i++ {
			if ms.At(i).Obj().Name() == "Type" {
				tm, _ = ms.At(i).Obj().(*types.Func)
			}
		}
		if tm == nil {
			continue
		}
		fn := c.P.SSA.FuncValue(tm)
		if fn == nil || fn.Blocks == nil {
			continue
		}
		var strs []string
		dynamic := false
		eachInstr(fn, func(in ssa.Instruction) {
			if r, ok := in.(*ssa.Return); ok && len(r.Results) == 1 {
				if k, ok := r.Results[0].(*ssa.Const); ok && k.Value != nil && k.Value.Kind() == constant.String {
					strs = append(strs, constant.StringVal(k.Value))
				} else {
					dynamic = true
				}
			}
		})
		q := qualType(t)
		if dynamic || len(strs) == 0 {
			c.except("Type() of "+q, c.P.Pos(fn.Pos()), "type name computed at run time (wrapper around a host-provided value)")
			continue
		}
		for _, s := range strs {
			names[s] = append(names[s], q)
		}
	}
	var keys []string
	for s := range names {
		keys = append(keys, s)
	}
	sort.Strings(keys)
	for _, s := range keys {
		ts := names[s]
		// does any of the types implement Comparable (CompareSameType)?
		key := fmt.Sprintf("Type() == %q", s)
		uniq := map[string]bool{}
		for _, t := range ts {
			uniq[t] = true
		}
		if len(uniq) > 1 {
			var l []string
			for t := range uniq {
				l = append(l, t)
			}
			sort.Strings(l)
			c.viol(key, "-", fmt.Sprintf("Go types %v report the same Type() string: comparing values of the two types passes the same-type test and the unchecked assertion in CompareSameType panics", l))
		} else {
			c.ok(key, "-", "unique to "+ts[0])
		}
	}
}

// ---------- N4 ----------

func ruleN4(c *Ctx) {
	cd := c.P.Func("starlark", "CompareDepth")
	ed := c.P.Func("starlark", "EqualDepth")
	cmp := c.P.Func("starlark", "Compare")
	eq := c.P.Func("starlark", "Equal")
	if cd == nil || ed == nil || cmp == nil || eq == nil {
		c.anchorFail("Compare/Equal/CompareDepth/EqualDepth not found")
		return
	}
	// CompareDepth guards depth < 1
	key := "starlark.CompareDepth: depth guard"
	guard := false
	var depthParam *ssa.Parameter
	for _, p := range cd.Params {
		if p.Name() == "depth" {
			depthParam = p
		}
	}
	if depthParam == nil {
		c.anchorFail("CompareDepth has no depth parameter")
		return
	}
	var guardIf *ssa.If
	eachInstr(cd, func(in ssa.Instruction) {
		if ifi, ok := in.(*ssa.If); ok {
			if b, ok := ifi.Cond.(*ssa.BinOp); ok && b.X == depthParam {
				if k, isK := constInt(b.Y); isK && ((b.Op == token.LSS && k == 1) || (b.Op == token.LEQ && k == 0)) {
					guardIf = ifi
				}
			}
		}
	})
	if guardIf != nil {
		// every invoke of CompareSameType / Cmp is dominated by the false edge
		okAll := true
		eachInstr(cd, func(in ssa.Instruction) {
			if call, ok := in.(*ssa.Call); ok && call.Call.IsInvoke() && (call.Call.Method.Name() == "CompareSameType" || call.Call.Method.Name() == "Cmp") {
				dom := false
				for _, pc := range pathConds(call.Block()) {
					if pc.If == guardIf && !pc.Branch {
						dom = true
					}
				}
				if !dom {
					okAll = false
				}
			}
		})
		guard = okAll
	}
	if guard {
		c.ok(key, c.P.Pos(guardIf.Pos()), "depth < 1 returns an error before any type-specific comparison is dispatched")
	} else {
		c.viol(key, c.P.Pos(cd.Pos()), "CompareDepth dispatches to CompareSameType/Cmp without first failing when depth < 1: comparing cyclic or very deep values recurses until the Go stack overflows")
	}
	// functions reachable from CompareSameType implementations within the module (depth-carrying helpers)
	var roots []*ssa.Function
	for _, fn := range c.P.Funcs {
		if fn.Name() == "CompareSameType" && fn.Signature.Recv() != nil && isProdPkg(fnPkgPath(fn)) {
			roots = append(roots, fn)
		}
	}
	if len(roots) < 8 {
		c.anchorFail("only %d CompareSameType implementations found", len(roots))
	}
	seen := map[*ssa.Function]bool{}
	work := append([]*ssa.Function{}, roots...)
	for _, r := range roots {
		seen[r] = true
	}
	for i := 0; i < len(work); i++ {
		eachInstr(work[i], func(in ssa.Instruction) {
			if ci, ok := in.(ssa.CallInstruction); ok {
				cal := ci.Common().StaticCallee()
				if cal == nil || seen[cal] || cal.Blocks == nil || !strings.HasPrefix(fnPkgPath(cal), modPath) {
					return
				}
				if cal == cd || cal == ed || cal == cmp || cal == eq {
					return
				}
				// only helpers that carry a depth parameter or are comparison helpers of the same package
				hasDepth := false
				for _, p := range cal.Params {
					if p.Name() == "depth" {
						hasDepth = true
					}
				}
				if hasDepth {
					seen[cal] = true
					work = append(work, cal)
				}
			}
		})
	}
	// include closures nested in the helpers (range-over-func bodies etc.)
	for i := 0; i < len(work); i++ {
		for _, an := range work[i].AnonFuncs {
			if !seen[an] {
				seen[an] = true
				work = append(work, an)
			}
		}
	}
	isDepth := func(v ssa.Value) bool {
		switch x := v.(type) {
		case *ssa.Parameter:
			return x.Name() == "depth"
		case *ssa.UnOp:
			if x.Op == token.MUL {
				switch y := x.X.(type) {
				case *ssa.FreeVar:
					return y.Name() == "depth"
				case *ssa.Alloc:
					return y.Comment == "depth"
				}
			}
		case *ssa.FreeVar:
			return x.Name() == "depth"
		}
		return false
	}
	for _, fn := range work {
		eachInstr(fn, func(in ssa.Instruction) {
			call, ok := in.(*ssa.Call)
			if !ok {
				return
			}
			cal := call.Call.StaticCallee()
			if cal == nil {
				return
			}
			key := fmt.Sprintf("%s: call %s", fnName(fn), cal.Name())
			pos := c.P.Pos(call.Pos())
			switch cal {
			case cmp, eq:
				if r, ok := n4Exceptions[fnName(fn)]; ok {
					c.except(key, pos, r)
				} else {
					c.viol(key, pos, "a comparison helper compares contained values with "+cal.Name()+", which restarts the recursion budget: a cycle through this type is compared forever (stack overflow)")
				}
			case cd, ed:
				// last arg must be depth-1
				d := call.Call.Args[len(call.Call.Args)-1]
				dec := false
				if b, ok := d.(*ssa.BinOp); ok && b.Op == token.SUB && isDepth(b.X) {
					if k, isK := constInt(b.Y); isK && k >= 1 {
						dec = true
					}
				}
				if dec {
					c.ok(key, pos, "recursive comparison with depth-1")
				} else {
					c.viol(key, pos, "recursive comparison of contained values does not decrement depth: cyclic values are compared forever (stack overflow)")
				}
			default:
				// a helper that carries the depth works at the same level: it must receive the depth
				// unchanged (it decrements where it descends into contained values, checked above);
				// handing it depth-1 charges two units per level and halves the nesting that can be compared
				if !seen[cal] {
					return
				}
				for j, p := range cal.Params {
					if p.Name() != "depth" || j >= len(call.Call.Args) {
						continue
					}
					a := call.Call.Args[j]
					if isDepth(a) {
						c.ok(key, pos, "the helper receives the depth unchanged")
					} else {
						c.viol(key, pos, "a depth-carrying helper is handed a modified depth: the helper decrements again when it descends, so each nesting level costs more than one unit and values well within the limit fail with 'maximum recursion depth' (or, if increased, the guard is weakened)")
					}
				}
			}
		})
	}
}

var n4Exceptions = map[string]string{
	"starlarkstruct.structsEqual": "compares the host-chosen constructor (a string or function, never part of a Starlark-built cycle)",
}

// ---------- N7 ----------

func ruleN7(c *Ctx) {
	serr := c.P.Func("syntax", "scanner.error")
	rec := c.P.Func("syntax", "scanner.recover")
	if serr == nil || rec == nil {
		c.anchorFail("syntax.(*scanner).error / recover not found")
		return
	}
	cg := c.P.CG()
	// functions of package syntax from which scanner.error is reachable (static+VTA edges within the package)
	reach := map[*ssa.Function]bool{serr: true}
	for changed := true; changed; {
		changed = false
		for fn, node := range cg.Nodes {
			if fn == nil || reach[fn] || fnPkgPath(fn) != modPath+"/syntax" {
				continue
			}
			for _, e := range node.Out {
				if reach[e.Callee.Func] {
					reach[fn] = true
					changed = true
					break
				}
			}
		}
	}
	n := 0
	for _, fn := range c.P.Funcs {
		if fnPkgPath(fn) != modPath+"/syntax" || fn.Parent() != nil || !reach[fn] {
			continue
		}
		if fn.Object() == nil || !fn.Object().Exported() {
			continue
		}
		if fn.Signature.Recv() != nil {
			_, rn := namedOf(fn.Signature.Recv().Type())
			if rn != "FileOptions" {
				continue // methods of unexported scanner/parser types are internal
			}
		}
		// does this function itself call into the panicking machinery directly (not only via another exported entry point)?
		direct := false
		var firstRisky ssa.Instruction
		var recDefer *ssa.Defer
		eachInstr(fn, func(in ssa.Instruction) {
			if d, ok := in.(*ssa.Defer); ok && d.Call.StaticCallee() == rec {
				recDefer = d
			}
			if ci, ok := in.(*ssa.Call); ok {
				cal := ci.Call.StaticCallee()
				if cal != nil && reach[cal] && (cal.Object() == nil || !cal.Object().Exported() || cal.Signature.Recv() != nil) {
					if _, rn := namedOf(recvType(cal)); rn == "FileOptions" {
						return
					}
					direct = true
					if firstRisky == nil {
						firstRisky = in
					}
				}
			}
		})
		if !direct {
			continue
		}
		n++
		key := fnName(fn) + ": recover installed"
		switch {
		case recDefer == nil:
			c.viol(key, c.P.Pos(fn.Pos()), "exported parser entry point reaches scanner.error (which panics) without deferring scanner.recover: a syntax error crashes the host instead of being returned")
		case !instrDominates(recDefer, firstRisky):
			c.viol(key, c.P.Pos(recDefer.Pos()), "the deferred recover is installed after the first scanner/parser call")
		default:
			c.ok(key, c.P.Pos(recDefer.Pos()), "defer in.recover(&err) dominates the first call that can raise a syntax error")
		}
	}
	if n < 2 {
		c.anchorFail("only %d parser entry points found", n)
	}
	// scanner.recover deliberately turns every panic (syntax errors and bugs alike) into an
	// error return; require that it calls recover() and stores through its *error parameter
	{
		hasRecover, stores := false, 0
		eachInstr(rec, func(in ssa.Instruction) {
			if call, ok := in.(*ssa.Call); ok {
				if b, ok := call.Call.Value.(*ssa.Builtin); ok && b.Name() == "recover" {
					hasRecover = true
				}
			}
			if st, ok := in.(*ssa.Store); ok && len(rec.Params) == 2 && st.Addr == rec.Params[1] {
				stores++
			}
		})
		key := "syntax.(*scanner).recover: converts panics to errors"
		if hasRecover && stores >= 2 {
			c.ok(key, c.P.Pos(rec.Pos()), "recover() result stored into *err for both Error values and foreign panics")
		} else {
			c.viol(key, c.P.Pos(rec.Pos()), "scanner.recover no longer converts every recovered panic into an error return")
		}
	}
	// json decode
	if dec := c.P.Func("lib/json", "decode"); dec != nil {
		var cl *ssa.Function
		eachInstr(dec, func(in ssa.Instruction) {
			if d, ok := in.(*ssa.Defer); ok {
				// a function literal, or a named function/method that is deferred
				if body := deferredBody(d); body != nil {
					cl = body
				}
			}
		})
		if cl == nil {
			c.viol("lib/json.decode: deferred recover", c.P.Pos(dec.Pos()), "json.decode has no deferred recovery function: malformed input panics the host")
		} else {
			n7Recover(c, cl, "lib/json.decode deferred function", "failure")
		}
	} else {
		c.anchorFail("lib/json.decode not found")
	}
}

func recvType(fn *ssa.Function) types.Type {
	if fn.Signature.Recv() != nil {
		return fn.Signature.Recv().Type()
	}
	return types.Typ[types.Invalid]
}

// n7Recover checks that fn calls recover(), handles only the named private
// type, and re-panics everything else.
func n7Recover(c *Ctx, fn *ssa.Function, label, privType string) {
	key := label + ": selective recover"
	var recv ssa.Value
	eachInstr(fn, func(in ssa.Instruction) {
		if call, ok := in.(*ssa.Call); ok {
			if b, ok := call.Call.Value.(*ssa.Builtin); ok && b.Name() == "recover" {
				recv = call
			}
		}
	})
	if recv == nil {
		c.viol(key, c.P.Pos(fn.Pos()), "no call to recover()")
		return
	}
	// a comma-ok type assertion (or type switch) to privType, and a Panic re-raising the recovered value
	asserted, repanic := false, false
	eachInstr(fn, func(in ssa.Instruction) {
		switch x := in.(type) {
		case *ssa.TypeAssert:
			if x.X == recv {
				// the private failure type: an unexported named type declared in the function's own
				// package (whatever it is called)
				if pp, n := namedOf(x.AssertedType); x.CommaOk && n != "" && !token.IsExported(n) && pp == fnPkgPath(fn) {
					asserted = true
				}
			}
		case *ssa.Panic:
			if x.X == recv {
				repanic = true
			}
		}
	})
	switch {
	case !asserted:
		c.viol(key, c.P.Pos(fn.Pos()), "the recovered value is not discriminated by a comma-ok assertion to the private "+privType+" type: foreign panics (bugs, host panics) would be swallowed or misreported")
	case !repanic:
		c.viol(key, c.P.Pos(fn.Pos()), "values other than "+privType+" are not re-panicked: internal errors and host panics are silently turned into ordinary results")
	default:
		c.ok(key, c.P.Pos(fn.Pos()), "handles only "+privType+", re-panics everything else")
	}
}

func init() {
	register("N2", "allocations sized by script integers are bounded: every make/strings.Repeat/Grow whose size depends on an integer supplied by the script (unpacked into a Go int, or obtained from AsInt32/Int64/Uint64) is dominated by an upper-bound test on that value, or takes the minimum with a length", 1, ruleN2)
	register("N5", "printing never restarts the cycle path: a String method of a Value type that can hold arbitrary values may not print a contained value through a dynamic Value.String() call (which begins with an empty path); it must go through the path-carrying writer", 20, ruleN5)
}

// scriptIntSources: SSA values that are integers chosen by the script.
func scriptIntTaint(fn *ssa.Function) map[ssa.Value]string {
	taint := map[ssa.Value]string{}
	isUnpack := func(cal *ssa.Function) bool {
		if cal == nil {
			return false
		}
		switch cal.Name() {
		case "UnpackArgs", "UnpackPositionalArgs", "unpackPositionalArgsNoEscape", "AsInt":
			return strings.HasSuffix(fnPkgPath(cal), "/starlark")
		}
		return false
	}
	// allocs of integer type whose address escapes to an unpack call
	eachInstr(fn, func(in ssa.Instruction) {
		call, ok := in.(*ssa.Call)
		if !ok {
			return
		}
		cal := call.Call.StaticCallee()
		if cal == nil {
			return
		}
		if isUnpack(cal) {
			var ptrs []ssa.Value
			for _, a := range call.Call.Args {
				if sl, ok := a.(*ssa.Slice); ok {
					for _, v := range variadicElems(sl) {
						ptrs = append(ptrs, v)
					}
				} else {
					ptrs = append(ptrs, a)
				}
			}
			for _, pv := range ptrs {
				if mi, ok := pv.(*ssa.MakeInterface); ok {
					pv = mi.X
				}
				if a, ok := pv.(*ssa.Alloc); ok {
					if b, ok := deref(a.Type()).Underlying().(*types.Basic); ok && b.Info()&types.IsInteger != 0 {
						for _, r := range *a.Referrers() {
							if ld, ok := r.(*ssa.UnOp); ok && ld.Op == token.MUL {
								taint[ld] = "unpacked into " + a.Comment
							}
						}
					}
				}
			}
		}
		// numerals supplied by the script and parsed by strconv
		if fnPkgPath(cal) == "strconv" && (cal.Name() == "ParseInt" || cal.Name() == "ParseUint") {
			for _, r := range *call.Referrers() {
				if ex, ok := r.(*ssa.Extract); ok && ex.Index == 0 {
					taint[ex] = "result of strconv." + cal.Name()
				}
			}
		}
		switch cal.Name() {
		case "AsInt32", "Int64", "Uint64":
			if strings.HasSuffix(fnPkgPath(cal), "/starlark") {
				for _, r := range *call.Referrers() {
					if ex, ok := r.(*ssa.Extract); ok && ex.Index == 0 {
						taint[ex] = "result of " + cal.Name()
					}
				}
			}
		}
	})
	propagateTaint(fn, taint)
	return taint
}

func propagateTaint(fn *ssa.Function, taint map[ssa.Value]string) {
	for changed := true; changed; {
		changed = false
		eachInstr(fn, func(in ssa.Instruction) {
			v, ok := in.(ssa.Value)
			if !ok || taint[v] != "" {
				return
			}
			switch x := in.(type) {
			case *ssa.BinOp:
				switch x.Op {
				case token.ADD, token.SUB, token.MUL, token.SHL:
					if s := taint[x.X]; s != "" {
						taint[v] = s
						changed = true
					} else if s := taint[x.Y]; s != "" {
						taint[v] = s
						changed = true
					}
				}
			case *ssa.Convert:
				if s := taint[x.X]; s != "" {
					taint[v] = s
					changed = true
				}
			case *ssa.Phi:
				if isMinPhi(x, taint) {
					return
				}
				for _, e := range x.Edges {
					if s := taint[e]; s != "" {
						taint[v] = s
						changed = true
						break
					}
				}
			}
		})
	}
}

// backSlice: values the operand derives from (through arithmetic, conversions,
// phis and calls' arguments).
func backSlice(v ssa.Value) map[ssa.Value]bool {
	out := map[ssa.Value]bool{}
	var walk func(x ssa.Value, d int)
	walk = func(x ssa.Value, d int) {
		if out[x] || d > 8 {
			return
		}
		out[x] = true
		switch y := x.(type) {
		case *ssa.BinOp:
			walk(y.X, d+1)
			walk(y.Y, d+1)
		case *ssa.Convert:
			walk(y.X, d+1)
		case *ssa.Phi:
			for _, e := range y.Edges {
				walk(e, d+1)
			}
		case *ssa.Extract:
			walk(y.Tuple, d+1)
		case *ssa.Call:
			for _, a := range y.Call.Args {
				walk(a, d+1)
			}
		}
	}
	walk(v, 0)
	return out
}

// boundedAbove: is v bounded above by a dominating comparison at block b?
// A comparison bounds v if the smaller side derives from v (or from one of
// the values v derives from) and the larger side does not.
func boundedAbove(b *ssa.BasicBlock, v ssa.Value) bool {
	roots := backSlice(v)
	for k := range roots {
		if _, isK := k.(*ssa.Const); isK {
			delete(roots, k)
		}
	}
	derives := func(x ssa.Value) bool {
		for y := range backSlice(x) {
			if roots[y] {
				return true
			}
		}
		return false
	}
	for _, pf := range pathFacts(b) {
		cond, taken := pf.Cond, pf.Truth
		bo, ok := cond.(*ssa.BinOp)
		if !ok {
			continue
		}
		xr, yr := derives(bo.X), derives(bo.Y)
		switch bo.Op {
		case token.LSS, token.LEQ:
			if (xr && !yr && taken) || (yr && !xr && !taken) {
				return true
			}
		case token.GTR, token.GEQ:
			if (xr && !yr && !taken) || (yr && !xr && taken) {
				return true
			}
		}
	}
	// the bound is established by a helper of the module that was given the value and whose boolean
	// result has been tested: `if _, ok := repeatSize(len(s), i); !ok { return error }`
	for _, f := range pathFacts(b) {
		hf, h, args := helperFacts(f)
		if h == nil {
			continue
		}
		proots := map[ssa.Value]bool{}
		for i, a := range args {
			if i < len(h.Params) && derives(a) {
				proots[h.Params[i]] = true
			}
		}
		if len(proots) == 0 {
			continue
		}
		pderives := func(x ssa.Value) bool {
			for y := range backSlice(x) {
				if proots[y] {
					return true
				}
			}
			return false
		}
		for _, g := range hf {
			bo, ok := g.Cond.(*ssa.BinOp)
			if !ok {
				continue
			}
			xr, yr := pderives(bo.X), pderives(bo.Y)
			switch bo.Op {
			case token.LSS, token.LEQ:
				if (xr && !yr && g.Truth) || (yr && !xr && !g.Truth) {
					return true
				}
			case token.GTR, token.GEQ:
				if (xr && !yr && !g.Truth) || (yr && !xr && g.Truth) {
					return true
				}
			}
		}
	}
	return false
}

func ruleN2(c *Ctx) {
	sinks := 0
	// pass 1: taint of each function; tainted, unbounded arguments seed callee parameters (one level)
	paramSeed := map[*ssa.Parameter]string{}
	for _, fn := range c.P.Funcs {
		if !isProdPkg(fnPkgPath(fn)) {
			continue
		}
		taint := scriptIntTaint(fn)
		eachInstr(fn, func(in ssa.Instruction) {
			call, ok := in.(*ssa.Call)
			if !ok {
				return
			}
			cal := call.Call.StaticCallee()
			if cal == nil || cal.Blocks == nil || !strings.HasPrefix(fnPkgPath(cal), modPath) {
				return
			}
			for i, a := range call.Call.Args {
				if src := taint[a]; src != "" && i < len(cal.Params) && !boundedAbove(call.Block(), a) {
					paramSeed[cal.Params[i]] = src + " in " + fnName(fn)
				}
			}
		})
	}
	for _, fn := range c.P.Funcs {
		if !isProdPkg(fnPkgPath(fn)) {
			continue
		}
		taint := scriptIntTaint(fn)
		seeded := false
		for _, p := range fn.Params {
			if src, ok := paramSeed[p]; ok {
				taint[p] = "parameter " + p.Name() + " <- " + src
				seeded = true
			}
		}
		if seeded {
			propagateTaint(fn, taint)
		}
		eachInstr(fn, func(in ssa.Instruction) {
			var sized []ssa.Value
			what := ""
			switch x := in.(type) {
			case *ssa.MakeSlice:
				sized = []ssa.Value{x.Len, x.Cap}
				what = "make([]T, n)"
			case *ssa.MakeMap:
				if x.Reserve != nil {
					sized = []ssa.Value{x.Reserve}
					what = "make(map, n)"
				}
			case *ssa.Call:
				if cal := x.Call.StaticCallee(); cal != nil {
					switch cal.String() {
					case "strings.Repeat", "bytes.Repeat":
						sized = []ssa.Value{x.Call.Args[1]}
						what = cal.String()
					case "(*strings.Builder).Grow", "(*bytes.Buffer).Grow":
						sized = []ssa.Value{x.Call.Args[1]}
						what = cal.String()
					}
				}
			}
			if what == "" {
				return
			}
			sinks++
			for _, sv := range sized {
				src, tainted := taint[sv]
				if !tainted {
					if sv != nil {
						for y := range backSlice(sv) {
							if phi, ok := y.(*ssa.Phi); ok && isMinPhi(phi, taint) {
								c.ok(fmt.Sprintf("%s: %s sized by script integer", fnName(fn), what), c.P.Pos(in.Pos()), "size is the script integer clamped to a bound (if t > B { t = B })")
							}
						}
					}
					continue
				}
				key := fmt.Sprintf("%s: %s sized by script integer", fnName(fn), what)
				pos := c.P.Pos(in.Pos())
				if boundedAbove(in.Block(), sv) {
					c.ok(key, pos, "size ("+src+") is bounded above by a dominating comparison")
				} else {
					c.viol(key, pos, fmt.Sprintf("the allocation size depends on an integer supplied by the script (%s) with no dominating upper bound: a huge value makes the Go runtime panic (makeslice: len/cap out of range) or exhausts memory", src))
				}
			}
		})
	}
	if sinks < 40 {
		c.anchorFail("only %d allocation sites examined", sinks)
	}
	// always record the census size as one obligation so the rule is never vacuous
	c.trivial("allocation census", "-", fmt.Sprintf("%d make/Repeat/Grow sites examined for script-integer sizes", sinks))
}

// ---------- N5 ----------

var n5Safe = map[string]string{}

func ruleN5(c *Ctx) {
	vts := valueTypes(c.P)
	for _, t := range vts {
		ms := types.NewMethodSet(t)
		var sm *types.Func
		for i := 0; i < ms.Len(); i++ {
			if ms.At(i).Obj().Name() == "String" {
				sm, _ = ms.At(i).Obj().(*types.Func)
			}
		}
		if sm == nil {
			continue
		}
		fn := c.P.SSA.FuncValue(sm)
		if fn == nil || fn.Blocks == nil {
			continue
		}
		key := fnName(fn)
		pos := c.P.Pos(fn.Pos())
		// does the type hold arbitrary Values?
		var leaves []leaf
		st := deref(t)
		holds := false
		if _, ok := st.Underlying().(*types.Struct); ok {
			leafFields(st, "", map[types.Type]bool{}, &leaves)
			holds = len(leaves) > 0
		} else if valueLike(st) {
			holds = true
		}
		if !holds {
			c.trivial(key, pos, "type holds no arbitrary Values")
			continue
		}
		bad := ""
		var badFields []string
		eachInstr(fn, func(in ssa.Instruction) {
			call, ok := in.(*ssa.Call)
			if !ok || !call.Call.IsInvoke() || call.Call.Method.Name() != "String" {
				return
			}
			if !hasMethod(call.Call.Value.Type(), "Freeze") {
				return // not a Value
			}
			tr := traceValue(call.Call.Value)
			fromRecv := false
			for _, b := range tr.bases {
				if len(fn.Params) > 0 && b.v == fn.Params[0] {
					fromRecv = true
				}
			}
			if fromRecv && len(tr.fields) > 0 {
				badFields = append(badFields, tr.fields[0].Name()+" ("+c.P.Pos(call.Pos())+")")
			}
		})
		if len(badFields) > 0 {
			bad = "calls Value.String() on contained field(s) " + strings.Join(badFields, ", ")
		}
		if bad == "" {
			c.ok(key, pos, "does not print contained values through Value.String()")
		} else {
			c.viol(key, pos, "String "+bad+": the nested print starts with an empty cycle path, so a value that (through a list or dict) contains itself recurses until the stack overflows")
		}
	}
}

// isMinPhi recognises the clamp idiom `if t > B { t = B }` (phi of the
// tainted value and an untainted bound, where the tainted edge arrives only
// when t <= B): the result is bounded by B and is not treated as tainted.
func isMinPhi(phi *ssa.Phi, taint map[ssa.Value]string) bool {
	if len(phi.Edges) != 2 {
		return false
	}
	ti := -1
	for i, e := range phi.Edges {
		if taint[e] != "" {
			if ti >= 0 {
				return false
			}
			ti = i
		}
	}
	if ti < 0 {
		return false
	}
	t, bnd := phi.Edges[ti], phi.Edges[1-ti]
	if _, isPhi := bnd.(*ssa.Phi); isPhi {
		return false
	}
	d := phi.Block().Idom()
	if d == nil || len(d.Instrs) == 0 {
		return false
	}
	ifi, ok := d.Instrs[len(d.Instrs)-1].(*ssa.If)
	if !ok {
		return false
	}
	cond, neg := stripNot(ifi.Cond)
	bo, ok := cond.(*ssa.BinOp)
	if !ok {
		return false
	}
	// which successor has t <= bound ?
	var smallOnTrue bool
	switch {
	case bo.X == t && sameValue(bo.Y, bnd):
		switch bo.Op {
		case token.LSS, token.LEQ:
			smallOnTrue = true
		case token.GTR, token.GEQ:
			smallOnTrue = false
		default:
			return false
		}
	case bo.Y == t && sameValue(bo.X, bnd):
		switch bo.Op {
		case token.GTR, token.GEQ:
			smallOnTrue = true
		case token.LSS, token.LEQ:
			smallOnTrue = false
		default:
			return false
		}
	default:
		return false
	}
	if neg {
		smallOnTrue = !smallOnTrue
	}
	small := d.Succs[1]
	if smallOnTrue {
		small = d.Succs[0]
	}
	pred := phi.Block().Preds[ti]
	if pred == d {
		return small == phi.Block()
	}
	return small == pred || small.Dominates(pred)
}

// sameValue: identical SSA value, or two evaluations of the same pure
// expression (len(x)/k on the same operands) - go/ssa performs no CSE.
func sameValue(a, b ssa.Value) bool {
	if a == b {
		return true
	}
	switch x := a.(type) {
	case *ssa.BinOp:
		y, ok := b.(*ssa.BinOp)
		return ok && x.Op == y.Op && sameValue(x.X, y.X) && sameValue(x.Y, y.Y)
	case *ssa.Const:
		y, ok := b.(*ssa.Const)
		return ok && x.Value != nil && y.Value != nil && x.Value.ExactString() == y.Value.ExactString()
	case *ssa.Call:
		y, ok := b.(*ssa.Call)
		if !ok {
			return false
		}
		bx, okx := x.Call.Value.(*ssa.Builtin)
		by, oky := y.Call.Value.(*ssa.Builtin)
		return okx && oky && bx.Name() == "len" && by.Name() == "len" && sameValue(x.Call.Args[0], y.Call.Args[0])
	case *ssa.Convert:
		y, ok := b.(*ssa.Convert)
		return ok && sameValue(x.X, y.X)
	case *ssa.ChangeType:
		y, ok := b.(*ssa.ChangeType)
		return ok && sameValue(x.X, y.X)
	}
	return false
}

// ---------- N8 ----------

func init() {
	register("N8", "an exhausted iterator stays exhausted: in every Iterator.Next implementation no field of the iterator is written on a path that ends in `return false`, so calling Next again after exhaustion (the interpreter's UNPACK does, to tell too-few from too-many) finds the same state and cannot index past the end", 7, ruleN8)
	claim("C02", "N8")
}

func ruleN8(c *Ctx) {
	n := 0
	for _, fn := range c.P.Funcs {
		if !isProdPkg(fnPkgPath(fn)) || fn.Name() != "Next" || fn.Signature.Recv() == nil || fn.Blocks == nil {
			continue
		}
		sig := fn.Signature
		if sig.Params().Len() != 1 || sig.Results().Len() != 1 {
			continue
		}
		if b, ok := sig.Results().At(0).Type().Underlying().(*types.Basic); !ok || b.Kind() != types.Bool {
			continue
		}
		if _, ok := sig.Recv().Type().(*types.Pointer); !ok {
			continue
		}
		n++
		recv := fn.Params[0]
		// blocks from which control leaves with result false
		var falseExits []*ssa.BasicBlock
		eachInstr(fn, func(in ssa.Instruction) {
			ret, ok := in.(*ssa.Return)
			if !ok || len(ret.Results) != 1 {
				return
			}
			switch r := ret.Results[0].(type) {
			case *ssa.Const:
				if r.Value != nil && r.Value.String() == "false" {
					falseExits = append(falseExits, ret.Block())
				}
			case *ssa.Phi:
				for i, e := range r.Edges {
					if k, ok := e.(*ssa.Const); ok && k.Value != nil && k.Value.String() == "false" {
						falseExits = append(falseExits, r.Block().Preds[i])
					}
				}
			default:
				// computed result (e.g. delegating to another iterator): nothing to say
			}
		})
		key := fnName(fn) + ": exhausted path"
		pos := c.P.Pos(fn.Pos())
		bad := ""
		eachInstr(fn, func(in ssa.Instruction) {
			st, ok := in.(*ssa.Store)
			if !ok {
				return
			}
			fa, ok := st.Addr.(*ssa.FieldAddr)
			if !ok || fa.X != ssa.Value(recv) {
				return
			}
			for _, ex := range falseExits {
				if st.Block() == ex || blockReaches(st.Block(), ex) {
					stt := deref(recv.Type()).Underlying().(*types.Struct)
					bad = fmt.Sprintf("field %s is written at %s on a path that then returns false", stt.Field(fa.Field).Name(), c.P.Pos(st.Pos()))
				}
			}
		})
		switch {
		case bad != "":
			c.viol(key, pos, "Next changes the iterator's state when it reports exhaustion ("+bad+"): a second call after exhaustion sees a different state (a cursor past the end indexes out of range, a host panic)")
		case len(falseExits) == 0:
			c.trivial(key, pos, "no constant-false exit (delegates)")
		default:
			c.ok(key, pos, fmt.Sprintf("%d exhausted exit(s), none preceded by a write to the iterator", len(falseExits)))
		}
	}
	if n < 7 {
		c.anchorFail("only %d Next methods found", n)
	}
}
