package main

import (
	"fmt"
	"go/token"
	"go/types"
	"strings"

	"golang.org/x/tools/go/ssa"
)

func init() {
	register("S1", "in the interpreter loop of CallInternal the step increment, the step-limit test (whose reached-edge cancels) and the cancelReason.Load test (whose non-nil edge leaves the loop) all dominate the instruction fetch, lie inside the loop, and occur in that order; fr.pc is saved before the fetch", 5, ruleS1)
	register("S2", "the step-limit branch is taken iff Steps >= maxSteps after the increment (a '>' would let the thread execute step N), and maxSteps is read inside the loop on every iteration", 1, ruleS2)
	register("S3", "cancellation state discipline: Thread.cancelReason is touched only through atomic.Pointer methods; Cancel uses CompareAndSwap(nil, ...) (first reason wins), Uncancel uses Store(nil), nothing else stores; Thread.Steps is written only by the interpreter loop's increment", 4, ruleS3)
	register("S4", "every path from CallInternal's entry to the interpreter loop passes the call-depth test (when recursion is enabled) or the scan comparing the callee's *Funcode with every enclosing frame's (when it is not), each of which returns an error", 3, ruleS4)
}

func reachable(from, to *ssa.BasicBlock) bool {
	seen := map[*ssa.BasicBlock]bool{}
	var dfs func(b *ssa.BasicBlock) bool
	dfs = func(b *ssa.BasicBlock) bool {
		if b == to {
			return true
		}
		if seen[b] {
			return false
		}
		seen[b] = true
		for _, s := range b.Succs {
			if dfs(s) {
				return true
			}
		}
		return false
	}
	for _, s := range from.Succs {
		if dfs(s) {
			return true
		}
	}
	return false
}

// fieldStore: is in a Store to field `field` of a struct named owner?
func storeToField(in ssa.Instruction, owner, field string) (*ssa.Store, bool) {
	st, ok := in.(*ssa.Store)
	if !ok {
		return nil, false
	}
	fa, ok := st.Addr.(*ssa.FieldAddr)
	if !ok {
		return nil, false
	}
	stt := deref(fa.X.Type()).Underlying().(*types.Struct)
	if stt.Field(fa.Field).Name() != field || qualType(fa.X.Type()) != owner {
		return nil, false
	}
	return st, true
}

// loadsField: does v derive (through loads/binops with constants/converts) from a load of owner.field?
func derivesFromField(v ssa.Value, owner, field string) bool {
	seen := map[ssa.Value]bool{}
	var walk func(v ssa.Value) bool
	walk = func(v ssa.Value) bool {
		if seen[v] {
			return false
		}
		seen[v] = true
		switch x := v.(type) {
		case *ssa.UnOp:
			if x.Op == token.MUL {
				if fa, ok := x.X.(*ssa.FieldAddr); ok {
					stt := deref(fa.X.Type()).Underlying().(*types.Struct)
					if stt.Field(fa.Field).Name() == field && qualType(fa.X.Type()) == owner {
						return true
					}
				}
				return false
			}
			return walk(x.X)
		case *ssa.BinOp:
			return walk(x.X) || walk(x.Y)
		case *ssa.Convert:
			return walk(x.X)
		case *ssa.ChangeType:
			return walk(x.X)
		case *ssa.Phi:
			for _, e := range x.Edges {
				if walk(e) {
					return true
				}
			}
		case *ssa.Field:
			stt := x.X.Type().Underlying().(*types.Struct)
			if stt.Field(x.Field).Name() == field && qualType(x.X.Type()) == owner {
				return true
			}
		}
		return false
	}
	return walk(v)
}

type loopFacts struct {
	fn        *ssa.Function
	fetch     ssa.Instruction
	stepStore []*ssa.Store
	limitIf   *ssa.If
	limitCmp  *ssa.BinOp
	cancelLd  *ssa.Call
	cancelIf  *ssa.If
	pcStore   *ssa.Store
	// facts found in a helper that the loop calls with the thread (countStep ...): the call
	// in CallInternal that stands for them
	site    map[ssa.Instruction]ssa.Instruction
	helpers map[*ssa.Function]bool
}

// anchor: the instruction of CallInternal at which `in` takes effect.
func (lf *loopFacts) anchor(in ssa.Instruction) ssa.Instruction {
	if s, ok := lf.site[in]; ok {
		return s
	}
	return in
}

// before: a is executed before b on every path reaching b (a and b may live in a loop helper).
func (lf *loopFacts) before(a, b ssa.Instruction) bool {
	if a.Parent() == b.Parent() {
		return instrDominates(a, b)
	}
	return lf.always(a) && instrDominates(lf.anchor(a), lf.anchor(b))
}

// always: inside a helper, the instruction runs on every call that returns
// (its block dominates every return).
func (lf *loopFacts) always(in ssa.Instruction) bool {
	if _, ok := lf.site[in]; !ok {
		return true
	}
	for _, b := range in.Parent().Blocks {
		if len(b.Instrs) > 0 {
			if _, isRet := b.Instrs[len(b.Instrs)-1].(*ssa.Return); isRet {
				if !(in.Block() == b || in.Block().Dominates(b)) {
					return false
				}
			}
		}
	}
	return true
}

func gatherLoop(c *Ctx) *loopFacts {
	fn := c.P.Func("starlark", "Function.CallInternal")
	if fn == nil {
		c.anchorFail("(*starlark.Function).CallInternal not found")
		return nil
	}
	lf := &loopFacts{fn: fn, site: map[ssa.Instruction]ssa.Instruction{}, helpers: map[*ssa.Function]bool{}}
	lf.fetch = findFetch(fn)
	if lf.fetch == nil {
		c.anchorFail("cannot locate the instruction fetch (code[pc]) in CallInternal")
		return nil
	}
	scan := func(g *ssa.Function, site ssa.Instruction) {
		eachInstr(g, func(in ssa.Instruction) {
			found := false
			if st, ok := storeToField(in, "starlark.Thread", "Steps"); ok {
				lf.stepStore = append(lf.stepStore, st)
				found = true
			}
			if st, ok := storeToField(in, "starlark.frame", "pc"); ok && lf.pcStore == nil {
				lf.pcStore = st
				found = true
			}
			if ifi, ok := in.(*ssa.If); ok {
				cond, _ := stripNot(ifi.Cond)
				if b, ok := cond.(*ssa.BinOp); ok {
					xs, ys := derivesFromField(b.X, "starlark.Thread", "Steps"), derivesFromField(b.Y, "starlark.Thread", "Steps")
					xm, ym := derivesFromField(b.X, "starlark.Thread", "maxSteps"), derivesFromField(b.Y, "starlark.Thread", "maxSteps")
					if (xs && ym) || (ys && xm) {
						lf.limitIf, lf.limitCmp = ifi, b
						found = true
						if site != nil {
							lf.site[b] = site
						}
					}
					if v, _, ok := nilTest(cond); ok {
						if call, ok := v.(*ssa.Call); ok && isCancelLoad(call) {
							lf.cancelLd, lf.cancelIf = call, ifi
							found = true
							if site != nil {
								lf.site[call] = site
							}
						}
					}
				}
			}
			if found && site != nil {
				lf.site[in] = site
			}
		})
	}
	scan(fn, nil)
	// helpers of the loop: functions of the package called with the thread from inside the loop, before the fetch
	var thread ssa.Value
	for _, p := range fn.Params {
		if qualType(p.Type()) == "starlark.Thread" {
			thread = p
		}
	}
	fb := lf.fetch.Block()
	eachInstr(fn, func(in ssa.Instruction) {
		call, ok := in.(*ssa.Call)
		if !ok || thread == nil {
			return
		}
		cal := call.Call.StaticCallee()
		if cal == nil || cal.Blocks == nil || fnPkgPath(cal) != modPath+"/starlark" || lf.helpers[cal] {
			return
		}
		takesThread := false
		for _, a := range call.Call.Args {
			if a == thread {
				takesThread = true
			}
		}
		if !takesThread || !instrDominates(call, lf.fetch) || !(call.Block() == fb || reachable(fb, call.Block())) {
			return
		}
		// only helpers that touch the step accounting
		touches := false
		eachInstr(cal, func(in2 ssa.Instruction) {
			if _, ok := storeToField(in2, "starlark.Thread", "Steps"); ok {
				touches = true
			}
		})
		if touches {
			lf.helpers[cal] = true
			scan(cal, call)
		}
	})
	return lf
}

func isCancelLoad(call *ssa.Call) bool {
	cal := call.Call.StaticCallee()
	if cal == nil || baseName(cal) != "Load" || len(call.Call.Args) == 0 {
		return false
	}
	tr := traceAddr(call.Call.Args[0])
	return len(tr.fields) > 0 && tr.fields[0].Name() == "cancelReason"
}

func ruleS1(c *Ctx) {
	lf := gatherLoop(c)
	if lf == nil {
		return
	}
	fb := lf.fetch.Block()
	inLoop := func(in ssa.Instruction) bool { return in.Block() == fb || reachable(fb, in.Block()) }
	pos := func(in ssa.Instruction) string { return c.P.Pos(in.Pos()) }

	// step increment
	key := "CallInternal loop: step increment"
	switch {
	case len(lf.stepStore) == 0:
		c.viol(key, c.P.Pos(lf.fn.Pos()), "no store to thread.Steps in CallInternal: steps are not counted")
	case len(lf.stepStore) > 1:
		c.viol(key, pos(lf.stepStore[1]), "more than one store to thread.Steps in CallInternal")
	default:
		st := lf.stepStore[0]
		isInc := false
		if b, ok := st.Val.(*ssa.BinOp); ok && b.Op == token.ADD {
			if k, isK := constInt(b.Y); isK && k == 1 && derivesFromField(b.X, "starlark.Thread", "Steps") {
				isInc = true
			}
		}
		switch {
		case !isInc:
			c.viol(key, pos(st), "thread.Steps is not incremented by exactly one")
		case !lf.before(st, lf.fetch):
			c.viol(key, pos(st), "the step increment does not dominate the instruction fetch: some instruction executes uncounted")
		case !inLoop(lf.anchor(st)):
			c.viol(key, pos(st), "the step increment is outside the interpreter loop (executed once per call, not once per instruction)")
		default:
			c.ok(key, pos(st), "single Steps+1 store, inside the loop, dominating the fetch")
		}
	}
	// limit test
	key = "CallInternal loop: step-limit test"
	switch {
	case lf.limitIf == nil:
		c.viol(key, c.P.Pos(lf.fn.Pos()), "no branch comparing thread.Steps with thread.maxSteps")
	case !lf.before(lf.limitIf, lf.fetch) || !inLoop(lf.anchor(lf.limitIf)):
		c.viol(key, pos(lf.limitCmp), "the step-limit test does not dominate the fetch inside the loop")
	case len(lf.stepStore) == 1 && !lf.before(lf.stepStore[0], lf.limitIf):
		c.viol(key, pos(lf.limitCmp), "the limit is tested before the increment")
	default:
		c.ok(key, pos(lf.limitCmp), "dominates the fetch, after the increment")
	}
	// cancel test
	key = "CallInternal loop: cancellation test"
	switch {
	case lf.cancelLd == nil:
		c.viol(key, c.P.Pos(lf.fn.Pos()), "no nil-test of thread.cancelReason.Load() in CallInternal: cancellation is never observed")
	case !lf.before(lf.cancelIf, lf.fetch) || !inLoop(lf.anchor(lf.cancelIf)):
		c.viol(key, pos(lf.cancelLd), "the cancellation test does not dominate the fetch inside the loop")
	default:
		// non-nil edge must leave the loop
		_, neq, _ := nilTest(firstCond(lf.cancelIf))
		b := lf.cancelIf.Block()
		nonNil := b.Succs[0]
		if !neq {
			nonNil = b.Succs[1]
		}
		if _, n := stripNot(lf.cancelIf.Cond); n {
			if nonNil == b.Succs[0] {
				nonNil = b.Succs[1]
			} else {
				nonNil = b.Succs[0]
			}
		}
		if nonNil == fb || reachable(nonNil, fb) || nonNil.Dominates(fb) {
			c.viol(key, pos(lf.cancelLd), "after observing a cancel reason execution can still reach the instruction fetch")
		} else if lf.limitIf != nil && !lf.before(lf.limitIf, lf.cancelIf) {
			c.viol(key, pos(lf.cancelLd), "cancellation is tested before the step-limit test: the cancellation raised by reaching the limit is only seen one instruction later, so step N executes")
		} else {
			c.ok(key, pos(lf.cancelLd), "dominates the fetch; non-nil edge leaves the loop; after the limit test")
		}
	}
	// limit edge cancels
	key = "CallInternal loop: limit edge cancels"
	if lf.limitIf != nil {
		reached := limitReachedSucc(lf)
		found := false
		if reached != nil {
			// blocks dominated by reached (until merge)
			for _, b := range lf.limitIf.Parent().Blocks {
				if b == reached || reached.Dominates(b) {
					for _, in := range b.Instrs {
						if call, ok := in.(*ssa.Call); ok {
							if cal := call.Call.StaticCallee(); cal != nil && methodIs(cal, "starlark", "Thread", "Cancel") {
								found = true
							}
							if !call.Call.IsInvoke() && call.Call.StaticCallee() == nil && derivesFromField(call.Call.Value, "starlark.Thread", "OnMaxSteps") {
								found = true
							}
							// the action may live in a helper (thread.stepLimitReached()): every path through it cancels or calls the hook
							if cal := call.Call.StaticCallee(); cal != nil && cal.Blocks != nil && fnPkgPath(cal) == modPath+"/starlark" && !found {
								acts := func(x ssa.Instruction) bool {
									c2, ok := x.(*ssa.Call)
									if !ok {
										return false
									}
									if cc := c2.Call.StaticCallee(); cc != nil && methodIs(cc, "starlark", "Thread", "Cancel") {
										return true
									}
									return !c2.Call.IsInvoke() && c2.Call.StaticCallee() == nil && derivesFromField(c2.Call.Value, "starlark.Thread", "OnMaxSteps")
								}
								any := false
								eachInstr(cal, func(x ssa.Instruction) {
									if acts(x) {
										any = true
									}
								})
								if any && len(cal.Blocks) > 0 && len(cal.Blocks[0].Instrs) > 0 {
									first := cal.Blocks[0].Instrs[0]
									leak := pathAvoiding(first, acts, func(x ssa.Instruction) bool { _, ok := x.(*ssa.Return); return ok })
									if leak == nil && !acts(first) || acts(first) {
										found = true
									}
								}
							}
						}
					}
				}
			}
		}
		if found {
			c.ok(key, pos(lf.limitCmp), "the limit-reached edge calls Thread.Cancel or the OnMaxSteps hook")
		} else {
			c.viol(key, pos(lf.limitCmp), "the limit-reached edge neither cancels the thread nor calls OnMaxSteps")
		}
	}
	// pc saved
	key = "CallInternal loop: fr.pc saved"
	if lf.pcStore != nil && instrDominates(lf.pcStore, lf.fetch) && inLoop(lf.pcStore) {
		c.ok(key, pos(lf.pcStore), "fr.pc = pc dominates the fetch inside the loop")
	} else {
		c.viol(key, c.P.Pos(lf.fn.Pos()), "fr.pc is not saved before each instruction fetch: error positions would be stale")
	}
}

func firstCond(i *ssa.If) ssa.Value { v, _ := stripNot(i.Cond); return v }

// limitReachedSucc returns the successor taken when Steps >= maxSteps, nil if
// the relation is not recognisable.
func limitReachedSucc(lf *loopFacts) *ssa.BasicBlock {
	b := lf.limitCmp
	_, neg := stripNot(lf.limitIf.Cond)
	stepsLeft := derivesFromField(b.X, "starlark.Thread", "Steps")
	op := b.Op
	if !stepsLeft {
		switch op {
		case token.LSS:
			op = token.GTR
		case token.LEQ:
			op = token.GEQ
		case token.GTR:
			op = token.LSS
		case token.GEQ:
			op = token.LEQ
		}
	}
	blk := lf.limitIf.Block()
	t, f := blk.Succs[0], blk.Succs[1]
	if neg {
		t, f = f, t
	}
	switch op {
	case token.GEQ, token.GTR:
		return t
	case token.LSS, token.LEQ:
		return f
	}
	return nil
}

func ruleS2(c *Ctx) {
	lf := gatherLoop(c)
	if lf == nil {
		return
	}
	key := "CallInternal loop: limit relation"
	if lf.limitCmp == nil {
		c.viol(key, c.P.Pos(lf.fn.Pos()), "no comparison of thread.Steps with thread.maxSteps")
		return
	}
	b := lf.limitCmp
	stepsLeft := derivesFromField(b.X, "starlark.Thread", "Steps")
	op := b.Op
	if !stepsLeft {
		switch op {
		case token.LSS:
			op = token.GTR
		case token.LEQ:
			op = token.GEQ
		case token.GTR:
			op = token.LSS
		case token.GEQ:
			op = token.LEQ
		}
	}
	// the compared Steps value must be the incremented one (same value as stored, or a load after the store)
	post := false
	if len(lf.stepStore) == 1 {
		sv := lf.stepStore[0].Val
		side := b.X
		if !stepsLeft {
			side = b.Y
		}
		if side == sv {
			post = true
		}
		if ld, ok := side.(*ssa.UnOp); ok && ld.Op == token.MUL && lf.before(lf.stepStore[0], ld) {
			post = true
		}
	}
	pos := c.P.Pos(b.Pos())
	// the limit must be read afresh in every iteration: the host may lower it while the
	// thread runs (SetMaxExecutionSteps from a built-in), and frames already active must see it
	limitSide := b.Y
	if !stepsLeft {
		limitSide = b.X
	}
	stale := ""
	var findLoad func(v ssa.Value, d int)
	findLoad = func(v ssa.Value, d int) {
		if d > 6 {
			return
		}
		switch x := v.(type) {
		case *ssa.UnOp:
			if x.Op == token.MUL {
				if _, ok := x.X.(*ssa.FieldAddr); ok {
					ab := x.Block()
					if site, ok := lf.site[ssa.Instruction(b)]; ok && x.Parent() != lf.fn {
						ab = site.Block() // read inside a helper that the loop calls on every iteration
					}
					if !blockReaches(ab, ab) {
						stale = c.P.Pos(x.Pos())
					}
					return
				}
			}
			findLoad(x.X, d+1)
		case *ssa.Convert:
			findLoad(x.X, d+1)
		case *ssa.ChangeType:
			findLoad(x.X, d+1)
		case *ssa.BinOp:
			findLoad(x.X, d+1)
			findLoad(x.Y, d+1)
		case *ssa.Phi:
			for _, e := range x.Edges {
				findLoad(e, d+1)
			}
		}
	}
	findLoad(limitSide, 0)
	if stale != "" {
		c.viol(key, pos, fmt.Sprintf("the limit compared with Steps is read outside the interpreter loop (%s): a frame that is already running keeps the limit it saw when it was entered, so lowering the limit during execution does not stop it", stale))
		return
	}
	switch {
	case op != token.GEQ && op != token.LSS:
		c.viol(key, pos, fmt.Sprintf("the limit comparison is Steps %s maxSteps; it must be >= (or its negation <) so that a limit of N stops before executing step N", op))
	case !post:
		c.viol(key, pos, "the comparison uses the pre-increment step count")
	default:
		c.ok(key, pos, "Steps(after increment) >= maxSteps")
	}
}

func ruleS3(c *Ctx) {
	// all uses of Thread.cancelReason
	uses := 0
	for _, fn := range c.P.Funcs {
		eachInstr(fn, func(in ssa.Instruction) {
			fa, ok := in.(*ssa.FieldAddr)
			if !ok || qualType(fa.X.Type()) != "starlark.Thread" {
				return
			}
			stt := deref(fa.X.Type()).Underlying().(*types.Struct)
			if stt.Field(fa.Field).Name() != "cancelReason" {
				return
			}
			refs := fa.Referrers()
			if refs == nil {
				return
			}
			for _, r := range *refs {
				uses++
				key := fmt.Sprintf("%s: cancelReason use", fnName(fn))
				pos := c.P.Pos(r.Pos())
				ci, ok := r.(ssa.CallInstruction)
				if !ok || ci.Common().StaticCallee() == nil || len(ci.Common().Args) == 0 || ci.Common().Args[0] != fa {
					c.viol(key, pos, fmt.Sprintf("thread.cancelReason is used other than as the receiver of an atomic.Pointer method (%T)", r))
					continue
				}
				cal := ci.Common().StaticCallee()
				if !strings.HasPrefix(cal.String(), "(*sync/atomic.Pointer[") {
					c.viol(key, pos, "thread.cancelReason is passed to "+cal.String())
					continue
				}
				args := ci.Common().Args
				switch baseName(cal) {
				case "Load":
					c.ok(key+" Load", pos, "atomic load")
				case "CompareAndSwap":
					if fn.Name() == "Cancel" && isNilConst(args[1]) {
						c.ok(key+" CompareAndSwap", pos, "Cancel: CompareAndSwap(nil, &reason) - the first reason wins")
					} else {
						c.viol(key+" CompareAndSwap", pos, "CompareAndSwap on cancelReason outside Cancel or with a non-nil expected value: a later reason could replace the first")
					}
				case "Store":
					if fn.Name() == "Uncancel" && isNilConst(args[1]) {
						c.ok(key+" Store", pos, "Uncancel: Store(nil)")
					} else {
						c.viol(key+" Store", pos, "cancelReason.Store outside Uncancel(nil): an unconditional store lets a later Cancel overwrite the first reason, or clears a pending cancellation")
					}
				default:
					c.viol(key+" "+baseName(cal), pos, "unexpected atomic operation on cancelReason")
				}
			}
		})
	}
	if uses == 0 {
		c.anchorFail("no use of Thread.cancelReason found")
	}
	// Steps stores
	n := 0
	for _, fn := range c.P.Funcs {
		if !isProdPkg(fnPkgPath(fn)) {
			continue
		}
		eachInstr(fn, func(in ssa.Instruction) {
			if st, ok := storeToField(in, "starlark.Thread", "Steps"); ok {
				n++
				key := fmt.Sprintf("%s: store Thread.Steps", fnName(fn))
				if methodIs(fn, "starlark", "Function", "CallInternal") {
					c.ok(key, c.P.Pos(st.Pos()), "the interpreter loop's increment")
				} else if lf := gatherLoop(c); lf != nil && lf.helpers[fn] && len(callersOf(c.P, fn)) == 1 {
					c.ok(key, c.P.Pos(st.Pos()), "the interpreter loop's increment, in a helper called only from the loop")
				} else {
					c.viol(key, c.P.Pos(st.Pos()), "thread.Steps is written outside the interpreter loop: the step count no longer equals the number of executed instructions")
				}
			}
		})
	}
}

func ruleS4(c *Ctx) {
	lf := gatherLoop(c)
	if lf == nil {
		return
	}
	fn := lf.fn
	var recIf *ssa.If
	eachInstr(fn, func(in ssa.Instruction) {
		if ifi, ok := in.(*ssa.If); ok && recIf == nil {
			cond, _ := stripNot(ifi.Cond)
			if derivesFromField(cond, "internal/compile.Program", "Recursion") {
				recIf = ifi
			}
		}
	})
	key := "CallInternal: recursion option branch"
	inHelper := false
	if recIf == nil {
		// the check may live in a helper whose success dominates the loop: if err := checkCallDepth(thread, fn); err != nil { return }
		eachInstr(lf.fn, func(in ssa.Instruction) {
			call, ok := in.(*ssa.Call)
			if !ok || recIf != nil || in.Parent() != lf.fn {
				return
			}
			cal := call.Call.StaticCallee()
			if cal == nil || cal.Blocks == nil || fnPkgPath(cal) != modPath+"/starlark" {
				return
			}
			res := cal.Signature.Results()
			if res.Len() == 0 || res.At(res.Len()-1).Type().String() != "error" {
				return
			}
			var errRes ssa.Value = call
			if res.Len() > 1 {
				errRes = nil
				for _, r := range *call.Referrers() {
					if ex, ok := r.(*ssa.Extract); ok && ex.Index == res.Len()-1 {
						errRes = ex
					}
				}
			}
			if errRes == nil || !dominatedByNilErr(lf.fetch.Block(), errRes) {
				return
			}
			eachInstr(cal, func(in2 ssa.Instruction) {
				if ifi, ok := in2.(*ssa.If); ok && recIf == nil && in2.Parent() == cal {
					cond, _ := stripNot(ifi.Cond)
					if derivesFromField(cond, "internal/compile.Program", "Recursion") {
						recIf = ifi
						fn = cal
						inHelper = true
					}
				}
			})
		})
	}
	if recIf == nil {
		c.viol(key, c.P.Pos(fn.Pos()), "CallInternal no longer branches on Program.Recursion before the loop")
		return
	}
	if !inHelper && !instrDominates(recIf, lf.fetch) {
		c.viol(key, c.P.Pos(recIf.Pos()), "the Recursion branch does not dominate the interpreter loop")
		return
	}
	if inHelper {
		// every successful return of the helper passes the branch
		okDom := true
		for _, b := range fn.Blocks {
			if len(b.Instrs) == 0 {
				continue
			}
			if ret, ok := b.Instrs[len(b.Instrs)-1].(*ssa.Return); ok && isNilConst(ret.Results[len(ret.Results)-1]) {
				if !(recIf.Block() == b || recIf.Block().Dominates(b)) {
					okDom = false
				}
			}
		}
		if !okDom {
			c.viol(key, c.P.Pos(recIf.Pos()), "the helper that checks the call depth can succeed without passing the Recursion branch")
			return
		}
	}
	c.ok(key, c.P.Pos(recIf.Pos()), "branch on Program.Recursion dominates the loop")
	_, neg := stripNot(recIf.Cond)
	tb, fb := recIf.Block().Succs[0], recIf.Block().Succs[1]
	if neg {
		tb, fb = fb, tb
	}
	within := func(root, b *ssa.BasicBlock) bool { return b == root || root.Dominates(b) }
	returnsErr := func(b *ssa.BasicBlock) bool {
		// block (or its unique chain) returns a non-nil error
		for i := 0; i < 3 && b != nil; i++ {
			for _, in := range b.Instrs {
				if r, ok := in.(*ssa.Return); ok {
					if len(r.Results) >= 1 && !isNilConst(r.Results[len(r.Results)-1]) {
						return true
					}
					return false
				}
			}
			if len(b.Succs) == 1 {
				b = b.Succs[0]
			} else {
				b = nil
			}
		}
		return false
	}
	// depth test
	depthOK, scanOK := false, false
	var depthPos, scanPos token.Pos
	eachInstr(fn, func(in ssa.Instruction) {
		ifi, ok := in.(*ssa.If)
		if !ok {
			return
		}
		b, ok := ifi.Cond.(*ssa.BinOp)
		if !ok {
			return
		}
		blk := ifi.Block()
		if within(tb, blk) && (b.Op == token.GTR || b.Op == token.GEQ) {
			if call, ok := b.X.(*ssa.Call); ok {
				if bi, ok := call.Call.Value.(*ssa.Builtin); ok && bi.Name() == "len" && derivesFromField(call.Call.Args[0], "starlark.Thread", "stack") {
					if _, isK := constInt(b.Y); isK && returnsErr(blk.Succs[0]) {
						depthOK, depthPos = true, b.Pos()
					}
				}
			}
		}
		if within(fb, blk) && b.Op == token.EQL {
			if isNamed(b.X.Type(), "internal/compile", "Funcode") && isNamed(b.Y.Type(), "internal/compile", "Funcode") && returnsErr(blk.Succs[0]) {
				// one side is fn.funcode, the other comes from a frame's callable
				scanOK, scanPos = true, b.Pos()
			}
		}
	})
	if depthOK {
		c.ok("CallInternal: depth limit (recursion enabled)", c.P.Pos(depthPos), "len(thread.stack) > K returns an error")
	} else {
		c.viol("CallInternal: depth limit (recursion enabled)", c.P.Pos(recIf.Pos()), "with recursion enabled there is no call-depth test returning an error before the loop: unbounded recursion exhausts the Go stack")
	}
	if scanOK {
		c.ok("CallInternal: recursion scan (recursion disabled)", c.P.Pos(scanPos), "compares *Funcode of the callee with enclosing frames' and returns an error on equality")
	} else {
		c.viol("CallInternal: recursion scan (recursion disabled)", c.P.Pos(recIf.Pos()), "with recursion disabled there is no scan comparing function code (*Funcode) identity that returns an error")
	}
}

// baseName strips generic instantiation brackets from a function name.
func baseName(fn *ssa.Function) string {
	n := fn.Name()
	if i := strings.Index(n, "["); i >= 0 {
		n = n[:i]
	}
	return n
}

func init() {
	register("S6", "cancellation is sticky: only the host can reset it - no function of the module calls Thread.Uncancel (an implicit reset, e.g. when the step budget is raised, would erase a pending host Cancel and let the thread run on)", 1, ruleS6)
	claim("C07", "S6")
}

func ruleS6(c *Ctx) {
	un := c.P.Func("starlark", "Thread.Uncancel")
	if un == nil {
		c.anchorFail("(*starlark.Thread).Uncancel not found")
		return
	}
	n := 0
	for _, fn := range c.P.Funcs {
		// every package of the module that ships to hosts, the test helpers (starlarktest's assert.fails)
		// and the REPL included: they run on the host's threads
		if !strings.HasPrefix(fnPkgPath(fn), modPath) || strings.HasSuffix(c.P.Fset.Position(fn.Pos()).Filename, "_test.go") {
			continue
		}
		fn := fn
		eachInstr(fn, func(in ssa.Instruction) {
			hit := false
			switch x := in.(type) {
			case ssa.CallInstruction:
				hit = x.Common().StaticCallee() == un
			case *ssa.MakeClosure:
				hit = x.Fn == ssa.Value(un)
			}
			if !hit {
				// method value thread.Uncancel
				var ops []*ssa.Value
				for _, op := range in.Operands(ops) {
					if op != nil && *op != nil {
						if f, ok := (*op).(*ssa.Function); ok && (f == un || (f.Synthetic != "" && strings.Contains(f.Name(), "Uncancel") && strings.Contains(f.String(), "starlark.Thread"))) {
							if _, isCall := in.(ssa.CallInstruction); !isCall {
								hit = true
							}
						}
					}
				}
			}
			if hit {
				n++
				c.viol(fmt.Sprintf("%s: calls Thread.Uncancel", fnName(fn)), c.P.Pos(in.Pos()), "the module resets the thread's cancellation by itself: a Cancel issued by the host before this point is lost and the thread continues to execute")
			}
		})
	}
	if n == 0 {
		c.ok("Thread.Uncancel: callers inside the module", c.P.Pos(un.Pos()), "none: only the host application resets cancellation")
	}
}
