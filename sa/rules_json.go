package main

import (
	"fmt"
	"go/token"
	"math"
	"strings"

	"golang.org/x/tools/go/ssa"
)

func init() {
	register("J2", "non-finite floats never reach the output and floats are written through Float.String (whose text always has a decimal point or exponent): the Float arm of json.encode's emitter is guarded by isFinite and calls no other float formatter", 1, ruleJ2)
	register("J3", "object members are emitted in sorted key order: in the mapping and attribute arms of the emitter a sort call dominates every recursive emit of a member value", 2, ruleJ3)
	register("J4", "emitter arms: json.encode's type switch has arms for NoneType, Bool, Int, Float, String, IterableMapping, Iterable and HasAttrs, with IterableMapping tested before Iterable (a dict is also iterable)", 8, ruleJ4)
}

func jsonEmit(c *Ctx) *ssa.Function {
	enc := c.P.Func("lib/json", "encode")
	if enc == nil {
		c.anchorFail("lib/json.encode not found")
		return nil
	}
	// the emitter: the function of lib/json (closure of encode, or a method of an
	// encoder type) whose type switch has an arm for starlark.Float
	var cands []*ssa.Function
	for _, fn := range c.P.Funcs {
		if fnPkgPath(fn) != modPath+"/lib/json" {
			continue
		}
		found := false
		eachInstr(fn, func(in ssa.Instruction) {
			if ta, ok := in.(*ssa.TypeAssert); ok && ta.CommaOk && qualType(ta.AssertedType) == "starlark.Float" {
				found = true
			}
		})
		if found {
			cands = append(cands, fn)
		}
	}
	// it must be reachable from encode
	for _, fn := range cands {
		if outermost(fn) == enc || reachesStatic(enc, fn, 20) {
			return fn
		}
	}
	c.anchorFail("emitter of lib/json.encode not found")
	return nil
}

// armFuncs returns the emitter restricted to an arm plus the package-local
// helpers called from that arm (emitMapping, emitAttrs, ...).
func armHelpers(em *ssa.Function, root *ssa.BasicBlock) []*ssa.Function {
	var out []*ssa.Function
	seen := map[*ssa.Function]bool{em: true}
	for _, b := range em.Blocks {
		if !inArm(root, b) {
			continue
		}
		for _, in := range b.Instrs {
			if ci, ok := in.(ssa.CallInstruction); ok {
				if cal := ci.Common().StaticCallee(); cal != nil && cal.Blocks != nil && fnPkgPath(cal) == fnPkgPath(em) && !seen[cal] {
					seen[cal] = true
					out = append(out, cal)
				}
			}
		}
	}
	return out
}

// isRecursiveEmit: a call back into the emitter (through the captured closure
// variable, or a direct call of the emitter method).
func isRecursiveEmit(em *ssa.Function, call *ssa.Call) bool {
	if call.Call.StaticCallee() == em {
		return true
	}
	if call.Call.StaticCallee() == nil && !call.Call.IsInvoke() {
		if ld, ok := call.Call.Value.(*ssa.UnOp); ok && ld.Op == token.MUL {
			if fv, ok := ld.X.(*ssa.FreeVar); ok && fv.Name() == "emit" {
				return true
			}
		}
	}
	return false
}

// armRoot returns the block entered when x.(T) succeeds in the emitter's type switch.
func armRoot(fn *ssa.Function, typeName string) (*ssa.BasicBlock, int) {
	idx := 0
	var root *ssa.BasicBlock
	pos := -1
	eachInstr(fn, func(in ssa.Instruction) {
		ta, ok := in.(*ssa.TypeAssert)
		if !ok || !ta.CommaOk {
			return
		}
		idx++
		if qualType(ta.AssertedType) != typeName || root != nil {
			return
		}
		for _, r := range *ta.Referrers() {
			if ex, ok := r.(*ssa.Extract); ok && ex.Index == 1 {
				for _, r2 := range *ex.Referrers() {
					if ifi, ok := r2.(*ssa.If); ok {
						root = ifi.Block().Succs[0]
						pos = idx
					}
				}
			}
		}
	})
	return root, pos
}

func inArm(root, b *ssa.BasicBlock) bool { return root != nil && (b == root || root.Dominates(b)) }

func ruleJ2(c *Ctx) {
	em := jsonEmit(c)
	if em == nil {
		return
	}
	root, _ := armRoot(em, "starlark.Float")
	key := "lib/json.encode: Float arm"
	if root == nil {
		c.viol(key, c.P.Pos(em.Pos()), "the emitter has no arm for starlark.Float")
		return
	}
	var strCall *ssa.Call
	other := ""
	eachInstr(em, func(in ssa.Instruction) {
		call, ok := in.(*ssa.Call)
		if !ok || !inArm(root, call.Block()) {
			return
		}
		cal := call.Call.StaticCallee()
		if cal == nil {
			return
		}
		if methodIsVal(cal, "starlark", "Float", "String") {
			strCall = call
		}
		switch cal.String() {
		case "strconv.AppendFloat", "strconv.FormatFloat", "fmt.Sprintf", "fmt.Fprintf", "fmt.Fprint", "fmt.Sprint":
			// Errorf in the non-finite branch is fine; Sprint/Fprint of the float is not
			if cal.String() != "fmt.Sprintf" {
				other = cal.String()
			}
		}
	})
	switch {
	case other != "":
		c.viol(key, c.P.Pos(root.Instrs[0].Pos()), "the Float arm formats the number with "+other+" instead of Float.String: the text may lack a decimal point/exponent discipline (e.g. '1e+06.0') and is then not valid JSON or does not read back as a float")
	case strCall == nil:
		c.viol(key, c.P.Pos(root.Instrs[0].Pos()), "the Float arm does not write Float.String()")
	default:
		// the guard, whatever its form (a helper, math.IsNaN/IsInf, a comparison with MaxFloat64), is evaluated
		// for one representative of every class of float: the write must be reached exactly for the finite ones
		fv := strCall.Call.Args[0]
		reps := []float64{0, 1.5, -1.5, math.MaxFloat64, -math.MaxFloat64, math.Inf(1), math.Inf(-1), math.NaN()}
		bad := ""
		for _, f := range reps {
			s := &sinterp{env: map[ssa.Value]sval{fv: svFloat(f)}}
			s.markInput(fv)
			blk := root
			reached, ok := false, true
			for steps := 0; steps < 60; steps++ {
				if blk == strCall.Block() {
					reached = true
					break
				}
				next, ret, ok2 := s.step(blk, 0)
				if !ok2 {
					ok = false
					break
				}
				if ret != nil {
					break
				}
				blk = next
			}
			want := !math.IsInf(f, 0) && !math.IsNaN(f)
			if !ok {
				bad = fmt.Sprintf("the guard of the float write cannot be evaluated for %v", f)
				break
			}
			if reached != want {
				if reached {
					bad = fmt.Sprintf("the float %v reaches the write of Float.String(): the output is not JSON", f)
				} else {
					bad = fmt.Sprintf("the finite float %v is refused", f)
				}
				break
			}
		}
		if bad == "" {
			c.ok(key, c.P.Pos(strCall.Pos()), "Float.String() is written exactly for finite values (guard evaluated on 0, +-1.5, +-MaxFloat64, +-Inf, NaN)")
		} else {
			c.viol(key, c.P.Pos(strCall.Pos()), bad)
		}
	}
}

func methodIsVal(fn *ssa.Function, pkgRel, recv, name string) bool {
	return fn != nil && fn.Signature.Recv() != nil && fn.Name() == name && isNamed(fn.Signature.Recv().Type(), pkgRel, recv)
}

func ruleJ3(c *Ctx) {
	em := jsonEmit(c)
	if em == nil {
		return
	}
	for _, arm := range []string{"starlark.IterableMapping", "starlark.HasAttrs"} {
		key := "lib/json.encode: sorted members in the " + arm + " arm"
		root, _ := armRoot(em, arm)
		if root == nil {
			c.viol(key, c.P.Pos(em.Pos()), "the emitter has no arm for "+arm)
			continue
		}
		var sorts []ssa.Instruction
		var recs []ssa.Instruction
		scan := func(f *ssa.Function, restrict bool) {
			eachInstr(f, func(in ssa.Instruction) {
				call, ok := in.(*ssa.Call)
				if !ok || (restrict && !inArm(root, call.Block())) {
					return
				}
				if isSortCall(call.Call.StaticCallee()) {
					sorts = append(sorts, in)
				}
				// a helper that returns its result sorted (items, err := sortedItems(x)) is a sort at its call site
				if f == em && alwaysSorts(call.Call.StaticCallee()) {
					sorts = append(sorts, in)
				}
				if isRecursiveEmit(em, call) {
					recs = append(recs, in)
				}
			})
		}
		scan(em, true)
		for _, h := range armHelpers(em, root) {
			scan(h, false)
		}
		switch {
		case len(recs) == 0:
			c.viol(key, c.P.Pos(root.Instrs[0].Pos()), "no recursive emission of member values found in this arm")
		case len(sorts) == 0:
			c.viol(key, c.P.Pos(root.Instrs[0].Pos()), "members are emitted without sorting the keys: the output depends on insertion/attribute order and is not canonical")
		default:
			okAll := true
			for _, r := range recs {
				dom := false
				for _, s := range sorts {
					if s.Parent() == r.Parent() && instrDominates(s, r) {
						dom = true
					}
				}
				if !dom {
					okAll = false
				}
			}
			if okAll {
				c.ok(key, c.P.Pos(sorts[0].Pos()), fmt.Sprintf("%s dominates the member loop", calleeName(sorts[0].(ssa.CallInstruction))))
			} else {
				c.viol(key, c.P.Pos(sorts[0].Pos()), "a member value is emitted on a path that does not pass the sort")
			}
		}
	}
}

func ruleJ4(c *Ctx) {
	em := jsonEmit(c)
	if em == nil {
		return
	}
	order := map[string]int{}
	for _, t := range []string{"starlark.NoneType", "starlark.Bool", "starlark.Int", "starlark.Float", "starlark.String", "starlark.IterableMapping", "starlark.Iterable", "starlark.HasAttrs"} {
		root, pos := armRoot(em, t)
		key := "lib/json.encode: arm " + strings.TrimPrefix(t, "starlark.")
		if root == nil {
			c.viol(key, c.P.Pos(em.Pos()), "json.encode has no arm for "+t+": values of this kind cannot be encoded")
			continue
		}
		order[t] = pos
		c.ok(key, c.P.Pos(root.Instrs[0].Pos()), "present")
	}
	if a, b := order["starlark.IterableMapping"], order["starlark.Iterable"]; a > 0 && b > 0 {
		key := "lib/json.encode: mapping before iterable"
		if a < b {
			c.ok(key, c.P.Pos(em.Pos()), "IterableMapping is tested first")
		} else {
			c.viol(key, c.P.Pos(em.Pos()), "Iterable is tested before IterableMapping: a dict would be encoded as an array of its keys")
		}
	}
}

// alwaysSorts: g is a lib/json function every successful return of which is dominated by a sort call in g.
func alwaysSorts(g *ssa.Function) bool {
	if g == nil || g.Blocks == nil || relPkg(fnPkgPath(g)) != "lib/json" {
		return false
	}
	var sorts []ssa.Instruction
	eachInstr(g, func(in ssa.Instruction) {
		if call, ok := in.(*ssa.Call); ok && in.Parent() == g && isSortCall(call.Call.StaticCallee()) {
			sorts = append(sorts, in)
		}
	})
	if len(sorts) == 0 {
		return false
	}
	ok := true
	any := false
	eachInstr(g, func(in ssa.Instruction) {
		ret, isRet := in.(*ssa.Return)
		if !isRet || in.Parent() != g {
			return
		}
		if n := len(ret.Results); n > 0 && ret.Results[n-1].Type().String() == "error" && !isNilConst(ret.Results[n-1]) {
			return // an error return
		}
		any = true
		dom := false
		for _, s := range sorts {
			if instrDominates(s, ret) {
				dom = true
			}
		}
		if !dom {
			ok = false
		}
	})
	return ok && any
}
