package main

import (
	"fmt"
	"go/ast"
	"go/token"
	"go/types"
	"sort"
	"strings"

	"golang.org/x/tools/go/ssa"
)

func init() {
	register("R2", "kind/constructor agreement: in toProto every value returned in the arm for protobuf kind K is built by the protoreflect.ValueOf* constructor of K's Go representation (a mismatch makes the protobuf runtime panic in Set), toStarlark1 reads it with the matching accessor, and both cover all 18 kinds", 30, ruleR2)
	register("R3", "proto storage mutators are guarded: every Set/Clear/Mutable/Append/Truncate on a message, list or map handle is on a handle created in the same function, or is dominated by the frozen test (checkMutable or *w.frozen) of the wrapper the handle was read from, or sits in setField/setFields whose callers all satisfy this", 8, ruleR3)
	register("R1", "proto storage never crosses frozen-groups: a message/list/map handle read from an existing wrapper (or delivered by Range/Get on one) is never re-wrapped with ValueOfMessage/ValueOfList/ValueOfMap or stored into another message, so two wrappers with different frozen flags never share storage", 2, ruleR1)
}

const protoPkg = "lib/proto"

var kindCtor = map[string]string{
	"BoolKind": "ValueOfBool", "Fixed32Kind": "ValueOfUint32", "Uint32Kind": "ValueOfUint32",
	"Int32Kind": "ValueOfInt32", "Sfixed32Kind": "ValueOfInt32", "Sint32Kind": "ValueOfInt32",
	"Uint64Kind": "ValueOfUint64", "Fixed64Kind": "ValueOfUint64",
	"Int64Kind": "ValueOfInt64", "Sfixed64Kind": "ValueOfInt64", "Sint64Kind": "ValueOfInt64",
	"StringKind": "ValueOfString", "BytesKind": "ValueOfBytes",
	"DoubleKind": "ValueOfFloat64", "FloatKind": "ValueOfFloat32",
	"GroupKind": "ValueOfMessage", "MessageKind": "ValueOfMessage", "EnumKind": "ValueOfEnum",
}

var kindAccessor = map[string]string{
	"BoolKind": "Bool", "Fixed32Kind": "Uint", "Uint32Kind": "Uint", "Uint64Kind": "Uint", "Fixed64Kind": "Uint",
	"Int32Kind": "Int", "Sfixed32Kind": "Int", "Sint32Kind": "Int", "Int64Kind": "Int", "Sfixed64Kind": "Int", "Sint64Kind": "Int",
	"StringKind": "String", "BytesKind": "Bytes", "DoubleKind": "Float", "FloatKind": "Float",
	"GroupKind": "Message", "MessageKind": "Message", "EnumKind": "Enum",
}

// kindArms returns, per kind named in the case lists of the function's
// `switch x.Kind()`, the selector names called in that arm matching filter.
// helperBodies: package-level functions of lib/proto by name (set by ruleR2).
var helperBodies map[string]*ast.BlockStmt

func kindArms(fd *ast.FuncDecl, filter func(call *ast.CallExpr) (string, bool)) (map[string][]string, map[string]token.Pos) {
	out := map[string][]string{}
	pos := map[string]token.Pos{}
	ast.Inspect(fd.Body, func(n ast.Node) bool {
		sw, ok := n.(*ast.SwitchStmt)
		if !ok || sw.Tag == nil {
			return true
		}
		call, ok := sw.Tag.(*ast.CallExpr)
		if !ok {
			return true
		}
		sel, ok := call.Fun.(*ast.SelectorExpr)
		if !ok || sel.Sel.Name != "Kind" {
			return true
		}
		for _, cl := range sw.Body.List {
			cc := cl.(*ast.CaseClause)
			var names []string
			ast.Inspect(cc, func(m ast.Node) bool {
				if c2, ok := m.(*ast.CallExpr); ok {
					if nm, ok := filter(c2); ok {
						names = append(names, nm)
					}
					// per-kind helper: look one level into package-local callees
					if id, ok := c2.Fun.(*ast.Ident); ok && helperBodies != nil {
						if hb, ok := helperBodies[id.Name]; ok {
							ast.Inspect(hb, func(m2 ast.Node) bool {
								if c3, ok := m2.(*ast.CallExpr); ok {
									if nm, ok := filter(c3); ok {
										names = append(names, nm)
									}
								}
								return true
							})
						}
					}
				}
				return true
			})
			for _, e := range cc.List {
				if s2, ok := e.(*ast.SelectorExpr); ok && strings.HasSuffix(s2.Sel.Name, "Kind") {
					out[s2.Sel.Name] = names
					pos[s2.Sel.Name] = cc.Pos()
				}
			}
		}
		return false
	})
	return out, pos
}

func ruleR2(c *Ctx) {
	tp, ppk := c.P.FuncDecl(protoPkg, "toProto")
	ts, _ := c.P.FuncDecl(protoPkg, "toStarlark1")
	helperBodies = map[string]*ast.BlockStmt{}
	if ppk != nil {
		for _, f := range ppk.Syntax {
			for _, d := range f.Decls {
				if fd, ok := d.(*ast.FuncDecl); ok && fd.Recv == nil && fd.Body != nil && fd.Name.Name != "toProto" && fd.Name.Name != "toStarlark1" {
					helperBodies[fd.Name.Name] = fd.Body
				}
			}
		}
	}
	if tp == nil || ts == nil {
		c.anchorFail("lib/proto.toProto / toStarlark1 not found")
		return
	}
	ctors, cpos := kindArms(tp, func(call *ast.CallExpr) (string, bool) {
		if sel, ok := call.Fun.(*ast.SelectorExpr); ok && strings.HasPrefix(sel.Sel.Name, "ValueOf") {
			if pk, ok := sel.X.(*ast.Ident); ok && pk.Name == "protoreflect" {
				return sel.Sel.Name, true
			}
		}
		return "", false
	})
	accs, apos := kindArms(ts, func(call *ast.CallExpr) (string, bool) {
		if sel, ok := call.Fun.(*ast.SelectorExpr); ok && len(call.Args) == 0 {
			if id, ok := sel.X.(*ast.Ident); ok {
				if t := ppk.TypesInfo.TypeOf(id); t != nil {
					if pp, n := namedOf(t); strings.HasSuffix(pp, "protoreflect") && n == "Value" {
						return sel.Sel.Name, true
					}
				}
			}
		}
		return "", false
	})
	var kinds []string
	for k := range kindCtor {
		kinds = append(kinds, k)
	}
	sort.Strings(kinds)
	for _, k := range kinds {
		key := "toProto arm " + k
		got, ok := ctors[k]
		switch {
		case !ok:
			c.viol(key, c.P.Pos(tp.Pos()), "toProto has no arm for protoreflect."+k+": assigning to a field of this kind always fails")
		default:
			bad := ""
			for _, g := range got {
				if g != kindCtor[k] {
					bad = g
				}
			}
			if bad != "" {
				c.viol(key, c.P.Pos(cpos[k]), fmt.Sprintf("the arm for %s builds a value with protoreflect.%s but a field of this kind holds %s values: protoreflect.Message.Set panics in the protobuf runtime", k, bad, strings.TrimPrefix(kindCtor[k], "ValueOf")))
			} else if len(got) == 0 {
				c.viol(key, c.P.Pos(cpos[k]), "the arm for "+k+" constructs no protoreflect value")
			} else {
				c.ok(key, c.P.Pos(cpos[k]), "constructs with "+kindCtor[k])
			}
		}
		key = "toStarlark1 arm " + k
		ga, ok := accs[k]
		switch {
		case !ok:
			c.viol(key, c.P.Pos(ts.Pos()), "toStarlark1 has no arm for protoreflect."+k+": reading a field of this kind panics")
		default:
			found := false
			for _, g := range ga {
				if g == kindAccessor[k] {
					found = true
				}
			}
			if found {
				c.ok(key, c.P.Pos(apos[k]), "reads with ."+kindAccessor[k]+"()")
			} else {
				c.viol(key, c.P.Pos(apos[k]), fmt.Sprintf("the arm for %s reads the value with %v instead of .%s(): protoreflect.Value panics on a mismatched accessor", k, ga, kindAccessor[k]))
			}
		}
	}
}

// ---------- handles ----------

var handleDerivers = map[string]bool{"Mutable": true, "List": true, "Map": true, "Message": true, "Get": true, "NewField": true, "NewElement": true, "NewValue": true, "Interface": true, "ProtoReflect": true}

// handleTrace follows a storage handle back to where it came from.
func handleTrace(v ssa.Value) *trace {
	for i := 0; i < 12; i++ {
		switch x := v.(type) {
		case *ssa.Call:
			cc := x.Common()
			if cc.IsInvoke() && handleDerivers[cc.Method.Name()] {
				v = cc.Value
				continue
			}
			if cal := cc.StaticCallee(); cal != nil && handleDerivers[cal.Name()] && cal.Signature.Recv() != nil && len(cc.Args) > 0 {
				v = cc.Args[0]
				continue
			}
		case *ssa.MakeInterface:
			v = x.X
			continue
		case *ssa.ChangeInterface:
			v = x.X
			continue
		case *ssa.TypeAssert:
			v = x.X
			continue
		case *ssa.Extract:
			v = x.Tuple
			continue
		}
		break
	}
	return traceValue(v)
}

func isProtoWrapper(q string) bool {
	return q == "lib/proto.Message" || q == "lib/proto.RepeatedField" || q == "lib/proto.MapField"
}

// frozenPtrGuard: block dominated by the false edge of `*w.frozen` for wrapper base w.
func frozenPtrGuard(fn *ssa.Function, b *ssa.BasicBlock, roots []base) bool {
	for _, pf := range pathFacts(b) {
		cond, neg := pf.Cond, false
		if pf.Truth != neg {
			continue // frozen is true on this path
		}
		// predicate helper: m.isFrozen() whose body returns *m.frozen
		if call, ok := cond.(*ssa.Call); ok {
			if cal := call.Call.StaticCallee(); cal != nil && cal.Blocks != nil && cal.Signature.Recv() != nil && len(call.Call.Args) == 1 && isProtoWrapper(qualType(cal.Signature.Recv().Type())) {
				returnsFlag := false
				eachInstr(cal, func(in ssa.Instruction) {
					if r, ok := in.(*ssa.Return); ok && len(r.Results) == 1 {
						if ld, ok := r.Results[0].(*ssa.UnOp); ok && ld.Op == token.MUL {
							tr := traceAddr(ld.X)
							if len(tr.fields) > 0 && tr.fields[0].Name() == "frozen" && len(tr.bases) == 1 && tr.bases[0].v == cal.Params[0] {
								returnsFlag = true
							}
						}
					}
				})
				if returnsFlag && sameBases(roots, resolveBases(fn, traceAddr(call.Call.Args[0]).bases)) {
					return true
				}
			}
			continue
		}
		ld, ok := cond.(*ssa.UnOp)
		if !ok || ld.Op != token.MUL {
			continue
		}
		tr := traceAddr(ld.X)
		if len(tr.fields) == 0 || tr.fields[0].Name() != "frozen" {
			continue
		}
		if sameBases(roots, resolveBases(fn, tr.bases)) {
			return true
		}
	}
	return false
}

var r3Helpers = map[string]bool{"lib/proto.setField": true, "lib/proto.setFields": true}

func isMutatorName(n string) bool {
	switch n {
	case "Set", "Clear", "Mutable", "Append", "Truncate", "SetUnknown":
		return true
	}
	return false
}

func isProtoreflectIface(t types.Type) bool {
	pp, n := namedOf(t)
	return strings.HasSuffix(pp, "protobuf/reflect/protoreflect") && (n == "Message" || n == "List" || n == "Map")
}

func ruleR3(c *Ctx) {
	fc := computeReturnsFresh(c.P)
	newMsg := c.P.Func(protoPkg, "newMessage")
	var checkSite func(fn *ssa.Function, at ssa.Instruction, handle ssa.Value, depth int) (string, bool)
	checkSite = func(fn *ssa.Function, at ssa.Instruction, handle ssa.Value, depth int) (string, bool) {
		tr := handleTrace(handle)
		bases := resolveBases(fn, tr.bases)
		if len(bases) == 0 {
			return "cannot trace the handle", false
		}
		reasons := map[string]bool{}
		for _, b := range bases {
			one := []base{b}
			switch x := b.v.(type) {
			case *ssa.Call:
				if cal := x.Call.StaticCallee(); cal != nil && (cal == newMsg || fc.returnsFresh[cal]) {
					reasons["handle created in this function"] = true
					continue
				}
			case *ssa.Alloc:
				if !b.throughPtr || wrapperFreshWithNewStorage(x, newMsg, fc) {
					reasons["wrapper and storage created in this function"] = true
					continue
				}
			case *ssa.Parameter:
				if isProtoreflectIface(x.Type()) {
					// any unexported function taking a raw storage handle is a private helper:
					// its stores are justified at its call sites (checked recursively below).
					// The parameter may belong to an enclosing function (captured by a closure).
					fn := x.Parent()
					if fn.Object() != nil && fn.Object().Exported() {
						return "handle is a parameter of an exported function: its callers cannot be enumerated", false
					}
					if depth > 3 {
						return "helper call chain too deep", false
					}
					// all callers
					idx := -1
					for i, p := range fn.Params {
						if p == x {
							idx = i
						}
					}
					ncall := 0
					for _, g := range c.P.Funcs {
						var bad string
						eachInstr(g, func(in ssa.Instruction) {
							ci, ok := in.(ssa.CallInstruction)
							if !ok || ci.Common().StaticCallee() != fn || bad != "" {
								return
							}
							ncall++
							if why, ok := checkSite(g, in, ci.Common().Args[idx], depth+1); !ok {
								bad = fmt.Sprintf("caller %s at %s: %s", fnName(g), c.P.Pos(in.Pos()), why)
							}
						})
						if bad != "" {
							return bad, false
						}
					}
					if ncall == 0 {
						return "helper has no callers", false
					}
					reasons[fmt.Sprintf("helper: all %d call sites pass a fresh or guarded handle", ncall)] = true
					continue
				}
			}
			// handle read from wrapper b: needs a guard on the same wrapper
			if g := findCheckMutableGuard(fn, at, one); g != "" {
				reasons[g] = true
				continue
			}
			if frozenPtrGuard(fn, at.Block(), one) {
				reasons["dominated by the !*frozen test of the same wrapper"] = true
				continue
			}
			return "handle comes from " + describeBases(one) + " with no dominating frozen test of that wrapper", false
		}
		var rs []string
		for r := range reasons {
			rs = append(rs, r)
		}
		sort.Strings(rs)
		return strings.Join(rs, "; "), true
	}
	n := 0
	for _, fn := range c.P.Funcs {
		if fnPkgPath(fn) != modPath+"/"+protoPkg {
			continue
		}
		eachInstr(fn, func(in ssa.Instruction) {
			call, ok := in.(*ssa.Call)
			if !ok || !call.Call.IsInvoke() || !isMutatorName(call.Call.Method.Name()) || !isProtoreflectIface(call.Call.Value.Type()) {
				return
			}
			n++
			key := fmt.Sprintf("%s: %s.%s", fnName(fn), typeShort(call.Call.Value.Type()), call.Call.Method.Name())
			pos := c.P.Pos(call.Pos())
			if why, ok := checkSite(fn, in, call.Call.Value, 0); ok {
				c.ok(key, pos, why)
			} else {
				c.viol(key, pos, "protobuf storage is mutated without establishing that its wrapper is not frozen: "+why)
			}
		})
	}
	if n < 8 {
		c.anchorFail("only %d storage mutator calls found in lib/proto", n)
	}
}

// wrapperFreshWithNewStorage: the Alloc is a wrapper literal whose storage
// field was initialised from newMessage (or another fresh source).
func wrapperFreshWithNewStorage(a *ssa.Alloc, newMsg *ssa.Function, fc *freshCtx) bool {
	okStore := false
	for _, r := range *a.Referrers() {
		fa, ok := r.(*ssa.FieldAddr)
		if !ok {
			continue
		}
		_, f := ownerField(fa)
		if f != "msg" && f != "list" && f != "mp" {
			continue
		}
		for _, r2 := range *fa.Referrers() {
			if st, ok := r2.(*ssa.Store); ok && st.Addr == fa {
				tr := handleTrace(st.Val)
				fresh := len(tr.bases) > 0
				for _, b := range tr.bases {
					call, ok := b.v.(*ssa.Call)
					if !ok || call.Call.StaticCallee() == nil || (call.Call.StaticCallee() != newMsg && !fc.returnsFresh[call.Call.StaticCallee()]) {
						fresh = false
					}
				}
				okStore = fresh
			}
		}
	}
	return okStore
}

// ---------- R1 ----------

func ruleR1(c *Ctx) {
	fc := computeReturnsFresh(c.P)
	newMsg := c.P.Func(protoPkg, "newMessage")
	n := 0
	for _, fn := range c.P.Funcs {
		if fnPkgPath(fn) != modPath+"/"+protoPkg {
			continue
		}
		eachInstr(fn, func(in ssa.Instruction) {
			call, ok := in.(*ssa.Call)
			if !ok {
				return
			}
			// (a) re-wrapping an existing handle
			if cal := call.Call.StaticCallee(); cal != nil && strings.HasSuffix(fnPkgPath(cal), "protoreflect") {
				switch cal.Name() {
				case "ValueOfMessage", "ValueOfList", "ValueOfMap":
					n++
					key := fmt.Sprintf("lib/proto: %s of a handle", cal.Name())
					pos := c.P.Pos(call.Pos())
					tr := handleTrace(call.Call.Args[0])
					aliased := ""
					for i, f := range tr.fields {
						if (f.Name() == "msg" || f.Name() == "list" || f.Name() == "mp") && isProtoWrapper(qualType(tr.owners[i])) {
							// wrapper fresh?
							fresh := true
							for _, b := range resolveBases(fn, tr.bases) {
								a, isAlloc := b.v.(*ssa.Alloc)
								if !isAlloc || !wrapperFreshWithNewStorage(a, newMsg, fc) {
									fresh = false
								}
							}
							if !fresh {
								aliased = qualType(tr.owners[i]) + "." + f.Name()
							}
						}
					}
					if aliased == "" {
						c.ok(key, pos, "wraps storage created in this function")
					} else {
						c.viol(key, pos, "the storage handle of an existing wrapper ("+aliased+") is re-wrapped as a protoreflect value: whatever it is assigned into shares storage with the source message under a different frozen flag, so a frozen message can be changed through the copy")
					}
				}
			}
			// (b) storing a value delivered by Range/Get on one handle into another message
			if call.Call.IsInvoke() && (call.Call.Method.Name() == "Set" || call.Call.Method.Name() == "Append") && isProtoreflectIface(call.Call.Value.Type()) {
				for _, a := range call.Call.Args {
					p, isParam := a.(*ssa.Parameter)
					if !isParam || fn.Parent() == nil {
						continue
					}
					pp, pn := namedOf(p.Type())
					if !strings.HasSuffix(pp, "protoreflect") || pn != "Value" {
						continue
					}
					n++
					key := fmt.Sprintf("lib/proto: %s of a Range value into another message", call.Call.Method.Name())
					c.viol(key, c.P.Pos(call.Pos()), "a field value handed out by Range on one message is stored into another message without copying: sub-messages, lists and maps are shared between the two (a shallow copy of a frozen message stays mutable through the copy)")
				}
			}
		})
	}
	if n == 0 {
		c.anchorFail("no ValueOfMessage/List/Map or cross-message Set found in lib/proto")
	}
}

// ---------- R4 ----------

func init() {
	register("R4", "wrappers of one message share one freeze flag: every *bool given to a lib/proto wrapper (stored into a `frozen` field or passed to toStarlark/toStarlark1) is the `frozen` pointer of an existing wrapper, a forwarded parameter, or a new cell holding a constant - never a local snapshot initialised from another flag's current value, which would stay false when the message is frozen later", 8, ruleR4)
	claim("C20", "R4")
}

func ruleR4(c *Ctx) {
	n := 0
	judge := func(fn *ssa.Function, v ssa.Value, key, pos string) {
		n++
		var why string
		seen := map[ssa.Value]bool{}
		var walk func(x ssa.Value) bool
		walk = func(x ssa.Value) bool {
			if seen[x] {
				return true
			}
			seen[x] = true
			switch y := x.(type) {
			case *ssa.Parameter:
				return true
			case *ssa.FreeVar:
				// a captured variable: judge the cell bound at the closure's creation
				for _, mc := range closureSites(y.Parent()) {
					if b := freeVarBinding(mc, y); b != nil && !walk(b) {
						return false
					}
				}
				return true
			case *ssa.UnOp:
				if fa, ok := y.X.(*ssa.FieldAddr); ok && y.Op == token.MUL {
					if stt, _ := deref(fa.X.Type()).Underlying().(*types.Struct); stt != nil && stt.Field(fa.Field).Name() == "frozen" {
						return true
					}
				}
				why = "loaded from something that is not a wrapper's frozen field"
				return false
			case *ssa.Alloc:
				if y.Referrers() != nil {
					for _, r := range *y.Referrers() {
						if st, ok := r.(*ssa.Store); ok && st.Addr == y {
							if _, isConst := st.Val.(*ssa.Const); !isConst {
								why = fmt.Sprintf("a local flag initialised at %s from a value computed at run time (a snapshot of another flag)", c.P.Pos(st.Pos()))
								return false
							}
						}
					}
				}
				return true
			case *ssa.Phi:
				for _, e := range y.Edges {
					if !walk(e) {
						return false
					}
				}
				return true
			case *ssa.Const:
				return true // nil
			}
			why = fmt.Sprintf("unrecognised origin (%T)", x)
			return false
		}
		if walk(v) {
			c.ok(key, pos, "shared flag, forwarded parameter or constant-initialised cell")
		} else {
			c.viol(key, pos, "the wrapper does not share the message's freeze flag: it gets "+why+"; freezing the message later does not freeze this wrapper, and writes through it change frozen content")
		}
	}
	for _, fn := range c.P.Funcs {
		if fnPkgPath(fn) != modPath+"/lib/proto" {
			continue
		}
		fn := fn
		eachInstr(fn, func(in ssa.Instruction) {
			switch x := in.(type) {
			case *ssa.Store:
				fa, ok := x.Addr.(*ssa.FieldAddr)
				if !ok {
					return
				}
				stt, _ := deref(fa.X.Type()).Underlying().(*types.Struct)
				if stt == nil || stt.Field(fa.Field).Name() != "frozen" {
					return
				}
				if _, isPtr := stt.Field(fa.Field).Type().(*types.Pointer); !isPtr {
					return
				}
				judge(fn, x.Val, fmt.Sprintf("%s: %s.frozen =", fnName(fn), qualType(fa.X.Type())), c.P.Pos(x.Pos()))
			case ssa.CallInstruction:
				cal := x.Common().StaticCallee()
				if cal == nil || fnPkgPath(cal) != modPath+"/lib/proto" {
					return
				}
				for i, a := range x.Common().Args {
					p, ok := a.Type().(*types.Pointer)
					if !ok {
						continue
					}
					if b, ok := p.Elem().Underlying().(*types.Basic); !ok || b.Kind() != types.Bool {
						continue
					}
					_ = i
					judge(fn, a, fmt.Sprintf("%s: flag passed to %s", fnName(fn), cal.Name()), c.P.Pos(x.Pos()))
				}
			}
		})
	}
	if n < 8 {
		c.anchorFail("only %d freeze-flag hand-overs found in lib/proto", n)
	}
}

// ---------- R5 ----------

func init() {
	register("R5", "integers are read back unconverted: in lib/proto every integer obtained from a protoreflect.Value accessor (Int, Uint) reaches the Starlark constructor without a Go conversion that changes signedness or narrows it (uint64 -> int64 turns fixed64/uint64 values above 2^63 negative)", 2, ruleR5)
	claim("C20", "R5")
}

func ruleR5(c *Ctx) {
	n := 0
	for _, fn := range c.P.Funcs {
		if fnPkgPath(fn) != modPath+"/lib/proto" {
			continue
		}
		fn := fn
		eachInstr(fn, func(in ssa.Instruction) {
			call, ok := in.(*ssa.Call)
			if !ok {
				return
			}
			cal := call.Call.StaticCallee()
			if cal == nil || cal.Signature.Recv() == nil || (cal.Name() != "Int" && cal.Name() != "Uint") {
				return
			}
			if pp, nn := namedOf(cal.Signature.Recv().Type()); nn != "Value" || !strings.HasSuffix(pp, "protoreflect") {
				return
			}
			n++
			key := fmt.Sprintf("%s: Value.%s()", fnName(fn), cal.Name())
			pos := c.P.Pos(call.Pos())
			bad := ""
			if call.Referrers() != nil {
				for _, r := range *call.Referrers() {
					cv, ok := r.(*ssa.Convert)
					if !ok {
						continue
					}
					src, _ := cv.X.Type().Underlying().(*types.Basic)
					dst, _ := cv.Type().Underlying().(*types.Basic)
					if src == nil || dst == nil || dst.Info()&types.IsInteger == 0 {
						continue
					}
					srcU, dstU := src.Info()&types.IsUnsigned != 0, dst.Info()&types.IsUnsigned != 0
					if srcU != dstU {
						bad = fmt.Sprintf("converted %s -> %s at %s (signedness changes)", src.Name(), dst.Name(), c.P.Pos(cv.Pos()))
					} else if c.P.sizes().Sizeof(dst) < c.P.sizes().Sizeof(src) {
						// narrowing is legitimate only for 32-bit kinds; it must then be an enum number or be range-checked: flagged only when the result becomes a number
						if cv.Referrers() != nil {
							for _, r2 := range *cv.Referrers() {
								if ci, ok := r2.(ssa.CallInstruction); ok && ci.Common().StaticCallee() != nil && strings.HasPrefix(ci.Common().StaticCallee().Name(), "Make") {
									bad = fmt.Sprintf("narrowed %s -> %s at %s before becoming a Starlark int", src.Name(), dst.Name(), c.P.Pos(cv.Pos()))
								}
							}
						}
					}
				}
			}
			if bad != "" {
				c.viol(key, pos, "the field's integer value is "+bad+": values outside the target type's range read back as different numbers")
			} else {
				c.ok(key, pos, "reaches its uses without a lossy conversion")
			}
		})
	}
	if n < 2 {
		c.anchorFail("only %d protoreflect integer accessors found in lib/proto", n)
	}
}

// ---------- R6 ----------

func init() {
	register("R6", "map keys and values are converted with their own descriptors: in lib/proto a protoreflect.MapKey is converted to Starlark with the field's MapKey() descriptor and a map value with MapValue(), and a Starlark key converted with MapKey() is the one used as the protobuf map key (.MapKey()), never the other way round", 6, ruleR6)
	claim("C20", "R6")
}

func ruleR6(c *Ctx) {
	n := 0
	descKind := func(v ssa.Value) string {
		call, ok := v.(*ssa.Call)
		if !ok || !call.Call.IsInvoke() {
			return ""
		}
		switch call.Call.Method.Name() {
		case "MapKey", "MapValue":
			if strings.HasSuffix(qualType(call.Call.Value.Type()), "FieldDescriptor") {
				return call.Call.Method.Name()
			}
		}
		return ""
	}
	isMapKeyValue := func(v ssa.Value) bool {
		// mk.Value() where mk is a protoreflect.MapKey
		call, ok := v.(*ssa.Call)
		if !ok {
			return false
		}
		if cal := call.Call.StaticCallee(); cal != nil && cal.Name() == "Value" && cal.Signature.Recv() != nil {
			return strings.HasSuffix(qualType(cal.Signature.Recv().Type()), "protoreflect.MapKey")
		}
		return false
	}
	for _, fn := range c.P.Funcs {
		if fnPkgPath(fn) != modPath+"/lib/proto" {
			continue
		}
		fn := fn
		eachInstr(fn, func(in ssa.Instruction) {
			call, ok := in.(*ssa.Call)
			if !ok {
				return
			}
			cal := call.Call.StaticCallee()
			if cal == nil || fnPkgPath(cal) != modPath+"/lib/proto" || len(call.Call.Args) < 2 {
				return
			}
			dk := descKind(call.Call.Args[0])
			if dk == "" {
				return
			}
			pos := c.P.Pos(call.Pos())
			switch cal.Name() {
			case "toStarlark", "toStarlark1":
				n++
				key := fmt.Sprintf("%s: %s(%s(), ...)", fnName(fn), cal.Name(), dk)
				fromKey := isMapKeyValue(call.Call.Args[1])
				switch {
				case dk == "MapKey" && !fromKey:
					c.viol(key, pos, "a value that is not a map key is converted with the key descriptor: it is read back with the wrong type (or the conversion panics in the host)")
				case dk == "MapValue" && fromKey:
					c.viol(key, pos, "a protoreflect.MapKey is converted with the VALUE descriptor: keys read back with the value's type, and maps whose key and value kinds differ panic in the host")
				default:
					c.ok(key, pos, "descriptor matches the role of the converted value")
				}
			case "toProto":
				n++
				key := fmt.Sprintf("%s: toProto(%s(), ...)", fnName(fn), dk)
				// how is the (first) result used: as .MapKey() or not
				usedAsKey, usedOther := false, false
				var results []ssa.Value
				if call.Referrers() != nil {
					for _, r := range *call.Referrers() {
						if ex, ok := r.(*ssa.Extract); ok && ex.Index == 0 {
							results = append(results, ex)
						}
					}
				}
				for _, res := range results {
					if res.Referrers() == nil {
						continue
					}
					for _, r := range *res.Referrers() {
						ci, ok := r.(ssa.CallInstruction)
						if !ok {
							continue
						}
						if cc := ci.Common().StaticCallee(); cc != nil && cc.Name() == "MapKey" && len(ci.Common().Args) > 0 && ci.Common().Args[0] == res {
							usedAsKey = true
						} else {
							usedOther = true
						}
					}
				}
				switch {
				case dk == "MapKey" && usedOther && !usedAsKey:
					c.viol(key, pos, "a Starlark value converted with the key descriptor is stored as a map VALUE")
				case dk == "MapValue" && usedAsKey:
					c.viol(key, pos, "a Starlark value converted with the value descriptor is used as the protobuf map KEY")
				default:
					c.ok(key, pos, "converted value is used in the role of its descriptor")
				}
			}
		})
	}
	if n < 6 {
		c.anchorFail("only %d map key/value conversions found in lib/proto", n)
	}
}
